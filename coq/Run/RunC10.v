(* Run/RunC10.v — case interpreters for C10: access traces of the drivers (run_trace) and, step by step, of
   the rescanning kernels and of vrank (run_ksteps, run_ksteps2, run_vrank_segs) at the float carrier. *)
From Coq Require Import ZArith List Floats.
From Tevec Require Import Base.Prelude Base.Num Base.F64 Model.Driver Model.Features Model.Cmp Model.Norm
     Model.Binary Model.Reg Model.Kernels Model.SortCmp Model.Rank Model.KernelsMap Model.KernelSteps Model.KernelsMapFast
     Run.Codec.
Import ListNotations.

Definition zn := Z.of_nat.
Definition enc_acc (a : acc) : list Z :=
  (match a with
   | AUget v i => c_int (1000000 * (1 + zn v) + zn i)
   | AUslice v a b => c_int (10000000 * (1 + zn v) + 1000 * zn a + zn b)
   | ASlice v a b => c_int (50000000 + 10000000 * (1 + zn v) + 1000 * zn a + zn b)
   | AUset i => c_int (- zn i - 1)
   end)%Z.

(* kind: 0 apply_to, 1 apply2_to, 2 idx_to (callback reads nothing), 3 idx2_to, 4 custom_to,
         5 custom_iter (+ collected), 6 custom via write, 7 custom2 (+collected), 8 custom2 via write,
         9 iterator body, collected (no unchecked access, no uset)                                  *)
Definition run_trace (kind : Z) (w len len2 : nat) : list Z :=
  let guard (t : list acc) :=
      if andb (w =? 0)%nat (negb (len =? 0)%nat) then c_panic AssertFail else flat_map enc_acc t in
  let guard2 (t : list acc) :=
      if (len2 <? len)%nat then c_panic AssertFail else guard t in
  (match kind with
   | 0 => guard (trace_apply_to w len)
   | 1 => guard2 (trace_apply2_to w len)
   | 2 => guard (trace_idx_to (fun _ _ => []) w len)
   | 3 => guard2 (trace_idx2_to (fun _ _ => []) w len)
   | 4 => guard (trace_custom_to w len)
   | 5 => if (w =? 0)%nat then c_panic Underflow else flat_map enc_acc (trace_custom_iter w len)
   | 6 => if (w =? 0)%nat then c_panic Underflow
          else flat_map enc_acc (trace_custom_iter w len ++ trace_write len)
   | 7 => if (len2 <? len)%nat then c_panic AssertFail else if (w =? 0)%nat then c_panic Underflow
          else flat_map enc_acc (trace_custom2 w len)
   | 8 => if (len2 <? len)%nat then c_panic AssertFail else if (w =? 0)%nat then c_panic Underflow
          else flat_map enc_acc (trace_custom2 w len ++ trace_write len)
   | _ => guard []
   end)%Z.

(* =====================================================================================================
   Kernel traces, cell by cell.  One step = one callback invocation (Model/KernelSteps.v):
       [number of driver reads] driver reads (in order)  callback reads (SORTED multiset)  write  [panic]  SEP
   then, after the last step, the status of the erased model run: the number of outputs, or the panic.
   An access is numbered by `acc_num` (= enc_acc above).  Proofs/KernelSteps.v: the steps concatenate to
   `kernel_trace`, step i is position i, the sorted numbers are a permutation of the callback's reads.   *)
Definition enc_step (k : kstep) : list Z :=
  c_int (zn (length (ks_drv k))) ++ flat_map enc_acc (ks_drv k)
  ++ flat_map c_int (read_nums (ks_cb k))
  ++ flat_map enc_acc (ks_wr k)
  ++ (match ks_panic k with Some pk => c_panic pk | None => [] end)
  ++ c_sep.
Definition enc_status {O} (o : outcome O) : list Z :=
  match o with
  | Done l => c_nat (length l)
  | Uninit _ => c_uninit
  | Panicked k => c_panic k
  end.

Definition f64_max : float := fl 9007199254740991 971.
Definition f64_min : float := fl (-9007199254740991) 971.

(* fn: 0 ts_vmin, 1 ts_vmax, 2 ts_vargmin, 3 ts_vargmax, 4 ts_vrank (pct, rev), 5 ts_vminmaxnorm;
   body = true: two-phase index body (caller buffer), false: iterator body (returned)                *)
Definition run_ksteps (fn : Z) (body : bool) (w : nat) (mp : option nat) (pct rev : bool) (xs : list float)
  : list Z :=
  (match fn with
   | 0 => flat_map enc_step (steps_ts_vext (DT := IsNoneF64) sort_cmp body w mp xs)
            ++ enc_status (ts_vmin (DT := IsNoneF64) body w mp xs)
   | 1 => flat_map enc_step (steps_ts_vext (DT := IsNoneF64) sort_cmp_rev body w mp xs)
            ++ enc_status (ts_vmax (DT := IsNoneF64) body w mp xs)
   | 2 => flat_map enc_step (steps_ts_varg (DT := IsNoneF64) sort_cmp body w mp xs)
            ++ enc_status (ts_vargmin (DT := IsNoneF64) body w mp xs)
   | 3 => flat_map enc_step (steps_ts_varg (DT := IsNoneF64) sort_cmp_rev body w mp xs)
            ++ enc_status (ts_vargmax (DT := IsNoneF64) body w mp xs)
   | 4 => flat_map enc_step (steps_ts_vrank (DT := IsNoneF64) (B := float) body w mp pct rev xs)
            ++ enc_status (ts_vrank (DT := IsNoneF64) (B := float) body w mp pct rev xs)
   | _ => flat_map enc_step (steps_ts_vminmaxnorm (DT := IsNoneF64) f64_min f64_max body w mp xs)
            ++ enc_status (ts_vminmaxnorm (DT := IsNoneF64) f64_min f64_max body w mp xs)
   end)%Z.

(* fn: 0 ts_vregx_resid_mean, 1 .._std, 2 .._skew; the second series may be shorter or longer (or empty:
   window 0 on a non-empty first series is the window assertion on both bodies, Model/Driver.v follows
   view.rs there since X12 - Proofs/KernelSteps.v : resid_window0_rejected).                             *)
Definition run_ksteps2 (fn : Z) (body : bool) (w : nat) (mp : option nat) (xs ys : list float) : list Z :=
  let K := (match fn with 0 => RMean | 1 => RStd | _ => RSkew end)%Z in
  flat_map enc_step (steps_ts_vregx_resid (A := float) (D1 := IsNoneF64) (D2 := IsNoneF64) K body w mp xs ys)
  ++ enc_status (ts_vregx_resid (A := float) (D1 := IsNoneF64) (D2 := IsNoneF64) K body w mp xs ys).

(* vrank: the observable trace cut at its writes.  A segment:
       reads of the series since the previous write, as the SORTED multiset of the class representatives
       (first index holding an equal element: an unstable sort may order equal elements either way)
       the write: the class representative of the slot, then the raw slot  SEP
   then the number of outputs.  Runs `vrank_tr_fast` (= vrank_tr, Proofs/KernelsMapFast.v: the same text with
   a bind that evaluates its continuation once; vm_compute shares nothing and `tbind` costs 2^depth).   *)
Definition same_f (a b : float) : bool := (PrimFloat.is_nan a && PrimFloat.is_nan b) || PrimFloat.eqb a b.
Definition enc_wseg (xs : list float) (s : wseg) : list Z :=
  flat_map c_int (read_nums (map (acc_rep same_f xs) (ws_reads s)))
  ++ (match ws_write s with
      | Some i => enc_acc (AUset (class_rep same_f xs i)) ++ enc_acc (AUset i)
      | None => []
      end)
  ++ c_sep.
Definition run_vrank_segs (pct rev : bool) (xs : list float) : list Z :=
  flat_map (enc_wseg xs) (vrank_segs_fast (DT := IsNoneF64) (DX := IsNoneX_float) pct rev xs)
  ++ (match snd (vrank_tr_fast (DT := IsNoneF64) (DX := IsNoneX_float) pct rev xs) with
      | Ok l => c_nat (length l)
      | Panic k => c_panic k
      end).

(* =====================================================================================================
   Audit YB (additive).  `run_trace` above IS the encoding of Model/Kernels.v `driver_call` (the whole call
   of a driver: the checks of the code in their order, then the trace) with a callback that reads nothing -
   so the theorems C10_driver_call_safe* of Props/C10.v speak about exactly the cells compared here.      *)
Definition dkind_of (kind : Z) : dkind :=
  (match kind with
   | 0 => KApplyTo | 1 => KApply2To | 2 => KIdxTo | 3 => KIdx2To | 4 => KCustomTo | 5 => KCustomLazy
   | 6 => KCustomWrite | 7 => KCustom2Lazy | 8 => KCustom2Write | _ => KIterBody
   end)%Z.
Definition enc_dcall (d : dcall) : list Z :=
  match d with DPanic k => c_panic k | DTrace t => flat_map enc_acc t end.

Lemma run_trace_is_driver_call (kind : Z) (w len len2 : nat) :
  run_trace kind w len len2 = enc_dcall (driver_call (fun _ _ => []) (dkind_of kind) w len len2).
Proof.
  assert (F : forall k, In k [KApplyTo; KApply2To; KIdxTo; KIdx2To; KCustomTo; KCustomLazy; KCustomWrite; KCustom2Lazy;
                              KCustom2Write; KIterBody] ->
              forall z, dkind_of z = k -> run_trace z w len len2 = enc_dcall (driver_call (fun _ _ => []) k w len len2)).
  2: { apply (F (dkind_of kind)); [|reflexivity]. destruct (dkind_of kind); cbn; tauto. }
  intros k _ z Hz. unfold run_trace. unfold dkind_of in Hz.
  destruct z as [|p|p]; [| |subst k; unfold driver_call, enc_dcall;
                             repeat match goal with |- context [if ?c then _ else _] => destruct c end; reflexivity].
  - subst k. unfold driver_call, enc_dcall.
    repeat match goal with |- context [if ?c then _ else _] => destruct c end; reflexivity.
  - do 4 (try (destruct p as [p|p|])); subst k; unfold driver_call, enc_dcall;
      repeat match goal with |- context [if ?c then _ else _] => destruct c end; reflexivity.
Qed.

(* rolling_custom(.., Some(out)) of the default trait method with a caller buffer of ANY length `lo`
   (Model/Kernels.v custom_write_call; Props/C10.v C10_custom_write_any_buffer) *)
Definition run_custom_write (w len lo : nat) : list Z := enc_dcall (custom_write_call w len lo).
