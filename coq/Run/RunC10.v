(* Run/RunC10.v — case interpreter for C10: access traces of the drivers. *)
From Coq Require Import ZArith List.
From Tevec Require Import Base.Prelude Model.Driver Model.Kernels Run.Codec.
Import ListNotations.

Definition zn := Z.of_nat.
Definition enc_acc (a : acc) : list Z :=
  (match a with
   | AUget v i => c_int (1000000 * (1 + zn v) + zn i)
   | AUslice v a b => c_int (10000000 * (1 + zn v) + 1000 * zn a + zn b)
   | ASlice v a b => c_int (50000000 + 10000000 * (1 + zn v) + 1000 * zn a + zn b)
   | AUset i => c_int (- zn i - 1)
   end)%Z.

(* kind: 0 apply_to, 1 apply2_to, 2 idx_to (callback reads nothing), 3 idx2_to, 4 custom_to,
         5 custom_iter (+ collected), 6 custom via write, 7 custom2 (+collected), 8 custom2 via write,
         9 iterator body, collected (no unchecked access, no uset)                                  *)
Definition run_trace (kind : Z) (w len len2 : nat) : list Z :=
  let guard (t : list acc) :=
      if andb (w =? 0)%nat (negb (len =? 0)%nat) then c_panic AssertFail else flat_map enc_acc t in
  let guard2 (t : list acc) :=
      if (len2 <? len)%nat then c_panic AssertFail else guard t in
  (match kind with
   | 0 => guard (trace_apply_to w len)
   | 1 => guard2 (trace_apply2_to w len)
   | 2 => guard (trace_idx_to (fun _ _ => []) w len)
   | 3 => guard2 (trace_idx2_to (fun _ _ => []) w len)
   | 4 => guard (trace_custom_to w len)
   | 5 => if (w =? 0)%nat then c_panic Underflow else flat_map enc_acc (trace_custom_iter w len)
   | 6 => if (w =? 0)%nat then c_panic Underflow
          else flat_map enc_acc (trace_custom_iter w len ++ trace_write len)
   | 7 => if (len2 <? len)%nat then c_panic AssertFail else if (w =? 0)%nat then c_panic Underflow
          else flat_map enc_acc (trace_custom2 w len)
   | 8 => if (len2 <? len)%nat then c_panic AssertFail else if (w =? 0)%nat then c_panic Underflow
          else flat_map enc_acc (trace_custom2 w len ++ trace_write len)
   | _ => guard []
   end)%Z.
