(* Run/RunC08.v — case interpreters for C08 (null encodings, null transparency).
   Nothing new is modelled here: every group below is a composition of the models of C01/C03/C04 (rolling),
   C11 (Model/Agg.v), C12 (Model/Quantile.v, Model/Rank.v) and C13 (Model/MapOps.v), evaluated at binary64
   under BOTH null dictionaries: the logical series is given once as a float list (NaN = null); the result is
       M_f ++ [11 0 0] ++ M_o
   where M_f is the model run at the float dictionary (IsNoneF64: NaN null) and M_o the model run at the
   Option dictionary (IsNoneOptF64) on `optv xs`.  tools/propcfg/C08.py requires M_f = M_o cell for cell
   (the executable face of the C08_encoding_* theorems) and ties the implementation's reference run to M_f.
   RunC11 / RunC12 / RunC13 are Required but not Imported (RunC03 and RunC12 both define run_rank_f).      *)
From Coq Require Import ZArith List Floats.
From Tevec Require Import Base.Prelude Base.Num Base.F64 Model.Agg Run.Codec.
From Tevec Require Model.SortCmp Model.Quantile Model.Rank Model.MapOps Run.RunC11 Run.RunC12 Run.RunC13.
Import ListNotations.

Definition c_sep2 : list Z := [11; 0; 0]%Z.
(* float cells with the mantissa stripped of trailing zero bits: same value, far fewer digits to print *)
Fixpoint strip_all (l : list Z) : list Z :=
  match l with
  | t :: a :: b :: rest => let '(t', a', b') := RunC11.strip_cell t a b in t' :: a' :: b' :: strip_all rest
  | _ => l
  end.
Definition enc2 (a b : list Z) : list Z := strip_all a ++ c_sep2 ++ strip_all b.

(* the Option<f64> encoding of a float series / value with canonical nulls *)
Definition ovf (x : float) : option float := if PrimFloat.is_nan x then None else Some x.
Definition optv (xs : list float) : list (option float) := map ovf xs.

Definition idf (x : float) : float := x.
Definition mps (maxmp : nat) : list nat := seq 0 (S maxmp).

(* ---- aggregation groups, generic in the dictionary ------------------------------------------------ *)
Section Groups.
  Context {T : Type} {DT : IsNone T float}.
  Variable encT : T -> list Z.

  (* aggx: count_valid count_none vsum vmin vmax vargmin vargmax vfirst vlast vcount_value(v).. *)
  Definition g_aggx (vals : list T) (xs : list T) : list Z :=
    c_nat (count_valid xs) ++ c_nat (count_none xs) ++ c_opt c_float (vsum xs) ++
    c_opt c_float (vmin xs) ++ c_opt c_float (vmax xs) ++
    c_opt c_nat (vargmin xs) ++ c_opt c_nat (vargmax xs) ++
    c_opt encT (vfirst xs) ++ c_opt encT (vlast xs) ++
    flat_map (fun v => c_nat (vcount_value v xs)) vals.
  (* aggt (position-free part, used by the null-insertion cases): count_valid vsum vmin vmax vfirst vlast vcount_value(v).. *)
  Definition g_aggt (vals : list T) (xs : list T) : list Z :=
    c_nat (count_valid xs) ++ c_opt c_float (vsum xs) ++
    c_opt c_float (vmin xs) ++ c_opt c_float (vmax xs) ++
    c_opt encT (vfirst xs) ++ c_opt encT (vlast xs) ++
    flat_map (fun v => c_nat (vcount_value v xs)) vals.
  (* aggm: vmean, then for every mp: vmean_var.0 vmean_var.1 vvar vstd *)
  Definition g_aggm (maxmp : nat) (xs : list T) : list Z :=
    c_float (vmean idf xs) ++
    flat_map (fun mp => (let mv := vmean_var idf mp xs in c_float (fst mv) ++ c_float (snd mv)) ++
                        c_float (vvar idf mp xs) ++ c_float (vstd idf mp xs)) (mps maxmp).
  (* aggs: for every mp: vskew vkurt *)
  Definition g_aggs (maxmp : nat) (xs : list T) : list Z :=
    flat_map (fun mp => c_float (vskew idf mp xs) ++ c_float (vkurt idf mp xs)) (mps maxmp).
  (* aggq: for q in qs, method 0..3: vquantile; vmedian; for score in scs, method 0..2: vpercentile_of *)
  Definition g_aggq (qs : list float) (scs : list T) (xs : list T) : list Z :=
    flat_map (fun q => flat_map (fun m => RunC12.enc_q (Quantile.vquantile (DT := DT) q (RunC12.qm m) xs))
                                [0; 1; 2; 3]%Z) qs ++
    (match Quantile.vmedian (DT := DT) xs with Ok v => c_float v | Panic k => c_panic k end) ++
    flat_map (fun sc => flat_map (fun m => c_float (Quantile.vpercentile_of (DT := DT) sc (RunC12.pm m) xs))
                                 [0; 1; 2]%Z) scs.

  (* two series: for every mp: vcov vcorr_pearson *)
  Context {T2 : Type} {DT2 : IsNone T2 float}.
  Definition g_agg2 (maxmp : nat) (xs : list T) (ys : list T2) : list Z :=
    flat_map (fun mp => c_float (vcov idf mp xs ys) ++ c_float (vcorr_pearson idf mp xs ys)) (mps maxmp).
End Groups.

Definition c_of (o : option float) : list Z := c_opt c_float o.

Definition aggx (vals xs : list float) : list Z :=
  enc2 (g_aggx (DT := IsNoneF64) c_float vals xs) (g_aggx (DT := IsNoneOptF64) c_of (optv vals) (optv xs)).
Definition aggt (vals xs : list float) : list Z :=
  enc2 (g_aggt (DT := IsNoneF64) c_float vals xs) (g_aggt (DT := IsNoneOptF64) c_of (optv vals) (optv xs)).
Definition aggm (maxmp : nat) (xs : list float) : list Z :=
  enc2 (g_aggm (DT := IsNoneF64) maxmp xs) (g_aggm (DT := IsNoneOptF64) maxmp (optv xs)).
Definition aggs (maxmp : nat) (xs : list float) : list Z :=
  enc2 (g_aggs (DT := IsNoneF64) maxmp xs) (g_aggs (DT := IsNoneOptF64) maxmp (optv xs)).
Definition aggq (qs scs xs : list float) : list Z :=
  enc2 (g_aggq (DT := IsNoneF64) qs scs xs) (g_aggq (DT := IsNoneOptF64) qs (optv scs) (optv xs)).
(* two series: (f,f) against (o,o); the mixed pairs (f,o), (o,f) are evaluated too when `mixed` *)
Definition agg2 (maxmp : nat) (xs ys : list float) : list Z :=
  enc2 (g_agg2 (DT := IsNoneF64) (DT2 := IsNoneF64) maxmp xs ys)
       (g_agg2 (DT := IsNoneOptF64) (DT2 := IsNoneOptF64) maxmp (optv xs) (optv ys)).
Definition agg2_mixed (maxmp : nat) (xs ys : list float) : list Z :=
  enc2 (g_agg2 (DT := IsNoneF64) (DT2 := IsNoneOptF64) maxmp xs (optv ys))
       (g_agg2 (DT := IsNoneOptF64) (DT2 := IsNoneF64) maxmp (optv xs) ys).

(* ---- maps (Model/MapOps.v through the C13 interpreters; vrank through the C12 interpreter) ---------- *)
Definition pF := RunC13.pF.
Definition pOF := RunC13.pOF.
Definition oo (v : option float) : option (option float) := option_map ovf v.

Definition m_ffill (v : option float) (xs : list float) : list Z :=
  enc2 (RunC13.r_ffill pF v xs) (RunC13.r_ffill pOF (oo v) (optv xs)).
Definition m_bfill (v : option float) (xs : list float) : list Z :=
  enc2 (RunC13.r_bfill pF v xs) (RunC13.r_bfill pOF (oo v) (optv xs)).
Definition m_fill (v : float) (xs : list float) : list Z :=
  enc2 (RunC13.r_fill pF v xs) (RunC13.r_fill pOF (ovf v) (optv xs)).
Definition m_vclip (lo hi : float) (xs : list float) : list Z :=
  enc2 (RunC13.r_vclip pF lo hi xs) (RunC13.r_vclip pOF (ovf lo) (ovf hi) (optv xs)).
Definition m_vshift (n : Z) (v : option float) (xs : list float) : list Z :=
  enc2 (RunC13.r_vshift pF n v xs) (RunC13.r_vshift pOF n (oo v) (optv xs)).
Definition m_vpct (n : Z) (xs : list float) : list Z :=
  enc2 (RunC13.r_vpct pF n xs) (RunC13.r_vpct pOF n (optv xs)).
Definition m_vabs (xs : list float) : list Z :=
  enc2 (RunC13.r_vabs pF xs) (RunC13.r_vabs pOF (optv xs)).
Definition m_vrank (pct rev : bool) (xs : list float) : list Z :=
  enc2 (RunC12.run_rank_f pct rev xs) (RunC12.run_rank_o pct rev (optv xs)).
(* vdiff needs Sub on the element type: f64 only (Option<f64> has no subtraction) *)
Definition m_vdiff (n : Z) (v : option float) (xs : list float) : list Z :=
  let r := RunC13.r_vdiff pF n v xs in enc2 r r.

(* ---- audit (notes/C08.md "Audit matrix"): the boolean aggregations and the masked family --------------------------
   The logical boolean series / mask is given as a float list: NaN = null flag, x > 0 = true, otherwise false. *)
From Tevec Require Model.NullView.
Definition bo (x : float) : option bool := if PrimFloat.is_nan x then None else Some (PrimFloat.ltb 0 x).
Definition g_aggb {TB : Type} {DB : IsNone TB bool} (xs : list TB) : list Z := c_bool (vany xs) ++ c_bool (vall xs).
(* vany vall: Option<bool> read with its own dictionary and through the option view's dictionary *)
Definition aggb (xs : list float) : list Z :=
  enc2 (g_aggb (DB := IsNone_opt false) (map bo xs)) (g_aggb (DB := Model.NullView.IsNone_view false) (map bo xs)).
(* for every mp: n_vsum_filter.0 n_vsum_filter.1 n_sum_filter vmean_filter(mp) *)
Definition g_aggk {T : Type} {DT : IsNone T float} {U : Type} {DU : IsNone U bool}
           (maxmp : nat) (xs : list T) (ms : list U) : list Z :=
  flat_map (fun mp => (let ns := n_vsum_filter xs ms in c_nat (fst ns) ++ c_float (snd ns)) ++
                      c_opt c_float (n_sum_filter xs ms) ++ c_float (vmean_filter idf mp xs ms)) (mps maxmp).
Definition aggk (maxmp : nat) (xs ms : list float) : list Z :=
  enc2 (g_aggk (DT := IsNoneF64) (DU := IsNone_opt false) maxmp xs (map bo ms))
       (g_aggk (DT := IsNoneOptF64) (DU := IsNone_opt false) maxmp (optv xs) (map bo ms)).
