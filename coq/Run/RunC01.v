(* Run/RunC01.v — case interpreter for C01 (and reused by C05/C06): the rolling moment family at float. *)
From Coq Require Import ZArith List Floats.
From Tevec Require Import Base.Prelude Base.Num Base.F64 Model.Driver Model.Features Run.Codec.
Import ListNotations.

Definition enc_outcome_f (o : outcome float) : list Z :=
  match o with
  | Done l => cells c_float l
  | Uninit buf => flat_map (fun c => match c with Some x => c_float x | None => c_uninit end) buf
  | Panicked k => c_panic k
  end.

(* fn codes: 0 sum 1 mean 2 ewm 3 wma 4 std 5 var 6 skew 7 kurt *)
Definition run_feat {T} (D : IsNone T float) (fn : Z) (body : bool) (w : nat) (mp : option nat)
           (xs : list T) : list Z :=
  enc_outcome_f
    (match fn with
     | 0 => ts_run (ts_vsum_f (DT := D) w mp) body w xs
     | 1 => ts_run (ts_vmean_f (DT := D) w mp) body w xs
     | 2 => ts_run (ts_vewm_f (DT := D) w mp) body w xs
     | 3 => ts_run (ts_vwma_f (DT := D) w mp) body w xs
     | 4 => ts_run (ts_vstd_f (DT := D) w mp) body w xs
     | 5 => ts_run (ts_vvar_f (DT := D) w mp) body w xs
     | 6 => ts_run (ts_vskew_f (DT := D) w mp) body w xs
     | _ => ts_run (ts_vkurt_f (DT := D) w mp) body w xs
     end)%Z.

(* dictionaries: valid family on floats (NaN null), on options, plain family (never null) *)
Definition run_feat_f := run_feat IsNoneF64.
Definition run_feat_o := run_feat IsNoneOptF64.
Definition run_feat_p := run_feat (@IsNone_never float).

(* fractional difference: d as a float literal; plain family casts the element with `id` *)
From Tevec Require Import Model.Fdiff.
Definition run_fdiff_p (body : bool) (d : float) (w : nat) (xs : list float) : list Z :=
  enc_outcome_f (ts_fdiff body d w (fun x => x) xs).
Definition run_vfdiff_f (body : bool) (d : float) (w : nat) (mp : option nat) (xs : list float) : list Z :=
  enc_outcome_f (ts_vfdiff (DT := IsNoneF64) body d w mp xs).
Definition run_vfdiff_o (body : bool) (d : float) (w : nat) (mp : option nat) (xs : list (option float)) : list Z :=
  enc_outcome_f (ts_vfdiff (DT := IsNoneOptF64) body d w mp xs).

(* ---- audit (notes/C01.md): integer output element types.  The closures end in `res.cast()` (f64: Cast<U>): U = i32 is
   Rust's saturating `as i32` (NaN -> 0: the min_periods mask is LOST in a plain-integer output), U = Option<i32> maps
   NaN to None and everything else through `as i32`.  The cast is the one of Model/Cast.v (C15) at the float instance of
   Run/RunC15.v. *)
From Tevec Require Import Model.Cast Run.RunC15.
Definition feat_outcome {T} (D : IsNone T float) (fn : Z) (body : bool) (w : nat) (mp : option nat)
           (xs : list T) : outcome float :=
  (match fn with
   | 0 => ts_run (ts_vsum_f (DT := D) w mp) body w xs
   | 1 => ts_run (ts_vmean_f (DT := D) w mp) body w xs
   | 2 => ts_run (ts_vewm_f (DT := D) w mp) body w xs
   | 3 => ts_run (ts_vwma_f (DT := D) w mp) body w xs
   | 4 => ts_run (ts_vstd_f (DT := D) w mp) body w xs
   | 5 => ts_run (ts_vvar_f (DT := D) w mp) body w xs
   | 6 => ts_run (ts_vskew_f (DT := D) w mp) body w xs
   | _ => ts_run (ts_vkurt_f (DT := D) w mp) body w xs
   end)%Z.
Definition out_i32 (x : float) : list Z := c_int (f2i XF I32 x).
Definition out_oi32 (x : float) : list Z := if PrimFloat.is_nan x then c_null else c_int (f2i XF I32 x).
Definition enc_outcome_with (c : float -> list Z) (o : outcome float) : list Z :=
  match o with
  | Done l => cells c l
  | Uninit buf => flat_map (fun x => match x with Some v => c v | None => c_uninit end) buf
  | Panicked k => c_panic k
  end.
Definition run_feat_f_i32 (fn : Z) body w mp (xs : list float) := enc_outcome_with out_i32 (feat_outcome IsNoneF64 fn body w mp xs).
Definition run_feat_f_oi32 (fn : Z) body w mp (xs : list float) := enc_outcome_with out_oi32 (feat_outcome IsNoneF64 fn body w mp xs).
