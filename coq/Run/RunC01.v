(* Run/RunC01.v — case interpreter for C01 (and reused by C05/C06): the rolling moment family at float. *)
From Coq Require Import ZArith List Floats.
From Tevec Require Import Base.Prelude Base.Num Base.F64 Model.Driver Model.Features Run.Codec.
Import ListNotations.

Definition enc_outcome_f (o : outcome float) : list Z :=
  match o with
  | Done l => cells c_float l
  | Uninit buf => flat_map (fun c => match c with Some x => c_float x | None => c_uninit end) buf
  | Panicked k => c_panic k
  end.

(* fn codes: 0 sum 1 mean 2 ewm 3 wma 4 std 5 var 6 skew 7 kurt *)
Definition run_feat {T} (D : IsNone T float) (fn : Z) (body : bool) (w : nat) (mp : option nat)
           (xs : list T) : list Z :=
  enc_outcome_f
    (match fn with
     | 0 => ts_run (ts_vsum_f (DT := D) w mp) body w xs
     | 1 => ts_run (ts_vmean_f (DT := D) w mp) body w xs
     | 2 => ts_run (ts_vewm_f (DT := D) w mp) body w xs
     | 3 => ts_run (ts_vwma_f (DT := D) w mp) body w xs
     | 4 => ts_run (ts_vstd_f (DT := D) w mp) body w xs
     | 5 => ts_run (ts_vvar_f (DT := D) w mp) body w xs
     | 6 => ts_run (ts_vskew_f (DT := D) w mp) body w xs
     | _ => ts_run (ts_vkurt_f (DT := D) w mp) body w xs
     end)%Z.

(* dictionaries: valid family on floats (NaN null), on options, plain family (never null) *)
Definition run_feat_f := run_feat IsNoneF64.
Definition run_feat_o := run_feat IsNoneOptF64.
Definition run_feat_p := run_feat (@IsNone_never float).

(* fractional difference: d as a float literal; plain family casts the element with `id` *)
From Tevec Require Import Model.Fdiff.
Definition run_fdiff_p (body : bool) (d : float) (w : nat) (xs : list float) : list Z :=
  enc_outcome_f (ts_fdiff body d w (fun x => x) xs).
Definition run_vfdiff_f (body : bool) (d : float) (w : nat) (mp : option nat) (xs : list float) : list Z :=
  enc_outcome_f (ts_vfdiff (DT := IsNoneF64) body d w mp xs).
Definition run_vfdiff_o (body : bool) (d : float) (w : nat) (mp : option nat) (xs : list (option float)) : list Z :=
  enc_outcome_f (ts_vfdiff (DT := IsNoneOptF64) body d w mp xs).
