(* Run/RunC17.v — case interpreters for C17 (operators are shared with Run/RunC16.v).
   Cells marked "spec" carry what the PROPERTY demands (not what the model of the code computes), so a
   deviation of the code shows up as a mismatch; where a known-finding class applies c_known is appended. *)
From Coq Require Import ZArith List Bool.
From Tevec Require Export Run.RunC16.
Import ListNotations.
Local Open Scope Z_scope.

(* (x + d) - d for a month-free d: the sum as the code computes it, then spec: x *)
Definition r17_rt (u : tunit) (x ns : Z) : list Z :=
  let d := mktd 0 ns in
  match dt_add u x d with
  | Ok y => c_int y ++
            (if is_nat y then c_int NaT
             else match dt_sub u y d with Ok _ => c_int x | Panic k => c_panic k end)
  | Panic k => c_panic k
  end ++ (if kf_subunit u d then c_known 1 else []).

(* (x - d) + d likewise *)
Definition r17_rt2 (u : tunit) (x ns : Z) : list Z :=
  let d := mktd 0 ns in
  match dt_sub u x d with
  | Ok y => c_int y ++
            (if is_nat y then c_int NaT
             else match dt_add u y d with Ok _ => c_int x | Panic k => c_panic k end)
  | Panic k => c_panic k
  end ++ (if kf_subunit u d then c_known 1 else []).

(* a - b, then spec: b + (a - b) = a *)
Definition r17_ab (u : tunit) (a b : Z) : list Z :=
  match dt_diff u a b with
  | Ok d => c_td d ++
            (if td_is_nat d then c_int NaT
             else match dt_add u b d with Ok _ => c_int a | Panic k => c_panic k end)
  | Panic k => c_panic k
  end.

(* duration algebra: every expression evaluated by the model operators *)
Definition bind_td (r : res tdelta) (f : tdelta -> res tdelta) : res tdelta :=
  match r with Ok d => f d | Panic k => Panic k end.
Definition r17_alg (m1 n1 m2 n2 m3 n3 k : Z) : list Z :=
  let a := mktd m1 n1 in let b := mktd m2 n2 in let c := mktd m3 n3 in
  c_rtd (td_add a b) ++ c_rtd (td_add b a)
  ++ c_rtd (bind_td (td_add a b) (fun ab => td_add ab c)) ++ c_rtd (bind_td (td_add b c) (fun bc => td_add a bc))
  ++ c_rtd (td_add a (td_neg a)) ++ c_rtd (td_add a td_zero) ++ c_td (td_neg (td_neg a))
  ++ c_rtd (td_sub a b) ++ c_rtd (td_add a (td_neg b))
  ++ c_rtd (bind_td (td_add a b) (fun ab => td_mul ab k))
  ++ c_rtd (bind_td (td_mul a k) (fun ak => bind_td (td_mul b k) (fun bk => td_add ak bk)))
  ++ c_rtd (td_mul a k).

(* x + k months (sign = true) or x - k months: the result, and spec: the calendar fields of the result
   are add_months of the fields of x, the time of day is unchanged *)
Definition r17_months (u : tunit) (x k : Z) (add : bool) : list Z :=
  let d := mktd k 0 in
  let r := if add then dt_add u x d else dt_sub u x d in
  match r, as_cr u x with
  | Ok y, Some c =>
    if is_nat y then        (* result outside the i64 nanosecond range: NaT, no fields *)
      c_int y ++ c_null ++ c_null ++ c_null ++ c_null ++ c_null
    else
    let '(y', m', d') := add_months (cr_civil c) (if add then k else - k) in
    c_int y ++ c_int y' ++ c_int m' ++ c_int d' ++ c_int (cr_sod c) ++ c_int (cr_nanos c / unit_ns u)
  | Ok y, None => c_int y
  | Panic k, _ => c_panic k
  end.

(* Time constructors -> getters, as_cr, from_cr . as_cr *)
Definition r17_time_obs (r : res Z) : list Z :=
  match r with
  | Panic k => c_panic k
  | Ok t =>
    c_int t ++ c_res (time_hour t) ++ c_res (time_minute t) ++ c_res (time_second t) ++ c_res (time_nanosecond t)
    ++ match time_as_cr t with
       | Some c => c_int (fst c) ++ c_int (snd c) ++ c_int (time_from_cr c)
       | None => c_null
       end
  end.
Definition r17_hms (h m s : Z) : list Z := r17_time_obs (time_from_hms h m s).
Definition r17_hms_milli (h m s x : Z) : list Z := r17_time_obs (time_from_hms_milli h m s x).
Definition r17_hms_micro (h m s x : Z) : list Z := r17_time_obs (time_from_hms_micro h m s x).
Definition r17_hms_nano (h m s x : Z) : list Z := r17_time_obs (time_from_hms_nano h m s x).
Definition r17_nsm (secs nano : Z) : list Z := r17_time_obs (time_from_nsm secs nano).
Definition r17_time (t : Z) : list Z := r17_time_obs (Ok t).
(* spec for in-range components: the getters return the components *)
Definition r17_hms_spec (h m s nano : Z) : list Z := c_int h ++ c_int m ++ c_int s ++ c_int nano.

Definition r17_with (t : Z) (kind v : Z) : list Z :=
  c_optz (match kind with
          | 0 => time_with_hour t v
          | 1 => time_with_minute t v
          | 2 => time_with_second t v
          | _ => time_with_nanosecond t v
          end).

(* Time +- d, then spec for month-free in-range d: exact shift by the nanoseconds of d *)
Definition r17_timeop (t m ns : Z) : list Z :=
  c_res (time_add t (mktd m ns)) ++ c_res (time_sub t (mktd m ns)).

(* duration_trunc: the result, then spec where the property defines it:
     month-free d > 0, ns unit: d * floor(x / d);  at a coarser unit the same at ns resolution floored to the unit
     months dividing 12, no fixed part: first instant of the enclosing month/quarter/half-year/year *)
Definition trunc_spec (u : tunit) (x m ns : Z) : option Z :=
  match as_cr u x with
  | None => None
  | Some c =>
    if (m =? 0) && (0 <? ns) then
      Some ((ns * (cr_total_ns c / ns)) / unit_ns u)
    else if (ns =? 0) && (0 <? m) && (12 mod m =? 0) then
      let '(y, mo, _) := cr_civil c in
      let mo0 := (mo - 1) - (mo - 1) mod m in
      Some (days_of_civil (y, mo0 + 1, 1) * SECS_PER_DAY * per_sec u)
    else None
  end.
Definition r17_trunc (u : tunit) (x m ns : Z) : list Z :=
  let r := dt_trunc u x (mktd m ns) in
  c_res r ++
  match r, trunc_spec u x m ns with
  | Ok y, Some s => if is_nat y then c_res r else c_int s     (* NaT: the multiple is not representable *)
  | _, _ => c_res r
  end.

(* ---- extension X27: with_* observed, with_* chain, (k * d) / d, scaling laws, PartialOrd, From<Option<i64>> ---- *)
Definition obind17 {A B} (o : option A) (f : A -> option B) : option B :=
  match o with Some a => f a | None => None end.
Definition with_kind (t kind v : Z) : option Z :=
  match kind with
  | 0 => time_with_hour t v
  | 1 => time_with_minute t v
  | 2 => time_with_second t v
  | _ => time_with_nanosecond t v
  end.
(* the result, then what its four getters report.  Spec cells (what the property demands: the new component and the
   three others of t, computed by plain division) when t is a time of day and v a valid component; otherwise the
   model's getters of the result (a leap-second nanosecond spills, 23:59:59 + leap: the getters panic) *)
Definition r17_with_obs (t kind v : Z) : list Z :=
  match with_kind t kind v with
  | None => c_null
  | Some t' =>
    c_int t' ++
    (if (0 <=? t) && (t <? 86400000000000) && (0 <=? v)
        && (v <? match kind with 0 => 24 | 1 => 60 | 2 => 60 | _ => 1000000000 end)
     then c_int (if kind =? 0 then v else t / 3600000000000)
          ++ c_int (if kind =? 1 then v else t / 60000000000 mod 60)
          ++ c_int (if kind =? 2 then v else t / 1000000000 mod 60)
          ++ c_int (if (kind =? 0) || (kind =? 1) || (kind =? 2) then t mod 1000000000 else v)
     else c_res (time_hour t') ++ c_res (time_minute t') ++ c_res (time_second t') ++ c_res (time_nanosecond t'))
  end.
(* Time(0).with_hour(h)?.with_minute(m)?.with_second(s)?.with_nanosecond(n), then spec: from_hms_nano(h, m, s, n)
   (valid components), resp. the model's chain again (invalid ones: None) *)
Definition r17_with_chain (h m s n : Z) : list Z :=
  let chain := obind17 (time_with_hour 0 h) (fun t1 => obind17 (time_with_minute t1 m) (fun t2 =>
               obind17 (time_with_second t2 s) (fun t3 => time_with_nanosecond t3 n))) in
  c_optz chain ++
  (if (0 <=? h) && (h <? 24) && (0 <=? m) && (m <? 60) && (0 <=? s) && (s <? 60) && (0 <=? n) && (n <? 1000000000)
   then c_res (time_from_hms_nano h m s n) else c_optz chain).
(* two setters in both orders *)
Definition r17_with_pair (t k1 v1 k2 v2 : Z) : list Z :=
  c_optz (obind17 (with_kind t k1 v1) (fun t1 => with_kind t1 k2 v2))
  ++ c_optz (obind17 (with_kind t k2 v2) (fun t1 => with_kind t1 k1 v1)).

(* d * k, then (d * k) / d; spec cell k where C17_timedelta_div applies *)
Definition r17_muldiv (m n k : Z) : list Z :=
  let d := mktd m n in
  match td_mul d k with
  | Panic p => c_panic p
  | Ok kd =>
    c_td kd ++
    (if negb (td_is_nat d) && negb (n =? 0) && in_i64 n && negb (td_is_nat kd) && in_i64 (td_ns kd)
     then c_int k else c_res (td_div kd d))
  end.
(* a / b: quotient, and spec for month-free in-range operands: the truncated quotient q with a = q*b + r, |r| < |b| *)
Definition r17_div (m1 n1 m2 n2 : Z) : list Z :=
  let r := td_div (mktd m1 n1) (mktd m2 n2) in
  c_res r ++
  (if (m1 =? 0) && (m2 =? 0) && in_i64 n1 && in_i64 n2 && negb (n2 =? 0) && in_i32 (Z.quot n1 n2)
   then c_int (Z.quot n1 n2) else c_res r).

(* the scaling laws, each side evaluated by the model operators (j + k and j * k fit i32: generator) *)
Definition r17_scale (m n j k : Z) : list Z :=
  let d := mktd m n in
  c_rtd (td_mul d (j + k))
  ++ c_rtd (bind_td (td_mul d j) (fun dj => bind_td (td_mul d k) (fun dk => td_add dj dk)))
  ++ c_rtd (td_mul d (j * k))
  ++ c_rtd (bind_td (td_mul d k) (fun dk => td_mul dk j))
  ++ c_rtd (td_mul d (-1)) ++ c_td (td_neg d)
  ++ c_rtd (td_mul d 0) ++ c_rtd (td_mul d 1).

(* PartialOrd::partial_cmp both ways: -1 / 0 / 1 / None *)
Definition c_cmp17 (o : option comparison) : list Z :=
  match o with Some Lt => c_int (-1) | Some Eq => c_int 0 | Some Gt => c_int 1 | None => c_null end.
Definition r17_cmp (m1 n1 m2 n2 : Z) : list Z :=
  c_cmp17 (td_partial_cmp (mktd m1 n1) (mktd m2 n2)) ++ c_cmp17 (td_partial_cmp (mktd m2 n2) (mktd m1 n1)).

(* From<Option<i64>> for Time / TimeDelta, Time::is_nat *)
Definition r17_from_opt (o : option Z) : list Z :=
  c_int (time_from_opt_i64 o) ++ c_bool (time_is_nat (time_from_opt_i64 o)) ++ c_td (td_from_opt_i64 o).

(* ---- audit (notes/C17.md "Audit matrix"): interpreters for the cases of harness section 9 --------------------- *)
Definition bind_z17 (r : res Z) (f : Z -> res Z) : res Z := match r with Ok v => f v | Panic k => Panic k end.
(* a - b, then a - (a - b); spec cell b where C17_diff_sub_inverse applies *)
Definition r17_ab2 (u : tunit) (a b : Z) : list Z :=
  match dt_diff u a b with
  | Ok d => c_td d ++
            (if td_is_nat d then c_int NaT
             else match dt_sub u a d with Ok _ => c_int b | Panic k => c_panic k end)
  | Panic k => c_panic k
  end.
(* duration_trunc twice: the second application must return the first result (spec cell) for a whole number of units *)
Definition r17_trunc2 (u : tunit) (x m ns : Z) : list Z :=
  let d := mktd m ns in
  match dt_trunc u x d with
  | Panic k => c_panic k
  | Ok y =>
    c_int y ++
    match dt_trunc u y d with
    | Panic k => c_panic k
    | Ok y' => if (m =? 0) && (0 <? ns) && (ns mod unit_ns u =? 0) && negb (is_nat y) && negb (is_nat y') && negb (is_nat x)
               then c_int y else c_int y'
    end
  end.
(* TimeDelta + - * with arbitrary (also NaT) operands, and negation *)
Definition r17_tdops (m1 n1 m2 n2 k : Z) : list Z :=
  let a := mktd m1 n1 in let b := mktd m2 n2 in
  c_rtd (td_add a b) ++ c_rtd (td_sub a b) ++ c_rtd (td_mul a k) ++ c_td (td_neg a).
(* x + (k months, n ns) in one operator and as two operators in sequence (C17_dt_add_mixed_sequential) *)
Definition r17_mixed (u : tunit) (x k n : Z) : list Z :=
  c_res (dt_add u x (mktd k n)) ++ c_res (bind_z17 (dt_add u x (mktd k 0)) (fun y1 => dt_add u y1 (mktd 0 n))).
(* x + k months - k months: both results (the round trip is the identity iff the day was not clamped) *)
Definition r17_month_rt (u : tunit) (x k : Z) : list Z :=
  let d := mktd k 0 in
  c_res (dt_add u x d) ++ c_res (bind_z17 (dt_add u x d) (fun y => dt_sub u y d)).
(* Time - d then + d (mirror inverse law), and x - d against x + (-d) *)
Definition r17_time_rt (t ns : Z) : list Z :=
  let d := mktd 0 ns in
  c_res (time_sub t d) ++ c_res (bind_z17 (time_sub t d) (fun y => time_add y d)).
Definition r17_subneg (u : tunit) (x m ns : Z) : list Z :=
  c_res (dt_sub u x (mktd m ns)) ++ c_res (dt_add u x (td_neg (mktd m ns))).
