(* Run/RunC12.v — case interpreters for C12: quantile / percentile_of / rank / partitions at binary64. *)
From Coq Require Import ZArith List Floats.
From Tevec Require Import Base.Prelude Base.Num Base.F64 Model.Features Model.SortCmp Model.Quantile
     Model.Rank Model.Partition Run.Codec.
Import ListNotations.

(* ---- floor / ceil of a binary64 to Z ------------------------------------------------------- *)
Definition f64_floorZ (f : float) : Z :=
  match Prim2SF f with
  | S754_finite s m e =>
      let mz := Zpos m in
      if (0 <=? e)%Z then (if s then - (mz * 2 ^ e) else mz * 2 ^ e)%Z
      else let d := (2 ^ (- e))%Z in
           if s then (- ((mz + d - 1) / d))%Z else (mz / d)%Z
  | _ => 0%Z
  end.
Definition f64_ceilZ (f : float) : Z := (- f64_floorZ (- f)%float)%Z.
Global Instance NumFloorF64 : NumFloor float := {| nfloorZ := f64_floorZ; nceilZ := f64_ceilZ |}.

(* ---- dictionaries: ty = 0 f64 (NaN null), 1 Option<f64>, 2 integer (never null, none() panics) *)
Definition DXf : IsNoneX float float := IsNoneX_float.
Definition DXo : IsNoneX (option float) float := IsNoneX_option.
Definition DXn : IsNoneX float float := IsNoneX_never.
Definition Dn : IsNone float float := @IsNone_never float.

Definition qm (m : Z) : qmethod := match m with 0 => Linear | 1 => Lower | 2 => Higher | _ => MidPoint end%Z.
Definition pm (m : Z) : pmethod := match m with 0 => PRank | 1 => PWeak | _ => PStrict end%Z.

Definition enc_q (r : res (option float)) : list Z :=
  match r with Ok (Some v) => c_float v | Ok None => c_err | Panic k => c_panic k end.

Definition run_quant_f (q : float) (m : Z) (xs : list float) : list Z :=
  enc_q (vquantile (DT := IsNoneF64) q (qm m) xs).
Definition run_quant_o (q : float) (m : Z) (xs : list (option float)) : list Z :=
  enc_q (vquantile (DT := IsNoneOptF64) q (qm m) xs).
Definition run_quant_n (q : float) (m : Z) (xs : list float) : list Z :=
  enc_q (vquantile (DT := Dn) q (qm m) xs).
Definition run_median_f (xs : list float) : list Z :=
  match vmedian (DT := IsNoneF64) xs with Ok v => c_float v | Panic k => c_panic k end.

Definition run_median_o (xs : list (option float)) : list Z :=
  match vmedian (DT := IsNoneOptF64) xs with Ok v => c_float v | Panic k => c_panic k end.
Definition run_median_n (xs : list float) : list Z :=
  match vmedian (DT := Dn) xs with Ok v => c_float v | Panic k => c_panic k end.

Definition run_pctof_f (sc : float) (m : Z) (xs : list float) : list Z :=
  c_float (vpercentile_of (DT := IsNoneF64) sc (pm m) xs).
Definition run_pctof_o (sc : option float) (m : Z) (xs : list (option float)) : list Z :=
  c_float (vpercentile_of (DT := IsNoneOptF64) sc (pm m) xs).
Definition run_pctof_n (sc : float) (m : Z) (xs : list float) : list Z :=
  c_float (vpercentile_of (DT := Dn) sc (pm m) xs).

Definition enc_rank (l : list (option float)) : list Z :=
  flat_map (fun o => match o with Some v => c_float v | None => c_uninit end) l.
Definition run_rank_f (pct rev : bool) (xs : list float) : list Z :=
  enc_rank (vrank (DT := IsNoneF64) (DX := DXf) pct rev xs).
Definition run_rank_o (pct rev : bool) (xs : list (option float)) : list Z :=
  enc_rank (vrank (DT := IsNoneOptF64) (DX := DXo) pct rev xs).
Definition run_rank_n (pct rev : bool) (xs : list float) : list Z :=
  enc_rank (vrank (DT := Dn) (DX := DXn) pct rev xs).

(* partitions: entries are rendered as pairs (is_padding, value); the arg version is rendered through
   the values its indices point at, preceded by one flag cell: all indices are -1 or in range, the
   non-padding ones are distinct and point at non-null elements.                                     *)
Definition eo (o : option float) : list Z := c_opt c_float o.
Definition enc_entry {T} (isn : T -> bool) (c : T -> list Z) (v : T) : list Z :=
  if isn v then c_int 1 ++ c_null else c_int 0 ++ c v.
(* first cell: the length announced by the TrustedLen iterator (kth + 1) *)
Definition enc_part {T} (k : nat) (isn : T -> bool) (c : T -> list Z) (r : res (list T)) : list Z :=
  match r with Ok l => c_nat (k + 1) ++ flat_map (enc_entry isn c) l | Panic k => c_panic k end.

Definition run_part_f (k : nat) (sort rev : bool) (xs : list float) : list Z :=
  enc_part k PrimFloat.is_nan c_float (vpartition (DT := IsNoneF64) (DX := DXf) k sort rev xs).
Definition run_part_o (k : nat) (sort rev : bool) (xs : list (option float)) : list Z :=
  enc_part k (fun o => match o with None => true | _ => false end) eo
           (vpartition (DT := IsNoneOptF64) (DX := DXo) k sort rev xs).
Definition run_part_n (k : nat) (sort rev : bool) (xs : list float) : list Z :=
  enc_part k (fun _ => false) c_float (vpartition (DT := Dn) (DX := DXn) k sort rev xs).

Fixpoint distinctZ (l : list Z) : bool :=
  match l with [] => true | a :: r => negb (existsb (Z.eqb a) r) && distinctZ r end.

Definition enc_argpart {T} (k : nat) (isn : T -> bool) (c : T -> list Z) (xs : list T) (idx : list Z) : list Z :=
  let real := filter (fun z => negb (z =? -1)%Z) idx in
  let okrange := forallb (fun z => (0 <=? z)%Z && (z <? Z.of_nat (length xs))%Z) real in
  let oknn := forallb (fun z => match nth_error xs (Z.to_nat z) with Some v => negb (isn v) | None => false end) real in
  c_nat (k + 1) ++ c_bool (okrange && oknn && distinctZ real) ++
  flat_map (fun z => if (z =? -1)%Z then c_int 1 ++ c_null
                     else match nth_error xs (Z.to_nat z) with
                          | Some v => c_int 0 ++ c v | None => c_int 0 ++ c_err end) idx.

Definition run_argpart_f (k : nat) (sort rev : bool) (xs : list float) : list Z :=
  enc_argpart k PrimFloat.is_nan c_float xs (varg_partition (DT := IsNoneF64) k sort rev xs).
Definition run_argpart_o (k : nat) (sort rev : bool) (xs : list (option float)) : list Z :=
  enc_argpart k (fun o => match o with None => true | _ => false end) eo xs
              (varg_partition (DT := IsNoneOptF64) k sort rev xs).
Definition run_argpart_n (k : nat) (sort rev : bool) (xs : list float) : list Z :=
  enc_argpart k (fun _ => false) c_float xs (varg_partition (DT := Dn) k sort rev xs).
