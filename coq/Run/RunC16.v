(* Run/RunC16.v — case interpreters for C16 (and the encoders shared with RunC17): the harness renders
   its inputs as Z literals, these functions run the model (Model/Time.v) and return cells. *)
From Coq Require Import ZArith List Bool.
From Tevec Require Export Base.Prelude Spec.Calendar Model.Time Model.TimeAccess Run.Codec.
Import ListNotations.
Local Open Scope Z_scope.

Definition c_res (r : res Z) : list Z := match r with Ok z => c_int z | Panic k => c_panic k end.
Definition c_optz (o : option Z) : list Z := c_opt c_int o.
Definition c_td (d : tdelta) : list Z := c_int (td_months d) ++ c_int (td_ns d).
Definition c_rtd (r : res tdelta) : list Z := match r with Ok d => c_td d | Panic k => c_panic k end.
Definition c_optcr (o : option crdt) : list Z :=
  match o with Some c => c_int (cr_secs c) ++ c_int (cr_nanos c) | None => c_null ++ c_null end.

(* ---- conversions ---------------------------------------------------------------------------- *)
(* into_unit, Cast<DateTime<T>> (same function), and the same conversion done through chrono
   (as_cr at U, From<chrono> at T): the calendar library's truncation toward the past *)
Definition r16_conv (u t : tunit) (x : Z) : list Z :=
  let r := into_unit u t x in
  c_res r ++ c_res r ++
  match as_cr u x with Some c => c_res (from_cr t c) | None => c_null end.

(* refine-and-back / coarsen-and-refine, as computed by the implementation *)
Definition r16_back (u t : tunit) (x : Z) : list Z :=
  match into_unit u t x with
  | Ok y => c_int y ++ c_res (into_unit t u y)
  | Panic k => c_panic k
  end.

(* is_nat, into_i64, into_opt_i64, Cast<i64>, Cast<Option<i64>>, from_opt_i64 . into_opt_i64,
   From<Option<i64>>, From<i64> *)
Definition r16_basic (x : Z) : list Z :=
  c_bool (is_nat x) ++ c_int x ++ c_optz (into_opt_i64 x) ++ c_int x ++ c_optz (into_opt_i64 x)
  ++ c_int (from_opt_i64 (into_opt_i64 x)) ++ c_int (from_opt_i64 (into_opt_i64 x)) ++ c_int x.

(* as_cr (secs, nanos), from_cr . as_cr, the six calendar fields, time() *)
Definition r16_cr (u : tunit) (x : Z) : list Z :=
  let o := as_cr u x in
  c_optcr o
  ++ match o with Some c => c_res (from_cr u c) | None => c_null end
  ++ c_optz (dt_field cr_year u x) ++ c_optz (dt_field cr_month u x) ++ c_optz (dt_field cr_dom u x)
  ++ c_optz (dt_field cr_hour u x) ++ c_optz (dt_field cr_minute u x) ++ c_optz (dt_field cr_second u x)
  ++ c_optz (dt_field cr_sod u x) ++ c_optz (dt_field cr_nanos u x).

(* X9: is_nat / is_not_nat of DateTime<U>(x), Time(x), TimeDelta::from(x); into_opt_i64 . from_opt_i64 (Some x);
   from_opt_i64 None *)
Definition r16_flags (x : Z) : list Z :=
  c_bool (is_nat x) ++ c_bool (is_not_nat x)
  ++ c_bool (is_nat x) ++ c_bool (is_not_nat x)
  ++ c_bool (td_is_nat (td_from_i64 x)) ++ c_bool (td_is_not_nat (td_from_i64 x))
  ++ c_optz (into_opt_i64 (from_opt_i64 (Some x))) ++ c_int (from_opt_i64 None).

(* X9: the TryFrom impl called directly (secs, nanos | null null), the deprecated to_cr, From<chrono> of the
   TryFrom result *)
Definition r16_tryfrom (u : tunit) (x : Z) : list Z :=
  let o := try_from_cr u x in
  c_optcr o ++ c_optcr (to_cr u x) ++ match o with Some c => c_res (from_cr u c) | None => c_null end.

(* From<chrono::DateTime<Utc>> for a chrono value given as (secs, nanos) (in chrono's range), and
   as_cr of the result *)
Definition r16_fromcr (u : tunit) (secs nanos : Z) : list Z :=
  match cr_from_timestamp secs nanos with
  | None => c_null
  | Some c =>
    match from_cr u c with
    | Ok x => c_int x ++ c_optcr (as_cr u x)
    | Panic k => c_panic k
    end
  end.

(* calendar: (y, m, d) of a day number and back; a civil date to its day number and back *)
Definition r16_civil (day : Z) : list Z :=
  let '(y, m, d) := civil_of_days day in
  c_int y ++ c_int m ++ c_int d ++ c_int (days_of_civil (y, m, d)).
Definition r16_ymd (y m d : Z) : list Z :=
  if valid_civilb (y, m, d) then
    let z := days_of_civil (y, m, d) in
    let '(y', m', d') := civil_of_days z in c_int z ++ c_int y' ++ c_int m' ++ c_int d'
  else c_null.

(* ---- operators (shared with C17) -------------------------------------------------------------- *)
Definition r_dtadd (u : tunit) (x m ns : Z) : list Z := c_res (dt_add u x (mktd m ns)).
Definition r_dtsub (u : tunit) (x m ns : Z) : list Z := c_res (dt_sub u x (mktd m ns)).
Definition r_dtdiff (u : tunit) (a b : Z) : list Z := c_rtd (dt_diff u a b).
Definition r_tdneg (m ns : Z) : list Z := c_td (td_neg (mktd m ns)).
Definition r_tdadd (m1 n1 m2 n2 : Z) : list Z := c_rtd (td_add (mktd m1 n1) (mktd m2 n2)).
Definition r_tdsub (m1 n1 m2 n2 : Z) : list Z := c_rtd (td_sub (mktd m1 n1) (mktd m2 n2)).
Definition r_tdmul (m n k : Z) : list Z := c_rtd (td_mul (mktd m n) k).
Definition r_tddiv (m1 n1 m2 n2 : Z) : list Z := c_res (td_div (mktd m1 n1) (mktd m2 n2)).
Definition r_timeadd (t m ns : Z) : list Z := c_res (time_add t (mktd m ns)).
Definition r_timesub (t m ns : Z) : list Z := c_res (time_sub t (mktd m ns)).
Definition r_trunc (u : tunit) (x m ns : Z) : list Z := c_res (dt_trunc u x (mktd m ns)).
Definition r_tdfrom (v : Z) : list Z := c_td (td_from_i64 v).

(* ---- audit (YC): Default, From<Duration / Option<Duration>>, TimeDelta::nat(), From<NaiveDate> at every unit --------- *)
(* DateTime::default(), TimeDelta::default(), Time::default(), TimeDelta::from(None::<Duration>), TimeDelta::nat() *)
Definition r16_defaults : list Z :=
  c_int dt_default ++ c_td td_default ++ c_int time_default ++ c_td (td_from_opt_dur None) ++ c_td td_nat
  ++ c_bool (td_is_nat td_default) ++ c_bool (is_nat time_default).
(* TimeDelta::from(Duration), TimeDelta::from(Some(Duration)), is_nat of the result *)
Definition r16_tddur (ns : Z) : list Z :=
  c_td (td_from_dur ns) ++ c_td (td_from_opt_dur (Some ns)) ++ c_bool (td_is_nat (td_from_dur ns)).
(* DateTime<U>::from(NaiveDate of that day number): value, then year month day hour minute second of it *)
Definition r16_naivedate (u : tunit) (day : Z) : list Z :=
  match from_naive_date u day with
  | Panic k => c_panic k
  | Ok x => c_int x ++ c_optz (dt_field cr_year u x) ++ c_optz (dt_field cr_month u x) ++ c_optz (dt_field cr_dom u x)
            ++ c_optz (dt_field cr_hour u x) ++ c_optz (dt_field cr_minute u x) ++ c_optz (dt_field cr_second u x)
  end.
