(* Run/RunC19.v — case interpreters for C19: generators at Z and at binary64, collectors, write_trust_iter. *)
From Coq Require Import ZArith List Floats Uint63.
From Tevec Require Import Base.Prelude Model.Driver Model.Create Model.Collect Run.Codec.
Import ListNotations.

(* ---- the binary64 instance of the Number dictionary ------------------------------------------ *)
Definition two52 : float := Z.ldexp one 52%Z.

(* f64::ceil: round-to-nearest-even integer by the 2^52 trick, then step up when it fell below *)
Definition f_ceil (x : float) : float :=
  if (abs x <? two52)%float then
    let r := if (x <? zero)%float then ((x - two52) + two52)%float else ((x + two52) - two52)%float in
    if (r <? x)%float then (r + one)%float else r
  else x.

(* `x as usize`: saturating, NaN ↦ 0; a count that cannot be allocated = capacity overflow *)
Definition f_to_usize (x : float) : res nat :=
  match Prim2SF x with
  | S754_zero _ => Ok 0%nat
  | S754_nan => Ok 0%nat
  | S754_infinity true => Ok 0%nat
  | S754_infinity false => Panic Overflow
  | S754_finite true _ _ => Ok 0%nat
  | S754_finite false m e =>
    let z := if (0 <=? e)%Z then (Z.pos m * 2 ^ e)%Z else (Z.pos m / 2 ^ (- e))%Z in
    if (2 ^ 40 <? z)%Z then Panic Overflow else Ok (Z.to_nat z)
  end.

Definition f_of_usize (n : nat) : float := of_uint63 (Uint63.of_Z (Z.of_nat n)).

Definition f_ops : num_ops float :=
  {| n_zero := zero; n_one := one;
     n_add := PrimFloat.add;
     n_sub := fun x y => Ok (PrimFloat.sub x y);
     n_mul := PrimFloat.mul;
     n_div := fun x y => Ok (PrimFloat.div x y);
     n_ceil := f_ceil;
     n_of_usize := f_of_usize;
     n_to_usize := f_to_usize;
     n_ltb := PrimFloat.ltb; n_leb := PrimFloat.leb; n_eqb := PrimFloat.eqb |}.

(* ---- encoders -------------------------------------------------------------------------------- *)
Definition enc_outcome {A} (c : A -> list Z) (o : outcome A) : list Z :=
  match o with
  | Done l => cells c l
  | Uninit buf => flat_map (fun x => match x with Some v => c v | None => c_uninit end) buf
  | Panicked k => c_panic k
  end.

Definition oz (o : option Z) : list Z := c_opt c_int o.

(* ---- generators ------------------------------------------------------------------------------- *)
Definition run_range_z (signed trusted : bool) (start : option Z) (e : Z) (step : option Z) : list Z :=
  enc_outcome c_int (create_range (z_ops signed) trusted start e step).
Definition run_range_f (trusted : bool) (start : option float) (e : float) (step : option float) : list Z :=
  enc_outcome c_float (create_range f_ops trusted start e step).
Definition run_linspace_z (signed trusted : bool) (start : option Z) (e : Z) (n : nat) : list Z :=
  enc_outcome c_int (create_linspace (z_ops signed) trusted start e n).
Definition run_linspace_f (trusted : bool) (start : option float) (e : float) (n : nat) : list Z :=
  enc_outcome c_float (create_linspace f_ops trusted start e n).
(* the unrepaired range (used only to document the defect; no harness case refers to it) *)
Definition run_range_z_old (signed : bool) (start : option Z) (e : Z) (step : option Z) : list Z :=
  enc_outcome c_int (create_range_old (z_ops signed) start e step).

(* ---- collectors -------------------------------------------------------------------------------- *)
Definition bk (raw : bool) : backend := if raw then BRaw else BDefault.

Definition run_full_z (raw : bool) (n : nat) (v : Z) : list Z := enc_outcome c_int (full (bk raw) n v).
Definition run_full_f (raw : bool) (n : nat) (v : float) : list Z := enc_outcome c_float (full (bk raw) n v).
Definition run_empty : list Z := enc_outcome c_int (@empty Z).

Definition run_collect_plain (items : list Z) : list Z :=
  enc_outcome c_int (collect_from_iter (exact_iter items)).
Definition run_collect_trusted (raw : bool) (items : list Z) : list Z :=
  enc_outcome c_int (collect_from_trusted (bk raw) (exact_iter items)).
Definition run_collect_with_len (raw : bool) (items : list Z) (len : nat) : list Z :=
  enc_outcome c_int (collect_with_len (bk raw) items len).
Definition run_collect_plain_f (items : list float) : list Z :=
  enc_outcome c_float (collect_from_iter (exact_iter items)).
Definition run_collect_trusted_f (raw : bool) (items : list float) : list Z :=
  enc_outcome c_float (collect_from_trusted (bk raw) (exact_iter items)).
(* optional -> null-encoded: f64 (None ↦ NaN) and Option<i32> (None ↦ None) *)
Definition run_collect_opt_f (items : list (option float)) : list Z :=
  enc_outcome c_float (collect_from_opt_iter nan items).
Definition run_collect_opt_oz (items : list (option (option Z))) : list Z :=
  enc_outcome oz (collect_from_opt_iter None items).

(* fallible: items are `inl v` (Ok v) / `inr k` (Err number k); the result is followed by the number
   of items pulled from the source *)
Definition enc_tres (t : tres Z Z) (np : nat) : list Z :=
  match t with
  | TErr e => c_err ++ c_int e ++ c_nat np
  | TOk o => enc_outcome c_int o ++ c_sep ++ c_nat np
  end.
Definition run_try_collect (items : list (Z + Z)) : list Z :=
  enc_tres (try_collect_from_iter (exact_iter items)) (pulled items).
Definition run_try_collect_trusted (raw : bool) (items : list (Z + Z)) : list Z :=
  enc_tres (try_collect_from_trusted (bk raw) (exact_iter items)) (pulled items).

(* ---- write_trust_iter: status, the uset calls in order, the buffer afterwards -------------------- *)
Definition run_write (len hint : nat) (items : list Z) : list Z :=
  let '(st, ws) := write_trust_iter len (TI hint items) in
  (match st with WOk => c_int 0 | WErr => c_err | WPanic k => c_panic k end)
  ++ flat_map (fun w => c_nat (fst w) ++ c_int (snd w)) ws ++ c_sep
  ++ flat_map (fun x => match x with Some v => c_int v | None => c_uninit end)
              (apply_writes ws (repeat None len)).

(* the same for the library's own buffers, where the individual uset calls cannot be observed *)
Definition run_write_buf (len hint : nat) (items : list Z) : list Z :=
  let '(st, ws) := write_trust_iter len (TI hint items) in
  (match st with WOk => c_int 0 | WErr => c_err | WPanic k => c_panic k end) ++ c_sep
  ++ flat_map (fun x => match x with Some v => c_int v | None => c_uninit end)
              (apply_writes ws (repeat None len)).

(* ---- UninitVec::set (uninit.rs:32-40): `if idx < len { uset(idx, v); Ok } else { Err(oob) }` — status, the uset calls,
   the buffer afterwards.  The specification is Model/Collect.v `uninit_set` (theorems C19_uninit_set_total etc.). ---- *)
Definition uninit_set_writes (len idx : nat) (v : Z) : wstatus * list (nat * Z) := uninit_set len idx v.
Definition run_uninit_set (len idx : nat) (v : Z) : list Z :=
  let '(st, ws) := uninit_set_writes len idx v in
  (match st with WOk => c_int 0 | WErr => c_err | WPanic k => c_panic k end)
  ++ flat_map (fun w => c_nat (fst w) ++ c_int (snd w)) ws ++ c_sep
  ++ flat_map (fun x => match x with Some v => c_int v | None => c_uninit end)
              (apply_writes ws (repeat None len)).
(* the library's own buffer: no trace; one guard slot behind the end that must stay unwritten *)
Definition run_uninit_set_buf (len idx : nat) (v : Z) : list Z :=
  let '(st, ws) := uninit_set_writes len idx v in
  (match st with WOk => c_int 0 | WErr => c_err | WPanic k => c_panic k end) ++ c_sep
  ++ flat_map (fun x => match x with Some v => c_int v | None => c_uninit end)
              (apply_writes ws (repeat None len))
  ++ c_sep ++ c_uninit.

(* ---- Vec1Mut / sort --------------------------------------------------------------------------- *)
Definition run_get_mut (xs : list Z) (i : nat) : list Z := c_opt c_int (get_mut xs i).
(* the harness callback: log (old, other), then *v = 10 * old + other *)
Definition run_apply_mut_with (xs ys : list Z) : list Z :=
  let '(ok, out, calls) := apply_mut_with (fun v o => (10 * v + o)%Z) xs ys in
  (if ok then c_int 0 else c_err) ++ flat_map (fun p => c_int (fst p) ++ c_int (snd p)) calls ++ c_sep
  ++ cells c_int out.
Definition run_sort (rev : bool) (xs : list Z) : list Z :=
  let '(ok, out) := sort_unstable_by (if rev then Z.geb else Z.leb) xs in
  (if ok then c_int 0 else c_err) ++ cells c_int out.

(* ---- audit: sources whose announced length (upper size hint) differs from what they yield ------- *)
Definition run_collect_plain_hint (hint : nat) (items : list Z) : list Z :=
  enc_outcome c_int (collect_from_iter (TI hint items)).
Definition run_collect_trusted_hint (raw : bool) (hint : nat) (items : list Z) : list Z :=
  enc_outcome c_int (collect_from_trusted (bk raw) (TI hint items)).
Definition run_try_collect_hint (hint : nat) (items : list (Z + Z)) : list Z :=
  enc_tres (try_collect_from_iter (TI hint items)) (pulled items).
Definition run_try_collect_trusted_hint (raw : bool) (hint : nat) (items : list (Z + Z)) : list Z :=
  enc_tres (try_collect_from_trusted (bk raw) (TI hint items)) (pulled items).
