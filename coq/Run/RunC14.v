(* Run/RunC14.v — case interpreters for C14: vcut, vsorted_unique_idx (First/Last), vsorted_unique. *)
From Coq Require Import ZArith List Floats.
From Tevec Require Import Base.Prelude Model.Binning Run.Codec.
Import ListNotations.
Local Open Scope Z_scope.

(* labels are the ids 100, 101, ... *)
Definition labs (n : nat) : list Z := map (fun k => 100 + Z.of_nat k) (seq 0 n).

Definition is_nulllab {L} (it : item L) : bool := match it with NullLab => true | _ => false end.

(* nullable = the label type T2 has a null (Option<_>, f64).  With a plain integer label type
   `T2::none()` panics by design (DESIGN 5.4): the whole collect unwinds.                        *)
Definition enc_cut (nullable : bool) (o : option (list (item Z))) : list Z :=
  match o with
  | None => c_err
  | Some its =>
      if andb (negb nullable) (existsb is_nulllab its) then c_panic OtherPanic
      else flat_map (fun it => match it with Lab l => c_int l | NullLab => c_null | ErrItem => c_err end) its
  end.

Definition i32min : Z := -2147483648.
Definition i32max : Z := 2147483647.

Definition run_cut_z (right ab nullable : bool) (edges : list Z) (nlab : nat) (xs : list (option Z)) : list Z :=
  enc_cut nullable (vcut Z.ltb Z.leb i32min i32max right ab edges (labs nlab) xs).

(* 64-bit element types: the bounds that add_bounds materialises are those of the element type *)
Definition run_cut_z64 (right ab nullable : bool) (edges : list Z) (nlab : nat) (xs : list (option Z)) : list Z :=
  enc_cut nullable (vcut Z.ltb Z.leb (-9223372036854775808) 9223372036854775807 right ab edges (labs nlab) xs).
Definition run_cut_u64 (right ab nullable : bool) (edges : list Z) (nlab : nat) (xs : list (option Z)) : list Z :=
  enc_cut nullable (vcut Z.ltb Z.leb 0 18446744073709551615 right ab edges (labs nlab) xs).

(* f64::MAX = (2^53 - 1) * 2^971 *)
Definition f64max : float := fl 9007199254740991 971.
Definition f64min : float := fl (-9007199254740991) 971.

Definition run_cut_f (right ab nullable : bool) (edges : list float) (nlab : nat) (xs : list (option float)) : list Z :=
  enc_cut nullable (vcut PrimFloat.ltb PrimFloat.leb f64min f64max right ab edges (labs nlab) xs).

(* three results, separated: Keep::First indices | Keep::Last indices | unique values *)
Definition run_uniq_z (xs : list (option Z)) : list Z :=
  cells c_nat (uidx_first Z.eqb xs) ++ c_sep ++ cells c_nat (uidx_last Z.eqb xs) ++ c_sep
  ++ cells c_int (vsorted_unique Z.eqb xs).

Definition run_uniq_f (xs : list (option float)) : list Z :=
  cells c_nat (uidx_first PrimFloat.eqb xs) ++ c_sep ++ cells c_nat (uidx_last PrimFloat.eqb xs) ++ c_sep
  ++ cells c_float (vsorted_unique PrimFloat.eqb xs).

(* C14 audit: Option<i32> edge vectors that may hold None (vcut_call), and the label type's null (collect_items) *)
Definition enc_call (nullable : bool) (r : res (option (list (item Z)))) : list Z :=
  match r with
  | Panic k => c_panic k
  | Ok None => c_err
  | Ok (Some its) =>
      match collect_items nullable its with
      | Panic k => c_panic k
      | Ok its' => flat_map (fun it => match it with Lab l => c_int l | NullLab => c_null | ErrItem => c_err end) its'
      end
  end.
Definition run_cut_call_z (right ab nullable : bool) (edges : list (option Z)) (nlab : nat) (xs : list (option Z)) : list Z :=
  enc_call nullable (vcut_call Z.ltb Z.leb i32min i32max right ab edges (labs nlab) xs).
