(* Run/RunC03.v — case interpreters for C03: rolling extrema / arg-extrema / rank at the carriers Z and
   float, min-max normalisation and z-score at float.                                                *)
From Coq Require Import ZArith List Floats.
From Tevec Require Import Base.Prelude Base.Num Base.F64 Model.Driver Model.Features Model.Cmp Model.Norm
     Run.Codec.
Import ListNotations.

(* floats with the mantissa stripped of trailing zero bits (same value as Codec.c_float, far fewer digits
   to print for the dyadic values this family mostly produces) *)
Fixpoint strip_zeros (m : positive) (e : Z) : positive * Z :=
  match m with xO m' => strip_zeros m' (e + 1)%Z | _ => (m, e) end.
Definition c_floatn (f : float) : list Z :=
  match Prim2SF f with
  | S754_zero _ => [1; 0; 0]
  | S754_infinity false => [3; 0; 0]
  | S754_infinity true => [4; 0; 0]
  | S754_nan => [2; 0; 0]
  | S754_finite s m e => let '(m', e') := strip_zeros m e in [1; if s then Z.neg m' else Z.pos m'; e']
  end%Z.

Definition enc_out {O} (c : O -> list Z) (o : outcome O) : list Z :=
  match o with
  | Done l => cells c l
  | Uninit buf => flat_map (fun x => match x with Some v => c v | None => c_uninit end) buf
  | Panicked k => c_panic k
  end.

(* dictionaries *)
Definition Dz_opt : IsNone (option Z) Z := IsNone_option.
Definition Dz_never : IsNone Z Z := IsNone_never.

(* fn codes: 0 ts_vmin, 1 ts_vmax, 2 ts_vargmin, 3 ts_vargmax *)
Definition run_ext {A} {NA : Num A} {T} (D : IsNone T A) (cA : A -> list Z)
           (fn : Z) (body : bool) (w : nat) (mp : option nat) (xs : list T) : list Z :=
  (match fn with
   | 0 => enc_out (c_opt cA) (ts_vmin (DT := D) body w mp xs)
   | 1 => enc_out (c_opt cA) (ts_vmax (DT := D) body w mp xs)
   | 2 => enc_out (c_opt c_nat) (ts_vargmin (DT := D) body w mp xs)
   | _ => enc_out (c_opt c_nat) (ts_vargmax (DT := D) body w mp xs)
   end)%Z.

Definition run_ext_f := run_ext IsNoneF64 c_floatn.
Definition run_ext_o := run_ext IsNoneOptF64 c_floatn.
Definition run_ext_zo := run_ext Dz_opt c_int.
Definition run_ext_zp := run_ext Dz_never c_int.

(* rank: input carrier A, output float *)
Definition run_rank {A} {NA : Num A} {T} (D : IsNone T A)
           (body : bool) (w : nat) (mp : option nat) (pct rev : bool) (xs : list T) : list Z :=
  enc_out c_floatn (ts_vrank (DT := D) (B := float) body w mp pct rev xs).
Definition run_rank_f := run_rank IsNoneF64.
Definition run_rank_o := run_rank IsNoneOptF64.
Definition run_rank_zo := run_rank Dz_opt.
Definition run_rank_zp := run_rank Dz_never.

(* normalisations at float; the sentinels are those of the element type *)
Definition f64_max : float := fl 9007199254740991 971.
Definition f64_min : float := fl (-9007199254740991) 971.
Definition i32_max : float := fl 2147483647 0.
Definition i32_min : float := fl (-2147483648) 0.

(* kind: 0 float sentinels, 1 i32 sentinels *)
Definition run_mmnorm {T} (D : IsNone T float) (kind : Z) (body : bool) (w : nat) (mp : option nat)
           (xs : list T) : list Z :=
  let '(lo, hi) := (if kind =? 0 then (f64_min, f64_max) else (i32_min, i32_max))%Z in
  enc_out c_floatn (ts_vminmaxnorm (DT := D) lo hi body w mp xs).
Definition run_mmnorm_f := run_mmnorm IsNoneF64.
Definition run_mmnorm_o := run_mmnorm IsNoneOptF64.
Definition run_mmnorm_p := run_mmnorm (@IsNone_never float).

Definition run_zscore {T} (D : IsNone T float) (body : bool) (w : nat) (mp : option nat) (xs : list T)
  : list Z := enc_out c_floatn (ts_vzscore (DT := D) body w mp xs).
Definition run_zscore_f := run_zscore IsNoneF64.
Definition run_zscore_o := run_zscore IsNoneOptF64.
Definition run_zscore_p := run_zscore (@IsNone_never float).

(* batches: every window 1..=len+2, every min_periods (omitted, 0..=w).  To keep the printed result small
   the run with min_periods = 0 is given in full (followed by a separator) and every other min_periods by ONE
   cell: the panic, or the integer whose bit i says "output i is non-null", or -1 when a non-null output
   differs from the min_periods = 0 run (the harness computes the same summary from the real outputs). *)
Definition cell_null (c : list Z) : bool := match c with (2 :: _)%Z => true | _ => false end.
Fixpoint cell_eqb (a b : list Z) : bool :=
  match a, b with
  | [], [] => true
  | x :: a', y :: b' => (x =? y)%Z && cell_eqb a' b'
  | _, _ => false
  end.
Fixpoint mask_of (cl cl0 : list (list Z)) (bit : Z) : option Z :=
  match cl, cl0 with
  | [], [] => Some 0%Z
  | a :: r, a0 :: r0 =>
      match mask_of r r0 (2 * bit)%Z with
      | None => None
      | Some m => if cell_null a then Some m else if cell_eqb a a0 then Some (m + bit)%Z else None
      end
  | _, _ => None
  end.
Definition mask_cell {O} (c : O -> list Z) (base o : outcome O) : list Z :=
  match o with
  | Panicked k => c_panic k
  | Uninit _ => c_uninit
  | Done l =>
      match base with
      | Done l0 => match mask_of (map c l) (map c l0) 1%Z with Some m => c_int m | None => c_int (-1) end
      | _ => c_int (-1)
      end
  end.

Definition all_wmp {O} (c : O -> list Z) (len : nat) (f : nat -> option nat -> outcome O) : list Z :=
  flat_map (fun w => let base := f w (Some 0%nat) in
                     enc_out c base ++ c_sep ++
                     flat_map (fun mp => mask_cell c base (f w mp)) (None :: map Some (seq 1 w)))
           (seq 1 (len + 2)).

Definition ext_outcome {A} {NA : Num A} {T} (D : IsNone T A) (fn : Z) (body : bool) (w : nat) (mp : option nat)
           (xs : list T) : outcome (option A) :=
  (match fn with 0 => ts_vmin (DT := D) body w mp xs | _ => ts_vmax (DT := D) body w mp xs end)%Z.
Definition arg_outcome {A} {NA : Num A} {T} (D : IsNone T A) (fn : Z) (body : bool) (w : nat) (mp : option nat)
           (xs : list T) : outcome (option nat) :=
  (match fn with 2 => ts_vargmin (DT := D) body w mp xs | _ => ts_vargmax (DT := D) body w mp xs end)%Z.

Definition batch_ext {A} {NA : Num A} {T} (D : IsNone T A) (cA : A -> list Z) (fn : Z) (body : bool)
           (xs : list T) : list Z :=
  if (fn <? 2)%Z then all_wmp (c_opt cA) (length xs) (fun w mp => ext_outcome D fn body w mp xs)
  else all_wmp (c_opt c_nat) (length xs) (fun w mp => arg_outcome D fn body w mp xs).
Definition batch_ext_f := batch_ext IsNoneF64 c_floatn.
Definition batch_ext_o := batch_ext IsNoneOptF64 c_floatn.
Definition batch_ext_zo := batch_ext Dz_opt c_int.
Definition batch_ext_zp := batch_ext Dz_never c_int.

Definition batch_rank {A} {NA : Num A} {T} (D : IsNone T A) (body pct rev : bool) (xs : list T) : list Z :=
  all_wmp c_floatn (length xs) (fun w mp => ts_vrank (DT := D) (B := float) body w mp pct rev xs).
Definition batch_rank_f := batch_rank IsNoneF64.
Definition batch_rank_o := batch_rank IsNoneOptF64.
Definition batch_rank_zo := batch_rank Dz_opt.
Definition batch_rank_zp := batch_rank Dz_never.

Definition batch_mmnorm {T} (D : IsNone T float) (kind : Z) (body : bool) (xs : list T) : list Z :=
  let '(lo, hi) := (if kind =? 0 then (f64_min, f64_max) else (i32_min, i32_max))%Z in
  all_wmp c_floatn (length xs) (fun w mp => ts_vminmaxnorm (DT := D) lo hi body w mp xs).
Definition batch_mmnorm_f := batch_mmnorm IsNoneF64.
Definition batch_mmnorm_o := batch_mmnorm IsNoneOptF64.
Definition batch_mmnorm_p := batch_mmnorm (@IsNone_never float).

Definition batch_zscore {T} (D : IsNone T float) (body : bool) (xs : list T) : list Z :=
  all_wmp c_floatn (length xs) (fun w mp => ts_vzscore (DT := D) body w mp xs).
Definition batch_zscore_f := batch_zscore IsNoneF64.
Definition batch_zscore_o := batch_zscore IsNoneOptF64.
Definition batch_zscore_p := batch_zscore (@IsNone_never float).
