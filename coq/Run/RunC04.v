(* Run/RunC04.v — case interpreter for C04: the 13 covariance / correlation / regression closures at float.
   Output cells:  values ++ [sep] ++ flags, one flag per value cell: 1 = the window of that position is
   singular in exact arithmetic (DESIGN 5.6: regressor without spread / fewer than two observations), where
   the comparator checks neither value nor nullness.  The flag is computed from scratch on the window
   (not from the running sums): all regressor values of the pairwise-complete observations are equal
   (float equality is exact), resp. the window has at most one non-null value (time trend).          *)
From Coq Require Import ZArith List Floats.
From Tevec Require Import Base.Prelude Base.Num Base.F64 Model.Driver Model.Features Model.Binary Model.Reg
     Run.Codec.
Import ListNotations.

Definition enc_vals {O} (c : O -> list Z) (o : outcome O) : list Z :=
  match o with
  | Done l => cells c l
  | Uninit buf => flat_map (fun x => match x with Some v => c v | None => c_uninit end) buf
  | Panicked k => c_panic k
  end.
Definition c_triple (t : float * float * float) : list Z :=
  c_float (fst (fst t)) ++ c_float (snd (fst t)) ++ c_float (snd t).

Definition rep_flags (k : nat) (fl : list bool) : list Z := flat_map (fun b => flat_map c_bool (repeat b k)) fl.

Section Two.
  Context {T1 T2 : Type} (D1 : IsNone T1 float) (D2 : IsNone T2 float).

  (* regressor (second series) constant over the pairwise-complete observations of the window *)
  Definition sing_x (w : nat) (zs : list (T1 * T2)) : list bool :=
    map (fun i =>
           let bs := flat_map (fun p => if both (D1 := D1) (D2 := D2) p then [unwrap (snd p)] else [])
                              (win w i zs) in
           match bs with [] => true | b0 :: r => forallb (fun b => PrimFloat.eqb b b0) r end)
        (seq 0 (length zs)).
  Definition no_sing (zs : list (T1 * T2)) : list bool := map (fun _ => false) zs.

  (* fn: 0 cov 1 corr 2 regx_alpha 3 regx_beta 4 regx_all 5 regx_resid_mean 6 regx_resid_std 7 regx_resid_skew *)
  Definition run_two (fn : Z) (body : bool) (w : nat) (mp : option nat) (xs : list T1) (ys : list T2) : list Z :=
    let zs := combine xs ys in
    (match fn with
     | 0 => enc_vals c_float (ts_run2 (ts_vcov_f (D1 := D1) (D2 := D2) w mp) body w xs ys)
              ++ c_sep ++ rep_flags 1 (no_sing zs)
     | 1 => enc_vals c_float (ts_run2 (ts_vcorr_f (D1 := D1) (D2 := D2) w mp) body w xs ys)
              ++ c_sep ++ rep_flags 1 (no_sing zs)
     | 2 => enc_vals c_float (ts_run2 (ts_vregx_alpha_f (D1 := D1) (D2 := D2) w mp) body w xs ys)
              ++ c_sep ++ rep_flags 1 (sing_x w zs)
     | 3 => enc_vals c_float (ts_run2 (ts_vregx_beta_f (D1 := D1) (D2 := D2) w mp) body w xs ys)
              ++ c_sep ++ rep_flags 1 (sing_x w zs)
     | 4 => enc_vals c_triple (ts_run2 (ts_vregx_all_f (D1 := D1) (D2 := D2) w mp) body w xs ys)
              ++ c_sep ++ rep_flags 3 (sing_x w zs)
     | 5 => enc_vals c_float (ts_vregx_resid (D1 := D1) (D2 := D2) RMean body w mp xs ys)
              ++ c_sep ++ rep_flags 1 (sing_x w zs)
     | 6 => enc_vals c_float (ts_vregx_resid (D1 := D1) (D2 := D2) RStd body w mp xs ys)
              ++ c_sep ++ rep_flags 1 (sing_x w zs)
     | _ => enc_vals c_float (ts_vregx_resid (D1 := D1) (D2 := D2) RSkew body w mp xs ys)
              ++ c_sep ++ rep_flags 1 (sing_x w zs)
     end)%Z.
End Two.

Section One.
  Context {T : Type} (D : IsNone T float).
  (* at most one non-null value in the window: the trend regressor 1..n has no spread *)
  Definition sing_t (w : nat) (xs : list T) : list bool :=
    map (fun i => length (filter (fun v => not_none (H := D) v) (win w i xs)) <=? 1) (seq 0 (length xs)).

  (* fn: 8 reg 9 tsf 10 slope 11 intercept 12 resid_mean *)
  Definition run_trend (fn : Z) (body : bool) (w : nat) (mp : option nat) (xs : list T) : list Z :=
    enc_vals c_float
      (match fn with
       | 8 => ts_run (ts_vreg_f (DT := D) w mp) body w xs
       | 9 => ts_run (ts_vtsf_f (DT := D) w mp) body w xs
       | 10 => ts_run (ts_vreg_slope_f (DT := D) w mp) body w xs
       | 11 => ts_run (ts_vreg_intercept_f (DT := D) w mp) body w xs
       | _ => ts_run (ts_vreg_resid_mean_f (DT := D) w mp) body w xs
       end)%Z
    ++ c_sep ++ rep_flags 1 (sing_t w xs).
End One.

(* element-type combinations: f = f64 (NaN null), o = Option<f64> *)
Definition run_two_ff := run_two IsNoneF64 IsNoneF64.
Definition run_two_oo := run_two IsNoneOptF64 IsNoneOptF64.
Definition run_two_fo := run_two IsNoneF64 IsNoneOptF64.
Definition run_two_of := run_two IsNoneOptF64 IsNoneF64.
Definition run_trend_f := run_trend IsNoneF64.
Definition run_trend_o := run_trend IsNoneOptF64.

(* ---- audit corner inputs (Props/C04.v (8)): the run also reports WHICH check of the code stopped it, first cell:
        0 none, 1 the window assertion, 2 `assert!(other.len() >= len)` of the index bodies (Model/Driver.v guard_id) ---- *)
Definition run_two_chk {T1 T2 : Type} (D1 : IsNone T1 float) (D2 : IsNone T2 float)
           (fn : Z) (body : bool) (w : nat) (mp : option nat) (xs : list T1) (ys : list T2) : list Z :=
  c_nat (guard_id (if body then check2_to w xs ys else check2_default w xs ys))
  ++ run_two D1 D2 fn body w mp xs ys.
Definition run_two_chk_ff := run_two_chk IsNoneF64 IsNoneF64.
Definition run_two_chk_oo := run_two_chk IsNoneOptF64 IsNoneOptF64.
Definition run_two_chk_fo := run_two_chk IsNoneF64 IsNoneOptF64.
Definition run_two_chk_of := run_two_chk IsNoneOptF64 IsNoneF64.
