(* Run/Codec.v — cell encoding shared by all case interpreters (see harness/src/proto.rs).
   A result is a flat list of Z, three per cell: tag a b.                                     *)
From Coq Require Import ZArith List Floats Uint63.
From Tevec Require Import Base.Prelude.
Import ListNotations.
Local Open Scope Z_scope.

Definition c_int (z : Z) : list Z := [0; z; 0].
Definition c_nat (n : nat) : list Z := [0; Z.of_nat n; 0].
Definition c_null : list Z := [2; 0; 0].
Definition c_panic (k : panic_kind) : list Z :=
  [5; match k with Underflow => 0 | Overflow => 1 | AssertFail => 2 | UnwrapNone => 3 | OtherPanic => 4 end; 0].
Definition c_err : list Z := [6; 0; 0].
Definition c_uninit : list Z := [7; 0; 0].
Definition c_known (k : Z) : list Z := [8; k; 0].
Definition c_sep : list Z := [9; 0; 0].
Definition c_bool (b : bool) : list Z := [0; if b then 1 else 0; 0].

Definition c_float (f : float) : list Z :=
  match Prim2SF f with
  | S754_zero _ => [1; 0; 0]
  | S754_infinity false => [3; 0; 0]
  | S754_infinity true => [4; 0; 0]
  | S754_nan => [2; 0; 0]
  | S754_finite s m e => [1; if s then Z.neg m else Z.pos m; e]
  end.

Definition c_opt {A} (c : A -> list Z) (o : option A) : list Z :=
  match o with Some a => c a | None => c_null end.

Definition cells {A} (c : A -> list Z) (l : list A) : list Z := flat_map c l.

(* float literals written by the harness: fl m e = m * 2^e (m signed, |m| < 2^53) *)
Definition fl (m e : Z) : float :=
  let a := Z.ldexp (of_uint63 (Uint63.of_Z (Z.abs m))) e in
  if (m <? 0)%Z then (- a)%float else a.
Definition fnan : float := nan.
Definition finf : float := infinity.
Definition fninf : float := neg_infinity.
Definition fzero : float := zero.
Definition fnzero : float := neg_zero.
