(* Run/RunC20.v — case interpreters for C20: winsorize / vcorr(Spearman) / half_life at binary64.
   Element types: f = f64 (NaN null), o = Option<f64>, n = i32 rendered through its exact f64 value
   (never null, `T::none()` panics).                                                              *)
From Coq Require Import ZArith List Floats.
From Tevec Require Import Base.Prelude Model.MapOps Base.Num Base.F64 Model.Features Model.SortCmp
     Model.Quantile Model.Rank Model.Agg Model.HalfLife Model.Composite Run.Codec Run.RunC12.
Import ListNotations.

Definition Dn20 : IsNone float float := @IsNone_never float.
Definition mF : NullDict float float := dict_float PrimFloat.is_nan nan.
Definition mO : NullDict (option float) float := dict_opt PrimFloat.is_nan.
Definition mN : NullDict float float := dict_int.

Definition wm (m : Z) : wmethod := match m with 0 => WQuantile | 1 => WMedian | _ => WSigma end%Z.

(* cells: announced length, the items, separator, the input cast to f64 (for the relational part of
   the comparator) *)
Definition enc_wins (inp : list float) (r : res (option (list float))) : list Z :=
  match r with
  | Ok (Some l) => c_nat (length l) ++ cells c_float l ++ c_sep ++ cells c_float inp
  | Ok None => c_err
  | Panic k => c_panic k
  end.

Definition run_wins_f (m : Z) (p : option float) (xs : list float) : list Z :=
  enc_wins (iter_cast (DT := IsNoneF64) xs) (winsorize (DT := IsNoneF64) (wm m) p xs).
Definition run_wins_o (m : Z) (p : option float) (xs : list (option float)) : list Z :=
  enc_wins (iter_cast (DT := IsNoneOptF64) xs) (winsorize (DT := IsNoneOptF64) (wm m) p xs).
Definition run_wins_n (m : Z) (p : option float) (xs : list float) : list Z :=
  enc_wins (iter_cast (DT := Dn20) xs) (winsorize (DT := Dn20) (wm m) p xs).

(* vcorr: one cell; an exposed uninitialised rank slot would print as cell 7 *)
Definition enc_corr (r : option float) : list Z :=
  match r with Some v => c_float v | None => c_uninit end.
Definition run_corr_f (mp : option nat) (sp : bool) (xs ys : list float) : list Z :=
  enc_corr (vcorr (DT := IsNoneF64) (DX := DXf) mp sp xs ys).
Definition run_corr_o (mp : option nat) (sp : bool) (xs ys : list (option float)) : list Z :=
  enc_corr (vcorr (DT := IsNoneOptF64) (DX := DXo) mp sp xs ys).
Definition run_corr_n (mp : option nat) (sp : bool) (xs ys : list float) : list Z :=
  enc_corr (vcorr (DT := Dn20) (DX := DXn) mp sp xs ys).
(* the same value k times: the harness evaluates the implementation on k transformed copies *)
Definition rep_cells (k : nat) (c : list Z) : list Z := concat (repeat c k).

(* half_life: the result; out of fuel would print as Err *)
Definition enc_hl (r : option (res nat)) : list Z :=
  match r with Some (Ok n) => c_nat n | Some (Panic k) => c_panic k | None => c_err end.
Definition run_hl_f (mp : option nat) (xs : list float) : list Z :=
  enc_hl (half_life_exec (DT := IsNoneF64) mF mp xs).
Definition run_hl_o (mp : option nat) (xs : list (option float)) : list Z :=
  enc_hl (half_life_exec (DT := IsNoneOptF64) mO mp xs).
Definition run_hl_n (mp : option nat) (xs : list float) : list Z :=
  enc_hl (half_life_exec (DT := Dn20) mN mp xs).

(* the autocorrelations the search looks at, for lags 1..=k (the oracle itself) *)
Definition run_ac_f (mp : nat) (k : nat) (xs : list float) : list Z :=
  flat_map (fun lag => c_float (autocorr (DT := IsNoneF64) mp nan xs lag)) (seq 1 k).
Definition run_ac_o (mp : nat) (k : nat) (xs : list (option float)) : list Z :=
  flat_map (fun lag => c_float (autocorr (DT := IsNoneOptF64) mp None xs lag)) (seq 1 k).
