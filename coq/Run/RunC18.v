(* Run/RunC18.v — case interpreters for C18: the duration scanner, the date-time text model. *)
From Coq Require Import ZArith List.
From Tevec Require Import Base.Prelude Model.Parse Model.ParseDT Run.Codec.
Import ListNotations.
Local Open Scope Z_scope.

Definition enc_pres (r : pres) : list Z :=
  match r with
  | POk m ns => c_int m ++ c_int ns
  | PErr => c_err
  | PPanic k => c_panic k
  | PFuel => c_panic OtherPanic ++ c_panic OtherPanic
  end.

(* TimeDelta::parse on the string with these code points *)
Definition td (s : list Z) : list Z := enc_pres (parse s).

Definition enc_oi (o : option Z) : list Z := match o with Some v => c_int v | None => c_err end.

Definition fmt_of (k : Z) : list item := if k <? 0 then fmt_default else nth (Z.to_nat k) rules [].

(* unit u, format k (-1: strftime(None)), instant x:
   text ++ sep ++ parse(text, Some(fmt)) ++ parse(text, None) *)
Definition dtc (u k x : Z) : list Z :=
  match dt_format u (fmt_of k) x with
  | Panic pk => c_panic pk
  | Ok text => cells c_int text ++ c_sep ++ enc_oi (parse_with u (fmt_of k) text) ++ enc_oi (dt_parse u text)
  end.

Definition dtp (u : Z) (s : list Z) : list Z := enc_oi (dt_parse u s).
Definition dtpf (u k : Z) (s : list Z) : list Z := enc_oi (parse_with u (fmt_of k) s).

(* Time::parse of a valid HH:MM:SS.f string: nanoseconds since midnight *)
Definition tm (h m s ns : Z) : list Z := c_int (((h * 60 + m) * 60 + s) * giga + ns).

(* ---- audit (YC): Time::parse with an explicit format, Debug / Display of Time, Debug of TimeDelta and DateTime ------ *)
Definition tfmt_of (k : Z) : list item :=
  if k =? 0 then fmt_hms else if k =? 1 then fmt_hms_f else if k =? 2 then fmt_hms_compact else fmt_hm.
(* Time::parse(s, Some(fmt_k)) *)
Definition tmp (k : Z) (s : list Z) : list Z := enc_oi (time_parse_with (tfmt_of k) s).
(* format!("{:?}", Time(t)) ++ sep ++ format!("{}", Time(t)) *)
Definition tmdbg (t : Z) : list Z := cells c_int (time_debug t) ++ c_sep ++ cells c_int (time_display t).
(* format!("{:?}", TimeDelta { months, inner }) = the String cast *)
Definition tddbg (m ns : Z) : list Z := cells c_int (td_debug m ns).
(* format!("{:?}", DateTime::<U>::new(x)) *)
Definition dtdbg (u x : Z) : list Z :=
  match dt_debug u x with Ok text => cells c_int text | Panic k => c_panic k end.

(* Time::parse(s, Some("%H:%M:%S")) then Timelike::hour() of the result (a leap second gives a Time of a whole day or more
   past midnight..., on which as_cr() is None and the getter unwraps it) *)
From Tevec Require Model.Time.
Definition tmleap (s : list Z) : list Z :=
  match time_parse_with fmt_hms s with
  | Some v => c_int v ++ match Time.time_hour v with Ok h => c_int h | Panic k => c_panic k end
  | None => c_err
  end.
