(* Run/RunC12Q.v — DESIGN 5.5: the quantile model evaluated a second time over EXACT rationals
   (XQ = option Q: the computable twin of the proof instance XR = option R), so that the correspondence
   also ties the code to the exact-h semantics the theorem C12_quantile is stated for.
   run_quantx_* = binary64 mirror result, then (after separators) the admissible exact evaluations:
   at q itself and, when h = (n-1) q is within 1e-9 of an integer z, at z/(n-1) and just below / above it. *)
From Coq Require Import ZArith QArith Qround Qabs List Floats.
From Tevec Require Import Base.Prelude Base.Num Base.F64 Model.Features Model.SortCmp Model.Quantile
     Run.Codec Run.RunC12.
Import ListNotations.

Definition XQ := option Q.
Definition ql2 (f : Q -> Q -> Q) (a b : XQ) : XQ :=
  match a, b with Some x, Some y => Some (Qred (f x y)) | _, _ => None end.
Definition ql1 (f : Q -> Q) (a : XQ) : XQ := match a with Some x => Some (Qred (f x)) | None => None end.
Definition qb2 (f : Q -> Q -> bool) (a b : XQ) : bool :=
  match a, b with Some x, Some y => f x y | _, _ => false end.
Definition Qlt_b (x y : Q) : bool := negb (Qle_bool y x).

Definition NumXQ : Num XQ := {|
  nzero := Some 0%Q; none := Some 1%Q;
  nadd := ql2 Qplus; nsub := ql2 Qminus; nmul := ql2 Qmult;
  ndiv := fun a b => match a, b with
                     | Some x, Some y => if Qeq_bool y 0 then None else Some (Qred (x / y))
                     | _, _ => None end;
  nneg := ql1 Qopp; nabs := ql1 Qabs; nsqrt := fun _ => None;
  nofZ := fun z => Some (inject_Z z);
  nltb := qb2 Qlt_b; nleb := qb2 Qle_bool; neqb := qb2 Qeq_bool;
  nisnan := fun a => match a with None => true | Some _ => false end; nnan := None;
  neps := Some (1 # 100000000000000)%Q; ntwo := Some 2%Q;
|}.
Definition NumFloorXQ : NumFloor XQ :=
  {| nfloorZ := fun a => match a with Some x => Qfloor x | None => 0%Z end;
     nceilZ := fun a => match a with Some x => Qceiling x | None => 0%Z end |}.
Definition DQf : IsNone XQ XQ := @IsNone_float XQ NumXQ.
Definition DQn : IsNone XQ XQ := @IsNone_never XQ.

(* exact value of a binary64 *)
Definition f2q (f : float) : XQ :=
  match Prim2SF f with
  | S754_zero _ => Some 0%Q
  | S754_finite s m e =>
      let mz := if s then Z.neg m else Z.pos m in
      Some (Qred (if (0 <=? e)%Z then inject_Z (mz * 2 ^ e) else (mz # Z.to_pos (2 ^ (- e)))))
  | _ => None
  end.

(* a rational as a cell: rounded to a multiple of 2^-70 (far below the comparison tolerance) *)
Definition c_q (x : XQ) : list Z :=
  match x with
  | Some v => [1; Qfloor (v * inject_Z (2 ^ 70) + (1 # 2)); -70]%Z
  | None => c_null
  end.

Definition vq (never : bool) (q : XQ) (m : Z) (xs : list XQ) : res (option XQ) :=
  if never then vquantile (NA := NumXQ) (NF := NumFloorXQ) (DT := DQn) q (qm m) xs
  else vquantile (NA := NumXQ) (NF := NumFloorXQ) (DT := DQf) q (qm m) xs.

Definition tol : Q := (1 # 1000000000)%Q.

Definition alternatives (never : bool) (qf : float) (m : Z) (xs : list XQ) : list Z :=
  match f2q qf with
  | None => []
  | Some q =>
      match vq never (Some q) m xs with
      | Ok (Some r0) =>
          let n := length (filter (fun x => if never then true else match x with Some _ => true | None => false end) xs) in
          let near :=
            if (n <? 2)%nat then []
            else
              let L := inject_Z (Z.of_nat (n - 1)) in
              let h := (L * q)%Q in
              let z := Qfloor (h + (1 # 2)) in
              if Qle_bool (Qabs (h - inject_Z z)) tol then
                let cands := [(inject_Z z / L)%Q; ((inject_Z z - 2 * tol) / L)%Q; ((inject_Z z + 2 * tol) / L)%Q] in
                flat_map (fun q' =>
                            if Qle_bool 0 q' && Qle_bool q' 1 then
                              match vq never (Some (Qred q')) m xs with
                              | Ok (Some r) => c_sep ++ c_q r
                              | _ => []
                              end
                            else []) cands
              else [] in
          c_sep ++ c_q r0 ++ near
      | _ => []
      end
  end.

Definition run_quantx_f (q : float) (m : Z) (xs : list float) : list Z :=
  run_quant_f q m xs ++ alternatives false q m (map f2q xs).
Definition run_quantx_o (q : float) (m : Z) (xs : list (option float)) : list Z :=
  run_quant_o q m xs ++ alternatives false q m (map (fun o => match o with Some x => f2q x | None => None end) xs).
Definition run_quantx_n (q : float) (m : Z) (xs : list float) : list Z :=
  run_quant_n q m xs ++ alternatives true q m (map f2q xs).
