(* Run/RunC02.v — case interpreter for C02: a recording callback through every driver model. *)
From Coq Require Import ZArith List Floats.
From Tevec Require Import Base.Prelude Model.Driver Run.Codec.
Import ListNotations.

(* the recording callback: state = call counter; output = counter followed by the argument cells *)
Definition rec_cb {X} (enc : X -> list Z) (s : nat) (a : X) : nat * list Z :=
  (S s, c_nat s ++ enc a).

Definition enc_outcome (o : outcome (list Z)) : list Z :=
  match o with
  | Done l => concat l
  | Uninit buf => flat_map (fun c => match c with Some l => l | None => c_uninit end) buf
  | Panicked k => c_panic k
  end.

(* `mask_last`: the removed value at the final position is unspecified when w > len (property text) *)
Definition masked {A} (w len i : nat) (c : A -> list Z) (rm : option A) : list Z :=
  if andb (len <? w)%nat (S i =? len)%nat then c_int (-999)%Z else c_opt c rm.

Definition ef := c_float.
Definition eo (o : option float) : list Z := c_opt c_float o.

Section Gen.
  Context {T : Type} (c : T -> list Z).
  (* body: true = two-phase index body (caller buffer, Vec/ndarray fast path); false = iterator body *)
  Definition run_apply (body : bool) (w : nat) (xs : list T) : list Z :=
    let len := length xs in
    (* position is recovered from the call counter: calls come in order (checked by the counter cell) *)
    let enc (s : nat) (a : option T * T) := masked w len s c (fst a) ++ c (snd a) in
    let f (s : nat) a := (S s, c_nat s ++ enc s a) in
    enc_outcome (if body then rolling_apply_to w f 0%nat xs else rolling_apply_default w f 0%nat xs).

  Definition run_apply_idx (body : bool) (w : nat) (xs : list T) : list Z :=
    let len := length xs in
    let enc (s : nat) (a : option nat * nat * T) :=
        let '(st, e, v) := a in masked w len s c_nat st ++ c_nat e ++ c v in
    let f (s : nat) a := (S s, c_nat s ++ enc s a) in
    enc_outcome (if body then rolling_apply_idx_to w f 0%nat xs
                 else rolling_apply_idx_default w f 0%nat xs).

  Definition run_custom (body : bool) (w : nat) (xs : list T) : list Z :=
    let f (s : nat) (sl : list T) := (S s, c_nat s ++ cells c sl ++ c_sep) in
    enc_outcome (if body then rolling_custom_to w f 0%nat xs else rolling_custom_default w f 0%nat xs).
End Gen.

Section Gen2.
  Context {T1 T2 : Type} (c1 : T1 -> list Z) (c2 : T2 -> list Z).
  Definition cp (p : T1 * T2) : list Z := c1 (fst p) ++ c2 (snd p).
  Definition run_apply2 (body : bool) (w : nat) (xs : list T1) (ys : list T2) : list Z :=
    let len := length xs in
    let enc (s : nat) (a : option (T1 * T2) * (T1 * T2)) :=
        (if andb (len <? w)%nat (S s =? len)%nat then c_int (-999)%Z ++ c_int (-999)%Z
         else match fst a with Some p => cp p | None => c_null ++ c_null end) ++ cp (snd a) in
    let f (s : nat) a := (S s, c_nat s ++ enc s a) in
    enc_outcome (if body then rolling2_apply_to w f 0%nat xs ys
                 else rolling2_apply_default w f 0%nat xs ys).
  Definition run_apply2_idx (body : bool) (w : nat) (xs : list T1) (ys : list T2) : list Z :=
    let len := length xs in
    let enc (s : nat) (a : option nat * nat * (T1 * T2)) :=
        let '(st, e, v) := a in masked w len s c_nat st ++ c_nat e ++ cp v in
    let f (s : nat) a := (S s, c_nat s ++ enc s a) in
    enc_outcome (if body then rolling2_apply_idx_to w f 0%nat xs ys
                 else rolling2_apply_idx_default w f 0%nat xs ys).
  Definition run_custom2 (w : nat) (xs : list T1) (ys : list T2) : list Z :=
    let f (s : nat) (sl : list T1 * list T2) :=
        (S s, c_nat s ++ cells c1 (fst sl) ++ c_sep ++ cells c2 (snd sl) ++ c_sep) in
    enc_outcome (rolling2_custom_default w f 0%nat xs ys).
End Gen2.

(* ==== (YA) every backend x both output paths through Model/DriverDispatch.v; the lazy iterator ====
   `be_of` numbers the backends of the harness (part=dispatch).  Nothing is masked here: the removed value
   at the final position of a too-long window is what tells the index body from the iterator body.      *)
From Tevec Require Import Model.DriverDispatch.

Definition be_of (k : nat) : backend :=
  match k with
  | 0 => BVec | 1 => BSlice | 2 => BArray | 3 => BNdOwned | 4 => BNdView | 5 => BNdViewMut
  | 6 => BDeque | 7 => BOptView | 8 => BPolars | 9 => BArc BVec | 10 => BArc BDeque
  | _ => BArc (BArc BNdOwned)
  end%nat.

Section GenOn.
  Context {T : Type} (c : T -> list Z).
  Definition run_apply_on (b : nat) (out : bool) (w : nat) (xs : list T) : list Z :=
    let f (s : nat) (a : option T * T) := (S s, c_nat s ++ c_opt c (fst a) ++ c (snd a)) in
    enc_outcome (rolling_apply_on (be_of b) out w f 0%nat xs).
  Definition run_apply_idx_on (b : nat) (out : bool) (w : nat) (xs : list T) : list Z :=
    let f (s : nat) (a : option nat * nat * T) :=
        let '(st, e, v) := a in (S s, c_nat s ++ c_opt c_nat st ++ c_nat e ++ c v) in
    enc_outcome (rolling_apply_idx_on (be_of b) out w f 0%nat xs).
  Definition run_custom_on (b : nat) (out : bool) (w : nat) (xs : list T) : list Z :=
    let f (s : nat) (sl : list T) := (S s, c_nat s ++ cells c sl ++ c_sep) in
    enc_outcome (rolling_custom_on (be_of b) out w f 0%nat xs).
  (* k calls of next() on rolling_custom_iter(w, f), then the iterator is dropped *)
  Definition run_custom_iter_take (k w : nat) (xs : list T) : list Z :=
    let f (s : nat) (sl : list T) := (S s, c_nat s ++ cells c sl ++ c_sep) in
    enc_outcome (rolling_custom_iter_take k w f 0%nat xs).
End GenOn.
