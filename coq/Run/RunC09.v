(* Run/RunC09.v — case interpreters for C09: observe (size_hint, remaining count, items) of a model
   iterator state along a consumption script.                                                   *)
From Coq Require Import ZArith List.
From Tevec Require Import Base.Prelude Model.Iter Run.Codec.
Import ListNotations.

Fixpoint cval (v : val) : list Z :=
  match v with
  | VZ z => c_int z
  | VNull => c_null
  | VPair a b => cval a ++ cval b
  | VErr => c_err
  end.

(* mask 0: exact items; 1: null / error pattern only; 2: items hidden (order is another property's) *)
Fixpoint cmask1 (v : val) : list Z :=
  match v with
  | VZ _ => c_int 0
  | VNull => c_null
  | VPair a b => cmask1 a ++ cmask1 b
  | VErr => c_err
  end.
Definition cv (mask : nat) (v : val) : list Z :=
  match mask with 0%nat => cval v | 1%nat => cmask1 v | _ => c_int 0 end.

Definition hint_cells (s : it) : list Z :=
  c_nat (fst (size_hint s)) ++ c_opt c_nat (snd (size_hint s)).

(* at every point of the script: the hint, the number of items plain iteration still yields, then the
   item returned by the step; after the script: everything that is left *)
Fixpoint observe (mask : nat) (cs : list bool) (s : it) : list Z :=
  hint_cells s ++ c_nat (length (drain s)) ++
  match cs with
  | [] => cells (cv mask) (drain s) ++ c_sep
  | c :: r => let '(o, s') := nextd c s in c_opt (cv mask) o ++ observe mask r s'
  end.

Definition obs (mask : nat) (cs : list bool) (r : res it) : list Z :=
  match r with Ok s => observe mask cs s | Panic k => c_panic k end.
Definition obs_ok (mask : nat) (cs : list bool) (s : it) : list Z := observe mask cs s.
Definition obs_opt (mask : nat) (cs : list bool) (r : option it) : list Z :=
  match r with Some s => observe mask cs s | None => c_err end.

(* script helpers *)
Definition fw (k : nat) : list bool := repeat false k.

(* a collected container: its length and its items; anything else is a memory-safety failure *)
Definition collect_cells (mask : nat) (c : coutcome) : list Z :=
  match c with
  | CDone l => c_nat (length l) ++ cells (cv mask) l
  | COverflow cap w => c_uninit ++ c_nat cap ++ c_nat w
  | CUninit buf => flat_map (fun c => match c with Some v => cv mask v | None => c_uninit end) buf
  | CPanic k => c_panic k
  end.
Definition collect_res (mask : nat) (r : res it) : list Z :=
  match r with Ok s => collect_cells mask (collect_raw s) | Panic k => c_panic k end.

(* UninitRefMut::write_trust_iter (uninit.rs:56-82) into a buffer of length `len`:
   Ok(written items) or Err *)
Definition write_trust (len : nat) (r : res it) : list Z :=
  match r with
  | Panic k => c_panic k
  | Ok s =>
      match tlen s with
      | Panic k => c_panic k
      | Ok n =>
          if (len =? 0)%nat then []
          else if (len =? n)%nat then
                 (* (0..len).for_each(|i| uset(i, iter.next().unwrap())) *)
                 let items := drain s in
                 if (length items <? len)%nat then c_panic UnwrapNone else cells cval (firstn len items)
          else if (n =? 1)%nat then
                 match fst (next s) with Some v => cells cval (repeat v len) | None => c_panic UnwrapNone end
          else c_err
      end
  end.

Definition zeros (k : nat) : list Z := cells c_int (repeat 0%Z k).

(* pre-consumed sources for the adaptor bands: kf items from the front and kb from the back *)
Definition pre (kf kb : nat) (xs : list val) : it :=
  consume (repeat false kf ++ repeat true kb) (IList xs).

(* ---- instruction scripts (X21): INext | INextBack | INth k | INthBack k --------------------------
   at every point: hint, number of items plain iteration still yields, the item the instruction returns;
   after the script: everything that is left, then count() and last() of the state after the script *)
Fixpoint observe_x (mask : nat) (cs : list instr) (s : it) : list Z :=
  hint_cells s ++ c_nat (length (drain s)) ++
  match cs with
  | [] => cells (cv mask) (drain s) ++ c_nat (fst (count_it s)) ++ c_opt (cv mask) (fst (last_it s)) ++ c_sep
  | c :: r => let '(o, s') := exec c s in c_opt (cv mask) o ++ observe_x mask r s'
  end.

Definition obsx (mask : nat) (cs : list instr) (r : res it) : list Z :=
  match r with Ok s => observe_x mask cs s | Panic k => c_panic k end.
Definition obsx_ok (mask : nat) (cs : list instr) (s : it) : list Z := observe_x mask cs s.

(* StepBy around a state: at every point of `steps` calls of next(): hint, remaining count, item; then the rest *)
Definition sb_hint_cells (t : stepby) : list Z :=
  c_nat (fst (sb_size_hint t)) ++ c_opt c_nat (snd (sb_size_hint t)).
Fixpoint observe_sb (mask : nat) (steps : nat) (t : stepby) : list Z :=
  sb_hint_cells t ++ c_nat (length (sb_drain t)) ++
  match steps with
  | O => cells (cv mask) (sb_drain t) ++ c_sep
  | S k => let '(o, t') := sb_next t in c_opt (cv mask) o ++ observe_sb mask k t'
  end.
Definition obs_sb (mask : nat) (steps n : nat) (r : res it) : list Z :=
  match r with
  | Panic k => c_panic k
  | Ok s => match step_by n s with Ok t => observe_sb mask steps t | Panic k => c_panic k end
  end.

(* ==== (YA) audit additions: is_empty / len along a consumption, MapBasic::abs, the partitions over the real
   Filter / FilterMap nodes (Model/IterAudit.v), fallible collection of vcut through the raw collector ==== *)
From Tevec Require Import Model.IterAudit.
From Tevec Require Model.Collect Model.Driver.

Definition c_resb (r : res bool) : list Z := match r with Ok b => c_bool b | Panic k => c_panic k end.
Definition c_resn (r : res nat) : list Z := match r with Ok n => c_nat n | Panic k => c_panic k end.

(* at every point of `steps` calls of next(): TrustedLen::is_empty(), TrustedLen::len(), the item *)
Fixpoint observe_e (mask : nat) (steps : nat) (s : it) : list Z :=
  c_resb (tis_empty s) ++ c_resn (tlen s) ++
  match steps with
  | O => c_sep
  | S k => let '(o, s') := next s in c_opt (cv mask) o ++ observe_e mask k s'
  end.
Definition obs_e (mask steps : nat) (r : res it) : list Z :=
  match r with Ok s => observe_e mask steps s | Panic k => c_panic k end.
Definition obs_e_ok (mask steps : nat) (s : it) : list Z := observe_e mask steps s.

Definition obs_abs (steps : nat) (s : it) : list Z := observe 0 (fw steps) (mabs s).

(* the same observation as `observe` over the states of Model/IterAudit.v *)
Definition f_hint_cells (t : itf) : list Z :=
  c_nat (fst (f_size_hint t)) ++ c_opt c_nat (snd (f_size_hint t)).
Fixpoint observe_f (mask : nat) (steps : nat) (t : itf) : list Z :=
  f_hint_cells t ++ c_nat (length (f_drain t)) ++
  match steps with
  | O => cells (cv mask) (f_drain t) ++ c_sep
  | S k => let '(o, t') := f_next t in c_opt (cv mask) o ++ observe_f mask k t'
  end.

(* try_collect_trusted_to_vec of a vcut iterator: Ok(len, items) or Err *)
Definition try_cells (r : option it) : list Z :=
  match r with
  | None => c_err
  | Some s =>
      match Model.Collect.try_collect_from_trusted Model.Collect.BRaw (as_try_titer s) with
      | Model.Collect.TErr _ => c_err
      | Model.Collect.TOk (Model.Driver.Done l) => c_nat (length l) ++ cells cval l
      | Model.Collect.TOk _ => c_uninit
      end
  end.

(* ==== MapValidBasic::drop_none (valid_iter.rs): `self.filter(T::not_none)` — the bare Filter node of Model/IterAudit.v.
   At every point of `steps` calls of next(): the hint (0, Some(source items still to come)), the number of items plain
   iteration still yields, the item; then the rest (observe_f).  `obs_drop_none_twice`: collected, then drop_none again. ==== *)
Definition obs_drop_none (mask steps : nat) (s : it) : list Z := observe_f mask steps (drop_none s).
Definition obs_drop_none_res (mask steps : nat) (r : res it) : list Z :=
  match r with Ok s => obs_drop_none mask steps s | Panic k => c_panic k end.
Definition obs_drop_none_twice (mask steps : nat) (s : it) : list Z :=
  observe_f mask steps (drop_none (IList (f_drain (drop_none s)))).
