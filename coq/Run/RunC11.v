(* Run/RunC11.v — case interpreters for C11: the aggregation folds of Model/Agg.v at the execution
   instances  f : f64 / f32 (NaN null)   o : Option<f64>   z : i32 / i64 (never null)   oz : Option<i32>.
   Every function contributes a fixed number of cells, in the order documented next to each group.   *)
From Coq Require Import ZArith List Floats.
From Tevec Require Import Base.Prelude Base.Num Base.F64 Model.Agg Run.Codec.
Import ListNotations.

(* ---- output packing (printing a 53-bit mantissa dominates the cost of a model run) ----------------
   pack strips the trailing zero bits of float mantissas (same value) and replaces a repeated float
   cell by the back-reference cell  12 j 0  = "same as cell j of this result"; tools/propcfg/C11.py
   expands the references before handing the cells to the driver's standard comparators.          *)
Fixpoint strip_pos (p : positive) (e : Z) : positive * Z :=
  match p with xO q => strip_pos q (e + 1)%Z | _ => (p, e) end.
Definition strip_cell (t a b : Z) : Z * Z * Z :=
  if (t =? 1)%Z then
    match a with
    | Zpos p => let '(q, e) := strip_pos p b in (1%Z, Zpos q, e)
    | Zneg p => let '(q, e) := strip_pos p b in (1%Z, Zneg q, e)
    | Z0 => (1%Z, 0%Z, 0%Z)
    end
  else (t, a, b).
Fixpoint pack_lookup (a b : Z) (seen : list (Z * Z * Z)) : option Z :=
  match seen with
  | [] => None
  | (a', b', j) :: r => if ((a =? a') && (b =? b'))%Z%bool then Some j else pack_lookup a b r
  end.
Fixpoint pack_go (idx : Z) (seen : list (Z * Z * Z)) (l : list Z) : list Z :=
  match l with
  | t :: a :: b :: rest =>
      let '(t', a', b') := strip_cell t a b in
      if ((t' =? 1) && (65536 <=? Z.abs a'))%Z%bool then
        match pack_lookup a' b' seen with
        | Some j => 12%Z :: j :: 0%Z :: pack_go (idx + 1)%Z seen rest
        | None => t' :: a' :: b' :: pack_go (idx + 1)%Z ((a', b', idx) :: seen) rest
        end
      else t' :: a' :: b' :: pack_go (idx + 1)%Z seen rest
  | _ => l
  end.
Definition pack (l : list Z) : list Z := pack_go 0%Z [] l.
(* a group evaluated for every min_periods 0..=maxmp *)
Definition sweep (maxmp : nat) (g : nat -> list Z) : list Z := pack (flat_map g (seq 0 (S maxmp))).

(* Option<Item> where Item itself may print as null (plain family on floats): flag + value *)
Definition c_opt2 {X} (c : X -> list Z) (o : option X) : list Z :=
  match o with Some a => c_bool true ++ c a | None => c_bool false ++ c_null end.

Section Groups.
  Context {A T : Type} {NA : Num A} {DT : IsNone T A}.
  Variable tof : A -> float.
  Variable encA : A -> list Z.
  Variable encT : T -> list Z.

  (* sym: count (deprecated alias, same code) count_valid count_none vsum vmin vmax vcount_value(v) for v in vals *)
  Definition g_sym (vals : list T) (xs : list T) : list Z :=
    c_nat (count_valid xs) ++ c_nat (count_valid xs) ++ c_nat (count_none xs) ++ c_opt encA (vsum xs) ++
    c_opt encA (vmin xs) ++ c_opt encA (vmax xs) ++ flat_map (fun v => c_nat (vcount_value v xs)) vals.
  (* pos: vfirst vlast vargmin vargmax *)
  Definition g_pos (xs : list T) : list Z :=
    c_opt encT (vfirst xs) ++ c_opt encT (vlast xs) ++ c_opt c_nat (vargmin xs) ++ c_opt c_nat (vargmax xs).
  (* mom: vmean vmean_var.0 vmean_var.1 vvar vstd *)
  Definition g_mom (mp : nat) (xs : list T) : list Z :=
    c_float (vmean tof xs) ++
    (let mv := vmean_var tof mp xs in c_float (fst mv) ++ c_float (snd mv)) ++
    c_float (vvar tof mp xs) ++ c_float (vstd tof mp xs).
  (* the same layout with vmean_var as it was before the repair of defect #9 (documentation / self-test) *)
  Definition g_mom_before_fix (mp : nat) (xs : list T) : list Z :=
    c_float (vmean tof xs) ++
    (let mv := vmean_var_before_fix tof mp xs in
     c_float (fst mv) ++ c_float (snd mv) ++ c_float (snd mv) ++ c_float (nsqrt (snd mv))).
  (* sk: vskew vkurt *)
  Definition g_sk (mp : nat) (xs : list T) : list Z :=
    c_float (vskew tof mp xs) ++ c_float (vkurt tof mp xs).

  (* two series *)
  Context {T2 : Type} {DT2 : IsNone T2 A}.
  Definition g_cov (mp : nat) (xs : list T) (ys : list T2) : list Z := c_float (vcov tof mp xs ys).
  Definition g_corr (mp : nat) (xs : list T) (ys : list T2) : list Z := c_float (vcorr_pearson tof mp xs ys).

  (* masked: n_vsum_filter.0 n_vsum_filter.1 n_sum_filter vmean_filter(mp) *)
  Context {U : Type} {DU : IsNone U bool}.
  Definition g_mask (mp : nat) (xs : list T) (mask : list U) : list Z :=
    (let ns := n_vsum_filter xs mask in c_nat (fst ns) ++ encA (snd ns)) ++
    c_opt encA (n_sum_filter xs mask) ++ c_float (vmean_filter tof mp xs mask).
End Groups.

Section PlainGroup.
  Context {A : Type} {NA : Num A}.
  Variable tof : A -> float.
  Variable encA : A -> list Z.
  (* plain: count_value(v) for v in vals; first last n_sum.0 n_sum.1 sum mean max min argmax argmin
     (each Option<Item> as flag + value) *)
  Definition g_plain (vals : list A) (xs : list A) : list Z :=
    flat_map (fun v => c_nat (count_value v xs)) vals ++
    c_opt2 encA (first xs) ++ c_opt2 encA (last xs) ++
    (let ns := n_sum xs in c_nat (fst ns) ++ c_opt2 encA (snd ns)) ++
    c_opt2 encA (sum xs) ++ c_opt2 c_float (mean tof xs) ++
    c_opt2 encA (pmax xs) ++ c_opt2 encA (pmin xs) ++
    c_opt c_nat (argmax xs) ++ c_opt c_nat (argmin xs).
End PlainGroup.

(* ---- instances ---------------------------------------------------------------------------------- *)
Definition idf (x : float) : float := x.
Definition IsNoneZ : IsNone Z Z := IsNone_plain.
Definition IsNoneOptZ : IsNone (option Z) Z := IsNone_opt 0%Z.
Definition IsNoneBool : IsNone bool bool := IsNone_plain.
Definition IsNoneOptBool : IsNone (option bool) bool := IsNone_opt false.
Definition c_of (o : option float) : list Z := c_opt c_float o.
Definition c_oz (o : option Z) : list Z := c_opt c_int o.

(* f64 / f32 series, NaN is the null *)
Definition sym_f := g_sym (NA := NumF64) (DT := IsNoneF64) c_float.
Definition pos_f := g_pos (NA := NumF64) (DT := IsNoneF64) c_float.
Definition mom_f := g_mom (NA := NumF64) (DT := IsNoneF64) idf.
Definition mom_f_before_fix := g_mom_before_fix (NA := NumF64) (DT := IsNoneF64) idf.
Definition sk_f := g_sk (DT := IsNoneF64) idf.
(* Option<f64> *)
Definition sym_o := g_sym (NA := NumF64) (DT := IsNoneOptF64) c_float.
Definition pos_o := g_pos (NA := NumF64) (DT := IsNoneOptF64) c_of.
Definition mom_o := g_mom (NA := NumF64) (DT := IsNoneOptF64) idf.
Definition sk_o := g_sk (DT := IsNoneOptF64) idf.
(* i32 / i64 *)
Definition sym_z := g_sym (NA := AggNumZ) (DT := IsNoneZ) c_int.
Definition pos_z := g_pos (NA := AggNumZ) (DT := IsNoneZ) c_int.
Definition mom_z := g_mom (NA := AggNumZ) (DT := IsNoneZ) f64_ofZ.
Definition sk_z := g_sk (DT := IsNoneZ) f64_ofZ.
(* Option<i32> *)
Definition sym_oz := g_sym (NA := AggNumZ) (DT := IsNoneOptZ) c_int.
Definition pos_oz := g_pos (NA := AggNumZ) (DT := IsNoneOptZ) c_oz.
Definition mom_oz := g_mom (NA := AggNumZ) (DT := IsNoneOptZ) f64_ofZ.
Definition sk_oz := g_sk (DT := IsNoneOptZ) f64_ofZ.

(* two series: (f64, f64), (Option<f64>, Option<f64>), (f64, Option<f64>), (i32, i32), (Option<i32>, Option<i32>) *)
Definition cov_ff := g_cov (DT := IsNoneF64) (DT2 := IsNoneF64) idf.
Definition cov_oo := g_cov (DT := IsNoneOptF64) (DT2 := IsNoneOptF64) idf.
Definition cov_fo := g_cov (DT := IsNoneF64) (DT2 := IsNoneOptF64) idf.
Definition cov_zz := g_cov (DT := IsNoneZ) (DT2 := IsNoneZ) f64_ofZ.
Definition cov_ozoz := g_cov (DT := IsNoneOptZ) (DT2 := IsNoneOptZ) f64_ofZ.
Definition corr_ff := g_corr (DT := IsNoneF64) (DT2 := IsNoneF64) idf.
Definition corr_oo := g_corr (DT := IsNoneOptF64) (DT2 := IsNoneOptF64) idf.
Definition corr_fo := g_corr (DT := IsNoneF64) (DT2 := IsNoneOptF64) idf.
Definition corr_zz := g_corr (DT := IsNoneZ) (DT2 := IsNoneZ) f64_ofZ.
Definition corr_ozoz := g_corr (DT := IsNoneOptZ) (DT2 := IsNoneOptZ) f64_ofZ.

(* masked sum / mean: mask of bool or Option<bool> (numeric masks 0/1/NaN are rendered as these) *)
Definition mask_fb := g_mask (NA := NumF64) (DT := IsNoneF64) (DU := IsNoneBool) idf c_float.
Definition mask_fob := g_mask (NA := NumF64) (DT := IsNoneF64) (DU := IsNoneOptBool) idf c_float.
Definition mask_ob := g_mask (NA := NumF64) (DT := IsNoneOptF64) (DU := IsNoneBool) idf c_float.
Definition mask_oob := g_mask (NA := NumF64) (DT := IsNoneOptF64) (DU := IsNoneOptBool) idf c_float.
Definition mask_zb := g_mask (NA := AggNumZ) (DT := IsNoneZ) (DU := IsNoneBool) f64_ofZ c_int.
Definition mask_zob := g_mask (NA := AggNumZ) (DT := IsNoneZ) (DU := IsNoneOptBool) f64_ofZ c_int.
Definition mask_ozb := g_mask (NA := AggNumZ) (DT := IsNoneOptZ) (DU := IsNoneBool) f64_ofZ c_int.
Definition mask_ozob := g_mask (NA := AggNumZ) (DT := IsNoneOptZ) (DU := IsNoneOptBool) f64_ofZ c_int.

(* plain family *)
Definition plain_f := g_plain (NA := NumF64) idf c_float.
Definition plain_z := g_plain (NA := AggNumZ) f64_ofZ c_int.

(* booleans: valid family on bool / Option<bool>, plain family on bool
   boolv: vany vall count_valid count_none vfirst vlast     boolp: any all first last count_value(true) *)
Definition c_ob (o : option bool) : list Z := c_opt c_bool o.
Definition boolv_b (xs : list bool) : list Z :=
  c_bool (vany (DB := IsNoneBool) xs) ++ c_bool (vall (DB := IsNoneBool) xs) ++
  c_nat (count_valid (DT := IsNoneBool) xs) ++ c_nat (count_none (DT := IsNoneBool) xs) ++
  c_opt c_bool (vfirst (DT := IsNoneBool) xs) ++ c_opt c_bool (vlast (DT := IsNoneBool) xs).
Definition boolv_ob (xs : list (option bool)) : list Z :=
  c_bool (vany (DB := IsNoneOptBool) xs) ++ c_bool (vall (DB := IsNoneOptBool) xs) ++
  c_nat (count_valid (DT := IsNoneOptBool) xs) ++ c_nat (count_none (DT := IsNoneOptBool) xs) ++
  c_opt c_ob (vfirst (DT := IsNoneOptBool) xs) ++ c_opt c_ob (vlast (DT := IsNoneOptBool) xs).
Definition boolp (xs : list bool) : list Z :=
  c_bool (any_plain xs) ++ c_bool (all_plain xs) ++ c_opt c_bool (first xs) ++ c_opt c_bool (last xs) ++
  c_nat (fold_left (fun acc x => if Bool.eqb x true then S acc else acc) xs 0%nat).

(* ==== audit additions (notes/C11.md "Audit matrix"): Number helpers, vfold2 / vapply, to / fromas =========== *)
From Tevec Require Import Model.AggNumber.
From Tevec Require Model.Cast Run.RunC15.

(* f64::floor / f64::ceil (number.rs:221-229) on Coq's binary64: a finite float with a non-negative exponent is an
   integer already; otherwise |x| < 2^52, the integer floor is exact in binary64 (Proofs/Audit11Float.v proves
   that the result is the mathematical floor).  floor(x) in [0, 1) keeps the sign of x (-0.0 stays -0.0). *)
Definition f64_floorZ (f : float) : Z :=
  match Prim2SF f with
  | S754_finite s m e =>
      let mz := Zpos m in
      if (0 <=? e)%Z then (if s then - (mz * 2 ^ e) else mz * 2 ^ e)%Z
      else let d := (2 ^ (- e))%Z in
           if s then (- ((mz + d - 1) / d))%Z else (mz / d)%Z
  | _ => 0%Z
  end.
Definition f64_floor (x : float) : float :=
  match Prim2SF x with
  | S754_finite s m e =>
      if (0 <=? e)%Z then x
      else let z := f64_floorZ x in
           if (z =? 0)%Z then (if s then neg_zero else zero) else f64_ofZ z
  | _ => x
  end.
Definition f64_ceil (x : float) : float := (- f64_floor (- x))%float.
Definition NumRoundF64 : NumRound float := {| nfloor := f64_floor; nceil := f64_ceil |}.

Section NumGroup.
  Context {A : Type} {NA : Num A} {DN : IsNone A A} {NR : NumRound A}.
  Variable encA : A -> list Z.
  (* number: min_with(a,b) max_with(a,b) floor(a) ceil(a) abs(a); n_add(a,b,&mut 3) -> value, n; n_prod likewise;
     fold n_add from 0 over xs -> value, n; fold n_prod from 1 -> value, n; Kahan fold over xs -> sum, compensation *)
  Definition g_number (a b : A) (xs : list A) : list Z :=
    encA (min_with a b) ++ encA (max_with a b) ++ encA (number_floor a) ++ encA (number_ceil a) ++
    encA (number_abs a) ++
    (let r := n_add a b 3 in encA (fst r) ++ c_nat (snd r)) ++
    (let r := n_prod a b 3 in encA (fst r) ++ c_nat (snd r)) ++
    (let r := n_add_fold nzero xs in encA (fst r) ++ c_nat (snd r)) ++
    (let r := n_prod_fold none xs in encA (fst r) ++ c_nat (snd r)) ++
    (let r := kh_fold xs in encA (fst r) ++ encA (snd r)).
End NumGroup.
Definition num_f := g_number (NA := NumF64) (DN := IsNoneF64) (NR := NumRoundF64) c_float.
Definition num_z := g_number (NA := AggNumZ) (DN := IsNoneZ) (NR := NumRoundZ) c_int.

(* to / fromas: the casts are C15's (Model/Cast.v number_to = as_nn, instance Run/RunC15.v XF)
   cells: x.to::<i32>() x.to::<i64>() x.to::<usize>() x.to::<f64>() x.to::<f32>()  i32::fromas(x) i64::fromas(x)
          k.to::<f64>() (i64) k.to::<i32>() (i64, wraps) k.to::<usize>() (i64, wraps)  f64::fromas(k) f32::fromas(k)
          k32.to::<i64>() k32.to::<f64>() f64::fromas(k32)   with k32 = k wrapped to i32 *)
Definition cast_of (s u : Cast.nt) : Cast.nval (F := float) s -> Cast.nval (F := float) u := Cast.number_to RunC15.XF s u.
Definition num_casts (x : float) (k : Z) : list Z :=
  let k32 : Z := number_to (cast_of Cast.I64 Cast.I32) k in
  c_int (number_to (cast_of Cast.F64 Cast.I32) x) ++ c_int (number_to (cast_of Cast.F64 Cast.I64) x) ++
  c_int (number_to (cast_of Cast.F64 Cast.Usize) x) ++ c_float (number_to (cast_of Cast.F64 Cast.F64) x) ++
  c_float (number_to (cast_of Cast.F64 Cast.F32) x) ++
  c_int (number_fromas (cast_of Cast.F64 Cast.I32) x) ++ c_int (number_fromas (cast_of Cast.F64 Cast.I64) x) ++
  c_float (number_to (cast_of Cast.I64 Cast.F64) k) ++ c_int k32 ++ c_int (number_to (cast_of Cast.I64 Cast.Usize) k) ++
  c_float (number_fromas (cast_of Cast.I64 Cast.F64) k) ++ c_float (number_fromas (cast_of Cast.I64 Cast.F32) k) ++
  c_int (number_to (cast_of Cast.I32 Cast.I64) k32) ++ c_float (number_to (cast_of Cast.I32 Cast.F64) k32) ++
  c_float (number_fromas (cast_of Cast.I32 Cast.F64) k32).

(* vfold2 with a callback that is neither symmetric in its two arguments nor in the order of the pairs:
   acc -> (count + 1, 3 * acc + a - 2 * b);  vapply with state (calls, running sum, last value seen) *)
Section Fold2Group.
  Context {T T2 : Type} {DT : IsNone T float} {DT2 : IsNone T2 float}.
  Definition g_fold2 (xs : list T) (ys : list T2) : list Z :=
    let r := vfold2 (fun (acc : nat * float) a b =>
                       (S (fst acc), (3 * snd acc + unwrap a - 2 * unwrap b)%float)) (0%nat, zero) xs ys in
    c_nat (fst r) ++ c_float (snd r).
  Definition g_vapply (xs : list T) : list Z :=
    let r := vapply (fun (st : nat * float * float) v => (S (fst (fst st)), (snd (fst st) + v)%float, v))
                    (0%nat, zero, nan) xs in
    c_nat (fst (fst r)) ++ c_float (snd (fst r)) ++ c_float (snd r).
End Fold2Group.
Definition fold2_ff := g_fold2 (DT := IsNoneF64) (DT2 := IsNoneF64).
Definition fold2_oo := g_fold2 (DT := IsNoneOptF64) (DT2 := IsNoneOptF64).
Definition fold2_fo := g_fold2 (DT := IsNoneF64) (DT2 := IsNoneOptF64).
Definition vapply_f := g_vapply (DT := IsNoneF64).
Definition vapply_o := g_vapply (DT := IsNoneOptF64).

(* the sign of a zero extreme (cells carry values, not the sign of zero): vmin vmax as 1 = sign bit set / 0 / null;
   the witness of C11_perm_extrema_bitwise_refuted, replayed on the code on every run *)
Definition sign_cell (o : option float) : list Z :=
  c_opt (fun m => c_bool (match Prim2SF m with S754_zero s => s | S754_infinity s => s | S754_finite s _ _ => s | S754_nan => false end)) o.
Definition zero_sign_f (xs : list float) : list Z :=
  sign_cell (vmin (NA := NumF64) (DT := IsNoneF64) xs) ++ sign_cell (vmax (NA := NumF64) (DT := IsNoneF64) xs).
