(* Run/RunC07.v — case interpreter for C07: accessor coherence of the container models. *)
From Coq Require Import ZArith List Floats.
From Tevec Require Import Base.Prelude Model.Containers Model.PolarsOut Run.Codec.
Import ListNotations.

(* the observation every container is asked for, given (len, get, to_list, slice, try_as_slice):
   len; checked get(i) for i in 0..=len (Err beyond the end); forward iteration; backward iteration;
   every slice(a,b) with 0 <= a <= b <= len; the contiguous-slice view (null when not offered)     *)
Definition observe {A} (c : A -> list Z) (l : list A) (try_slice : option (list A)) : list Z :=
  let len := length l in
  c_nat len
  ++ flat_map (fun i => match nth_error l i with Some x => c x | None => c_err end) (seq 0 (S len))
  ++ c_sep ++ cells c l ++ c_sep ++ cells c (rev l) ++ c_sep
  ++ flat_map (fun a => flat_map (fun b => cells c (seg a b l) ++ c_sep) (seq a (S len - a))) (seq 0 (S len))
  ++ match try_slice with Some s => c_int 1 ++ cells c s | None => c_null end.

(* VecDeque observed through as_slices() = (first, second): the ring with buf = second ++ first *)
Definition run_ring (first second : list float) : list Z :=
  let r := {| rbuf := second ++ first; rhead := length second; rlen := length first + length second |} in
  observe c_float (ring_to_list r) (ring_try_as_slice r).

(* ndarray view observed as (base memory, offset, stride, len) *)
Definition run_strided (base : list float) (off : nat) (step : Z) (len : nat) : list Z :=
  let s := {| sbase := base; soff := off; sstep := step; slen := len |} in
  observe c_float (strided_to_list s) (strided_try_as_slice s).

(* plain Vec / array / slice / Arc<Vec>: always offers the slice view *)
Definition run_vec (l : list float) : list Z := observe c_float l (Some l).
(* containers that never offer a slice view (option view, chunked arrays) *)
Definition run_noslice_opt (l : list (option float)) : list Z := observe (c_opt c_float) l None.
Definition run_chunked (c : chunked float) : list Z := observe (c_opt c_float) (chunked_to_list c) None.

(* the Polars staging buffer (Model/PolarsOut.v; polars.rs ChunkedUninit): `n` slots, the stores (slot, value) in the
   order they were made — through UninitVec::uset and UninitRefMut::uset —, then assume_init, observed as an array *)
Definition run_pstage (n : nat) (writes : list (nat * option float)) : list Z :=
  run_chunked (pstage_assume_init
                 (fold_left (fun b (w : nat * option float) => pstage_uset (fst w) (snd w) b) writes (pstage_uninit n))).
(* ---- valid get family (vget / uvget / to_opt_iter / iter_cast / opt_iter_cast) -------------------------------------- *)
Definition f_is_nan (x : float) : bool := negb (PrimFloat.eqb x x).
Definition f_to_opt (x : float) : option float := if f_is_nan x then None else Some x.
(* `x as i32`: truncation toward zero, saturating, NaN -> 0 *)
Definition f2i32 (x : float) : Z :=
  let sat z := Z.max (- 2 ^ 31) (Z.min (2 ^ 31 - 1) z) in
  match Prim2SF x with
  | S754_finite s m e =>
      let a := if (0 <=? e)%Z then (Z.pos m * 2 ^ e)%Z else (Z.pos m / 2 ^ (- e))%Z in
      sat (if s then (- a)%Z else a)
  | S754_infinity s => if s then (- 2 ^ 31)%Z else (2 ^ 31 - 1)%Z
  | _ => 0%Z
  end.

(* T = f64 (to_o = NaN test, unw = id) or T = Option<f64> (the option view; to_o = id, unw = NaN for None).
   ints: also the i32 casts of the elements themselves (not offered for Option<f64> -> i32: i32 has no null) *)
Definition observe_valid {T} (c : T -> list Z) (to_o : T -> option float) (unw : T -> float) (ints : bool)
    (len : nat) (get : nat -> option T) (l : list T) : list Z :=
  flat_map (fun i => c_opt c_float (valid_get to_o len get i)) (seq 0 (S len))
  ++ c_sep ++ flat_map (fun i => c_opt c_float (uvalid_get to_o get i)) (seq 0 len)
  ++ c_sep ++ cells (c_opt c_float) (to_opt_iter_m to_o l)
  ++ c_sep ++ cells c_float (iter_cast_m unw l)
  ++ c_sep ++ (if ints then cells c_int (iter_cast_m (fun x => f2i32 (unw x)) l) else [])
  ++ c_sep ++ cells (c_opt c_float) (opt_iter_cast_m to_o (fun x => x) l)
  ++ c_sep ++ cells (c_opt c_int) (opt_iter_cast_m to_o f2i32 l).

Definition run_ring_valid (first second : list float) : list Z :=
  let r := {| rbuf := second ++ first; rhead := length second; rlen := length first + length second |} in
  observe_valid c_float f_to_opt (fun x => x) true (rlen r) (ring_get r) (ring_to_list r).
Definition run_strided_valid (base : list float) (off : nat) (step : Z) (len : nat) : list Z :=
  let s := {| sbase := base; soff := off; sstep := step; slen := len |} in
  observe_valid c_float f_to_opt (fun x => x) true (slen s) (strided_get s) (strided_to_list s).
Definition run_vec_valid (l : list float) : list Z :=
  observe_valid c_float f_to_opt (fun x => x) true (length l) (nth_error l) l.
Definition run_opt_valid (l : list (option float)) : list Z :=
  observe_valid (c_opt c_float) (fun o => o) (fun o => match o with Some x => x | None => nan end) false
                (length l) (nth_error l) l.

(* ---- mutable accessors ----------------------------------------------------------------------------------------------- *)
Definition marker (i : nat) : float := fl (Z.of_nat (1000 + i)) 0.

(* get_mut(i) for i in 0..=len (None beyond the end), uget_mut(i) for i < len, and a write through
   try_as_slice_mut()[k] for every k of the slice (null when not offered): after each write the whole
   sequence is re-observed                                                                             *)
Definition observe_mut {C} (to_list : C -> list float) (len : nat) (uset : nat -> float -> option C)
    (slice_set : nat -> float -> option (option C)) : list Z :=
  flat_map (fun i => match checked_set len uset i (marker i) with
                     | Some c' => cells c_float (to_list c') | None => c_err end ++ c_sep) (seq 0 (S len))
  ++ c_sep
  ++ flat_map (fun i => match uset i (marker i) with
                        | Some c' => cells c_float (to_list c') | None => c_panic OtherPanic end ++ c_sep) (seq 0 len)
  ++ c_sep
  ++ match slice_set 0 (marker 0) with
     | None => c_null
     | Some _ => c_int 1 ++ c_nat len
                 ++ flat_map (fun k => match slice_set k (marker k) with
                                       | Some (Some c') => cells c_float (to_list c') | _ => c_err end ++ c_sep) (seq 0 len)
     end.

Definition run_ring_mut (first second : list float) : list Z :=
  let r := {| rbuf := second ++ first; rhead := length second; rlen := length first + length second |} in
  observe_mut (@ring_to_list float) (rlen r) (ring_uset r) (ring_slice_mut_set r).
Definition run_strided_mut (base : list float) (off : nat) (step : Z) (len : nat) : list Z :=
  let s := {| sbase := base; soff := off; sstep := step; slen := len |} in
  observe_mut (@strided_to_list float) (slen s) (strided_uset s) (strided_slice_mut_set s).
Definition run_vec_mut (l : list float) : list Z :=
  observe_mut (fun l' : list float => l') (length l) (list_uset l)
              (fun k v => Some (list_uset l k v)).

(* iter.rs IntoTIter::into_titer (consumes the container): forward and backward *)
Definition run_into_titer (l : list float) : list Z := cells c_float l ++ c_sep ++ cells c_float (rev l).
Definition run_into_titer_ring (first second : list float) : list Z :=
  let r := {| rbuf := second ++ first; rhead := length second; rlen := length first + length second |} in
  run_into_titer (ring_to_list r).
