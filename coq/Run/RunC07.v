(* Run/RunC07.v — case interpreter for C07: accessor coherence of the container models. *)
From Coq Require Import ZArith List Floats.
From Tevec Require Import Base.Prelude Model.Containers Model.PolarsOut Run.Codec.
Import ListNotations.

(* the observation every container is asked for, given (len, get, to_list, slice, try_as_slice):
   len; checked get(i) for i in 0..=len (Err beyond the end); forward iteration; backward iteration;
   every slice(a,b) with 0 <= a <= b <= len; the contiguous-slice view (null when not offered)     *)
Definition observe {A} (c : A -> list Z) (l : list A) (try_slice : option (list A)) : list Z :=
  let len := length l in
  c_nat len
  ++ flat_map (fun i => match nth_error l i with Some x => c x | None => c_err end) (seq 0 (S len))
  ++ c_sep ++ cells c l ++ c_sep ++ cells c (rev l) ++ c_sep
  ++ flat_map (fun a => flat_map (fun b => cells c (seg a b l) ++ c_sep) (seq a (S len - a))) (seq 0 (S len))
  ++ match try_slice with Some s => c_int 1 ++ cells c s | None => c_null end.

(* VecDeque observed through as_slices() = (first, second): the ring with buf = second ++ first *)
Definition run_ring (first second : list float) : list Z :=
  let r := {| rbuf := second ++ first; rhead := length second; rlen := length first + length second |} in
  observe c_float (ring_to_list r) (ring_try_as_slice r).

(* ndarray view observed as (base memory, offset, stride, len) *)
Definition run_strided (base : list float) (off : nat) (step : Z) (len : nat) : list Z :=
  let s := {| sbase := base; soff := off; sstep := step; slen := len |} in
  observe c_float (strided_to_list s) (strided_try_as_slice s).

(* plain Vec / array / slice / Arc<Vec>: always offers the slice view *)
Definition run_vec (l : list float) : list Z := observe c_float l (Some l).
(* containers that never offer a slice view (option view, chunked arrays) *)
Definition run_noslice_opt (l : list (option float)) : list Z := observe (c_opt c_float) l None.
Definition run_chunked (c : chunked float) : list Z := observe (c_opt c_float) (chunked_to_list c) None.

(* the Polars staging buffer (Model/PolarsOut.v; polars.rs ChunkedUninit): `n` slots, the stores (slot, value) in the
   order they were made — through UninitVec::uset and UninitRefMut::uset —, then assume_init, observed as an array *)
Definition run_pstage (n : nat) (writes : list (nat * option float)) : list Z :=
  run_chunked (pstage_assume_init
                 (fold_left (fun b (w : nat * option float) => pstage_uset (fst w) (snd w) b) writes (pstage_uninit n))).
