(* Run/RunC15.v — executable instance of Model/Cast.v over PrimFloat (binary64; f32 values are kept widened,
   exactly as the harness prints them) and the case interpreters of property C15.                        *)
From Coq Require Import ZArith List Bool Floats Uint63.
From Tevec Require Import Base.Prelude Model.Cast Run.Codec.
Import ListNotations.
Local Open Scope Z_scope.

(* ------------------------------------------------------------------ *)
(* Correctly rounded (nearest-even) conversion of a positive rational n/d to precision p with minimal
   exponent emin: returns (q, e), the value q * 2^e.                                                  *)
Definition round_pos (p emin : Z) (n d : Z) : Z * Z :=
  let k := Z.log2 n - Z.log2 d in
  let scaled (e : Z) : Z * Z := if 0 <=? e then (n, d * 2 ^ e) else (n * 2 ^ (- e), d) in
  let e1 := k - p + 1 in
  let '(n1, d1) := scaled e1 in
  let e2 := if n1 / d1 <? 2 ^ (p - 1) then e1 - 1 else e1 in
  let e := Z.max e2 emin in
  let '(nn, dd) := scaled e in
  let q := nn / dd in
  let r := nn - q * dd in
  let q' := if (dd <? 2 * r) || ((dd =? 2 * r) && Z.odd q) then q + 1 else q in
  (q', e).

(* the binary64 value q * 2^e (q < 2^54) *)
Definition mk (q e : Z) : float := Z.ldexp (of_uint63 (Uint63.of_Z q)) e.

Definition round_rat64 (neg : bool) (n d : Z) : float :=
  if n =? 0 then (if neg then neg_zero else zero) else
  let '(q, e) := round_pos 53 (-1074) n d in
  let a := if 1024 <=? Z.log2 q + e then infinity else mk q e in
  if neg then (- a)%float else a.
Definition round_rat32 (neg : bool) (n d : Z) : float :=
  if n =? 0 then (if neg then neg_zero else zero) else
  let '(q, e) := round_pos 24 (-149) n d in
  let a := if 128 <=? Z.log2 q + e then infinity else mk q e in
  if neg then (- a)%float else a.

Definition x_z2f64 (z : Z) : float := round_rat64 (z <? 0) (Z.abs z) 1.
Definition x_z2f32 (z : Z) : float := round_rat32 (z <? 0) (Z.abs z) 1.

Definition x_round32 (f : float) : float :=
  match Prim2SF f with
  | S754_finite s m e => if 0 <=? e then round_rat32 s (Z.pos m * 2 ^ e) 1 else round_rat32 s (Z.pos m) (2 ^ (- e))
  | _ => f
  end.

Definition x_ftrunc (f : float) : fcls :=
  match Prim2SF f with
  | S754_zero _ => FFin 0
  | S754_infinity false => FPInf
  | S754_infinity true => FNInf
  | S754_nan => FNaN
  | S754_finite s m e =>
      let a := if 0 <=? e then Z.pos m * 2 ^ e else Z.pos m / 2 ^ (- e) in
      FFin (if s then - a else a)
  end.

Definition x_fcmp (a b : float) : option comparison :=
  match PrimFloat.compare a b with
  | FEq => Some Eq | FLt => Some Lt | FGt => Some Gt | FNotComparable => None
  end.

(* Display of floats, for the values the harness selects (`simple_display` in c15.rs): NaN, +-inf, +-0,
   integers below 2^53 (2^24 for f32), and multiples of 1/8 below 2^20 (2^10 for f32, whose shortest
   round-trip text is shorter than the exact expansion above that); anything else gives "?".       *)
Definition s_q : str := [63].
Definition x_f2s (intbound fracbound : Z) (f : float) : str :=
  match Prim2SF f with
  | S754_nan => [78; 97; 78]
  | S754_infinity false => [105; 110; 102]
  | S754_infinity true => [45; 105; 110; 102]
  | S754_zero false => [48]
  | S754_zero true => [45; 48]
  | S754_finite s m0 e0 =>
      (* Prim2SF returns a 53-bit mantissa: strip the common power of two first *)
      let g := if e0 <? 0 then Z.gcd (Z.pos m0) (2 ^ (- e0)) else 1 in
      let m := Z.pos m0 / g in
      let e := e0 + Z.log2 g in
      let sign : str := if s then [45] else [] in
      if 0 <=? e then
        let a := m * 2 ^ e in
        if a <? intbound then sign ++ z_to_string a else s_q
      else if (-3 <=? e) && (m <? fracbound) then
        (* m / 2^k, k <= 3: integer part and the exact decimal fraction (m odd, so k digits) *)
        let k := - e in
        let ip := m / 2 ^ k in
        let fr := (m mod 2 ^ k) * 10 ^ k / 2 ^ k in
        let frs := z_to_string fr in
        sign ++ z_to_string ip ++ [46] ++ repeat 48 (Z.to_nat k - length frs) ++ frs
      else s_q
  end.

(* FromStr of floats (core::num::dec2flt): [+-] ( inf | infinity | nan | digits [. digits] [(e|E) [+-] digits] ),
   at least one mantissa digit, correctly rounded.                                                              *)
Definition lower (c : Z) : Z := if (65 <=? c) && (c <=? 90) then c + 32 else c.
Fixpoint take_digits (l : str) (acc : Z) (n : Z) : Z * Z * str :=
  match l with
  | c :: r => if (48 <=? c) && (c <=? 57) then take_digits r (acc * 10 + (c - 48)) (n + 1) else (acc, n, l)
  | [] => (acc, n, l)
  end.
Definition x_s2f (single : bool) (s : str) : option float :=
  let '(neg, body) := match s with 45 :: r => (true, r) | 43 :: r => (false, r) | _ => (false, s) end in
  let signed (a : float) := if neg then (- a)%float else a in
  let lb := map lower body in
  if str_eqb lb [105; 110; 102] || str_eqb lb [105; 110; 102; 105; 110; 105; 116; 121] then Some (signed infinity)
  else if str_eqb lb [110; 97; 110] then Some nan
  else
    let '(ip, ni, r1) := take_digits body 0 0 in
    let '(m, nf, r2) := match r1 with 46 :: r => take_digits r ip 0 | _ => (ip, 0, r1) end in
    if ni + nf =? 0 then None else
    let exp10 : option Z :=
        match r2 with
        | [] => Some 0
        | c :: r => if lower c =? 101 then
                      let '(eneg, r') := match r with 45 :: q => (true, q) | 43 :: q => (false, q) | _ => (false, r) end in
                      let '(ev, ne, r3) := take_digits r' 0 0 in
                      match r3 with [] => if ne =? 0 then None else Some (if eneg then - ev else ev) | _ => None end
                    else None
        end in
    match exp10 with
    | None => None
    | Some ex =>
        let k := ex - nf in
        let '(n, d) := if 0 <=? k then (m * 10 ^ k, 1) else (m, 10 ^ (- k)) in
        Some (if single then round_rat32 neg n d else round_rat64 neg n d)
    end.

Definition XF : Ext float := {|
  f_nan := nan; feq := PrimFloat.eqb; fabs := abs; fcmp := x_fcmp; ftrunc := x_ftrunc;
  round32 := x_round32; z2f32 := x_z2f32; z2f64 := x_z2f64;
  f2s32 := x_f2s (2 ^ 24) (2 ^ 13); f2s64 := x_f2s (2 ^ 53) (2 ^ 23);
  s2f32 := x_s2f true; s2f64 := x_s2f false;
  td2s := fun _ => s_q;                    (* Debug text of TimeDelta: only its nullness is compared *)
  s2dt := fun _ => None; s2td := fun _ => None   (* the date / duration parsers belong to C18; pairs not exercised *)
|}.

(* ------------------------------------------------------------------ *)
(* Encoders *)

Definition c_str (s : str) : list Z := c_int (Z.of_nat (length s)) ++ flat_map c_int s.
Definition c_cmp (c : comparison) : list Z := c_int (match c with Lt => -1 | Eq => 0 | Gt => 1 end).

Definition enc_n (n : nt) : @nval float n -> list Z :=
  match n return @nval float n -> list Z with
  | F32 | F64 => c_float
  | _ => c_int
  end.
Definition enc_b (b : bt) : @bval float b -> list Z :=
  match b return @bval float b -> list Z with
  | N n => enc_n n
  | Bool => c_bool
  | Str => c_str
  | DT => c_int
  | TD => fun d => c_int (fst d) ++ c_int (snd d)
  | TM => c_int
  end.
Definition enc_o {A} (c : A -> list Z) (o : option A) : list Z :=
  match o with Some a => c_int 1 ++ c a | None => c_int 0 end.
Definition enc (t : ty) : @val float t -> list Z :=
  match t return @val float t -> list Z with
  | Plain b => enc_b b
  | Opt b => enc_o (enc_b b)
  end.
Definition enc_r {A} (c : A -> list Z) (r : res A) : list Z :=
  match r with Ok a => c a | Panic k => c_panic k end.

(* ------------------------------------------------------------------ *)
(* Case interpreters *)

(* fn=impl: does `impl Cast<t> for s` exist *)
Definition run_impl (s t : ty) : list Z := c_bool (implemented s t).

(* fn=cast *)
Definition run_cast (s t : ty) (v : @val float s) : list Z :=
  if implemented s t then enc_r (enc t) (cast XF s t v) else c_err.

(* TimeDelta -> String: only the nullness of the text is compared *)
Definition run_cast_strnull (s : ty) (v : @val float s) : list Z :=
  if implemented s (Plain Str) then
    enc_r (fun w : str => c_bool (is_none XF (Plain Str) w)) (cast XF s (Plain Str) v)
  else c_err.

(* fn=nullpres — the property itself, evaluated on the real code: [is_none source; is_none result] must be
   [n; n].  The model side is the specification; pairs of the known-finding class carry c_known 1.  Values whose
   conversion collides with the i64::MIN sentinel of the time types or overflows (DESIGN 5.2) keep the model's
   own answer (documented premise of C15_cast_nonnull_preserved).                                           *)
Definition sentinel_free (s t : ty) (v : @val float s) : bool :=
  match cast XF s t v with
  | Ok w => match t return @val float t -> bool with
            | Plain DT | Plain TM | Plain TD => fun w => negb (is_none XF _ w) || is_none XF s v
            | _ => fun _ => true
            end w
  | Panic _ => true
  end.
Definition td_in_range (s : ty) (v : @val float s) : bool :=
  match s return @val float s -> bool with
  | Plain TD => fun d => match td_micros d with Some _ => true | None => false end
  | _ => fun _ => true
  end v.
Definition run_nullpres (s t : ty) (v : @val float s) : list Z :=
  let n := is_none XF s v in
  match cast XF s t v with
  | Panic k => c_panic k
  | Ok w =>
      c_bool n ++
      (if n || (sentinel_free s t v && td_in_range s v) then c_bool n else c_bool (is_none XF t w)) ++
      (if kf_text_null s t then c_known 1 else [])
  end.

(* fn=isnone: the whole dictionary on one value *)
Definition bool_opt (shape_opt : bool) (b : bt) : ty := if shape_opt then Opt b else Plain b.
Definition run_isnone (t : ty) (v : @val float t) : list Z :=
  let ot := Opt (base t) in
  c_bool (is_none XF t v) ++ c_bool (not_none XF t v)
  ++ enc_o (enc_b (base t)) (to_opt XF t v)
  ++ enc_o (enc_b (base t)) (as_opt XF t v)
  ++ enc_r (enc_b (base t)) (unwrap t v)
  ++ enc_r (enc t) (from_opt XF t (to_opt XF t v))
  ++ enc_r (enc t) (map_ XF t t (fun x => x) v)
  ++ enc_r (enc ot) (map_ XF t ot (fun x => x) v).
(* from_inner into T and into Option<T>, and into_cast in both shapes, on a raw inner value (possibly null) *)
Definition run_from_inner (b : bt) (x : @bval float b) : list Z :=
  enc (Plain b) (from_inner XF (Plain b) x) ++ enc (Opt b) (from_inner XF (Opt b) x)
  ++ enc (Plain b) (into_cast XF false b x) ++ enc (Opt b) (into_cast XF true b x).
Definition run_none (t : ty) : list Z :=
  enc_r (fun w => enc t w ++ c_bool (is_none XF t w)) (none XF t).
Definition run_vabs (shape_opt : bool) (n : nt) (v : @val float (bool_opt shape_opt (N n))) : list Z :=
  (if shape_opt as s return @val float (bool_opt s (N n)) -> list Z
   then fun v => enc_r (enc (Opt (N n))) (vabs XF true n v)
   else fun v => enc_r (enc (Plain (N n))) (vabs XF false n v)) v.

(* fn=number: Number::f32 f64 i32 i64 usize, to::<u8>, min_ / max_ (integers) *)
Definition run_number (n : nt) (v : @nval float n) : list Z :=
  enc_n F32 (number_to XF n F32 v) ++ enc_n F64 (number_to XF n F64 v) ++ enc_n I32 (number_to XF n I32 v)
  ++ enc_n I64 (number_to XF n I64 v) ++ enc_n Usize (number_to XF n Usize v) ++ enc_n U8 (number_to XF n U8 v)
  ++ (if is_float n then [] else c_int (number_min n) ++ c_int (number_max n)).
Definition run_bool_ (b : bool) : list Z := c_bool (bool_ b) ++ c_bool (bool_ b).

(* fn=order: both comparators on one pair *)
Definition run_order (t : ty) (a b : @val float t) : list Z :=
  enc_r c_cmp (sort_cmp XF t a b) ++ enc_r c_cmp (sort_cmp_rev XF t a b).

(* fn=axioms: number of violations of the order axioms over all pairs / triples of a value list, for both
   comparators: [refl; antisym; trans; nulls-last], expected all 0 (computed the same way by the harness
   from the real comparators)                                                                           *)
Definition le_c (r : res comparison) : bool := match r with Ok Gt => false | Ok _ => true | Panic _ => false end.
Definition count {A} (p : A -> bool) (l : list A) : Z := Z.of_nat (length (filter p l)).
Definition run_axioms (t : ty) (l : list (@val float t)) : list Z :=
  let one (cmp : @val float t -> @val float t -> res comparison) :=
    let refl := count (fun a => negb (match cmp a a with Ok Eq => true | _ => false end)) l in
    let pairs := list_prod l l in
    let antisym := count (fun p => negb (match cmp (fst p) (snd p), cmp (snd p) (fst p) with
                                         | Ok c1, Ok c2 => match c1, c2 with Lt, Gt | Gt, Lt | Eq, Eq => true | _, _ => false end
                                         | _, _ => false end)) pairs in
    let trans := count (fun q => let '(a, (b, c)) := q in
                                 le_c (cmp a b) && le_c (cmp b c) && negb (le_c (cmp a c)))
                       (list_prod l pairs) in
    let nlast := count (fun p => is_none XF t (fst p) && negb (is_none XF t (snd p)) &&
                                 negb (match cmp (fst p) (snd p) with Ok Gt => true | _ => false end)) pairs in
    c_int refl ++ c_int antisym ++ c_int trans ++ c_int nlast in
  one (sort_cmp XF t) ++ one (sort_cmp_rev XF t).

(* fn=sorted: stable insertion sort with the model comparator = slice::sort_by (stable) with the real one *)
Section Sort.
  Context {A : Type} (le : A -> A -> bool).
  Fixpoint insert (x : A) (l : list A) : list A :=
    match l with
    | [] => [x]
    | y :: r => if le x y then x :: l else y :: insert x r     (* x goes after every y it is not strictly below *)
    end.
End Sort.
Definition run_sorted (rev : bool) (t : ty) (l : list (@val float t)) : list Z :=
  let cmp := if rev then sort_cmp_rev XF t else sort_cmp XF t in
  (* stable: a later element is placed after the earlier elements it compares equal to *)
  let lt (x y : @val float t) := match cmp x y with Ok Lt => true | _ => false end in
  flat_map (enc t) (fold_left (fun acc x => insert lt x acc) l []).

(* ---- IsNone for Vec<i32> (C15 audit): is_none, not_none, to_opt, as_opt, unwrap, from_opt(to_opt), none().is_none,
        from_opt(None); a vector is encoded as its length followed by its elements *)
Definition enc_vec (v : list Z) : list Z := c_nat (length v) ++ cells c_int v.
Definition enc_ovec (o : option (list Z)) : list Z :=
  match o with Some v => c_int 1 ++ enc_vec v | None => c_int 0 end.
Definition run_vecnone (v : list Z) : list Z :=
  c_bool (vec_is_none v) ++ c_bool (vec_not_none v) ++ enc_ovec (vec_to_opt v) ++ enc_ovec (vec_as_opt v)
  ++ enc_r enc_vec (vec_unwrap v) ++ enc_vec (vec_from_opt (vec_to_opt v))
  ++ c_bool (vec_is_none (@vec_none Z)) ++ enc_vec (vec_from_opt (@None (list Z))).
