(* Run/RunC13.v — case interpreters for C13: the mapping-operation models at the four element types
   the harness drives (f64, Option<f64>, i32, Option<i32>).                                        *)
From Coq Require Import ZArith List Floats.
From Tevec Require Import Base.Prelude Model.MapOps Run.Codec.
Import ListNotations.
Local Open Scope Z_scope.

(* an element type with everything the interpreters need *)
Record TyPack := {
  ty : Type; inner : Type;
  dict : NullDict ty inner;
  enc : ty -> list Z;
  lt : inner -> inner -> bool;
  tsub : ty -> ty -> ty;            (* only used at f64 / i32 (vdiff needs Sub) *)
  iabs : inner -> inner;
  tcast : ty -> float;              (* Cast<f64> *)
}.

Definition f_lt (a b : float) : bool := (a <? b)%float.
Definition z2f (z : Z) : float := fl z 0.

Definition pF : TyPack :=
  {| ty := float; inner := float; dict := dict_float PrimFloat.is_nan nan; enc := c_float;
     lt := f_lt; tsub := PrimFloat.sub; iabs := PrimFloat.abs; tcast := fun x => x |}.
Definition pOF : TyPack :=
  {| ty := option float; inner := float; dict := dict_opt PrimFloat.is_nan; enc := c_opt c_float;
     lt := f_lt; tsub := fun a _ => a; iabs := PrimFloat.abs;
     tcast := fun o => match o with Some x => x | None => nan end |}.
Definition pI : TyPack :=
  {| ty := Z; inner := Z; dict := dict_int; enc := c_int;
     lt := Z.ltb; tsub := Z.sub; iabs := Z.abs; tcast := z2f |}.
Definition pOI : TyPack :=
  {| ty := option Z; inner := Z; dict := dict_opt (fun _ : Z => false); enc := c_opt c_int;
     lt := Z.ltb; tsub := fun a _ => a; iabs := Z.abs;
     tcast := fun o => match o with Some x => z2f x | None => nan end |}.

Definition f64ops : FOps float :=
  {| fnanv := nan; fisnan := PrimFloat.is_nan; fis0 := fun a => (a =? 0)%float;
     fdiv := PrimFloat.div; fsub := PrimFloat.sub; fone := one |}.

(* result encoding: the announced length (size_hint of the fresh iterator = length of the result)
   followed by the items; a panic is one cell *)
Definition enc_res {A} (c : A -> list Z) (r : res (list A)) : list Z :=
  match r with
  | Ok l => c_nat (length l) ++ cells c l
  | Panic k => c_panic k
  end.

(* mask functions the harness can also write in Rust:
   0 = is_none;  1 = not none and inner < c;  2 = is_none or inner < c *)
Definition mask_of (p : TyPack) (code : Z) (c : inner p) (v : ty p) : bool :=
  let below := match unwrap (dict p) v with Ok i => lt p i c | Panic _ => false end in
  if code =? 0 then is_none (dict p) v
  else if code =? 1 then negb (is_none (dict p) v) && below
  else is_none (dict p) v || below.

Section Runners.
  Variable p : TyPack.
  Definition r_shift (n : Z) (v : ty p) (xs : list (ty p)) := enc_res (enc p) (shift n v xs).
  Definition r_vshift (n : Z) (v : option (ty p)) (xs : list (ty p)) :=
    enc_res (enc p) (vshift (dict p) n v xs).
  Definition r_vdiff (n : Z) (v : option (ty p)) (xs : list (ty p)) :=
    enc_res (enc p) (vdiff (dict p) (tsub p) n v xs).
  Definition r_vpct (n : Z) (xs : list (ty p)) :=
    enc_res c_float (vpct_change (dict p) f64ops (tcast p) n xs).
  Definition r_ffill (v : option (ty p)) (xs : list (ty p)) := enc_res (enc p) (ffill (dict p) v xs).
  Definition r_bfill (v : option (ty p)) (xs : list (ty p)) := enc_res (enc p) (bfill (dict p) v xs).
  Definition r_ffill_mask (code : Z) (c : inner p) (v : option (ty p)) (xs : list (ty p)) :=
    enc_res (enc p) (ffill_mask (dict p) (mask_of p code c) v xs).
  Definition r_bfill_mask (code : Z) (c : inner p) (v : option (ty p)) (xs : list (ty p)) :=
    enc_res (enc p) (bfill_mask (dict p) (mask_of p code c) v xs).
  Definition r_fill (v : ty p) (xs : list (ty p)) := enc_res (enc p) (Ok (fill (dict p) v xs)).
  Definition r_fill_mask (code : Z) (c : inner p) (v : ty p) (xs : list (ty p)) :=
    enc_res (enc p) (Ok (fill_mask (mask_of p code c) v xs)).
  Definition r_vclip (lo hi : ty p) (xs : list (ty p)) :=
    enc_res (enc p) (vclip (dict p) (lt p) lo hi xs).
  Definition r_vabs (xs : list (ty p)) := enc_res (enc p) (vabs (dict p) (iabs p) xs).
  (* v.titer().vshift(n1, f1).shift(n2, f2).ffill(f3).vabs() *)
  Definition r_pipe (n1 : Z) (f1 : option (ty p)) (n2 : Z) (f2 : ty p) (f3 : option (ty p))
             (xs : list (ty p)) :=
    enc_res (enc p)
      (do a <- vshift (dict p) n1 f1 xs;
       do b <- shift n2 f2 a;
       do c <- ffill (dict p) f3 b;
       vabs (dict p) (iabs p) c).
End Runners.

(* MapBasic::abs exists only for Number items (f64, i32) *)
Definition r_abs_f (xs : list float) := enc_res c_float (Ok (abs_map PrimFloat.abs xs)).
Definition r_abs_i (xs : list Z) := enc_res c_int (Ok (abs_map Z.abs xs)).
