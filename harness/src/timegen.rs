//! Shared by the c16 and c17 binaries (`#[path = "../timegen.rs"] mod timegen;`): unit dispatch,
//! value generators, TimeDelta construction / observation, cell helpers.  No tevec prelude here.
#![allow(dead_code)]
use std::panic::AssertUnwindSafe;

pub use tea_time::unit::{Microsecond, Millisecond, Nanosecond, Second};
pub use tea_time::{DateTime, Time, TimeDelta};
pub use tevec::export::chrono::{
    DateTime as CrDateTime, Datelike, Duration, NaiveDate, NaiveDateTime, NaiveTime, Timelike as CrTimelike, Utc,
};
use vh::*;

pub const UNITS: [&str; 4] = ["Sec", "Milli", "Micro", "Nano"];
pub const PER_SEC: [i64; 4] = [1, 1_000, 1_000_000, 1_000_000_000];
pub const UNIT_NS: [i64; 4] = [1_000_000_000, 1_000_000, 1_000, 1];
pub const NAT: i64 = i64::MIN;
/// days since 1970-01-01 of chrono's NaiveDate::MIN / MAX
pub const CR_MIN_DAY: i64 = -96_465_292;
pub const CR_MAX_DAY: i64 = 95_026_236;

/// run `$body` with the type alias `$U` bound to the unit type number `$u` (0 = Second .. 3 = Nanosecond)
#[macro_export]
macro_rules! with_unit {
    ($u:expr, $U:ident => $body:expr) => {
        match $u {
            0 => { type $U = Second; $body }
            1 => { type $U = Millisecond; $body }
            2 => { type $U = Microsecond; $body }
            _ => { type $U = Nanosecond; $body }
        }
    };
}

/// History independence (seed C17-4: a memo of the last chrono conversion keyed by the raw tick count and shared by
/// all units).  Every other call converts the same raw value at the three OTHER units first (the last one differs
/// with x), through a rotating choice of gateway operation; the model is stateless, so the case that follows must
/// still agree with it.
pub fn prime(x: i64, u: usize) {
    use std::sync::atomic::{AtomicUsize, Ordering};
    static N: AtomicUsize = AtomicUsize::new(0);
    let n = N.fetch_add(1, Ordering::Relaxed);
    if n % 2 == 1 {
        return;
    }
    let rot = (x.rem_euclid(3)) as usize;
    for k in 0..3 {
        let v = (u + 1 + (k + rot) % 3) % 4;
        let op = (n / 2 + k) % 3;
        let _ = guarded(AssertUnwindSafe(|| {
            with_unit!(v, V => {
                let d = DateTime::<V>::new(x);
                match op {
                    0 => { let _ = d.as_cr(); }
                    1 => { let _ = d - TimeDelta::parse("1h").unwrap(); }
                    _ => { let _ = d.strftime(None); }
                }
            })
        }));
    }
}

/// one guarded evaluation -> cells (a panic becomes one Panic cell)
pub fn g<R>(f: impl FnOnce() -> R, enc: impl FnOnce(R) -> Vec<Cell>) -> Vec<Cell> {
    match guarded(AssertUnwindSafe(f)) {
        Ok(v) => enc(v),
        Err(k) => vec![Cell::Panic(k)],
    }
}
pub fn gi(f: impl FnOnce() -> i64) -> Vec<Cell> {
    g(f, |v| vec![Cell::Int(v as i128)])
}
pub fn int(v: i64) -> Cell {
    Cell::Int(v as i128)
}
pub fn opt_int(v: Option<i64>) -> Cell {
    match v {
        Some(x) => Cell::Int(x as i128),
        None => Cell::Null,
    }
}
pub fn boolc(b: bool) -> Cell {
    Cell::Int(b as i128)
}

/// a chrono Duration of `ns` nanoseconds (any value inside chrono's range: +- i64::MAX ms)
pub fn dur(ns: i128) -> Duration {
    let secs = ns.div_euclid(1_000_000_000) as i64;
    let sub = ns.rem_euclid(1_000_000_000) as u32;
    Duration::new(secs, sub).expect("generator: duration out of chrono range")
}
pub fn td(months: i32, ns: i128) -> TimeDelta {
    TimeDelta { months, inner: dur(ns) }
}
pub fn dur_ns(d: &Duration) -> i128 {
    d.num_seconds() as i128 * 1_000_000_000 + d.subsec_nanos() as i128
}
pub fn td_cells(d: &TimeDelta) -> Vec<Cell> {
    vec![Cell::Int(d.months as i128), Cell::Int(dur_ns(&d.inner))]
}
pub fn gtd(f: impl FnOnce() -> TimeDelta) -> Vec<Cell> {
    g(f, |d| td_cells(&d))
}
pub fn td_coq(months: i32, ns: i128) -> String {
    format!("{} {}", coq_z(months as i128), coq_z(ns))
}
pub const DUR_MAX_NS: i128 = i64::MAX as i128 * 1_000_000;

// ---------------------------------------------------------------------------------- generators

/// uniformly random i64 over the whole range
pub fn any_i64(r: &mut Rng) -> i64 {
    r.next() as i64
}
/// random i64 of random magnitude (uniform in the bit length), both signs
pub fn mag_i64(r: &mut Rng) -> i64 {
    let bits = r.below(64) as u32;
    let v = if bits == 0 { 0 } else { (r.next() >> (64 - bits)) as i64 };
    if r.chance(1, 2) { v.wrapping_neg() } else { v }
}
/// seconds since the epoch of a uniformly random instant with year in y0..y1
pub fn secs_in_years(r: &mut Rng, y0: i32, y1: i32) -> i64 {
    let a = NaiveDate::from_ymd_opt(y0, 1, 1).unwrap().and_hms_opt(0, 0, 0).unwrap().and_utc().timestamp();
    let b = NaiveDate::from_ymd_opt(y1, 1, 1).unwrap().and_hms_opt(0, 0, 0).unwrap().and_utc().timestamp();
    r.range(a, b - 1)
}
/// a date-time between 1678 and 2262 at unit u (random sub-second part)
pub fn dt_1678_2262(r: &mut Rng, u: usize) -> i64 {
    let s = secs_in_years(r, 1678, 2262);
    s * PER_SEC[u] + r.range(0, PER_SEC[u] - 1)
}
/// end-of-month / leap-year flavoured instant (seconds): day 28..31 of a random month, leap years favoured
pub fn eom_secs(r: &mut Rng) -> i64 {
    let years = [1900, 2000, 2100, 1996, 2004, 2023, 2024, 1970, 1969, 1899, 2099, 2101, 1700, 2200];
    let y = if r.chance(2, 3) { *r.pick(&years) } else { r.range(1678, 2261) as i32 };
    let m = r.range(1, 12) as u32;
    let mut d = r.range(27, 31) as u32;
    loop {
        if let Some(date) = NaiveDate::from_ymd_opt(y, m, d) {
            let t = r.range(0, 86_399);
            return date.and_hms_opt(0, 0, 0).unwrap().and_utc().timestamp() + t;
        }
        d -= 1;
    }
}

/// the ten duration units of TimeDelta::parse: (suffix, months per unit, nanoseconds per unit)
pub const TD_UNITS: [(&str, i32, i64); 10] = [
    ("ns", 0, 1),
    ("us", 0, 1_000),
    ("ms", 0, 1_000_000),
    ("s", 0, 1_000_000_000),
    ("m", 0, 60_000_000_000),
    ("h", 0, 3_600_000_000_000),
    ("d", 0, 86_400_000_000_000),
    ("w", 0, 604_800_000_000_000),
    ("mo", 1, 0),
    ("y", 12, 0),
];

/// a duration made of the units in `mask` (bit i = TD_UNITS[i]) with random small signed counts:
/// returns (parse string, months, ns)
pub fn td_from_mask(r: &mut Rng, mask: u32, sign: i32) -> (String, i32, i128) {
    let mut s = String::new();
    let (mut months, mut ns) = (0i32, 0i128);
    // TimeDelta::parse accepts the terms in any order; write largest first like the doc example
    for i in (0..10).rev() {
        if mask >> i & 1 == 1 {
            let mut n = r.range(1, 40);
            let sg = match sign { 1 => 1, -1 => -1, _ => if r.chance(1, 2) { 1 } else { -1 } };
            n *= sg;
            s.push_str(&format!("{}{}", n, TD_UNITS[i].0));
            months += n as i32 * TD_UNITS[i].1;
            ns += n as i128 * TD_UNITS[i].2 as i128;
        }
    }
    (s, months, ns)
}
