//! Registry of all rolling entry points: how to call each one (returned / caller-buffer path) and the
//! Gallina term of its model run (interpreters of Run/RunC01.v, RunC03.v, RunC04.v).  Used by the
//! cross-cutting checks C05 (length + mask), C06 (no look-ahead), C08 (null encodings).
//!
//! kinds: One(w, mp)   Rank(w, mp, pct, rev)   Two(other, w, mp)   Fdiff(d, w)   VFdiff(d, w, mp)
use crate::proto::*;

#[derive(Clone, Copy, Debug, PartialEq)]
pub enum Kind {
    One,
    Rank,
    Two,
    Fdiff,
    VFdiff,
}

#[derive(Clone, Copy, Debug)]
pub struct RFn {
    pub name: &'static str,
    pub kind: Kind,
    /// model interpreter family and function code
    pub fam: &'static str, // feat | featp | ext | rank | mmnorm | zscore | trend | two | fdiff | vfdiff
    pub code: i32,
    /// exact outputs (min / max / arg / rank) versus arithmetic ones
    pub exact: bool,
}

pub const RFNS: [RFn; 37] = [
    RFn { name: "ts_vsum", kind: Kind::One, fam: "feat", code: 0, exact: false },
    RFn { name: "ts_vmean", kind: Kind::One, fam: "feat", code: 1, exact: false },
    RFn { name: "ts_vewm", kind: Kind::One, fam: "feat", code: 2, exact: false },
    RFn { name: "ts_vwma", kind: Kind::One, fam: "feat", code: 3, exact: false },
    RFn { name: "ts_vstd", kind: Kind::One, fam: "feat", code: 4, exact: false },
    RFn { name: "ts_vvar", kind: Kind::One, fam: "feat", code: 5, exact: false },
    RFn { name: "ts_vskew", kind: Kind::One, fam: "feat", code: 6, exact: false },
    RFn { name: "ts_vkurt", kind: Kind::One, fam: "feat", code: 7, exact: false },
    RFn { name: "ts_sum", kind: Kind::One, fam: "featp", code: 0, exact: false },
    RFn { name: "ts_mean", kind: Kind::One, fam: "featp", code: 1, exact: false },
    RFn { name: "ts_ewm", kind: Kind::One, fam: "featp", code: 2, exact: false },
    RFn { name: "ts_wma", kind: Kind::One, fam: "featp", code: 3, exact: false },
    RFn { name: "ts_std", kind: Kind::One, fam: "featp", code: 4, exact: false },
    RFn { name: "ts_var", kind: Kind::One, fam: "featp", code: 5, exact: false },
    RFn { name: "ts_skew", kind: Kind::One, fam: "featp", code: 6, exact: false },
    RFn { name: "ts_kurt", kind: Kind::One, fam: "featp", code: 7, exact: false },
    RFn { name: "ts_vmin", kind: Kind::One, fam: "ext", code: 0, exact: true },
    RFn { name: "ts_vmax", kind: Kind::One, fam: "ext", code: 1, exact: true },
    RFn { name: "ts_vargmin", kind: Kind::One, fam: "ext", code: 2, exact: true },
    RFn { name: "ts_vargmax", kind: Kind::One, fam: "ext", code: 3, exact: true },
    RFn { name: "ts_vrank", kind: Kind::Rank, fam: "rank", code: 0, exact: true },
    RFn { name: "ts_vzscore", kind: Kind::One, fam: "zscore", code: 0, exact: false },
    RFn { name: "ts_vminmaxnorm", kind: Kind::One, fam: "mmnorm", code: 0, exact: false },
    RFn { name: "ts_vreg", kind: Kind::One, fam: "trend", code: 8, exact: false },
    RFn { name: "ts_vtsf", kind: Kind::One, fam: "trend", code: 9, exact: false },
    RFn { name: "ts_vreg_slope", kind: Kind::One, fam: "trend", code: 10, exact: false },
    RFn { name: "ts_vreg_intercept", kind: Kind::One, fam: "trend", code: 11, exact: false },
    RFn { name: "ts_vreg_resid_mean", kind: Kind::One, fam: "trend", code: 12, exact: false },
    RFn { name: "ts_vcov", kind: Kind::Two, fam: "two", code: 0, exact: false },
    RFn { name: "ts_vcorr", kind: Kind::Two, fam: "two", code: 1, exact: false },
    RFn { name: "ts_vregx_alpha", kind: Kind::Two, fam: "two", code: 2, exact: false },
    RFn { name: "ts_vregx_beta", kind: Kind::Two, fam: "two", code: 3, exact: false },
    RFn { name: "ts_vregx_resid_mean", kind: Kind::Two, fam: "two", code: 5, exact: false },
    RFn { name: "ts_vregx_resid_std", kind: Kind::Two, fam: "two", code: 6, exact: false },
    RFn { name: "ts_vregx_resid_skew", kind: Kind::Two, fam: "two", code: 7, exact: false },
    RFn { name: "ts_fdiff", kind: Kind::Fdiff, fam: "fdiff", code: 0, exact: false },
    RFn { name: "ts_vfdiff", kind: Kind::VFdiff, fam: "vfdiff", code: 0, exact: false },
];

/// element encoding of the model run: "f" float with NaN null, "o" Option<f64>
pub fn coq_series(xs: &[f64], enc: &str) -> String {
    if enc == "o" {
        let xo: Vec<Option<f64>> = xs.iter().map(|x| if x.is_nan() { None } else { Some(*x) }).collect();
        coq_list(&xo, |x| coq_opt(x, |v| coq_f64(*v)))
    } else {
        coq_list(xs, |x| coq_f64(*x))
    }
}

pub struct CallArgs<'a> {
    pub w: usize,
    pub mp: Option<usize>,
    pub pct: bool,
    pub rev: bool,
    pub d: f64,
    pub xs: &'a [f64],
    pub ys: &'a [f64],
}

/// the model term; `body`: true = index body (Vec / ndarray / caller buffer), false = iterator body;
/// `enc`: "f" | "o" (the plain family ignores it: NaN is an ordinary value there)
pub fn model_term(f: &RFn, body: bool, enc: &str, a: &CallArgs) -> String {
    let w = coq_nat(a.w);
    let mp = coq_opt(&a.mp, |m| coq_nat(*m));
    let b = coq_bool(body);
    let xs = coq_series(a.xs, enc);
    let e = if enc == "o" { "o" } else { "f" };
    match f.fam {
        "feat" => format!("(run_feat_{} {} {} {} {} {})", e, f.code, b, w, mp, xs),
        "featp" => format!("(run_feat_p {} {} {} {} {})", f.code, b, w, mp, coq_series(a.xs, "f")),
        "ext" => format!("(run_ext_{} {} {} {} {} {})", e, f.code, b, w, mp, xs),
        "rank" => format!("(run_rank_{} {} {} {} {} {} {})", e, b, w, mp, coq_bool(a.pct), coq_bool(a.rev), xs),
        "zscore" => format!("(run_zscore_{} {} {} {} {})", e, b, w, mp, xs),
        "mmnorm" => format!("(run_mmnorm_{} 0 {} {} {} {})", e, b, w, mp, xs),
        "trend" => format!("(run_trend_{} {} {} {} {} {})", e, f.code, b, w, mp, xs),
        "two" => format!("(run_two_{}{} {} {} {} {} {} {})", e, e, f.code, b, w, mp, xs, coq_series(a.ys, enc)),
        "fdiff" => format!("(run_fdiff_p {} {} {} {})", b, coq_f64(a.d), w, coq_series(a.xs, "f")),
        "vfdiff" => format!("(run_vfdiff_{} {} {} {} {} {})", e, b, coq_f64(a.d), w, mp, xs),
        _ => unreachable!(),
    }
}

/// Call rolling function number `$i` of RFNS on the view `$v` (and second view `$v2`), output type `$O`.
/// Expands to a match over all entry points so that one macro call site instantiates all of them.
#[macro_export]
macro_rules! roll_call {
    ($i:expr, $v:expr, $v2:expr, $a:expr, $O:ty) => {{
        let a = $a;
        let r: $O = match $crate::rollreg::RFNS[$i].name {
            "ts_vsum" => $v.ts_vsum(a.w, a.mp),
            "ts_vmean" => $v.ts_vmean(a.w, a.mp),
            "ts_vewm" => $v.ts_vewm(a.w, a.mp),
            "ts_vwma" => $v.ts_vwma(a.w, a.mp),
            "ts_vstd" => $v.ts_vstd(a.w, a.mp),
            "ts_vvar" => $v.ts_vvar(a.w, a.mp),
            "ts_vskew" => $v.ts_vskew(a.w, a.mp),
            "ts_vkurt" => $v.ts_vkurt(a.w, a.mp),
            "ts_sum" => $v.ts_sum(a.w, a.mp),
            "ts_mean" => $v.ts_mean(a.w, a.mp),
            "ts_ewm" => $v.ts_ewm(a.w, a.mp),
            "ts_wma" => $v.ts_wma(a.w, a.mp),
            "ts_std" => $v.ts_std(a.w, a.mp),
            "ts_var" => $v.ts_var(a.w, a.mp),
            "ts_skew" => $v.ts_skew(a.w, a.mp),
            "ts_kurt" => $v.ts_kurt(a.w, a.mp),
            "ts_vmin" => $v.ts_vmin(a.w, a.mp),
            "ts_vmax" => $v.ts_vmax(a.w, a.mp),
            "ts_vargmin" => $v.ts_vargmin(a.w, a.mp),
            "ts_vargmax" => $v.ts_vargmax(a.w, a.mp),
            "ts_vrank" => $v.ts_vrank(a.w, a.mp, a.pct, a.rev),
            "ts_vzscore" => $v.ts_vzscore(a.w, a.mp),
            "ts_vminmaxnorm" => $v.ts_vminmaxnorm(a.w, a.mp),
            "ts_vreg" => $v.ts_vreg(a.w, a.mp),
            "ts_vtsf" => $v.ts_vtsf(a.w, a.mp),
            "ts_vreg_slope" => $v.ts_vreg_slope(a.w, a.mp),
            "ts_vreg_intercept" => $v.ts_vreg_intercept(a.w, a.mp),
            "ts_vreg_resid_mean" => $v.ts_vreg_resid_mean(a.w, a.mp),
            "ts_vcov" => $v.ts_vcov($v2, a.w, a.mp),
            "ts_vcorr" => $v.ts_vcorr($v2, a.w, a.mp),
            "ts_vregx_alpha" => $v.ts_vregx_alpha($v2, a.w, a.mp),
            "ts_vregx_beta" => $v.ts_vregx_beta($v2, a.w, a.mp),
            "ts_vregx_resid_mean" => $v.ts_vregx_resid_mean($v2, a.w, a.mp),
            "ts_vregx_resid_std" => $v.ts_vregx_resid_std($v2, a.w, a.mp),
            "ts_vregx_resid_skew" => $v.ts_vregx_resid_skew($v2, a.w, a.mp),
            _ => unreachable!(),
        };
        r
    }};
}

/// null-aware entry points only (element types that are not `Number`, e.g. Option<f64>)
#[macro_export]
macro_rules! roll_call_v {
    ($i:expr, $v:expr, $v2:expr, $a:expr, $O:ty) => {{
        let a = $a;
        let r: $O = match $crate::rollreg::RFNS[$i].name {
            "ts_vsum" => $v.ts_vsum(a.w, a.mp),
            "ts_vmean" => $v.ts_vmean(a.w, a.mp),
            "ts_vewm" => $v.ts_vewm(a.w, a.mp),
            "ts_vwma" => $v.ts_vwma(a.w, a.mp),
            "ts_vstd" => $v.ts_vstd(a.w, a.mp),
            "ts_vvar" => $v.ts_vvar(a.w, a.mp),
            "ts_vskew" => $v.ts_vskew(a.w, a.mp),
            "ts_vkurt" => $v.ts_vkurt(a.w, a.mp),
            "ts_vmin" => $v.ts_vmin(a.w, a.mp),
            "ts_vmax" => $v.ts_vmax(a.w, a.mp),
            "ts_vargmin" => $v.ts_vargmin(a.w, a.mp),
            "ts_vargmax" => $v.ts_vargmax(a.w, a.mp),
            "ts_vrank" => $v.ts_vrank(a.w, a.mp, a.pct, a.rev),
            "ts_vzscore" => $v.ts_vzscore(a.w, a.mp),
            "ts_vminmaxnorm" => $v.ts_vminmaxnorm(a.w, a.mp),
            "ts_vreg" => $v.ts_vreg(a.w, a.mp),
            "ts_vtsf" => $v.ts_vtsf(a.w, a.mp),
            "ts_vreg_slope" => $v.ts_vreg_slope(a.w, a.mp),
            "ts_vreg_intercept" => $v.ts_vreg_intercept(a.w, a.mp),
            "ts_vreg_resid_mean" => $v.ts_vreg_resid_mean(a.w, a.mp),
            "ts_vcov" => $v.ts_vcov($v2, a.w, a.mp),
            "ts_vcorr" => $v.ts_vcorr($v2, a.w, a.mp),
            "ts_vregx_alpha" => $v.ts_vregx_alpha($v2, a.w, a.mp),
            "ts_vregx_beta" => $v.ts_vregx_beta($v2, a.w, a.mp),
            "ts_vregx_resid_mean" => $v.ts_vregx_resid_mean($v2, a.w, a.mp),
            "ts_vregx_resid_std" => $v.ts_vregx_resid_std($v2, a.w, a.mp),
            "ts_vregx_resid_skew" => $v.ts_vregx_resid_skew($v2, a.w, a.mp),
            _ => unreachable!(),
        };
        r
    }};
}

/// the same through the caller-buffer path into a sentinel-filled Vec<MaybeUninit<f64>>
#[macro_export]
macro_rules! roll_call_to {
    ($i:expr, $v:expr, $v2:expr, $a:expr) => {{
        let a = $a;
        let len = tevec::prelude::GetLen::len(&$v);
        let mut u: Vec<std::mem::MaybeUninit<f64>> = (0..len).map(|_| std::mem::MaybeUninit::new(-7.77e77)).collect();
        {
            let b = Some(<Vec<f64> as tevec::prelude::Vec1<f64>>::uninit_ref_mut(&mut u));
            let _: Option<Vec<f64>> = match $crate::rollreg::RFNS[$i].name {
                "ts_vsum" => $v.ts_vsum_to(a.w, a.mp, b),
                "ts_vmean" => $v.ts_vmean_to(a.w, a.mp, b),
                "ts_vewm" => $v.ts_vewm_to(a.w, a.mp, b),
                "ts_vwma" => $v.ts_vwma_to(a.w, a.mp, b),
                "ts_vstd" => $v.ts_vstd_to(a.w, a.mp, b),
                "ts_vvar" => $v.ts_vvar_to(a.w, a.mp, b),
                "ts_vskew" => $v.ts_vskew_to(a.w, a.mp, b),
                "ts_vkurt" => $v.ts_vkurt_to(a.w, a.mp, b),
                "ts_sum" => $v.ts_sum_to(a.w, a.mp, b),
                "ts_mean" => $v.ts_mean_to(a.w, a.mp, b),
                "ts_ewm" => $v.ts_ewm_to(a.w, a.mp, b),
                "ts_wma" => $v.ts_wma_to(a.w, a.mp, b),
                "ts_std" => $v.ts_std_to(a.w, a.mp, b),
                "ts_var" => $v.ts_var_to(a.w, a.mp, b),
                "ts_skew" => $v.ts_skew_to(a.w, a.mp, b),
                "ts_kurt" => $v.ts_kurt_to(a.w, a.mp, b),
                "ts_vmin" => $v.ts_vmin_to(a.w, a.mp, b),
                "ts_vmax" => $v.ts_vmax_to(a.w, a.mp, b),
                "ts_vargmin" => $v.ts_vargmin_to(a.w, a.mp, b),
                "ts_vargmax" => $v.ts_vargmax_to(a.w, a.mp, b),
                "ts_vrank" => $v.ts_vrank_to(a.w, a.mp, a.pct, a.rev, b),
                "ts_vzscore" => $v.ts_vzscore_to(a.w, a.mp, b),
                "ts_vminmaxnorm" => $v.ts_vminmaxnorm_to(a.w, a.mp, b),
                "ts_vreg" => $v.ts_vreg_to(a.w, a.mp, b),
                "ts_vtsf" => $v.ts_vtsf_to(a.w, a.mp, b),
                "ts_vreg_slope" => $v.ts_vreg_slope_to(a.w, a.mp, b),
                "ts_vreg_intercept" => $v.ts_vreg_intercept_to(a.w, a.mp, b),
                "ts_vreg_resid_mean" => $v.ts_vreg_resid_mean_to(a.w, a.mp, b),
                "ts_vcov" => $v.ts_vcov_to($v2, a.w, a.mp, b),
                "ts_vcorr" => $v.ts_vcorr_to($v2, a.w, a.mp, b),
                "ts_vregx_alpha" => $v.ts_vregx_alpha_to($v2, a.w, a.mp, b),
                "ts_vregx_beta" => $v.ts_vregx_beta_to($v2, a.w, a.mp, b),
                "ts_vregx_resid_mean" => $v.ts_vregx_resid_mean_to($v2, a.w, a.mp, b),
                "ts_vregx_resid_std" => $v.ts_vregx_resid_std_to($v2, a.w, a.mp, b),
                "ts_vregx_resid_skew" => $v.ts_vregx_resid_skew_to($v2, a.w, a.mp, b),
                _ => unreachable!(),
            };
        }
        let o: Vec<f64> = u.into_iter().map(|x| unsafe { x.assume_init() }).collect();
        o
    }};
}

pub fn f64_cells(v: &[f64]) -> Vec<Cell> {
    v.iter().map(|x| if *x == -7.77e77 { Cell::Uninit } else { Cell::F(*x) }).collect()
}

/// (kept here because `tevec::prelude` shadows Iterator::any in the binaries)
pub fn has_panic(c: &[Cell]) -> bool {
    c.iter().any(|x| matches!(x, Cell::Panic(_)))
}
pub fn max_abs(v: &[f64], init: f64) -> f64 {
    v.iter().filter(|x| !x.is_nan()).fold(init, |m, x| m.max(x.abs()))
}
