//! Cell encoding and Coq term rendering.
//!
//! A result (of the implementation or of the model) is a flat list of cells, each three integers
//! `tag a b`:
//!   0 a 0  exact integer a          1 m e  finite float m * 2^e (m signed, |m| < 2^53)
//!   2 0 0  NaN / null               3 0 0  +inf        4 0 0  -inf
//!   5 k 0  panic of kind k (0 underflow, 1 overflow, 2 assert, 3 unwrap, 4 other)
//!   6 0 0  Err(..) result           7 0 0  uninitialised slot exposed
//!   8 k 0  known-finding class k applies to this case (model side only)
//!   9 0 0  separator between sub-results
use std::fmt::Write as _;
use std::io::Write as _;

#[derive(Clone, Debug, PartialEq)]
pub enum Cell {
    Int(i128),
    F(f64),
    Null,
    Panic(u8),
    Err,
    Uninit,
    Sep,
}

pub fn decompose(x: f64) -> (i64, i64) {
    // finite non-zero x = m * 2^e with m a signed 53-bit integer
    let bits = x.to_bits();
    let sign = if bits >> 63 == 1 { -1i64 } else { 1 };
    let exp = ((bits >> 52) & 0x7ff) as i64;
    let frac = (bits & 0x000f_ffff_ffff_ffff) as i64;
    let (mut m, mut e) = if exp == 0 { (frac, -1074) } else { (frac | (1i64 << 52), exp - 1075) };
    // strip trailing zero bits: shorter literals, same value
    while m != 0 && m & 1 == 0 {
        m >>= 1;
        e += 1;
    }
    (sign * m, e)
}

impl Cell {
    pub fn enc(&self, out: &mut String) {
        match self {
            Cell::Int(a) => write!(out, "0 {} 0 ", a).unwrap(),
            Cell::F(x) => {
                if x.is_nan() {
                    out.push_str("2 0 0 ")
                } else if *x == f64::INFINITY {
                    out.push_str("3 0 0 ")
                } else if *x == f64::NEG_INFINITY {
                    out.push_str("4 0 0 ")
                } else if *x == 0.0 {
                    out.push_str("1 0 0 ")
                } else {
                    let (m, e) = decompose(*x);
                    write!(out, "1 {} {} ", m, e).unwrap()
                }
            }
            Cell::Null => out.push_str("2 0 0 "),
            Cell::Panic(k) => write!(out, "5 {} 0 ", k).unwrap(),
            Cell::Err => out.push_str("6 0 0 "),
            Cell::Uninit => out.push_str("7 0 0 "),
            Cell::Sep => out.push_str("9 0 0 "),
        }
    }
}

pub fn enc_cells(cells: &[Cell]) -> String {
    let mut s = String::new();
    for c in cells {
        c.enc(&mut s)
    }
    s
}

pub fn cells_f64(v: &[f64]) -> Vec<Cell> {
    v.iter().map(|x| Cell::F(*x)).collect()
}
pub fn cells_f32(v: &[f32]) -> Vec<Cell> {
    v.iter().map(|x| Cell::F(*x as f64)).collect()
}
pub fn cells_optf64(v: &[Option<f64>]) -> Vec<Cell> {
    // an optional result must be canonical (DESIGN 5.4): `Some(NaN)` is not the null of an Option and is not read as one
    v.iter().map(|x| match x { Some(x) if x.is_nan() => Cell::Err, Some(x) => Cell::F(*x), None => Cell::Null }).collect()
}
pub fn cells_i<T: Copy + Into<i128>>(v: &[T]) -> Vec<Cell> {
    v.iter().map(|x| Cell::Int((*x).into())).collect()
}
pub fn cells_opti<T: Copy + Into<i128>>(v: &[Option<T>]) -> Vec<Cell> {
    v.iter().map(|x| match x { Some(x) => Cell::Int((*x).into()), None => Cell::Null }).collect()
}
pub fn cells_usize(v: &[usize]) -> Vec<Cell> {
    v.iter().map(|x| Cell::Int(*x as i128)).collect()
}

/// classify a panic message into the model's panic kinds
pub fn panic_kind(msg: &str) -> u8 {
    if msg.contains("subtract with overflow") {
        0
    } else if msg.contains("overflow") {
        1
    } else if msg.contains("assert") || msg.contains("window must be greater") {
        2
    } else if msg.contains("unwrap") || msg.contains("`None` value") || msg.contains("`Err` value") {
        3
    } else {
        4
    }
}

/// run `f` under catch_unwind with the panic hook silenced; Err(kind) on an unwinding panic
pub fn guarded<R>(f: impl FnOnce() -> R + std::panic::UnwindSafe) -> Result<R, u8> {
    use std::sync::Mutex;
    static LAST: Mutex<String> = Mutex::new(String::new());
    std::panic::set_hook(Box::new(|info| {
        let mut s = String::new();
        if let Some(m) = info.payload().downcast_ref::<&str>() {
            s.push_str(m)
        } else if let Some(m) = info.payload().downcast_ref::<String>() {
            s.push_str(m)
        }
        *LAST.lock().unwrap() = s;
    }));
    let r = std::panic::catch_unwind(f);
    let _ = std::panic::take_hook();
    match r {
        Ok(v) => Ok(v),
        Err(_) => Err(panic_kind(&LAST.lock().unwrap())),
    }
}

// ---- Coq term rendering ----------------------------------------------------

pub fn coq_z(z: i128) -> String {
    if z < 0 { format!("({})", z) } else { format!("{}", z) }
}
pub fn coq_nat(n: usize) -> String {
    format!("{}%nat", n)
}
/// a binary64 value as a Gallina term of type `float` (see Run/Codec.v: fl, fnan, finf, fninf)
pub fn coq_f64(x: f64) -> String {
    if x.is_nan() {
        "fnan".into()
    } else if x == f64::INFINITY {
        "finf".into()
    } else if x == f64::NEG_INFINITY {
        "fninf".into()
    } else if x == 0.0 {
        if x.is_sign_negative() { "fnzero".into() } else { "fzero".into() }
    } else {
        let (m, e) = decompose(x);
        format!("(fl {} {})", coq_z(m as i128), coq_z(e as i128))
    }
}
pub fn coq_list<T>(xs: &[T], f: impl Fn(&T) -> String) -> String {
    let mut s = String::from("[");
    for (i, x) in xs.iter().enumerate() {
        if i > 0 {
            s.push_str("; ")
        }
        s.push_str(&f(x))
    }
    s.push(']');
    s
}
pub fn coq_opt<T>(x: &Option<T>, f: impl Fn(&T) -> String) -> String {
    match x {
        Some(v) => format!("(Some {})", f(v)),
        None => "None".into(),
    }
}
pub fn coq_bool(b: bool) -> String {
    if b { "true".into() } else { "false".into() }
}

// ---- line protocol -----------------------------------------------------------

pub struct Args {
    pub seed: u64,
    pub tier: String,
    pub only: Option<u64>,
    pub from: u64,
}

pub fn parse_args() -> Args {
    let mut a = Args { seed: 1, tier: "quick".into(), only: None, from: 0 };
    let v: Vec<String> = std::env::args().collect();
    let mut i = 1;
    while i < v.len() {
        match v[i].as_str() {
            "--seed" => { a.seed = v[i + 1].parse().unwrap(); i += 1 }
            "--tier" => { a.tier = v[i + 1].clone(); i += 1 }
            "--only" => { a.only = Some(v[i + 1].parse().unwrap()); i += 1 }
            "--from" => { a.from = v[i + 1].parse().unwrap(); i += 1 }
            _ => {}
        }
        i += 1;
    }
    a
}

/// Emits cases.  `case(..)` is given the description, comparator, Coq term and a closure running the
/// implementation; it is skipped (closure not run) unless selected by --only/--from.
pub struct Emitter {
    pub args: Args,
    pub next_id: u64,
    out: std::io::BufWriter<std::io::Stdout>,
}

impl Emitter {
    pub fn new() -> Self {
        Emitter { args: parse_args(), next_id: 0, out: std::io::BufWriter::new(std::io::stdout()) }
    }
    pub fn thorough(&self) -> bool {
        self.args.tier == "thorough"
    }
    /// `tags`: space-separated key=value pairs for the input-distribution histogram.
    pub fn case(
        &mut self,
        cmp: &str,
        tags: &str,
        desc: &str,
        coq_term: impl FnOnce() -> String,
        run_impl: impl FnOnce() -> Vec<Cell>,
    ) {
        let id = self.next_id;
        self.next_id += 1;
        if let Some(o) = self.args.only {
            if o != id {
                return;
            }
        }
        if id < self.args.from {
            return;
        }
        writeln!(self.out, "BEGIN\t{}\t{}", id, desc).unwrap();
        self.out.flush().unwrap();
        let cells = run_impl();
        writeln!(
            self.out,
            "CASE\t{}\t{}\t{}\t{}\t{}\t{}",
            id,
            cmp,
            tags,
            desc,
            coq_term(),
            enc_cells(&cells)
        )
        .unwrap();
    }
    pub fn finish(mut self) {
        writeln!(self.out, "END\t{}", self.next_id).unwrap();
        self.out.flush().unwrap();
    }
}
