//! C08: NaN and None are the same null; nulls are transparent to the valid aggregations.
//!
//! Every case runs ONE function group on ONE logical series (a float list, NaN = null) through several
//! *runs* of the real public API.  The implementation cells are
//!     kind_0 cells_0  SEP  kind_1 cells_1  SEP ...
//! run 0 is the reference (`Vec<f64>` with NaN, f64 output).  kind: 0 = must be the same numbers as the
//! reference after canonicalisation (null == NaN == None, int 3 == float 3.0), 1 = f32 output (must be the
//! reference rounded to binary32), 2 = Option<i32> output (must be the reference cast the way the library
//! casts: null -> None, value truncated toward zero, saturating).  The model cells are M_f SEP2 M_o (the
//! model at the float and at the Option dictionary, Run/RunC08.v); the comparator (tools/propcfg/C08.py)
//! requires  every run == reference (relational, bit for bit),  M_f == M_o,  reference ~ M_f (DESIGN 5.1).
//!
//!  part=enc : the same series as Vec<f64>, Vec<Option<f64>>, option view `.opt()`, f32 / Option<f32>,
//!             Option<i32> (integral series), VecDeque<Option<f64>>; outputs f64 / f32 / Option<f64> / Option<i32>
//!             - all null-aware rolling entry points, the aggregations, order statistics and the maps;
//!  part=ins : a series and the same series with nulls inserted (every pattern exhaustively for short
//!             series; front / back / between all / random for long ones) - aggregations and order
//!             statistics must be identical; two-series functions with pairs deleted pairwise.
//! Generator code never sees the tevec prelude; all calls into tevec live in `mod imp`.
use vh::rollreg::{CallArgs, Kind, RFn, RFNS};
use vh::*;

mod imp {
    use std::collections::VecDeque;
    use std::panic::AssertUnwindSafe;

    use tevec::agg::{PercentileOfMethod, QuantileMethod};
    use tevec::prelude::*;
    use vh::rollreg::{CallArgs, Kind, RFNS};
    use vh::{guarded, roll_call_v, Cell};

    // ---- cells --------------------------------------------------------------------------------
    pub trait ToCell {
        fn cell(&self) -> Cell;
    }
    impl ToCell for f64 {
        fn cell(&self) -> Cell { Cell::F(*self) }
    }
    impl ToCell for f32 {
        fn cell(&self) -> Cell { Cell::F(*self as f64) }
    }
    impl ToCell for i32 {
        fn cell(&self) -> Cell { Cell::Int(*self as i128) }
    }
    impl ToCell for usize {
        fn cell(&self) -> Cell { Cell::Int(*self as i128) }
    }
    /// an optional value must use the canonical null: `Some(NaN)` (or `Some(None)`) is reported as an Err cell,
    /// which matches nothing (C08_output_encoding: null goes to None)
    impl<X: ToCell> ToCell for Option<X> {
        fn cell(&self) -> Cell {
            match self {
                Some(v) => match v.cell() {
                    Cell::F(x) if x.is_nan() => Cell::Err,
                    Cell::Null => Cell::Err,
                    c => c,
                },
                None => Cell::Null,
            }
        }
    }
    fn cells<X: ToCell>(v: &[X]) -> Vec<Cell> {
        let mut c = Vec::with_capacity(v.len());
        for x in v { c.push(x.cell()) }
        c
    }
    /// one run: kind cell + the cells, or kind cell + the panic
    pub fn run(kind: u8, r: Result<Vec<Cell>, u8>) -> Vec<Cell> {
        let mut c = vec![Cell::Int(kind as i128)];
        match r { Ok(v) => c.extend(v), Err(k) => c.push(Cell::Panic(k)) }
        c
    }
    pub fn join(runs: Vec<Vec<Cell>>) -> Vec<Cell> {
        let mut c = vec![];
        let mut first = true;
        for r in runs {
            if !first { c.push(Cell::Sep) }
            first = false;
            c.extend(r);
        }
        c
    }

    // ---- encodings of a logical series -----------------------------------------------------------
    pub trait Enc: Sized {
        fn enc(x: f64) -> Self;
    }
    impl Enc for f64 {
        fn enc(x: f64) -> f64 { x }
    }
    impl Enc for f32 {
        fn enc(x: f64) -> f32 { x as f32 }
    }
    impl Enc for Option<f64> {
        fn enc(x: f64) -> Option<f64> { if x.is_nan() { None } else { Some(x) } }
    }
    impl Enc for Option<f32> {
        fn enc(x: f64) -> Option<f32> { if x.is_nan() { None } else { Some(x as f32) } }
    }
    impl Enc for Option<i32> {
        fn enc(x: f64) -> Option<i32> { if x.is_nan() { None } else { Some(x as i32) } }
    }
    pub fn encv<T: Enc>(xs: &[f64]) -> Vec<T> {
        let mut v = Vec::with_capacity(xs.len());
        for x in xs { v.push(T::enc(*x)) }
        v
    }

    // ---- rolling ----------------------------------------------------------------------------------
    macro_rules! roll_run {
        ($kind:expr, $fi:expr, $v:expr, $v2:expr, $a:expr, $O:ty) => {
            run($kind, guarded(AssertUnwindSafe(|| { let r: Vec<$O> = roll_call_v!($fi, $v, $v2, $a, Vec<$O>); cells(&r) })))
        };
    }
    pub fn roll_runs(fi: usize, a: &CallArgs, integral: bool) -> Vec<Cell> {
        let f = &RFNS[fi];
        let xs: Vec<f64> = a.xs.to_vec();
        let ys: Vec<f64> = a.ys.to_vec();
        let xo: Vec<Option<f64>> = encv(a.xs);
        let yo: Vec<Option<f64>> = encv(a.ys);
        let mut runs = vec![];
        if f.kind == Kind::VFdiff {
            let (d, w, mp) = (a.d, a.w, a.mp);
            runs.push(run(0, guarded(AssertUnwindSafe(|| { let r: Vec<f64> = xs.ts_vfdiff(d, w, mp); cells(&r) }))));
            runs.push(run(0, guarded(AssertUnwindSafe(|| { let r: Vec<Option<f64>> = xo.ts_vfdiff(d, w, mp); cells(&r) }))));
            runs.push(run(0, guarded(AssertUnwindSafe(|| { let r: Vec<Option<f64>> = xs.ts_vfdiff(d, w, mp); cells(&r) }))));
            runs.push(run(1, guarded(AssertUnwindSafe(|| { let r: Vec<f32> = xo.ts_vfdiff(d, w, mp); cells(&r) }))));
            runs.push(run(2, guarded(AssertUnwindSafe(|| { let r: Vec<Option<i32>> = xo.ts_vfdiff(d, w, mp); cells(&r) }))));
            return join(runs);
        }
        // reference: Vec<f64> (NaN null) -> f64
        runs.push(roll_run!(0, fi, xs, &ys, a, f64));
        // Option<f64> elements -> Option<f64>
        runs.push(roll_run!(0, fi, xo, &yo, a, Option<f64>));
        // the option view of the float series
        { let (o, o2) = (xs.opt(), ys.opt()); runs.push(roll_run!(0, fi, o, &o2, a, f64)); }
        // output encodings
        runs.push(roll_run!(1, fi, xs, &ys, a, f32));
        runs.push(roll_run!(2, fi, xo, &yo, a, Option<i32>));
        runs.push(roll_run!(0, fi, xs, &ys, a, Option<f64>));
        runs.push(roll_run!(0, fi, xo, &yo, a, f64));
        runs.push(roll_run!(2, fi, xs, &ys, a, Option<i32>));
        runs.push(roll_run!(1, fi, xo, &yo, a, f32));
        // mixed element types of the two series
        if f.kind == Kind::Two {
            runs.push(roll_run!(0, fi, xs, &yo, a, Option<f64>));
            runs.push(roll_run!(0, fi, xo, &ys, a, f64));
        }
        // other element types with the same nulls: f32 (NaN) always, Option<i32> (None) for integral series
        { let x32: Vec<f32> = encv(a.xs); let y32: Vec<f32> = encv(a.ys);
          runs.push(roll_run!(0, fi, x32, &y32, a, f64));
          let xo32: Vec<Option<f32>> = encv(a.xs); let yo32: Vec<Option<f32>> = encv(a.ys);
          runs.push(roll_run!(0, fi, xo32, &yo32, a, Option<f64>)); }
        if integral {
            let xi: Vec<Option<i32>> = encv(a.xs); let yi: Vec<Option<i32>> = encv(a.ys);
            runs.push(roll_run!(0, fi, xi, &yi, a, f64));
        }
        // iterator body: VecDeque<Option<f64>>
        { let dq: VecDeque<Option<f64>> = vh::wrapped_deque(&xo);
          let dy: VecDeque<Option<f64>> = vh::wrapped_deque(&yo);
          runs.push(roll_run!(0, fi, dq, &dy, a, f64)); }
        join(runs)
    }

    // ---- aggregations ---------------------------------------------------------------------------
    pub fn aggx<T, I>(mk: impl Fn() -> I, vals: &[T], positional: bool) -> Result<Vec<Cell>, u8>
    where
        I: IntoIterator<Item = T>,
        I::IntoIter: DoubleEndedIterator,
        T: IsNone + Clone + ToCell + PartialEq,
        T::Inner: Number + ToCell,
    {
        guarded(AssertUnwindSafe(|| {
            let mut c = vec![Cell::Int(mk().count_valid() as i128)];
            if positional { c.push(Cell::Int(mk().count_none() as i128)) }
            c.push(mk().vsum().cell());
            c.push(mk().vmin().cell());
            c.push(mk().vmax().cell());
            if positional {
                c.push(mk().vargmin().cell());
                c.push(mk().vargmax().cell());
            }
            c.push(mk().vfirst().cell());
            c.push(mk().vlast().cell());
            for v in vals { c.push(Cell::Int(mk().vcount_value(v.clone()) as i128)) }
            c
        }))
    }
    pub fn aggm<T, I>(mk: impl Fn() -> I, maxmp: usize) -> Result<Vec<Cell>, u8>
    where
        I: IntoIterator<Item = T>,
        T: IsNone,
        T::Inner: Number,
    {
        guarded(AssertUnwindSafe(|| {
            let mut c = vec![Cell::F(mk().vmean())];
            for mp in 0..=maxmp {
                let (m, v) = mk().vmean_var(mp);
                c.push(Cell::F(m));
                c.push(Cell::F(v));
                c.push(Cell::F(mk().vvar(mp)));
                c.push(Cell::F(mk().vstd(mp)));
            }
            c
        }))
    }
    pub fn aggs<T, I>(mk: impl Fn() -> I, maxmp: usize) -> Result<Vec<Cell>, u8>
    where
        I: IntoIterator<Item = T>,
        T: IsNone,
        T::Inner: Number,
    {
        guarded(AssertUnwindSafe(|| {
            let mut c = vec![];
            for mp in 0..=maxmp {
                c.push(Cell::F(mk().vskew(mp)));
                c.push(Cell::F(mk().vkurt(mp)));
            }
            c
        }))
    }
    pub fn aggq<T, V>(v: &V, qs: &[f64], scs: &[T]) -> Result<Vec<Cell>, u8>
    where
        V: Vec1View<T>,
        T: IsNone + Clone + Cast<f64>,
        T::Inner: Number + PartialOrd,
    {
        guarded(AssertUnwindSafe(|| {
            let mut c = vec![];
            for q in qs {
                for m in [QuantileMethod::Linear, QuantileMethod::Lower, QuantileMethod::Higher, QuantileMethod::MidPoint] {
                    c.push(match v.vquantile(*q, m) { Ok(x) => Cell::F(x), Err(_) => Cell::Err });
                }
            }
            c.push(Cell::F(v.vmedian()));
            for sc in scs {
                for m in [PercentileOfMethod::Rank, PercentileOfMethod::Weak, PercentileOfMethod::Strict] {
                    c.push(Cell::F(v.titer().vpercentile_of(sc.clone(), m)));
                }
            }
            c
        }))
    }
    /// vcov (T::Cast<f64>) and vcorr_pearson::<O> for every min_periods
    pub fn agg2<T1, T2, I1, I2, O>(mk1: impl Fn() -> I1, mk2: impl Fn() -> I2, maxmp: usize, covf64: bool) -> Result<Vec<Cell>, u8>
    where
        I1: IntoIterator<Item = T1>,
        I2: IntoIterator<Item = T2>,
        T1: IsNone,
        T2: IsNone,
        T1::Inner: Number,
        T2::Inner: Number,
        T1::Cast<f64>: ToCell,
        O: ToCell,
        f64: Cast<O>,
    {
        guarded(AssertUnwindSafe(|| {
            let mut c = vec![];
            for mp in 0..=maxmp {
                // the covariance has no output parameter: for the cast-output runs the slot repeats the correlation
                if covf64 { c.push(mk1().vcov(mk2(), mp).cell()) } else { let r: O = mk1().vcorr_pearson(mk2(), mp); c.push(r.cell()) }
                let r: O = mk1().vcorr_pearson(mk2(), mp);
                c.push(r.cell());
            }
            c
        }))
    }

    /// all sources of one logical series for the iterator-level groups
    /// group: 0 aggx (positional), 1 aggt, 2 aggm, 3 aggs
    pub fn agg_runs(group: u8, xs: &[f64], vals: &[f64], maxmp: usize, integral: bool) -> Vec<Cell> {
        let xf: Vec<f64> = xs.to_vec();
        let xo: Vec<Option<f64>> = encv(xs);
        let x32: Vec<f32> = encv(xs);
        let xo32: Vec<Option<f32>> = encv(xs);
        let xi: Vec<Option<i32>> = encv(xs);
        let dq: VecDeque<Option<f64>> = vh::wrapped_deque(&xo);
        let (vf, vo, v32, vo32, vi): (Vec<f64>, Vec<Option<f64>>, Vec<f32>, Vec<Option<f32>>, Vec<Option<i32>>) =
            (encv(vals), encv(vals), encv(vals), encv(vals), encv(vals));
        macro_rules! g {
            ($mk:expr, $vals:expr) => {
                match group {
                    0 => aggx($mk, $vals, true),
                    1 => aggx($mk, $vals, false),
                    2 => aggm($mk, maxmp),
                    _ => aggs($mk, maxmp),
                }
            };
        }
        let mut runs = vec![];
        runs.push(run(0, g!(|| xf.clone(), &vf)));
        runs.push(run(0, g!(|| xo.clone(), &vo)));
        { let o = xf.opt(); runs.push(run(0, g!(|| o.titer(), &vo))); }
        { let o = xo.opt(); runs.push(run(0, g!(|| o.titer(), &vo))); }
        runs.push(run(0, g!(|| xf.titer(), &vf)));
        runs.push(run(0, g!(|| x32.clone(), &v32)));
        runs.push(run(0, g!(|| xo32.clone(), &vo32)));
        runs.push(run(0, g!(|| dq.titer(), &vo)));
        if integral { runs.push(run(0, g!(|| xi.clone(), &vi))); }
        join(runs)
    }

    pub fn aggq_runs(xs: &[f64], qs: &[f64], scs: &[f64], integral: bool) -> Vec<Cell> {
        let xf: Vec<f64> = xs.to_vec();
        let xo: Vec<Option<f64>> = encv(xs);
        let xi: Vec<Option<i32>> = encv(xs);
        let dq: VecDeque<Option<f64>> = vh::wrapped_deque(&xo);
        let (sf, so, si): (Vec<f64>, Vec<Option<f64>>, Vec<Option<i32>>) = (encv(scs), encv(scs), encv(scs));
        let mut runs = vec![];
        runs.push(run(0, aggq(&xf, qs, &sf)));
        runs.push(run(0, aggq(&xo, qs, &so)));
        { let o = xf.opt(); runs.push(run(0, aggq(&o, qs, &so))); }
        runs.push(run(0, aggq(&dq, qs, &so)));
        if integral { runs.push(run(0, aggq(&xi, qs, &si))); }
        join(runs)
    }

    pub fn agg2_runs(xs: &[f64], ys: &[f64], maxmp: usize, mixed: bool) -> Vec<Cell> {
        let xf: Vec<f64> = xs.to_vec();
        let yf: Vec<f64> = ys.to_vec();
        let xo: Vec<Option<f64>> = encv(xs);
        let yo: Vec<Option<f64>> = encv(ys);
        let mut runs = vec![];
        if mixed {
            runs.push(run(0, agg2::<_, _, _, _, f64>(|| xf.clone(), || yo.clone(), maxmp, true)));
            runs.push(run(0, agg2::<_, _, _, _, Option<f64>>(|| xo.clone(), || yf.clone(), maxmp, true)));
            { let o = yf.opt(); runs.push(run(0, agg2::<_, _, _, _, f64>(|| xf.titer(), || o.titer(), maxmp, true))); }
            return join(runs);
        }
        runs.push(run(0, agg2::<_, _, _, _, f64>(|| xf.clone(), || yf.clone(), maxmp, true)));
        runs.push(run(0, agg2::<_, _, _, _, Option<f64>>(|| xo.clone(), || yo.clone(), maxmp, true)));
        { let (o, o2) = (xf.opt(), yf.opt()); runs.push(run(0, agg2::<_, _, _, _, f64>(|| o.titer(), || o2.titer(), maxmp, true))); }
        runs.push(run(0, agg2::<_, _, _, _, Option<f64>>(|| xf.titer(), || yf.titer(), maxmp, true)));
        runs.push(run(0, agg2::<_, _, _, _, f64>(|| xo.clone(), || yo.clone(), maxmp, true)));
        join(runs)
    }
    /// correlation output encodings: cells are (corr, corr) per mp, against the reference's (cov, corr)
    /// -> emitted as a separate group whose reference is the f64 correlation twice
    pub fn corr_out_runs(xs: &[f64], ys: &[f64], maxmp: usize) -> Vec<Cell> {
        let xf: Vec<f64> = xs.to_vec();
        let yf: Vec<f64> = ys.to_vec();
        let xo: Vec<Option<f64>> = encv(xs);
        let yo: Vec<Option<f64>> = encv(ys);
        let mut runs = vec![];
        runs.push(run(0, agg2::<_, _, _, _, f64>(|| xf.clone(), || yf.clone(), maxmp, false)));
        runs.push(run(0, agg2::<_, _, _, _, Option<f64>>(|| xo.clone(), || yo.clone(), maxmp, false)));
        runs.push(run(1, agg2::<_, _, _, _, f32>(|| xf.clone(), || yf.clone(), maxmp, false)));
        runs.push(run(1, agg2::<_, _, _, _, f32>(|| xo.clone(), || yo.clone(), maxmp, false)));
        runs.push(run(2, agg2::<_, _, _, _, Option<i32>>(|| xf.clone(), || yf.clone(), maxmp, false)));
        runs.push(run(2, agg2::<_, _, _, _, Option<i32>>(|| xo.clone(), || yo.clone(), maxmp, false)));
        join(runs)
    }

    // ---- maps -------------------------------------------------------------------------------------
    #[derive(Clone, Debug)]
    pub enum MOp {
        FFill(Option<f64>),
        BFill(Option<f64>),
        Fill(f64),
        VClip(f64, f64),
        VShift(i32, Option<f64>),
        VPct(i32),
        VAbs,
        VRank(bool, bool),
    }
    // ---- audit: the boolean aggregations vany / vall and the masked family (tea-agg) ---------------------------
    fn bo(xs: &[f64]) -> Vec<Option<bool>> {
        xs.iter().map(|x| if x.is_nan() { None } else { Some(*x > 0.0) }).collect()
    }
    fn b2(any: bool, all: bool) -> Vec<Cell> { vec![Cell::Int(any as i128), Cell::Int(all as i128)] }
    /// vany vall through Vec<Option<bool>>, its option view, titer, VecDeque<Option<bool>>; Vec<bool> (+ its option view) when no null
    pub fn aggb_runs(xs: &[f64]) -> Vec<Cell> {
        let b = bo(xs);
        let dq: VecDeque<Option<bool>> = vh::wrapped_deque(&b);
        let mut runs = vec![];
        runs.push(run(0, guarded(AssertUnwindSafe(|| b2(b.clone().vany(), b.clone().vall())))));
        { let o = b.opt(); runs.push(run(0, guarded(AssertUnwindSafe(|| b2(o.titer().vany(), o.titer().vall()))))); }
        runs.push(run(0, guarded(AssertUnwindSafe(|| b2(b.titer().vany(), b.titer().vall())))));
        runs.push(run(0, guarded(AssertUnwindSafe(|| b2(dq.titer().vany(), dq.titer().vall())))));
        if !Iterator::any(&mut xs.iter(), |x| x.is_nan()) {
            let pb: Vec<bool> = xs.iter().map(|x| *x > 0.0).collect();
            runs.push(run(0, guarded(AssertUnwindSafe(|| b2(pb.clone().vany(), pb.clone().vall())))));
            { let o = pb.opt(); runs.push(run(0, guarded(AssertUnwindSafe(|| b2(o.titer().vany(), o.titer().vall()))))); }
        }
        join(runs)
    }
    pub fn aggk<T, I, U, M>(mk: impl Fn() -> I, mkm: impl Fn() -> M, maxmp: usize) -> Result<Vec<Cell>, u8>
    where
        I: IntoIterator<Item = T>,
        M: IntoIterator<Item = U>,
        T: IsNone,
        T::Inner: Number + ToCell,
        U: IsNone,
        U::Inner: Cast<bool>,
    {
        guarded(AssertUnwindSafe(|| {
            let mut c = vec![];
            for mp in 0..=maxmp {
                let (n, s) = mk().n_vsum_filter(mkm());
                c.push(Cell::Int(n as i128));
                c.push(s.cell());
                c.push(match mk().n_sum_filter(mkm()) { Some(v) => v.cell(), None => Cell::Null });
                c.push(Cell::F(mk().vmean_filter(mkm(), mp)));
            }
            c
        }))
    }
    /// data: Vec<f64> / Vec<Option<f64>> / option views; mask: Vec<Option<bool>> / its option view / VecDeque; Vec<bool> when no null flag
    pub fn aggk_runs(xs: &[f64], ms: &[f64], maxmp: usize) -> Vec<Cell> {
        let xf: Vec<f64> = xs.to_vec();
        let xo: Vec<Option<f64>> = encv(xs);
        let mo = bo(ms);
        let dq: VecDeque<Option<bool>> = vh::wrapped_deque(&mo);
        let mut runs = vec![];
        runs.push(run(0, aggk(|| xf.clone(), || mo.clone(), maxmp)));
        runs.push(run(0, aggk(|| xo.clone(), || mo.clone(), maxmp)));
        { let o = xf.opt(); runs.push(run(0, aggk(|| o.titer(), || mo.clone(), maxmp))); }
        { let o = mo.opt(); runs.push(run(0, aggk(|| xo.clone(), || o.titer(), maxmp))); }
        runs.push(run(0, aggk(|| xf.titer(), || dq.titer(), maxmp)));
        if !Iterator::any(&mut ms.iter(), |x| x.is_nan()) {
            let pb: Vec<bool> = ms.iter().map(|x| *x > 0.0).collect();
            runs.push(run(0, aggk(|| xf.clone(), || pb.clone(), maxmp)));
            runs.push(run(0, aggk(|| xo.clone(), || pb.clone(), maxmp)));
        }
        join(runs)
    }

    fn collect_len<X: ToCell>(it: impl Iterator<Item = X>) -> Vec<Cell> {
        let v: Vec<X> = Iterator::collect(it);
        let mut c = vec![Cell::Int(v.len() as i128)];
        c.extend(cells(&v));
        c
    }
    pub fn map_op<T, V>(v: &V, op: &MOp, optout: bool) -> Result<Vec<Cell>, u8>
    where
        V: Vec1View<T>,
        T: IsNone + Clone + ToCell + Enc + Cast<f64> + PartialEq,
        T::Inner: Number + PartialOrd,
    {
        guarded(AssertUnwindSafe(|| match op {
            MOp::FFill(f) => collect_len(v.titer().ffill(f.map(T::enc))),
            MOp::BFill(f) => collect_len(v.titer().bfill(f.map(T::enc))),
            MOp::Fill(f) => collect_len(v.titer().fill(T::enc(*f))),
            MOp::VClip(lo, hi) => collect_len(v.titer().vclip(T::enc(*lo), T::enc(*hi))),
            MOp::VShift(n, f) => collect_len(v.titer().vshift(*n, f.map(T::enc))),
            MOp::VPct(n) => collect_len(v.vpct_change(*n)),
            MOp::VAbs => collect_len(v.titer().vabs()),
            MOp::VRank(pct, rev) => {
                if optout { let r: Vec<Option<f64>> = v.vrank(*pct, *rev); cells(&r) } else { let r: Vec<f64> = v.vrank(*pct, *rev); cells(&r) }
            }
        }))
    }
    pub fn map_runs(xs: &[f64], op: &MOp) -> Vec<Cell> {
        let xf: Vec<f64> = xs.to_vec();
        let xo: Vec<Option<f64>> = encv(xs);
        let dq: VecDeque<Option<f64>> = vh::wrapped_deque(&xo);
        let mut runs = vec![];
        runs.push(run(0, map_op(&xf, op, false)));
        runs.push(run(0, map_op(&xo, op, true)));
        { let o = xf.opt(); runs.push(run(0, map_op(&o, op, false))); }
        runs.push(run(0, map_op(&dq, op, true)));
        runs.push(run(0, map_op(&xf, op, true)));
        runs.push(run(0, map_op(&xo, op, false)));
        join(runs)
    }
    /// vdiff needs `Sub` on the element type: f64 directly and through a VecDeque
    pub fn vdiff_runs(xs: &[f64], n: i32, fill: Option<f64>) -> Vec<Cell> {
        let xf: Vec<f64> = xs.to_vec();
        let dq: VecDeque<f64> = vh::wrapped_deque(&xf);
        join(vec![
            run(0, guarded(AssertUnwindSafe(|| collect_len(xf.vdiff(n, fill))))),
            run(0, guarded(AssertUnwindSafe(|| collect_len(dq.vdiff(n, fill))))),
        ])
    }
}

// =====================================================================================================
// generators (no tevec prelude here)

fn fmt_xs(xs: &[f64]) -> String {
    format!("{:?}", xs)
}
fn coq_fl(xs: &[f64]) -> String {
    coq_list(xs, |x| coq_f64(*x))
}
fn nvalid(xs: &[f64]) -> usize {
    xs.iter().filter(|x| !x.is_nan()).count()
}
fn nv_tag(xs: &[f64]) -> String {
    let n = nvalid(xs);
    if n >= 5 { "5+".into() } else { format!("{}", n) }
}
fn null_tag(xs: &[f64]) -> &'static str {
    let n = nvalid(xs);
    if xs.is_empty() { "empty" } else if n == 0 { "all" } else if n == xs.len() { "none" } else { "some" }
}
fn is_integral(xs: &[f64]) -> bool {
    xs.iter().all(|x| x.is_nan() || (x.fract() == 0.0 && x.abs() < 1e6))
}
fn max_abs(xs: &[f64]) -> f64 {
    xs.iter().filter(|x| !x.is_nan()).fold(1.0, |m, x| m.max(x.abs()))
}

/// structured random series: dyadic quarters (or integers), several shapes, one of the shared null patterns
fn series(rng: &mut Rng, len: usize, integral: bool) -> (Vec<f64>, &'static str) {
    let pat = *rng.pick(&NULL_PATTERNS);
    let m = null_mask(rng, pat, len);
    let style = rng.below(5);
    let mut cur = rng.range(-8, 8);
    let c = rng.range(-4, 4);
    let den = if integral { 1.0 } else { 4.0 };
    let xs = (0..len).map(|i| if m[i] { if i % 2 == 0 { f64::NAN } else { -f64::NAN } } else {
        (match style {
            0 => rng.range(-40, 40),
            1 => { cur += rng.range(0, 3); cur }
            2 => c,
            3 => *rng.pick(&[-3i64, 1, 6]),
            _ => { cur += rng.range(-5, 5); cur }
        }) as f64 / den }).collect();
    (xs, pat)
}

/// all series of length `len` over the alphabet (NaN included in the alphabet = null)
fn all_series(alpha: &[f64], len: usize) -> Vec<Vec<f64>> {
    let mut out: Vec<Vec<f64>> = vec![vec![]];
    for _ in 0..len {
        let mut nxt = vec![];
        for s in out.iter() {
            for a in alpha { let mut t = s.clone(); t.push(*a); nxt.push(t) }
        }
        out = nxt;
    }
    out
}

/// ys = xs with nulls inserted: `mask` has exactly xs.len() `false` entries (the slots of the elements of xs,
/// in order) and `true` at the inserted nulls
fn insert_nulls(xs: &[f64], mask: &[bool]) -> Vec<f64> {
    let mut it = xs.iter();
    mask.iter().enumerate().map(|(i, b)| if *b { if i % 2 == 0 { f64::NAN } else { -f64::NAN } } else { *it.next().unwrap() }).collect()
}
fn mask_str(mask: &[bool]) -> String {
    mask.iter().map(|b| if *b { 'N' } else { '.' }).collect()
}
/// all masks of length n with exactly k `false`
fn masks(n: usize, k: usize) -> Vec<Vec<bool>> {
    let mut out = vec![];
    for bits in 0u32..(1u32 << n) {
        if (n as u32 - bits.count_ones()) as usize == k {
            out.push((0..n).map(|i| bits >> i & 1 == 1).collect());
        }
    }
    out
}
/// structured insertion patterns for a long series
fn patterns(rng: &mut Rng, k: usize) -> Vec<(String, Vec<bool>)> {
    let mut out: Vec<(String, Vec<bool>)> = vec![];
    let keep = |n: usize| vec![false; n];
    let f = rng.range(1, 3) as usize;
    out.push(("front".into(), [vec![true; f], keep(k)].concat()));
    out.push(("back".into(), [keep(k), vec![true; f]].concat()));
    let mut b = vec![true];
    for _ in 0..k { b.push(false); b.push(true) }
    out.push(("between_all".into(), b));
    for p in [1u64, 5, 9] {
        let mut m = vec![];
        let mut left = k;
        while left > 0 {
            if rng.chance(p, 10) { m.push(true) } else { m.push(false); left -= 1 }
            if m.len() > 6 * k + 8 { while left > 0 { m.push(false); left -= 1 } }
        }
        if rng.chance(p, 10) { m.push(true) }
        out.push((format!("random_p{}", p), m));
    }
    out
}

const QS: [f64; 8] = [0.0, 0.1, 0.25, 1.0 / 3.0, 0.5, 0.75, 0.9, 1.0];

struct Gen {
    em: Emitter,
}

impl Gen {
    // ---------------- part=enc, single-series aggregations --------------------------------------
    fn enc_aggs(&mut self, xs: &[f64], style: &str) {
        let integral = is_integral(xs);
        let len = xs.len();
        let maxmp = len.min(6) + 1;
        let nt = if len == 0 { " nt=0" } else { "" };
        let base = format!("part=enc len={} nv={} nulls={} style={} int={}{}", len.min(12), nv_tag(xs), null_tag(xs), style, integral, nt);
        // values counted by vcount_value: null, a member, a non-member
        let member = xs.iter().cloned().find(|x| !x.is_nan()).unwrap_or(2.0);
        let vals = vec![f64::NAN, member, 7.0];
        let d = fmt_xs(xs);
        self.em.case("custom:rel:exact", &format!("fn=aggx {}", base), &format!("part=enc group=aggx (count_valid count_none vsum vmin vmax vargmin vargmax vfirst vlast vcount_value{:?}) xs={}", vals, d),
            || format!("(aggx {} {})", coq_fl(&vals), coq_fl(xs)), || imp::agg_runs(0, xs, &vals, 0, integral));
        self.em.case("custom:rel:1e-9", &format!("fn=aggm {}", base), &format!("part=enc group=aggm (vmean; mp 0..={}: vmean_var vvar vstd) xs={}", maxmp, d),
            || format!("(aggm {} {})", coq_nat(maxmp), coq_fl(xs)), || imp::agg_runs(2, xs, &vals, maxmp, integral));
        self.em.case("custom:rel:1e-7", &format!("fn=aggs {}", base), &format!("part=enc group=aggs (mp 0..={}: vskew vkurt) xs={}", maxmp, d),
            || format!("(aggs {} {})", coq_nat(maxmp), coq_fl(xs)), || imp::agg_runs(3, xs, &vals, maxmp, integral));
        let scs = vec![f64::NAN, member, member + if integral { 1.0 } else { 0.5 }, -100.0];
        self.em.case("custom:rel:1e-9", &format!("fn=aggq {}", base), &format!("part=enc group=aggq (vquantile q in {:?} x 4 methods; vmedian; vpercentile_of scores {:?} x 3 methods) xs={}", QS, scs, d),
            || format!("(aggq {} {} {})", coq_fl(&QS), coq_fl(&scs), coq_fl(xs)), || imp::aggq_runs(xs, &QS, &scs, integral));
    }
    fn enc_agg2(&mut self, xs: &[f64], ys: &[f64], style: &str) {
        let len = xs.len().min(ys.len());
        let maxmp = len.min(5) + 1;
        let npair = xs.iter().zip(ys.iter()).filter(|(a, b)| !a.is_nan() && !b.is_nan()).count();
        let nt = if len == 0 { " nt=0" } else { "" };
        let base = format!("part=enc len={} npair={} style={}{}", len.min(12), npair.min(5), style, nt);
        let d = format!("xs={} ys={}", fmt_xs(xs), fmt_xs(ys));
        self.em.case("custom:rel:1e-7", &format!("fn=agg2 {}", base), &format!("part=enc group=agg2 (mp 0..={}: vcov vcorr_pearson) {}", maxmp, d),
            || format!("(agg2 {} {} {})", coq_nat(maxmp), coq_fl(xs), coq_fl(ys)), || imp::agg2_runs(xs, ys, maxmp, false));
        self.em.case("custom:rel:1e-7", &format!("fn=agg2_mixed {}", base), &format!("part=enc group=agg2_mixed (f64 x Option<f64>, Option<f64> x f64; mp 0..={}: vcov vcorr_pearson) {}", maxmp, d),
            || format!("(agg2_mixed {} {} {})", coq_nat(maxmp), coq_fl(xs), coq_fl(ys)), || imp::agg2_runs(xs, ys, maxmp, true));
        self.em.case("custom:rel:1e-7:corr2", &format!("fn=vcorr_out {}", base), &format!("part=enc group=vcorr_pearson output f64 / Option<f64> / f32 / Option<i32> (mp 0..={}) {}", maxmp, d),
            || format!("(agg2 {} {} {})", coq_nat(maxmp), coq_fl(xs), coq_fl(ys)), || imp::corr_out_runs(xs, ys, maxmp));
    }
    // ---------------- part=enc, maps --------------------------------------------------------------
    fn enc_maps(&mut self, rng: &mut Rng, xs: &[f64], style: &str) {
        use imp::MOp;
        let len = xs.len();
        let nt = if len == 0 { " nt=0" } else { "" };
        let base = format!("part=enc len={} nv={} nulls={} style={}{}", len.min(12), nv_tag(xs), null_tag(xs), style, nt);
        let fv = rng.range(-6, 6) as f64 / 2.0;
        let optf = |v: &Option<f64>| coq_opt(v, |x| coq_f64(*x));
        let mut ops: Vec<(MOp, String)> = vec![];
        for f in [None, Some(fv), Some(f64::NAN)] {
            ops.push((MOp::FFill(f), format!("(m_ffill {} {})", optf(&f), coq_fl(xs))));
            ops.push((MOp::BFill(f), format!("(m_bfill {} {})", optf(&f), coq_fl(xs))));
        }
        for f in [fv, f64::NAN] {
            ops.push((MOp::Fill(f), format!("(m_fill {} {})", coq_f64(f), coq_fl(xs))));
        }
        let (lo, hi) = (rng.range(-12, 2) as f64 / 4.0, rng.range(0, 14) as f64 / 4.0);
        for (l, h) in [(lo, hi), (f64::NAN, hi), (lo, f64::NAN), (f64::NAN, f64::NAN), (hi, lo)] {
            ops.push((MOp::VClip(l, h), format!("(m_vclip {} {} {})", coq_f64(l), coq_f64(h), coq_fl(xs))));
        }
        let mut lags: Vec<i32> = vec![0, 1, -1, len as i32, -(len as i32), len as i32 + 1];
        if len > 2 { lags.push(rng.range(2, len as i64 - 1) as i32); lags.push(-(rng.range(2, len as i64 - 1) as i32)) }
        lags.sort(); lags.dedup();
        for n in lags {
            let f = if rng.chance(1, 2) { None } else { Some(fv) };
            ops.push((MOp::VShift(n, f), format!("(m_vshift {} {} {})", coq_z(n as i128), optf(&f), coq_fl(xs))));
            ops.push((MOp::VPct(n), format!("(m_vpct {} {})", coq_z(n as i128), coq_fl(xs))));
            let r = imp::vdiff_runs;
            let (xs2, f2) = (xs.to_vec(), f);
            self.em.case("custom:rel:exact:L", &format!("fn=vdiff {}", base), &format!("part=enc fn=vdiff n={} fill={:?} (f64 only: Vec / VecDeque) xs={}", n, f, fmt_xs(xs)),
                || format!("(m_vdiff {} {} {})", coq_z(n as i128), optf(&f), coq_fl(xs)), || r(&xs2, n, f2));
        }
        ops.push((MOp::VAbs, format!("(m_vabs {})", coq_fl(xs))));
        for (pct, rev) in [(false, false), (true, false), (false, true), (true, true)] {
            ops.push((MOp::VRank(pct, rev), format!("(m_vrank {} {} {})", coq_bool(pct), coq_bool(rev), coq_fl(xs))));
        }
        for (op, term) in ops {
            let name = format!("{:?}", op);
            let fnname = name.split('(').next().unwrap_or("op").to_lowercase();
            let (cmp, fnname) = match op {
                MOp::VPct(_) => ("custom:rel:1e-12:L", "vpct_change".to_string()),
                MOp::VRank(..) => ("custom:rel:1e-12", fnname),
                _ => ("custom:rel:exact:L", fnname),
            };
            self.em.case(cmp, &format!("fn={} {}", fnname, base), &format!("part=enc fn={} xs={}", name, fmt_xs(xs)),
                || term.clone(), || imp::map_runs(xs, &op));
        }
    }
    // ---------------- part=enc, rolling ---------------------------------------------------------------
    fn enc_rolling(&mut self, rng: &mut Rng, xs: &[f64], ys: &[f64], pat: &str) {
        let len = xs.len();
        let mut ws: Vec<usize> = vec![1, 2, len.max(1), len + 1];
        if len > 3 { ws.push(rng.range(2, len as i64 - 1) as usize); ws.push(3) }
        ws.sort(); ws.dedup();
        let scale = 8.0 * (len.max(1) as f64) * max_abs(xs).max(max_abs(ys)).powi(2);
        let integral = is_integral(xs) && is_integral(ys);
        for &w in ws.iter() {
            let mut mps: Vec<Option<usize>> = vec![None, Some(0)];
            if w > 1 { mps.push(Some(rng.range(1, w as i64) as usize)) } else { mps.push(Some(1)) }
            for mp in mps {
                let (pct, rev) = (rng.chance(1, 2), rng.chance(1, 2));
                let d = *rng.pick(&[0.3, 0.5, 1.0, 1.5]);
                let a = CallArgs { w, mp, pct, rev, d, xs, ys };
                for (fi, f) in RFNS.iter().enumerate() {
                    let f: &RFn = f;
                    if f.fam == "featp" || f.kind == Kind::Fdiff { continue }   // plain family: NaN is an ordinary value there
                    let wrel = if w > len { "gt" } else if w == len { "eq" } else { "lt" };
                    let tags = format!("part=enc fn={} len={} wrel={} mp={} nulls={}{}", f.name, len.min(12), wrel,
                        match mp { None => "omitted", Some(0) => "0", _ => "mid" }, pat, if len == 0 { " nt=0" } else { "" });
                    let desc = format!("part=enc fn={} w={} mp={:?} pct={} rev={} d={} xs={} ys={}", f.name, w, mp, pct, rev, d, fmt_xs(xs), fmt_xs(ys));
                    let cmp = if f.exact { "custom:rel:exact:roll".to_string() } else { format!("custom:rel:1e-7,{}:roll", scale) };
                    self.em.case(&cmp, &tags, &desc,
                        || format!("(enc2 {} {})", vh::rollreg::model_term(f, true, "f", &a), vh::rollreg::model_term(f, true, "o", &a)),
                        || imp::roll_runs(fi, &a, integral));
                }
            }
        }
    }
    // ---------------- audit: boolean aggregations and the masked family, both parts -------------------------------
    fn enc_aggb(&mut self, xs: &[f64], style: &str) {
        let len = xs.len();
        let base = format!("part=enc len={} nv={} nulls={} style={}{}", len.min(12), nv_tag(xs), null_tag(xs), style, if len == 0 { " nt=0" } else { "" });
        self.em.case("custom:rel:exact", &format!("fn=aggb {}", base), &format!("part=enc group=aggb (vany vall; flag = x > 0, NaN = null flag) xs={}", fmt_xs(xs)),
            || format!("(aggb {})", coq_fl(xs)), || imp::aggb_runs(xs));
    }
    fn enc_aggk(&mut self, xs: &[f64], ms: &[f64], style: &str) {
        let len = xs.len().min(ms.len());
        let maxmp = len.min(4) + 1;
        let base = format!("part=enc len={} nv={} nulls={} mnulls={} style={}{}", len.min(12), nv_tag(xs), null_tag(xs), null_tag(ms), style, if len == 0 { " nt=0" } else { "" });
        self.em.case("custom:rel:1e-9", &format!("fn=aggk {}", base),
            &format!("part=enc group=aggk (mp 0..={}: n_vsum_filter.0 .1 n_sum_filter vmean_filter; flag = m > 0, NaN = null flag) xs={} mask={}", maxmp, fmt_xs(xs), fmt_xs(ms)),
            || format!("(aggk {} {} {})", coq_nat(maxmp), coq_fl(xs), coq_fl(ms)), || imp::aggk_runs(xs, ms, maxmp));
    }
    fn ins_aggb(&mut self, xs: &[f64], variants: &[(String, Vec<bool>)], scope: &str) {
        let pats: Vec<String> = variants.iter().map(|(n, m)| format!("{}:{}", n, mask_str(m))).collect();
        let base = format!("part=ins len={} nv={} nulls={} scope={} nvar={}{}", xs.len().min(12), nv_tag(xs), null_tag(xs), scope, variants.len().min(40),
            if variants.is_empty() { " nt=0" } else { "" });
        let ys: Vec<Vec<f64>> = variants.iter().map(|(_, m)| insert_nulls(xs, m)).collect();
        self.em.case("custom:rel:exact", &format!("fn=aggb {}", base),
            &format!("part=ins group=aggb (vany vall) base xs={} insertion patterns (N = inserted null flag) {:?}", fmt_xs(xs), pats),
            || format!("(aggb {})", coq_fl(xs)),
            || { let mut c = imp::aggb_runs(xs); for y in ys.iter() { c.push(Cell::Sep); c.extend(imp::aggb_runs(y)) } c });
    }
    /// observations that do not count are inserted: (null value, any flag), (value, null flag), (value, false flag)
    fn ins_aggk(&mut self, rng: &mut Rng, xs: &[f64], ms: &[f64], variants: &[(String, Vec<bool>)], scope: &str) {
        let len = xs.len();
        let maxmp = len.min(4) + 1;
        let mut vx: Vec<Vec<f64>> = vec![];
        let mut vm: Vec<Vec<f64>> = vec![];
        let mut pats: Vec<String> = vec![];
        for (name, m) in variants {
            let (mut a, mut b, mut s) = (vec![], vec![], String::new());
            let (mut ia, mut ib) = (xs.iter(), ms.iter());
            for bit in m {
                if *bit {
                    let v = rng.range(-12, 12) as f64 / 4.0;
                    match rng.below(5) {
                        0 => { a.push(f64::NAN); b.push(1.0); s.push('n') }        // null value, true flag
                        1 => { a.push(f64::NAN); b.push(f64::NAN); s.push('N') }   // null value, null flag
                        2 => { a.push(f64::NAN); b.push(-1.0); s.push('m') }       // null value, false flag
                        3 => { a.push(v); b.push(f64::NAN); s.push('f') }          // value, null flag
                        _ => { a.push(v); b.push(-1.0); s.push('F') }              // value, false flag
                    }
                } else { a.push(*ia.next().unwrap()); b.push(*ib.next().unwrap()); s.push('.') }
            }
            pats.push(format!("{}:{} -> xs'={} mask'={}", name, s, fmt_xs(&a), fmt_xs(&b)));
            vx.push(a); vm.push(b);
        }
        let base = format!("part=ins len={} nv={} scope={} nvar={}{}", len.min(12), nv_tag(xs), scope, variants.len().min(40), if variants.is_empty() { " nt=0" } else { "" });
        self.em.case("custom:rel:1e-9", &format!("fn=aggk {}", base),
            &format!("part=ins group=aggk (mp 0..={}: masked count / sum / mean) base xs={} mask={}; inserted observations {:?}", maxmp, fmt_xs(xs), fmt_xs(ms), pats),
            || format!("(aggk {} {} {})", coq_nat(maxmp), coq_fl(xs), coq_fl(ms)),
            || { let mut c = imp::aggk_runs(xs, ms, maxmp);
                 for k in 0..vx.len() { c.push(Cell::Sep); c.extend(imp::aggk_runs(&vx[k], &vm[k], maxmp)) }
                 c });
    }
    // ---------------- part=ins --------------------------------------------------------------------------
    /// `variants`: (pattern name, mask); every variant is one run, alternating Vec<f64> / Vec<Option<f64>> / option view
    fn ins_single(&mut self, xs: &[f64], variants: &[(String, Vec<bool>)], scope: &str) {
        let len = xs.len();
        let maxmp = nvalid(xs).min(6) + 1;
        let integral = false;
        let member = xs.iter().cloned().find(|x| !x.is_nan()).unwrap_or(2.0);
        let vals = vec![member, 7.0];
        let scs = vec![f64::NAN, member, member + 0.5, -100.0];
        let pats: Vec<String> = variants.iter().map(|(n, m)| format!("{}:{}", n, mask_str(m))).collect();
        let base = format!("part=ins len={} nv={} nulls={} scope={} nvar={}{}", len.min(12), nv_tag(xs), null_tag(xs), scope, variants.len().min(40),
            if variants.is_empty() { " nt=0" } else { "" });
        let d = format!("base xs={} insertion patterns (N = inserted null) {:?}", fmt_xs(xs), pats);
        let ys: Vec<Vec<f64>> = variants.iter().map(|(_, m)| insert_nulls(xs, m)).collect();
        let runs_of = |g: &dyn Fn(&[f64], usize) -> Vec<Cell>| -> Vec<Cell> {
            // run 0: the base series; then one block of runs per variant (each block: all sources)
            let mut c = g(xs, 0);
            for (k, y) in ys.iter().enumerate() { c.push(Cell::Sep); c.extend(g(y, k + 1)) }
            c
        };
        let _ = integral;
        self.em.case("custom:rel:exact", &format!("fn=aggt {}", base), &format!("part=ins group=aggt (count_valid vsum vmin vmax vfirst vlast vcount_value{:?}) {}", vals, d),
            || format!("(aggt {} {})", coq_fl(&vals), coq_fl(xs)), || runs_of(&|s, _| imp::agg_runs(1, s, &vals, 0, false)));
        self.em.case("custom:rel:1e-9", &format!("fn=aggm {}", base), &format!("part=ins group=aggm (vmean; mp 0..={}: vmean_var vvar vstd) {}", maxmp, d),
            || format!("(aggm {} {})", coq_nat(maxmp), coq_fl(xs)), || runs_of(&|s, _| imp::agg_runs(2, s, &vals, maxmp, false)));
        self.em.case("custom:rel:1e-7", &format!("fn=aggs {}", base), &format!("part=ins group=aggs (mp 0..={}: vskew vkurt) {}", maxmp, d),
            || format!("(aggs {} {})", coq_nat(maxmp), coq_fl(xs)), || runs_of(&|s, _| imp::agg_runs(3, s, &vals, maxmp, false)));
        self.em.case("custom:rel:1e-9", &format!("fn=aggq {}", base), &format!("part=ins group=aggq (vquantile q in {:?} x 4 methods; vmedian; vpercentile_of scores {:?} x 3 methods) {}", QS, scs, d),
            || format!("(aggq {} {} {})", coq_fl(&QS), coq_fl(&scs), coq_fl(xs)), || runs_of(&|s, _| imp::aggq_runs(s, &QS, &scs, false)));
    }
    /// two series: nulls inserted pairwise — (null, null), (null, v), (v, null) with an arbitrary partner v
    fn ins_pair(&mut self, rng: &mut Rng, xs: &[f64], ys: &[f64], variants: &[(String, Vec<bool>)], scope: &str) {
        let len = xs.len();
        let maxmp = len.min(5) + 1;
        let npair = xs.iter().zip(ys.iter()).filter(|(a, b)| !a.is_nan() && !b.is_nan()).count();
        let mut vx: Vec<Vec<f64>> = vec![];
        let mut vy: Vec<Vec<f64>> = vec![];
        let mut pats: Vec<String> = vec![];
        for (name, m) in variants {
            let (mut a, mut b, mut s) = (vec![], vec![], String::new());
            let (mut ia, mut ib) = (xs.iter(), ys.iter());
            for bit in m {
                if *bit {
                    let v = rng.range(-12, 12) as f64 / 4.0;
                    match rng.below(3) {
                        0 => { a.push(f64::NAN); b.push(f64::NAN); s.push('N') }
                        1 => { a.push(f64::NAN); b.push(v); s.push('x') }
                        _ => { a.push(v); b.push(f64::NAN); s.push('y') }
                    }
                } else { a.push(*ia.next().unwrap()); b.push(*ib.next().unwrap()); s.push('.') }
            }
            pats.push(format!("{}:{} -> xs'={} ys'={}", name, s, fmt_xs(&a), fmt_xs(&b)));
            vx.push(a); vy.push(b);
        }
        let base = format!("part=ins len={} npair={} scope={} nvar={}{}", len.min(12), npair.min(5), scope, variants.len().min(40), if variants.is_empty() { " nt=0" } else { "" });
        let d = format!("base xs={} ys={}; pairs inserted (N = (null,null), x = (null,v), y = (v,null)) {:?}", fmt_xs(xs), fmt_xs(ys), pats);
        self.em.case("custom:rel:1e-7", &format!("fn=agg2 {}", base), &format!("part=ins group=agg2 (mp 0..={}: vcov vcorr_pearson) {}", maxmp, d),
            || format!("(agg2 {} {} {})", coq_nat(maxmp), coq_fl(xs), coq_fl(ys)),
            || { let mut c = imp::agg2_runs(xs, ys, maxmp, false);
                 for k in 0..vx.len() { c.push(Cell::Sep); c.extend(imp::agg2_runs(&vx[k], &vy[k], maxmp, k % 2 == 1)) }
                 c });
    }
}

fn main() {
    let em = Emitter::new();
    let mut rng = Rng::new(em.args.seed);
    let thorough = em.thorough();
    let mut g = Gen { em };

    // ============ part=enc: aggregations, order statistics, maps =======================================
    // exhaustive: alphabet {-1, 0.5, 2, null}, lengths 0..=4 (thorough 5)
    let alpha = [-1.0, 0.5, 2.0, f64::NAN];
    let exh = if thorough { 5 } else { 4 };
    for len in 0..=exh {
        for xs in all_series(&alpha, len) {
            g.enc_aggs(&xs, "exh");
        }
    }
    // integral alphabet (Option<i32> joins the encodings), lengths 0..=3 (4)
    let alpha_i = [-2.0, 0.0, 3.0, f64::NAN];
    for len in 0..=(exh - 1) {
        for xs in all_series(&alpha_i, len) {
            g.enc_aggs(&xs, "exh_int");
        }
    }
    // maps on all short series (lengths 0..=3) and two-series functions on all pairs up to length 2 (+ length 3 over {0,2,null})
    for len in 0..=3 {
        for xs in all_series(&alpha, len) {
            g.enc_maps(&mut rng, &xs, "exh");
        }
    }
    for len in 0..=2 {
        for xs in all_series(&alpha, len) {
            for ys in all_series(&alpha, len) { g.enc_agg2(&xs, &ys, "exh") }
        }
    }
    let alpha3 = [0.0, 2.0, f64::NAN];
    for xs in all_series(&alpha3, 3) {
        for ys in all_series(&[-1.0, 2.0, f64::NAN], 3) { g.enc_agg2(&xs, &ys, "exh3") }
    }
    // structured random
    let nrand = if thorough { 400 } else { 60 };
    for si in 0..nrand {
        let len = rng.range(1, if si % 4 == 0 { 40 } else { 12 }) as usize;
        let integral = si % 3 == 0;
        let (xs, _) = series(&mut rng, len, integral);
        g.enc_aggs(&xs, "rand");
        if len <= 16 { g.enc_maps(&mut rng, &xs, "rand") }
        let (mut ys, _) = series(&mut rng, len, integral);
        match si % 5 {
            0 => ys = xs.iter().map(|x| 2.0 * x + 1.0).collect(),      // affine image: |r| = 1
            1 => ys = xs.iter().map(|x| if x.is_nan() { 1.5 } else { 1.5 }).collect(), // constant partner
            2 => { ys.truncate(len / 2 + 1) }                           // unequal lengths (zip truncation)
            _ => {}
        }
        g.enc_agg2(&xs, &ys, "rand");
    }

    // ============ part=enc: rolling ========================================================================
    let nroll = if thorough { 90 } else { 14 };
    for si in 0..nroll {
        let len = match si { 0 => 0, 1 => 1, 2 => 2, 3 => 3, _ => rng.range(2, if si % 3 == 0 { 16 } else { 8 }) as usize };
        let (xs, pat) = series(&mut rng, len, si % 4 == 1);
        let (ys, _) = series(&mut rng, len, si % 4 == 1);
        g.enc_rolling(&mut rng, &xs, &ys, pat);
    }
    // exhaustive small scope: every series over {1, 3, null} of length 0..=3 (thorough: {-1, 1, 3, null} up to 4)
    let ra: Vec<f64> = if thorough { vec![-1.0, 1.0, 3.0, f64::NAN] } else { vec![1.0, 3.0, f64::NAN] };
    for len in 0..=(if thorough { 4 } else { 3 }) {
        for xs in all_series(&ra, len) {
            let ys: Vec<f64> = xs.iter().enumerate().map(|(i, x)| if i % 2 == 1 && !x.is_nan() { f64::NAN } else if x.is_nan() { 2.0 } else { 3.0 - x * (i as f64) }).collect();
            g.enc_rolling(&mut rng, &xs, &ys, "exh");
        }
    }

    // ============ part=ins: null insertion ==============================================================
    // exhaustive: every base over {-1, 0.5, 2} of length 0..=3 (4), EVERY insertion pattern up to total length 5 (6)
    let vals3 = [-1.0, 0.5, 2.0];
    let (kmax, nmax) = if thorough { (4, 6) } else { (3, 5) };
    for k in 0..=kmax {
        for xs in all_series(&vals3, k) {
            let mut variants: Vec<(String, Vec<bool>)> = vec![];
            for n in k..=nmax {
                for m in masks(n, k) {
                    if n == k { continue }
                    variants.push(("all".into(), m));
                }
            }
            g.ins_single(&xs, &variants, "exh");
        }
    }
    // bases that already contain nulls, and long random bases with structured patterns
    let nins = if thorough { 300 } else { 50 };
    for si in 0..nins {
        let len = rng.range(1, if si % 4 == 0 { 30 } else { 10 }) as usize;
        let (xs, _) = series(&mut rng, len, si % 3 == 0);
        let pats = patterns(&mut rng, len);
        g.ins_single(&xs, &pats, "rand");
        let (ys, _) = series(&mut rng, len, si % 3 == 0);
        let pats2 = patterns(&mut rng, len);
        g.ins_pair(&mut rng, &xs, &ys, &pats2, "rand");
    }
    // two series, exhaustive: all pairs of valid series over {-1, 2} x {0.5, 2} of length 0..=3, every pattern up to total length 5
    for k in 0..=3 {
        for xs in all_series(&[-1.0, 2.0], k) {
            for ys in all_series(&[0.5, 2.0], k) {
                let mut variants: Vec<(String, Vec<bool>)> = vec![];
                for n in (k + 1)..=(if thorough { 5 } else { 4 }) {
                    for m in masks(n, k) { variants.push(("all".into(), m)) }
                }
                g.ins_pair(&mut rng, &xs, &ys, &variants, "exh");
            }
        }
    }
    // ============ audit: vany / vall and the masked family, part=enc and part=ins ===========================
    {
        let ab = [-1.0, 2.0, f64::NAN];
        for len in 0..=(if thorough { 5 } else { 4 }) {
            for xs in all_series(&ab, len) { g.enc_aggb(&xs, "exh") }
        }
        for len in 0..=2 {
            for xs in all_series(&[0.5, 2.0, f64::NAN], len) {
                for ms in all_series(&ab, len) { g.enc_aggk(&xs, &ms, "exh") }
            }
        }
        for si in 0..(if thorough { 200 } else { 40 }) {
            let len = rng.range(1, if si % 4 == 0 { 30 } else { 10 }) as usize;
            let (xs, _) = series(&mut rng, len, si % 3 == 0);
            let (ms, _) = series(&mut rng, if si % 7 == 0 { len / 2 + 1 } else { len }, true);
            g.enc_aggb(&ms, "rand");
            g.enc_aggk(&xs, &ms, "rand");
            let pats = patterns(&mut rng, len);
            g.ins_aggb(&xs, &pats, "rand");
            if ms.len() == len { g.ins_aggk(&mut rng, &xs, &ms, &pats, "rand") }
        }
        // exhaustive insertion: every base over {-1, 2} of length 0..=3, every pattern up to total length 5
        for k in 0..=3 {
            for xs in all_series(&[-1.0, 2.0], k) {
                let mut variants: Vec<(String, Vec<bool>)> = vec![];
                for n in (k + 1)..=5 { for m in masks(n, k) { variants.push(("all".into(), m)) } }
                g.ins_aggb(&xs, &variants, "exh");
                for ms in all_series(&[-1.0, 2.0], k) { g.ins_aggk(&mut rng, &[0.5, 2.0, -1.0][..k].to_vec(), &ms, &variants, "exh") }
            }
        }
    }
    g.em.finish();
}
