//! C19: generators (Vec1Create::range / linspace, Vec1::full / empty), every collector entry point
//! and UninitRefMut::write_trust_iter, through the public API, for every container available
//! without polars (Vec, VecDeque, Array1) plus a minimal backend that keeps every trait default.
//! Small scopes are enumerated exhaustively; see tools/propcfg/C19.py for the rule.
use std::cell::Cell as StdCell;
use std::collections::VecDeque;
use std::mem::MaybeUninit;
use std::panic::AssertUnwindSafe;
use std::rc::Rc;

use tevec::export::ndarray::{s, Array1, ArrayViewMut1};
use tevec::prelude::{
    Cast, CollectTrustedToVec, GetLen, IsNone, Number, TError, TIter, TIterator, TResult, ToTrustIter,
    TryCollectTrustedToVec, UninitRefMut, UninitVec, Vec1, Vec1Collect, Vec1Create, Vec1OptCollect,
    Vec1Mut, Vec1TryCollect, Vec1View, WriteTrustIter,
};
use vh::*;

const SENT: i64 = i64::MIN + 12345;

// ---------------------------------------------------------------------------------------------
// a backend that implements only the required items of the traits: every collector runs the
// default bodies of vec_core/cores/own.rs
pub struct Dflt<T>(pub Vec<T>);
pub struct DfltUninit<T>(Vec<MaybeUninit<T>>);

impl<T> GetLen for Dflt<T> {
    fn len(&self) -> usize {
        self.0.len()
    }
}
impl<T: Clone> TIter<T> for Dflt<T> {
    fn titer(&self) -> impl TIterator<Item = T> + '_ {
        self.0.iter().cloned()
    }
}
impl<T: Clone> Vec1View<T> for Dflt<T> {
    type SliceOutput<'a>
        = &'a [T]
    where
        Self: 'a,
        T: 'a;
    fn get_backend_name(&self) -> &'static str {
        "dflt"
    }
    unsafe fn uget(&self, index: usize) -> T {
        self.0[index].clone()
    }
}
impl<T> GetLen for DfltUninit<T> {
    fn len(&self) -> usize {
        self.0.len()
    }
}
impl<T: Clone> UninitVec<T> for DfltUninit<T> {
    type Vec = Dflt<T>;
    unsafe fn assume_init(self) -> Dflt<T> {
        Dflt(self.0.into_iter().map(|x| unsafe { x.assume_init() }).collect())
    }
}
impl<T: Clone> Vec1<T> for Dflt<T> {
    type Uninit = DfltUninit<T>;
    type UninitRefMut<'a>
        = &'a mut [MaybeUninit<T>]
    where
        T: 'a;
    fn collect_from_iter<I: Iterator<Item = T>>(iter: I) -> Self {
        Dflt(iter.collect())
    }
    fn uninit(len: usize) -> Self::Uninit {
        DfltUninit((0..len).map(|_| MaybeUninit::uninit()).collect())
    }
    fn uninit_ref_mut(uninit_vec: &mut Self::Uninit) -> Self::UninitRefMut<'_> {
        &mut uninit_vec.0[..]
    }
}

/// the items of a container, in order
trait Items<T> {
    fn items(self) -> Vec<T>;
}
impl<T> Items<T> for Vec<T> {
    fn items(self) -> Vec<T> {
        self
    }
}
impl<T> Items<T> for VecDeque<T> {
    fn items(self) -> Vec<T> {
        let mut v = vec![];
        for x in self {
            v.push(x)
        }
        v
    }
}
impl<T: Clone> Items<T> for Array1<T> {
    fn items(self) -> Vec<T> {
        self.to_vec()
    }
}
impl<T> Items<T> for Dflt<T> {
    fn items(self) -> Vec<T> {
        self.0
    }
}

// ---------------------------------------------------------------------------------------------
// a recording output buffer: every `uset` call is logged; slots start at a sentinel
struct RecBuf {
    slots: Vec<i64>,
    log: Vec<(usize, i64)>,
}
impl GetLen for RecBuf {
    fn len(&self) -> usize {
        self.slots.len()
    }
}
impl UninitRefMut<i64> for RecBuf {
    unsafe fn uset(&mut self, idx: usize, v: i64) {
        self.log.push((idx, v));
        if idx < self.slots.len() {
            self.slots[idx] = v
        }
    }
}

/// the same for any (heap-owning) element type: slots start empty
struct RecBufG<T> {
    slots: Vec<Option<T>>,
    log: Vec<usize>,
}
impl<T> GetLen for RecBufG<T> {
    fn len(&self) -> usize {
        self.slots.len()
    }
}
impl<T> UninitRefMut<T> for RecBufG<T> {
    unsafe fn uset(&mut self, idx: usize, v: T) {
        self.log.push(idx);
        if idx < self.slots.len() {
            self.slots[idx] = Some(v)
        }
    }
}

fn slot_cells(slots: &[i64]) -> Vec<Cell> {
    slots.iter().map(|v| if *v == SENT { Cell::Uninit } else { Cell::Int(*v as i128) }).collect()
}

fn status_cell(r: Result<TResult<()>, u8>) -> Cell {
    match r {
        Ok(Ok(())) => Cell::Int(0),
        Ok(Err(_)) => Cell::Err,
        Err(k) => Cell::Panic(k),
    }
}

// ---------------------------------------------------------------------------------------------
fn out_cells<T, O: Items<T>>(r: Result<O, u8>, cell: impl Fn(T) -> Cell) -> Vec<Cell> {
    match r {
        Ok(o) => {
            let mut c = vec![];
            for x in o.items() {
                c.push(cell(x))
            }
            c
        }
        Err(k) => vec![Cell::Panic(k)],
    }
}

fn run_range<T, O>(start: Option<T::Inner>, end: T::Inner, step: Option<T::Inner>, cell: impl Fn(T) -> Cell) -> Vec<Cell>
where
    T: IsNone,
    O: Vec1<T> + Items<T>,
    T::Inner: Number,
    usize: Cast<T::Inner>,
{
    out_cells(guarded(AssertUnwindSafe(|| <O as Vec1Create<T>>::range(start, end, step))), cell)
}

fn run_linspace<T, O>(start: Option<T::Inner>, end: T::Inner, n: usize, cell: impl Fn(T) -> Cell) -> Vec<Cell>
where
    T: IsNone,
    O: Vec1<T> + Items<T>,
    T::Inner: Number,
    usize: Cast<T::Inner>,
{
    out_cells(guarded(AssertUnwindSafe(|| <O as Vec1Create<T>>::linspace(start, end, n))), cell)
}

/// a source whose `size_hint` is whatever the test says: (lo, Some(hi)) independent of what it yields.
/// Safe code may build such an iterator; the plain collectors (std `collect`, `Array1::from_iter`) must
/// ignore the misreport, the default bodies of own.rs likewise.
struct Liar<I> {
    inner: I,
    lo: usize,
    hi: usize,
}
impl<I: Iterator> Iterator for Liar<I> {
    type Item = I::Item;
    fn next(&mut self) -> Option<I::Item> {
        self.inner.next()
    }
    fn size_hint(&self) -> (usize, Option<usize>) {
        (self.lo, Some(self.hi))
    }
}

/// runs `$body` once per output container of element type `$T`; `$O` is the container type,
/// `$name` its tag, `$raw` whether its trusted collectors are the raw-pointer ones
macro_rules! for_containers {
    ($T:ty, |$O:ident, $name:ident, $raw:ident| $body:block) => {{
        { type $O = Vec<$T>; let $name = "vec"; let $raw = true; $body }
        { type $O = VecDeque<$T>; let $name = "deque"; let $raw = true; $body }
        { type $O = Array1<$T>; let $name = "nd"; let $raw = true; $body }
        { type $O = Dflt<$T>; let $name = "dflt"; let $raw = false; $body }
    }};
}

fn zopt(v: Option<i64>) -> String {
    coq_opt(&v, |x| coq_z(*x as i128))
}
fn fopt(v: Option<f64>) -> String {
    coq_opt(&v, |x| coq_f64(*x))
}
fn sign_tag(v: Option<f64>) -> &'static str {
    match v {
        None => "none",
        Some(x) if x < 0.0 => "neg",
        Some(x) if x == 0.0 => "zero",
        Some(_) => "pos",
    }
}
/// classification of a range request (for the histogram): empty / divisible / non-divisible span
fn span_tag(a: f64, b: f64, step: f64) -> &'static str {
    if step == 0.0 {
        "stepzero"
    } else if (step > 0.0 && b <= a) || (step < 0.0 && b >= a) {
        "empty"
    } else {
        let q = (b - a) / step;
        if (q - q.round()).abs() < 1e-9 { "div" } else { "nondiv" }
    }
}

macro_rules! int_generators {
    ($em:expr, $T:ty, $tyname:expr, $signed:expr, $lo:expr, $hi:expr) => {{
        let signed: bool = $signed;
        let vals: Vec<i64> = ($lo..=$hi).collect();
        let mut starts: Vec<Option<i64>> = vec![None];
        starts.extend(vals.iter().map(|v| Some(*v)));
        let steps = starts.clone();
        // ---- range
        for st in &starts {
            for e in &vals {
                for sp in &steps {
                    let (a, b, s) = (st.unwrap_or(0) as f64, *e as f64, sp.unwrap_or(1) as f64);
                    let span = span_tag(a, b, s);
                    let nt = if span == "empty" || span == "stepzero" { " nt=0" } else { "" };
                    for_containers!($T, |O, name, raw| {
                        let tags = format!("fn=range ty={} out={} start={} step={} span={}{}", $tyname, name,
                            sign_tag(st.map(|v| v as f64)), sign_tag(sp.map(|v| v as f64)), span, nt);
                        let desc = format!("fn=range ty={} out={} start={:?} end={} step={:?}", $tyname, name, st, e, sp);
                        $em.case("exact", &tags, &desc,
                            || format!("(run_range_z {} {} {} {} {})", coq_bool(signed), coq_bool(raw), zopt(*st), coq_z(*e as i128), zopt(*sp)),
                            || run_range::<$T, O>(st.map(|v| v as $T), *e as $T, sp.map(|v| v as $T), |x: $T| Cell::Int(x as i128)));
                    });
                }
            }
        }
        // ---- linspace
        for st in &starts {
            for e in &vals {
                for n in 0..=8usize {
                    let nt = if n == 0 { " nt=0" } else { "" };
                    let dir = if *e < st.unwrap_or(0) { "down" } else if *e == st.unwrap_or(0) { "flat" } else { "up" };
                    for_containers!($T, |O, name, raw| {
                        let tags = format!("fn=linspace ty={} out={} start={} dir={} n={}{}", $tyname, name,
                            sign_tag(st.map(|v| v as f64)), dir, n, nt);
                        let desc = format!("fn=linspace ty={} out={} start={:?} end={} n={}", $tyname, name, st, e, n);
                        $em.case("exact", &tags, &desc,
                            || format!("(run_linspace_z {} {} {} {} {})", coq_bool(signed), coq_bool(raw), zopt(*st), coq_z(*e as i128), coq_nat(n)),
                            || run_linspace::<$T, O>(st.map(|v| v as $T), *e as $T, n, |x: $T| Cell::Int(x as i128)));
                    });
                }
            }
        }
    }};
}

/// float generators; `$cmp_lin` is the comparator for linspace (f32 rounds differently from the binary64 model)
macro_rules! float_generators {
    ($em:expr, $T:ty, $tyname:expr, $cmp_lin:expr, $triples:expr, $lins:expr, $containers:expr) => {{
        for (st, e, sp, family) in $triples.iter() {
            let (a, b, s) = (st.unwrap_or(0.0), *e, sp.unwrap_or(1.0));
            let span = span_tag(a, b, s);
            let nt = if span == "empty" || span == "stepzero" { " nt=0" } else { "" };
            for_containers!($T, |O, name, raw| {
                if $containers || name == "vec" {
                    let tags = format!("fn=range ty={} out={} start={} step={} span={} family={}{}", $tyname, name,
                        sign_tag(*st), sign_tag(*sp), span, family, nt);
                    let desc = format!("fn=range ty={} out={} start={:?} end={:?} step={:?}", $tyname, name, st, e, sp);
                    // dyadic families are exact in binary64; non-representable steps go through the
                    // tolerant comparator (one element more or less only in the 1e-9 band, DESIGN 5.1)
                    let cmp = if *family != "tenths" { "exact" } else if span == "div" { "custom:frange:band" } else { "custom:frange:strict" };
                    $em.case(cmp, &tags, &desc,
                        || format!("(run_range_f {} {} {} {})", coq_bool(raw), fopt(*st), coq_f64(*e), fopt(*sp)),
                        || run_range::<$T, O>(st.map(|v| v as $T), *e as $T, sp.map(|v| v as $T), |x: $T| Cell::F(x as f64)));
                }
            });
        }
        for (st, e, n) in $lins.iter() {
            let nt = if *n == 0 { " nt=0" } else { "" };
            let dir = if *e < st.unwrap_or(0.0) { "down" } else if *e == st.unwrap_or(0.0) { "flat" } else { "up" };
            for_containers!($T, |O, name, raw| {
                if $containers || name == "vec" {
                    let tags = format!("fn=linspace ty={} out={} start={} dir={} n={}{}", $tyname, name, sign_tag(*st), dir, n, nt);
                    let desc = format!("fn=linspace ty={} out={} start={:?} end={:?} n={}", $tyname, name, st, e, n);
                    $em.case($cmp_lin, &tags, &desc,
                        || format!("(run_linspace_f {} {} {} {})", coq_bool(raw), fopt(*st), coq_f64(*e), coq_nat(*n)),
                        || run_linspace::<$T, O>(st.map(|v| v as $T), *e as $T, *n, |x: $T| Cell::F(x as f64)));
                }
            });
        }
    }};
}

fn coq_zlist(v: &[i64]) -> String {
    coq_list(v, |x| coq_z(*x as i128))
}

/// the item sequence used by the collector cases
fn items_of(len: usize) -> Vec<i64> {
    (0..len).map(|i| 10 * (i as i64 + 1) - 35).collect()
}

fn main() {
    let mut em = Emitter::new();
    let thorough = em.thorough();
    let mut rng = Rng::new(em.args.seed);

    // ============================================================ generators, integer types
    let (lo, hi) = if thorough { (-9i64, 9i64) } else { (-6, 6) };
    int_generators!(em, i32, "i32", true, lo, hi);
    int_generators!(em, i64, "i64", true, lo, hi);
    int_generators!(em, u64, "u64", false, 0i64, hi);
    int_generators!(em, usize, "usize", false, 0i64, hi);
    // Option<i32> elements (T::from_inner wraps)
    for st in [None, Some(-3i64), Some(0), Some(2)] {
        for e in lo..=hi {
            for sp in [None, Some(-2i64), Some(2), Some(3), Some(-5)] {
                let span = span_tag(st.unwrap_or(0) as f64, e as f64, sp.unwrap_or(1) as f64);
                let nt = if span == "empty" { " nt=0" } else { "" };
                for_containers!(Option<i32>, |O, name, raw| {
                    let tags = format!("fn=range ty=opt_i32 out={} span={}{}", name, span, nt);
                    let desc = format!("fn=range ty=opt_i32 out={} start={:?} end={} step={:?}", name, st, e, sp);
                    em.case("exact", &tags, &desc,
                        || format!("(run_range_z true {} {} {} {})", coq_bool(raw), zopt(st), coq_z(e as i128), zopt(sp)),
                        || run_range::<Option<i32>, O>(st.map(|v| v as i32), e as i32, sp.map(|v| v as i32),
                            |x: Option<i32>| match x { Some(v) => Cell::Int(v as i128), None => Cell::Null }));
                });
            }
        }
    }

    // ============================================================ generators, float types
    // family "quarter": every start/end in -2..2 by 1/4 against a ladder of dyadic steps (exhaustive)
    let mut triples: Vec<(Option<f64>, f64, Option<f64>, &'static str)> = vec![];
    let ladder: [f64; 9] = [0.25, 0.5, 0.75, 1.0, 1.25, 1.5, 2.0, 2.5, 6.0];
    let q = if thorough { 12 } else { 8 };
    for a in -q..=q {
        for b in -q..=q {
            for s in ladder {
                for sg in [1.0, -1.0] {
                    triples.push((Some(a as f64 / 4.0), b as f64 / 4.0, Some(sg * s), "quarter"));
                }
            }
        }
    }
    // defaults: start = None (0), step = None (1)
    for b in -24..=24 {
        triples.push((None, b as f64 / 4.0, None, "defaults"));
        triples.push((None, b as f64 / 4.0, Some(0.75), "defaults"));
        triples.push((Some(-1.5), b as f64 / 4.0, None, "defaults"));
    }
    // family "wide": random quarter-step triples over -6..6
    for _ in 0..(if thorough { 6000 } else { 1500 }) {
        let a = rng.range(-24, 24) as f64 / 4.0;
        let b = rng.range(-24, 24) as f64 / 4.0;
        let mut s = rng.range(-24, 24) as f64 / 4.0;
        if s == 0.0 {
            s = 0.25
        }
        triples.push((Some(a), b, Some(s), "wide"));
    }
    // family "tenths": steps that are not representable (the quotient is then rounded): exhaustive
    let tq = if thorough { 20 } else { 10 };
    let mut tenths: Vec<(Option<f64>, f64, Option<f64>, &'static str)> = vec![];
    for a in -tq..=tq {
        for b in -tq..=tq {
            for s in [0.1, 0.2, 0.3, 0.7, 1.1] {
                for sg in [1.0, -1.0] {
                    tenths.push((Some(a as f64 / 10.0), b as f64 / 10.0, Some(sg * s), "tenths"));
                }
            }
        }
    }
    // step = 0, NaN arguments: outside the property (recorded, model mirrors the code)
    let mut odd: Vec<(Option<f64>, f64, Option<f64>, &'static str)> = vec![];
    for (a, b) in [(0.0, 0.0), (1.0, 1.0), (3.0, 1.0), (f64::NAN, 1.0), (0.0, f64::NAN)] {
        odd.push((Some(a), b, Some(if a.is_nan() || b.is_nan() { 1.0 } else { 0.0 }), "outside"));
    }
    odd.push((Some(0.0), 2.0, Some(f64::NAN), "outside"));
    let mut lins: Vec<(Option<f64>, f64, usize)> = vec![];
    for a in (-24..=24).step_by(3) {
        for b in (-24..=24).step_by(3) {
            for n in 0..=8usize {
                lins.push((Some(a as f64 / 4.0), b as f64 / 4.0, n));
            }
        }
    }
    for b in (-24..=24).step_by(5) {
        for n in 0..=8usize {
            lins.push((None, b as f64 / 4.0, n));
        }
    }
    for _ in 0..(if thorough { 3000 } else { 600 }) {
        lins.push((Some(rng.range(-60, 60) as f64 / 10.0), rng.range(-60, 60) as f64 / 10.0, rng.below(if thorough { 40 } else { 13 })));
    }
    float_generators!(em, f64, "f64", "float:1e-9", triples, lins, true);
    let no_lins: Vec<(Option<f64>, f64, usize)> = vec![];
    float_generators!(em, f64, "f64", "exact", tenths, no_lins, false);
    float_generators!(em, f64, "f64", "exact", odd, no_lins, false);
    // f32: dyadic inputs only (every operation of range is exact there; linspace within f32 rounding)
    let lins32: Vec<(Option<f64>, f64, usize)> = lins.iter().filter(|(a, b, _)| (a.unwrap_or(0.0) * 4.0).fract() == 0.0 && (b * 4.0).fract() == 0.0).cloned().collect();
    let triples32: Vec<_> = triples.iter().filter(|t| t.3 != "wide").cloned().collect();
    float_generators!(em, f32, "f32", "float:1e-6", triples32, lins32, false);
    // Option<f64> elements
    for (st, e, sp, _) in triples.iter().filter(|t| t.3 == "defaults" || t.3 == "wide").take(400) {
        let span = span_tag(st.unwrap_or(0.0), *e, sp.unwrap_or(1.0));
        let nt = if span == "empty" { " nt=0" } else { "" };
        for_containers!(Option<f64>, |O, name, raw| {
            let tags = format!("fn=range ty=opt_f64 out={} span={}{}", name, span, nt);
            let desc = format!("fn=range ty=opt_f64 out={} start={:?} end={:?} step={:?}", name, st, e, sp);
            em.case("exact", &tags, &desc,
                || format!("(run_range_f {} {} {} {})", coq_bool(raw), fopt(*st), coq_f64(*e), fopt(*sp)),
                || run_range::<Option<f64>, O>(*st, *e, *sp, |x: Option<f64>| match x { Some(v) => Cell::F(v), None => Cell::Null }));
        });
    }

    // ============================================================ full / empty
    for n in 0..=8usize {
        let nt = if n == 0 { " nt=0" } else { "" };
        for v in [0i64, -7, 42] {
            for_containers!(i64, |O, name, raw| {
                em.case("exact", &format!("fn=full ty=i64 out={} n={}{}", name, n, nt),
                    &format!("fn=full ty=i64 out={} n={} v={}", name, n, v),
                    || format!("(run_full_z {} {} {})", coq_bool(raw), coq_nat(n), coq_z(v as i128)),
                    || out_cells(guarded(|| <O as Vec1<i64>>::full(n, v)), |x: i64| Cell::Int(x as i128)));
            });
        }
        for v in [f64::NAN, 2.5, -0.125] {
            for_containers!(f64, |O, name, raw| {
                em.case("exact", &format!("fn=full ty=f64 out={} n={}{}", name, n, nt),
                    &format!("fn=full ty=f64 out={} n={} v={:?}", name, n, v),
                    || format!("(run_full_f {} {} {})", coq_bool(raw), coq_nat(n), coq_f64(v)),
                    || out_cells(guarded(|| <O as Vec1<f64>>::full(n, v)), |x: f64| Cell::F(x)));
            });
        }
    }
    for_containers!(i64, |O, name, _raw| {
        em.case("exact", &format!("fn=empty out={} nt=0", name), &format!("fn=empty out={}", name),
            || "run_empty".to_string(),
            || out_cells(guarded(|| <O as Vec1<i64>>::empty()), |x: i64| Cell::Int(x as i128)));
    });

    // ============================================================ infallible collectors
    let maxlen = if thorough { 9 } else { 6 };
    let icell = |x: i64| Cell::Int(x as i128);
    for len in 0..=maxlen {
        let items = items_of(len);
        let nt = if len == 0 { " nt=0" } else { "" };
        let zl = coq_zlist(&items);
        for_containers!(i64, |O, name, raw| {
            let mut emit = |api: &str, src: &str, term: String, run: &mut dyn FnMut() -> Vec<Cell>| {
                em.case("exact", &format!("fn={} out={} src={} len={}{}", api, name, src, len, nt),
                    &format!("fn={} out={} src={} items={:?}", api, name, src, items), || term, || run());
            };
            // plain: Vec1Collect::collect_vec1 and Vec1::collect_from_iter, several sources
            emit("collect_vec1", "vec_into", format!("(run_collect_plain {})", zl),
                &mut || out_cells(guarded(|| items.clone().collect_vec1::<O>()), icell));
            emit("collect_vec1", "filter", format!("(run_collect_plain {})", zl),
                &mut || out_cells(guarded(|| Iterator::filter(items.clone().into_iter(), |_| true).collect_vec1::<O>()), icell));
            // sources whose size_hint upper bound is NOT tight: they yield fewer items than they may announce, so a
            // collector that trusts the upper bound (allocate + set_len) exposes unwritten slots
            {
                let kept: Vec<i64> = Iterator::map(Iterator::filter(Iterator::enumerate(items.iter().cloned()), |(i, _)| i % 3 != 1), |(_, x)| x).collect();
                let zk = coq_zlist(&kept);
                emit("collect_vec1", "filter_drops", format!("(run_collect_plain {})", zk),
                    &mut || out_cells(guarded(|| Iterator::map(Iterator::filter(Iterator::enumerate(items.clone().into_iter()), |(i, _)| i % 3 != 1), |(_, x)| x).collect_vec1::<O>()), icell));
                emit("collect_from_iter", "filter_drops", format!("(run_collect_plain {})", zk),
                    &mut || out_cells(guarded(|| <O as Vec1<i64>>::collect_from_iter(Iterator::map(Iterator::filter(Iterator::enumerate(items.clone().into_iter()), |(i, _)| i % 3 != 1), |(_, x)| x))), icell));
                let tw: Vec<i64> = Iterator::take_while(items.iter().cloned(), |x| *x < 15).collect();
                emit("collect_vec1", "take_while", format!("(run_collect_plain {})", coq_zlist(&tw)),
                    &mut || out_cells(guarded(|| Iterator::take_while(items.clone().into_iter(), |x| *x < 15).collect_vec1::<O>()), icell));
                let sw: Vec<i64> = Iterator::skip_while(items.iter().cloned(), |x| *x < -5).collect();
                emit("collect_from_iter", "skip_while", format!("(run_collect_plain {})", coq_zlist(&sw)),
                    &mut || out_cells(guarded(|| <O as Vec1<i64>>::collect_from_iter(Iterator::skip_while(items.clone().into_iter(), |x| *x < -5))), icell));
            }
            emit("collect_vec1", "deque_ref", format!("(run_collect_plain {})", zl),
                &mut || { let d: VecDeque<i64> = items.iter().cloned().collect();
                          out_cells(guarded(|| d.iter().cloned().collect_vec1::<O>()), icell) });
            emit("collect_from_iter", "chain", format!("(run_collect_plain {})", zl),
                &mut || { let k = len / 2;
                          out_cells(guarded(|| <O as Vec1<i64>>::collect_from_iter(Iterator::chain(items[..k].iter().cloned(), items[k..].iter().cloned()))), icell) });
            // trusted: Vec1Collect::collect_trusted_vec1 and Vec1::collect_from_trusted
            emit("collect_trusted_vec1", "vec_into", format!("(run_collect_trusted {} {})", coq_bool(raw), zl),
                &mut || out_cells(guarded(|| items.clone().collect_trusted_vec1::<O>()), icell));
            emit("collect_trusted_vec1", "titer", format!("(run_collect_trusted {} {})", coq_bool(raw), zl),
                &mut || out_cells(guarded(|| items.titer().collect_trusted_vec1::<O>()), icell));
            emit("collect_trusted_vec1", "range_map", format!("(run_collect_trusted {} {})", coq_bool(raw), zl),
                &mut || out_cells(guarded(|| Iterator::map(0..len, |i| 10 * (i as i64 + 1) - 35).collect_trusted_vec1::<O>()), icell));
            emit("collect_trusted_vec1", "rev_rev", format!("(run_collect_trusted {} {})", coq_bool(raw), zl),
                &mut || { let mut r = items.clone(); r.reverse();
                          out_cells(guarded(|| Iterator::rev(r.into_iter()).collect_trusted_vec1::<O>()), icell) });
            emit("collect_from_trusted", "to_trust", format!("(run_collect_with_len {} {} {})", coq_bool(raw), zl, coq_nat(len)),
                &mut || out_cells(guarded(|| <O as Vec1<i64>>::collect_from_trusted(Iterator::filter(items.clone().into_iter(), |_| true).to_trust(len))), icell));
            // explicit length
            emit("collect_vec1_with_len", "filter", format!("(run_collect_with_len {} {} {})", coq_bool(raw), zl, coq_nat(len)),
                &mut || out_cells(guarded(|| Iterator::filter(items.clone().into_iter(), |_| true).collect_vec1_with_len::<O>(len)), icell));
            emit("collect_with_len", "vec_into", format!("(run_collect_with_len {} {} {})", coq_bool(raw), zl, coq_nat(len)),
                &mut || out_cells(guarded(|| <O as Vec1<i64>>::collect_with_len(items.clone().into_iter(), len)), icell));
            if !raw {
                // a backend on the trait defaults ignores the announced length: safe to run with a wrong one
                for wrong in 0..=len + 2 {
                    if wrong == len { continue }
                    em.case("exact", &format!("fn=collect_vec1_with_len out={} src=wronglen len={} scope=outside{}", name, len, nt),
                        &format!("fn=collect_vec1_with_len out={} items={:?} announced={}", name, items, wrong),
                        || format!("(run_collect_with_len false {} {})", zl, coq_nat(wrong)),
                        || out_cells(guarded(|| items.clone().collect_vec1_with_len::<O>(wrong)), icell));
                }
            }
        });
        // the raw collectors themselves
        em.case("exact", &format!("fn=collect_trusted_to_vec out=vec src=titer len={}{}", len, nt),
            &format!("fn=collect_trusted_to_vec items={:?}", items), || format!("(run_collect_trusted true {})", zl),
            || out_cells(guarded(|| items.titer().collect_trusted_to_vec()), icell));
        // float items (NaN passes through untouched)
        let fitems: Vec<f64> = (0..len).map(|i| if i % 3 == 1 { f64::NAN } else { i as f64 * 0.75 - 1.0 }).collect();
        let fl_ = coq_list(&fitems, |x| coq_f64(*x));
        for_containers!(f64, |O, name, raw| {
            em.case("exact", &format!("fn=collect_vec1 ty=f64 out={} len={}{}", name, len, nt),
                &format!("fn=collect_vec1 ty=f64 out={} items={:?}", name, fitems), || format!("(run_collect_plain_f {})", fl_),
                || out_cells(guarded(|| fitems.clone().collect_vec1::<O>()), |x: f64| Cell::F(x)));
            em.case("exact", &format!("fn=collect_trusted_vec1 ty=f64 out={} len={}{}", name, len, nt),
                &format!("fn=collect_trusted_vec1 ty=f64 out={} items={:?}", name, fitems), || format!("(run_collect_trusted_f {} {})", coq_bool(raw), fl_),
                || out_cells(guarded(|| fitems.titer().collect_trusted_vec1::<O>()), |x: f64| Cell::F(x)));
        });
        // heap-owning, non-Copy items: a misplaced raw write or a double drop would crash or corrupt
        let sitems: Vec<String> = items.iter().map(|x| format!("s{}", x)).collect();
        let scell = |x: String| Cell::Int(x[1..].parse::<i64>().unwrap() as i128);
        for_containers!(String, |O, name, raw| {
            em.case("exact", &format!("fn=collect_trusted_vec1 ty=string out={} len={}{}", name, len, nt),
                &format!("fn=collect_trusted_vec1 ty=string out={} items={:?}", name, sitems), || format!("(run_collect_trusted {} {})", coq_bool(raw), zl),
                || out_cells(guarded(|| sitems.clone().collect_trusted_vec1::<O>()), scell));
            em.case("exact", &format!("fn=collect_vec1_with_len ty=string out={} len={}{}", name, len, nt),
                &format!("fn=collect_vec1_with_len ty=string out={} items={:?}", name, sitems), || format!("(run_collect_with_len {} {} {})", coq_bool(raw), zl, coq_nat(len)),
                || out_cells(guarded(|| Iterator::filter(sitems.clone().into_iter(), |_| true).collect_vec1_with_len::<O>(len)), scell));
            em.case("exact", &format!("fn=full ty=string out={} n={}{}", name, len, nt),
                &format!("fn=full ty=string out={} n={} v=\"s7\"", name, len), || format!("(run_full_z {} {} 7)", coq_bool(raw), coq_nat(len)),
                || out_cells(guarded(|| <O as Vec1<String>>::full(len, "s7".to_string())), scell));
        });
    }

    // ============================================================ optional -> null-encoded
    let optlen = if thorough { 7 } else { 5 };
    for len in 0..=optlen {
        for mask in 0..(1u32 << len) {
            let fo: Vec<Option<f64>> = (0..len).map(|i| if mask >> i & 1 == 1 { None } else { Some(i as f64 * 1.5 - 2.0) }).collect();
            let oo: Vec<Option<Option<i32>>> = (0..len).map(|i| if mask >> i & 1 == 1 { None } else if i % 3 == 2 { Some(None) } else { Some(Some(i as i32 - 2)) }).collect();
            let nulls = mask.count_ones();
            let nt = if len == 0 { " nt=0" } else { "" };
            let fterm = coq_list(&fo, |x| coq_opt(x, |v| coq_f64(*v)));
            let oterm = coq_list(&oo, |x| coq_opt(x, |v| coq_opt(v, |w| coq_z(*w as i128))));
            for_containers!(f64, |O, name, _raw| {
                em.case("exact", &format!("fn=collect_vec1_opt ty=f64 out={} len={} nulls={}{}", name, len, nulls, nt),
                    &format!("fn=collect_vec1_opt ty=f64 out={} items={:?}", name, fo), || format!("(run_collect_opt_f {})", fterm),
                    || out_cells(guarded(|| fo.clone().collect_vec1_opt::<O>()), |x: f64| Cell::F(x)));
            });
            // optional sources with a loose upper bound (filter / take_while drop items)
            {
                let fk: Vec<Option<f64>> = Iterator::map(Iterator::filter(Iterator::enumerate(fo.iter().cloned()), |(i, _)| i % 3 != 1), |(_, x)| x).collect();
                let fkterm = coq_list(&fk, |x| coq_opt(x, |v| coq_f64(*v)));
                let ft: Vec<Option<f64>> = Iterator::take_while(fo.iter().cloned(), |x| x.map_or(true, |v| v < 2.0)).collect();
                let ftterm = coq_list(&ft, |x| coq_opt(x, |v| coq_f64(*v)));
                for_containers!(f64, |O, name, _raw| {
                    em.case("exact", &format!("fn=collect_vec1_opt ty=f64 out={} src=filter_drops len={} nulls={}{}", name, len, nulls, nt),
                        &format!("fn=collect_vec1_opt ty=f64 out={} src=filter(i%3!=1) items={:?}", name, fo), || format!("(run_collect_opt_f {})", fkterm),
                        || out_cells(guarded(|| Iterator::map(Iterator::filter(Iterator::enumerate(fo.clone().into_iter()), |(i, _)| i % 3 != 1), |(_, x)| x).collect_vec1_opt::<O>()), |x: f64| Cell::F(x)));
                    em.case("exact", &format!("fn=collect_from_opt_iter ty=f64 out={} src=take_while len={} nulls={}{}", name, len, nulls, nt),
                        &format!("fn=collect_from_opt_iter ty=f64 out={} src=take_while(v<2) items={:?}", name, fo), || format!("(run_collect_opt_f {})", ftterm),
                        || out_cells(guarded(|| <O as Vec1<f64>>::collect_from_opt_iter(Iterator::take_while(fo.clone().into_iter(), |x| x.map_or(true, |v| v < 2.0)))), |x: f64| Cell::F(x)));
                });
            }
            for_containers!(Option<i32>, |O, name, _raw| {
                em.case("exact", &format!("fn=collect_vec1_opt ty=opt_i32 out={} len={} nulls={}{}", name, len, nulls, nt),
                    &format!("fn=collect_vec1_opt ty=opt_i32 out={} items={:?}", name, oo), || format!("(run_collect_opt_oz {})", oterm),
                    || out_cells(guarded(|| oo.clone().collect_vec1_opt::<O>()),
                        |x: Option<i32>| match x { Some(v) => Cell::Int(v as i128), None => Cell::Null }));
            });
        }
    }

    // ============================================================ fallible collectors
    // every error pattern over length 0..=6; error number 100+position; the source counts its pulls
    let trylen = if thorough { 8 } else { 6 };
    for len in 0..=trylen {
        for mask in 0..(1u32 << len) {
            let pat: Vec<Result<i64, i64>> = (0..len).map(|i| if mask >> i & 1 == 1 { Err(100 + i as i64) } else { Ok(10 * i as i64 + 3) }).collect();
            let term_items = coq_list(&pat, |x| match x { Ok(v) => format!("inl {}", coq_z(*v as i128)), Err(k) => format!("inr {}", coq_z(*k as i128)) });
            let nerr = mask.count_ones();
            let first = if mask == 0 { "none".to_string() } else { format!("{}", mask.trailing_zeros()) };
            let nt = if len == 0 { " nt=0" } else { "" };
            let mk = |pulls: Rc<StdCell<usize>>| {
                let pat = pat.clone();
                Iterator::map(pat.into_iter(), move |x| -> TResult<i64> {
                    pulls.set(pulls.get() + 1);
                    match x { Ok(v) => Ok(v), Err(k) => Err(TError::IdxOut { idx: k as usize, len: 0 }) }
                })
            };
            fn tres_cells<O: Items<i64>>(r: Result<TResult<O>, u8>, pulls: usize) -> Vec<Cell> {
                match r {
                    Err(k) => vec![Cell::Panic(k)],
                    Ok(Err(TError::IdxOut { idx, .. })) => vec![Cell::Err, Cell::Int(idx as i128), Cell::Int(pulls as i128)],
                    Ok(Err(_)) => vec![Cell::Err, Cell::Int(-1), Cell::Int(pulls as i128)],
                    Ok(Ok(o)) => {
                        let mut c: Vec<Cell> = o.items().into_iter().map(|x| Cell::Int(x as i128)).collect();
                        c.push(Cell::Sep);
                        c.push(Cell::Int(pulls as i128));
                        c
                    }
                }
            }
            for_containers!(i64, |O, name, raw| {
                let tg = |api: &str| format!("fn={} out={} len={} nerr={} first={}{}", api, name, len, nerr, first, nt);
                let ds = |api: &str| format!("fn={} out={} items={:?}", api, name, pat);
                em.case("exact", &tg("try_collect_vec1"), &ds("try_collect_vec1"), || format!("(run_try_collect {})", term_items), || {
                    let pulls = Rc::new(StdCell::new(0));
                    let it = mk(pulls.clone());
                    let r = guarded(AssertUnwindSafe(|| it.try_collect_vec1::<O>()));
                    tres_cells(r, pulls.get())
                });
                em.case("exact", &tg("try_collect_trusted_vec1"), &ds("try_collect_trusted_vec1"),
                    || format!("(run_try_collect_trusted {} {})", coq_bool(raw), term_items), || {
                    let pulls = Rc::new(StdCell::new(0));
                    let it = mk(pulls.clone());
                    let r = guarded(AssertUnwindSafe(|| it.try_collect_trusted_vec1::<O>()));
                    tres_cells(r, pulls.get())
                });
                em.case("exact", &tg("try_collect_from_trusted"), &ds("try_collect_from_trusted(to_trust)"),
                    || format!("(run_try_collect_trusted {} {})", coq_bool(raw), term_items), || {
                    let pulls = Rc::new(StdCell::new(0));
                    let it = Iterator::filter(mk(pulls.clone()), |_| true).to_trust(len);
                    let r = guarded(AssertUnwindSafe(|| <O as Vec1<i64>>::try_collect_from_trusted(it)));
                    tres_cells(r, pulls.get())
                });
            });
            // String items: the Ok prefix written before the first Err is abandoned (leaked), never dropped twice
            for_containers!(String, |O, name, raw| {
                em.case("exact", &format!("fn=try_collect_trusted_vec1 ty=string out={} len={} nerr={} first={}{}", name, len, nerr, first, nt),
                    &format!("fn=try_collect_trusted_vec1 ty=string out={} items={:?}", name, pat),
                    || format!("(run_try_collect_trusted {} {})", coq_bool(raw), term_items), || {
                    let pulls = Rc::new(StdCell::new(0usize));
                    let p2 = pulls.clone();
                    let it = Iterator::map(pat.clone().into_iter(), move |x| -> TResult<String> {
                        p2.set(p2.get() + 1);
                        match x { Ok(v) => Ok(format!("s{}", v)), Err(k) => Err(TError::IdxOut { idx: k as usize, len: 0 }) }
                    });
                    match guarded(AssertUnwindSafe(|| it.try_collect_trusted_vec1::<O>())) {
                        Err(k) => vec![Cell::Panic(k)],
                        Ok(Err(TError::IdxOut { idx, .. })) => vec![Cell::Err, Cell::Int(idx as i128), Cell::Int(pulls.get() as i128)],
                        Ok(Err(_)) => vec![Cell::Err, Cell::Int(-1), Cell::Int(pulls.get() as i128)],
                        Ok(Ok(o)) => {
                            let mut c: Vec<Cell> = o.items().into_iter().map(|x| Cell::Int(x[1..].parse::<i64>().unwrap() as i128)).collect();
                            c.push(Cell::Sep);
                            c.push(Cell::Int(pulls.get() as i128));
                            c
                        }
                    }
                });
            });
            em.case("exact", &format!("fn=try_collect_trusted_to_vec out=vec len={} nerr={} first={}{}", len, nerr, first, nt),
                &format!("fn=try_collect_trusted_to_vec items={:?}", pat), || format!("(run_try_collect_trusted true {})", term_items), || {
                let pulls = Rc::new(StdCell::new(0));
                let it = mk(pulls.clone());
                let r = guarded(AssertUnwindSafe(|| it.try_collect_trusted_to_vec()));
                tres_cells(r, pulls.get())
            });
        }
    }

    // ============================================================ write_trust_iter
    // buffer length x announced length x actual length; announced = actual is the TrustedLen
    // contract (in scope), announced != actual is a caller error reachable through safe code
    let (maxbuf, maxit) = if thorough { (7usize, 9usize) } else { (5, 6) };
    for len in 0..=maxbuf {
        for hint in 0..=maxit {
            for actual in 0..=maxit {
                let items: Vec<i64> = (0..actual).map(|i| 7 * i as i64 - 9).collect();
                let zl = coq_zlist(&items);
                let class = if len == 0 { "len0" } else if hint == len { "equal" } else if hint == 1 { "broadcast" } else { "mismatch" };
                let scope = if hint == actual { "contract" } else { "lying_hint" };
                let nt = if len == 0 { " nt=0" } else { "" };
                let tg = |buf: &str, src: &str, api: &str| format!("fn=write_trust_iter buf={} src={} api={} class={} scope={} len={} iter={}{}", buf, src, api, class, scope, len, hint, nt);
                let ds = |buf: &str, src: &str, api: &str| format!("fn=write_trust_iter buf={} src={} api={} buflen={} announced={} items={:?}", buf, src, api, len, hint, items);
                let with_trace = format!("(run_write {} {} {})", coq_nat(len), coq_nat(hint), zl);
                let no_trace = format!("(run_write_buf {} {} {})", coq_nat(len), coq_nat(hint), zl);
                // recording buffer, TrustIter source
                for api in ["write_trust_iter", "write"] {
                    em.case("exact", &tg("rec", "to_trust", api), &ds("rec", "to_trust", api), || with_trace.clone(), || {
                        let mut b = RecBuf { slots: vec![SENT; len], log: vec![] };
                        let it = items.clone().into_iter().to_trust(hint);
                        let r = guarded(AssertUnwindSafe(|| if api == "write" { it.write(&mut b) } else { b.write_trust_iter(it) }));
                        let mut c = vec![status_cell(r)];
                        for (i, v) in &b.log {
                            c.push(Cell::Int(*i as i128));
                            c.push(Cell::Int(*v as i128));
                        }
                        c.push(Cell::Sep);
                        c.extend(slot_cells(&b.slots));
                        c
                    });
                }
                // the library's own buffers (sentinel-initialised, so reading them back is defined)
                em.case("exact", &tg("vec", "to_trust", "write_trust_iter"), &ds("vec", "to_trust", "write_trust_iter"), || no_trace.clone(), || {
                    let mut u: Vec<MaybeUninit<i64>> = (0..len).map(|_| MaybeUninit::new(SENT)).collect();
                    let it = items.clone().into_iter().to_trust(hint);
                    let r = guarded(AssertUnwindSafe(|| { let mut o = Vec::<i64>::uninit_ref_mut(&mut u); o.write_trust_iter(it) }));
                    let mut c = vec![status_cell(r), Cell::Sep];
                    c.extend(slot_cells(&unsafe { u.assume_init() }));
                    c
                });
                em.case("exact", &tg("deque", "to_trust", "write"), &ds("deque", "to_trust", "write"), || no_trace.clone(), || {
                    let mut u: VecDeque<MaybeUninit<i64>> = (0..len).map(|_| MaybeUninit::new(SENT)).collect();
                    let it = items.clone().into_iter().to_trust(hint);
                    let r = guarded(AssertUnwindSafe(|| { let mut o = VecDeque::<i64>::uninit_ref_mut(&mut u); it.write(&mut o) }));
                    let mut c = vec![status_cell(r), Cell::Sep];
                    c.extend(slot_cells(&unsafe { u.assume_init() }.items()));
                    c
                });
                em.case("exact", &tg("nd", "to_trust", "write_trust_iter"), &ds("nd", "to_trust", "write_trust_iter"), || no_trace.clone(), || {
                    let mut u: Array1<MaybeUninit<i64>> = Array1::from_vec((0..len).map(|_| MaybeUninit::new(SENT)).collect());
                    let it = items.clone().into_iter().to_trust(hint);
                    let r = guarded(AssertUnwindSafe(|| { let mut o = Array1::<i64>::uninit_ref_mut(&mut u); o.write_trust_iter(it) }));
                    let mut c = vec![status_cell(r), Cell::Sep];
                    c.extend(slot_cells(&unsafe { u.assume_init() }.to_vec()));
                    c
                });
                // a NON-CONTIGUOUS ndarray buffer (every step-th cell of a longer array; reversed): slot i of the buffer is
                // base[off + i*step]; the cells in between must stay untouched (an Err cell is appended if one was written)
                for step in [2isize, 3, -1, -2] {
                    if len == 0 { continue; }
                    em.case("exact", &tg(&format!("nd_step{}", step), "to_trust", "write_trust_iter"), &ds(&format!("nd_step{}", step), "to_trust", "write_trust_iter"), || no_trace.clone(), || {
                        let k = step.unsigned_abs();
                        let big_len = (len - 1) * k + 1;
                        let mut big: Array1<MaybeUninit<i64>> = Array1::from_vec((0..big_len).map(|_| MaybeUninit::new(SENT)).collect());
                        let it = items.clone().into_iter().to_trust(hint);
                        let r = guarded(AssertUnwindSafe(|| { let mut o = big.slice_mut(s![..;step]); o.write_trust_iter(it) }));
                        let all: Vec<i64> = unsafe { big.assume_init() }.to_vec();
                        let mut c = vec![status_cell(r), Cell::Sep];
                        let logical: Vec<i64> = (0..len).map(|i| if step > 0 { all[i * k] } else { all[(len - 1 - i) * k] }).collect();
                        c.extend(slot_cells(&logical));
                        if all.iter().enumerate().any(|(p, v)| p % k != 0 && *v != SENT) { c.push(Cell::Err) }
                        c
                    });
                }
                if hint == actual {
                    // String items (the singleton is cloned into every slot)
                    em.case("exact", &tg("rec_string", "vec_into", "write_trust_iter"), &ds("rec_string", "vec_into", "write_trust_iter"), || with_trace.clone(), || {
                        let mut b: RecBufG<String> = RecBufG { slots: (0..len).map(|_| None).collect(), log: vec![] };
                        let sit: Vec<String> = items.iter().map(|x| format!("s{}", x)).collect();
                        let r = guarded(AssertUnwindSafe(|| b.write_trust_iter(sit.into_iter())));
                        let val = |x: &String| x[1..].parse::<i64>().unwrap() as i128;
                        let mut c = vec![status_cell(r)];
                        // the value of a logged write is read back from the slot (each slot is written at most once)
                        for i in &b.log {
                            c.push(Cell::Int(*i as i128));
                            c.push(match <[Option<String>]>::get(&b.slots, *i) { Some(Some(x)) => Cell::Int(val(x)), _ => Cell::Err });
                        }
                        c.push(Cell::Sep);
                        c.extend(b.slots.iter().map(|x| match x { Some(x) => Cell::Int(val(x)), None => Cell::Uninit }));
                        c
                    });
                    // genuinely TrustedLen sources
                    let mut srcs: Vec<(&str, Box<dyn Fn(&mut RecBuf) -> TResult<()>>)> = vec![];
                    let it1 = items.clone();
                    srcs.push(("vec_into", Box::new(move |b: &mut RecBuf| b.write_trust_iter(it1.clone().into_iter()))));
                    let it2 = items.clone();
                    srcs.push(("titer", Box::new(move |b: &mut RecBuf| b.write_trust_iter(it2.titer()))));
                    srcs.push(("range_map", Box::new(move |b: &mut RecBuf| b.write_trust_iter(Iterator::map(0..actual, |i| 7 * i as i64 - 9)))));
                    if actual == 1 {
                        srcs.push(("once", Box::new(move |b: &mut RecBuf| b.write_trust_iter(std::iter::once(-9i64)))));
                    }
                    if actual == 0 {
                        srcs.push(("empty", Box::new(move |b: &mut RecBuf| b.write_trust_iter(std::iter::empty::<i64>()))));
                    }
                    for (src, f) in srcs {
                        em.case("exact", &tg("rec", src, "write_trust_iter"), &ds("rec", src, "write_trust_iter"), || with_trace.clone(), || {
                            let mut b = RecBuf { slots: vec![SENT; len], log: vec![] };
                            let r = guarded(AssertUnwindSafe(|| f(&mut b)));
                            let mut c = vec![status_cell(r)];
                            for (i, v) in &b.log {
                                c.push(Cell::Int(*i as i128));
                                c.push(Cell::Int(*v as i128));
                            }
                            c.push(Cell::Sep);
                            c.extend(slot_cells(&b.slots));
                            c
                        });
                    }
                    // repeat_n: a constant iterator of the announced length
                    em.case("exact", &tg("rec", "repeat_n", "write_trust_iter"), &format!("fn=write_trust_iter buf=rec src=repeat_n buflen={} n={}", len, actual),
                        || format!("(run_write {} {} {})", coq_nat(len), coq_nat(actual), coq_zlist(&vec![5i64; actual])), || {
                        let mut b = RecBuf { slots: vec![SENT; len], log: vec![] };
                        let r = guarded(AssertUnwindSafe(|| b.write_trust_iter(std::iter::repeat_n(5i64, actual))));
                        let mut c = vec![status_cell(r)];
                        for (i, v) in &b.log {
                            c.push(Cell::Int(*i as i128));
                            c.push(Cell::Int(*v as i128));
                        }
                        c.push(Cell::Sep);
                        c.extend(slot_cells(&b.slots));
                        c
                    });
                }
            }
        }
    }
    // ============================================================ UninitVec::set (mutation campaign M3)
    // the CHECKED single-slot write of an owned uninitialised buffer (uninit.rs:32-40): buffer length 0..5 x index 0..=len+2.
    // In range: Ok and exactly that slot written; at or past the end: Err and NO uset call (a `<=` for the `<` is a write one
    // slot past the allocation, in safe code).  On a recording buffer (every uset logged, bound-protected) and on the library's
    // Vec<MaybeUninit<i64>> with one spare, sentinel-filled slot of capacity behind the end that must stay untouched.
    struct RecUninit { slots: Vec<i64>, log: Vec<(usize, i64)> }
    impl GetLen for RecUninit {
        fn len(&self) -> usize { self.slots.len() }
    }
    impl UninitVec<i64> for RecUninit {
        type Vec = Dflt<i64>;
        unsafe fn assume_init(self) -> Dflt<i64> { Dflt(self.slots) }
        unsafe fn uset(&mut self, idx: usize, v: i64) {
            self.log.push((idx, v));
            if idx < self.slots.len() { self.slots[idx] = v }
        }
    }
    let slen = if thorough { 8usize } else { 5 };
    for len in 0..=slen {
        for idx in 0..=len + 2 {
            let v = 11 * idx as i64 - 3;
            let class = if idx < len { "inside" } else if idx == len { "at_end" } else { "past_end" };
            let nt = if len == 0 { " nt=0" } else { "" };
            let tg = |buf: &str| format!("fn=uninit_set buf={} class={} len={}{}", buf, class, len, nt);
            let ds = |buf: &str| format!("fn=uninit_set buf={} buflen={} idx={} v={}", buf, len, idx, v);
            em.case("exact", &tg("rec"), &ds("rec"), || format!("(run_uninit_set {} {} ({}))", coq_nat(len), coq_nat(idx), v), || {
                let mut b = RecUninit { slots: vec![SENT; len], log: vec![] };
                let r = guarded(AssertUnwindSafe(|| UninitVec::set(&mut b, idx, v)));
                let mut c = vec![status_cell(r)];
                for (i, w) in &b.log {
                    c.push(Cell::Int(*i as i128));
                    c.push(Cell::Int(*w as i128));
                }
                c.push(Cell::Sep);
                c.extend(slot_cells(&b.slots));
                c
            });
            em.case("exact", &tg("vec"), &ds("vec"), || format!("(run_uninit_set_buf {} {} ({}))", coq_nat(len), coq_nat(idx), v), || {
                let mut u: Vec<MaybeUninit<i64>> = Vec::with_capacity(len + 1);
                for _ in 0..len { u.push(MaybeUninit::new(SENT)) }
                u.spare_capacity_mut()[0] = MaybeUninit::new(MaybeUninit::new(SENT));
                let r = guarded(AssertUnwindSafe(|| UninitVec::set(&mut u, idx, v)));
                let guard = unsafe { u.spare_capacity_mut()[0].assume_init().assume_init() };
                let mut c = vec![status_cell(r), Cell::Sep];
                c.extend(slot_cells(&unsafe { u.assume_init() }));
                c.push(Cell::Sep);
                c.extend(slot_cells(&[guard]));
                c
            });
        }
    }
    // ============================================================ Vec1Mut: get_mut / apply_mut_with; sort_unstable_by
    fn wrapped_deque(xs: &[i64], rot: usize) -> VecDeque<i64> {
        let mut d: VecDeque<i64> = VecDeque::with_capacity(xs.len().max(1));
        for _ in 0..rot { d.push_back(0) }
        for _ in 0..rot { d.pop_front(); }
        for x in xs { d.push_back(*x) }
        d
    }
    let mlen = if thorough { 7 } else { 5 };
    for len in 0..=mlen {
        let xs: Vec<i64> = (0..len).map(|i| 3 * i as i64 - 4).collect();
        let zx = coq_zlist(&xs);
        let nt = if len == 0 { " nt=0" } else { "" };
        for i in 0..=len + 1 {
            let optc = |v: Option<i64>| vec![match v { Some(x) => Cell::Int(x as i128), None => Cell::Null }];
            let term = || format!("(run_get_mut {} {})", zx, coq_nat(i));
            let tg = |be: &str| format!("fn=get_mut be={} len={} inb={}{}", be, len, i < len, nt);
            let ds = |be: &str| format!("fn=get_mut be={} xs={:?} i={}", be, xs, i);
            em.case("exact", &tg("vec"), &ds("vec"), term, || { let mut v = xs.clone(); optc(Vec1Mut::get_mut(&mut v, i).map(|r| *r)) });
            em.case("exact", &tg("deque"), &ds("deque"), term, || { let mut v = wrapped_deque(&xs, 2); optc(Vec1Mut::get_mut(&mut v, i).map(|r| *r)) });
            em.case("exact", &tg("nd"), &ds("nd"), term, || { let mut v = Array1::from_vec(xs.clone()); optc(Vec1Mut::get_mut(&mut v, i).map(|r| *r)) });
            em.case("exact", &tg("ndviewmut"), &ds("ndviewmut"), term, || { let mut a = Array1::from_vec(xs.clone()); let mut v: ArrayViewMut1<i64> = a.view_mut(); optc(Vec1Mut::get_mut(&mut v, i).map(|r| *r)) });
        }
        for m in 0..=mlen {
            let ys: Vec<i64> = (0..m).map(|i| (i as i64 * 5 + 1) % 7).collect();
            let term = || format!("(run_apply_mut_with {} {})", zx, coq_zlist(&ys));
            let class = if m == len { "equal" } else { "mismatch" };
            let tg = |be: &str| format!("fn=apply_mut_with be={} len={} other={} class={}{}", be, len, m, class, nt);
            let ds = |be: &str| format!("fn=apply_mut_with be={} xs={:?} ys={:?}", be, xs, ys);
            macro_rules! amw {
                ($be:expr, $mk:expr, $items:expr) => {
                    em.case("exact", &tg($be), &ds($be), term, || {
                        let mut v = $mk;
                        let mut log: Vec<(i64, i64)> = vec![];
                        let r = guarded(AssertUnwindSafe(|| v.apply_mut_with(&ys, |a: &mut i64, o: i64| { log.push((*a, o)); *a = 10 * *a + o })));
                        let mut c = vec![status_cell(r)];
                        for (a, o) in &log { c.push(Cell::Int(*a as i128)); c.push(Cell::Int(*o as i128)); }
                        c.push(Cell::Sep);
                        let after: Vec<i64> = $items(v);
                        c.extend(after.into_iter().map(|x| Cell::Int(x as i128)));
                        c
                    });
                };
            }
            amw!("vec", xs.clone(), |v: Vec<i64>| v);
            amw!("deque", wrapped_deque(&xs, 3), |v: VecDeque<i64>| v.items());
            amw!("nd", Array1::from_vec(xs.clone()), |v: Array1<i64>| v.to_vec());
        }
    }
    // every sequence over a 3-letter alphabet (many ties) up to length 5, both orders
    let slen = if thorough { 7 } else { 5 };
    for len in 0..=slen {
        for code in 0..3usize.pow(len as u32) {
            let xs: Vec<i64> = (0..len).map(|i| (code / 3usize.pow(i as u32) % 3) as i64 * 4 - 3).collect();
            let zx = coq_zlist(&xs);
            let nt = if len <= 1 { " nt=0" } else { "" };
            for rev in [false, true] {
                let term = || format!("(run_sort {} {})", coq_bool(rev), zx);
                let split = !wrapped_deque(&xs, len / 2 + 1).as_slices().1.is_empty();
                let tg = |be: &str| format!("fn=sort_unstable_by be={} len={} rev={} path={}{}", be, len, rev,
                    if be == "deque_wrapped" && split { "copy_back" } else { "slice" }, nt);
                let ds = |be: &str| format!("fn=sort_unstable_by be={} rev={} xs={:?}", be, rev, xs);
                macro_rules! srt {
                    ($be:expr, $ty:ty, $mk:expr, $items:expr) => {
                        em.case("exact", &tg($be), &ds($be), term, || {
                            let mut v: $ty = $mk;
                            let r = guarded(AssertUnwindSafe(|| <$ty as Vec1<i64>>::sort_unstable_by(&mut v, |a: &i64, b: &i64| if rev { b.cmp(a) } else { a.cmp(b) })));
                            let mut c = vec![status_cell(r)];
                            let after: Vec<i64> = $items(v);
                            c.extend(after.into_iter().map(|x| Cell::Int(x as i128)));
                            c
                        });
                    };
                }
                srt!("vec", Vec<i64>, xs.clone(), |v: Vec<i64>| v);
                srt!("nd", Array1<i64>, Array1::from_vec(xs.clone()), |v: Array1<i64>| v.to_vec());
                srt!("deque_contig", VecDeque<i64>, wrapped_deque(&xs, 0), |v: VecDeque<i64>| v.items());
                srt!("deque_wrapped", VecDeque<i64>, wrapped_deque(&xs, len / 2 + 1), |v: VecDeque<i64>| v.items());
            }
        }
    }
    // ============================================================ misreporting sources (audit)
    // size hints wrong in either direction, through every collector that does not trust them:
    // plain, optional, fallible on all containers; trusted / fallible-trusted on the default backend
    let liarlen = if thorough { 6 } else { 4 };
    for len in 0..=liarlen {
        let items = items_of(len);
        let zl = coq_zlist(&items);
        let nt = if len == 0 { " nt=0" } else { "" };
        for (lo, hi) in [(0usize, 0usize), (0, len / 2), (0, len + 3), (len + 2, len + 5), (len / 2, len / 2), (len + 1, len + 1)] {
            if lo == len && hi == len { continue }
            let dir = if hi < len { "under" } else if lo > len { "over_lo" } else if hi > len { "over" } else { "loose" };
            for_containers!(i64, |O, name, raw| {
                let _ = raw;
                em.case("exact", &format!("fn=collect_vec1 out={} src=liar dir={} len={}{}", name, dir, len, nt),
                    &format!("fn=collect_vec1 out={} src=liar({},{}) items={:?}", name, lo, hi, items),
                    || format!("(run_collect_plain_hint {} {})", coq_nat(hi), zl),
                    || out_cells(guarded(|| Liar { inner: items.clone().into_iter(), lo, hi }.collect_vec1::<O>()), |x: i64| Cell::Int(x as i128)));
                em.case("exact", &format!("fn=collect_from_iter out={} src=liar dir={} len={}{}", name, dir, len, nt),
                    &format!("fn=collect_from_iter out={} src=liar({},{}) items={:?}", name, lo, hi, items),
                    || format!("(run_collect_plain_hint {} {})", coq_nat(hi), zl),
                    || out_cells(guarded(|| <O as Vec1<i64>>::collect_from_iter(Liar { inner: items.clone().into_iter(), lo, hi })), |x: i64| Cell::Int(x as i128)));
            });
            // optional -> null-encoded (f64: None becomes NaN)
            let fo: Vec<Option<f64>> = (0..len).map(|i| if i % 2 == 1 { None } else { Some(i as f64 * 0.5 - 1.0) }).collect();
            let fterm = coq_list(&fo, |o| coq_opt(o, |x| coq_f64(*x)));
            for_containers!(f64, |O, name, raw| {
                let _ = raw;
                em.case("exact", &format!("fn=collect_vec1_opt ty=f64 out={} src=liar dir={} len={}{}", name, dir, len, nt),
                    &format!("fn=collect_vec1_opt ty=f64 out={} src=liar({},{}) items={:?}", name, lo, hi, fo),
                    || format!("(run_collect_opt_f {})", fterm),
                    || out_cells(guarded(|| Liar { inner: fo.clone().into_iter(), lo, hi }.collect_vec1_opt::<O>()), |x: f64| Cell::F(x)));
            });
            // fallible: an error at every position (and none)
            for epos in 0..=len {
                let pat: Vec<Result<i64, i64>> = (0..len).map(|i| if i == epos { Err(100 + i as i64) } else { Ok(10 * i as i64 + 3) }).collect();
                let term_items = coq_list(&pat, |x| match x { Ok(v) => format!("inl {}", coq_z(*v as i128)), Err(k) => format!("inr {}", coq_z(*k as i128)) });
                let first = if epos == len { "none".to_string() } else { format!("{}", epos) };
                let run_cells = |r: Result<TResult<Vec<i64>>, u8>, pulls: usize| -> Vec<Cell> {
                    match r {
                        Err(k) => vec![Cell::Panic(k)],
                        Ok(Err(TError::IdxOut { idx, .. })) => vec![Cell::Err, Cell::Int(idx as i128), Cell::Int(pulls as i128)],
                        Ok(Err(_)) => vec![Cell::Err, Cell::Int(-1), Cell::Int(pulls as i128)],
                        Ok(Ok(o)) => {
                            let mut c: Vec<Cell> = o.into_iter().map(|x| Cell::Int(x as i128)).collect();
                            c.push(Cell::Sep);
                            c.push(Cell::Int(pulls as i128));
                            c
                        }
                    }
                };
                for_containers!(i64, |O, name, raw| {
                    em.case("exact", &format!("fn=try_collect_vec1 out={} src=liar dir={} len={} first={}{}", name, dir, len, first, nt),
                        &format!("fn=try_collect_vec1 out={} src=liar({},{}) items={:?}", name, lo, hi, pat),
                        || format!("(run_try_collect_hint {} {})", coq_nat(hi), term_items), || {
                        let pulls = Rc::new(StdCell::new(0usize));
                        let p2 = pulls.clone();
                        let it = Liar { inner: Iterator::map(pat.clone().into_iter(), move |x| -> TResult<i64> {
                            p2.set(p2.get() + 1);
                            match x { Ok(v) => Ok(v), Err(k) => Err(TError::IdxOut { idx: k as usize, len: 0 }) }
                        }), lo, hi };
                        let r = guarded(AssertUnwindSafe(|| it.try_collect_vec1::<O>().map(|o| o.items())));
                        run_cells(r, pulls.get())
                    });
                    if !raw {
                        // the default bodies never read the announcement: a lying TrustIter is safe here
                        em.case("exact", &format!("fn=try_collect_trusted_vec1 out={} src=wronglen dir={} len={} first={} scope=outside{}", name, dir, len, first, nt),
                            &format!("fn=try_collect_trusted_vec1 out={} items={:?} announced={}", name, pat, hi),
                            || format!("(run_try_collect_trusted_hint false {} {})", coq_nat(hi), term_items), || {
                            let pulls = Rc::new(StdCell::new(0usize));
                            let p2 = pulls.clone();
                            let it = Iterator::map(pat.clone().into_iter(), move |x| -> TResult<i64> {
                                p2.set(p2.get() + 1);
                                match x { Ok(v) => Ok(v), Err(k) => Err(TError::IdxOut { idx: k as usize, len: 0 }) }
                            }).to_trust(hi);
                            let r = guarded(AssertUnwindSafe(|| it.try_collect_trusted_vec1::<O>().map(|o| o.items())));
                            run_cells(r, pulls.get())
                        });
                    }
                });
            }
            // trusted collection of a lying TrustIter on the default backend
            em.case("exact", &format!("fn=collect_trusted_vec1 out=dflt src=wronglen dir={} len={} scope=outside{}", dir, len, nt),
                &format!("fn=collect_trusted_vec1 out=dflt items={:?} announced={}", items, hi),
                || format!("(run_collect_trusted_hint false {} {})", coq_nat(hi), zl),
                || out_cells(guarded(|| items.clone().into_iter().to_trust(hi).collect_trusted_vec1::<Dflt<i64>>()), |x: i64| Cell::Int(x as i128)));
        }
    }
    em.finish();
}
