//! C01: rolling moments / weighted averages / fractional difference vs the model (float instance).
use std::collections::VecDeque;

use tevec::prelude::{RollingFeature, RollingFinal, RollingValidFeature, RollingValidFinal, Vec1};
use vh::*;

const FNS: [&str; 8] = ["sum", "mean", "ewm", "wma", "std", "var", "skew", "kurt"];

macro_rules! call_valid {
    ($fn:expr, $v:expr, $w:expr, $mp:expr, $O:ty) => {{
        let r: $O = match $fn {
            0 => $v.ts_vsum($w, $mp),
            1 => $v.ts_vmean($w, $mp),
            2 => $v.ts_vewm($w, $mp),
            3 => $v.ts_vwma($w, $mp),
            4 => $v.ts_vstd($w, $mp),
            5 => $v.ts_vvar($w, $mp),
            6 => $v.ts_vskew($w, $mp),
            _ => $v.ts_vkurt($w, $mp),
        };
        r
    }};
}
macro_rules! call_plain {
    ($fn:expr, $v:expr, $w:expr, $mp:expr, $O:ty) => {{
        let r: $O = match $fn {
            0 => $v.ts_sum($w, $mp),
            1 => $v.ts_mean($w, $mp),
            2 => $v.ts_ewm($w, $mp),
            3 => $v.ts_wma($w, $mp),
            4 => $v.ts_std($w, $mp),
            5 => $v.ts_var($w, $mp),
            6 => $v.ts_skew($w, $mp),
            _ => $v.ts_kurt($w, $mp),
        };
        r
    }};
}
/// caller-buffer path: `ts_xxx_to(w, mp, Some(buf))`, buffer pre-filled with a sentinel
macro_rules! call_valid_to {
    ($fn:expr, $v:expr, $w:expr, $mp:expr) => {{
        let len = tevec::prelude::GetLen::len(&$v);
        let mut u: Vec<std::mem::MaybeUninit<f64>> = (0..len).map(|_| std::mem::MaybeUninit::new(-7.77e77)).collect();
        {
            let b = Some(Vec::<f64>::uninit_ref_mut(&mut u));
            let _: Option<Vec<f64>> = match $fn {
                0 => $v.ts_vsum_to($w, $mp, b),
                1 => $v.ts_vmean_to($w, $mp, b),
                2 => $v.ts_vewm_to($w, $mp, b),
                3 => $v.ts_vwma_to($w, $mp, b),
                4 => $v.ts_vstd_to($w, $mp, b),
                5 => $v.ts_vvar_to($w, $mp, b),
                6 => $v.ts_vskew_to($w, $mp, b),
                _ => $v.ts_vkurt_to($w, $mp, b),
            };
        }
        let o: Vec<f64> = u.into_iter().map(|x| unsafe { x.assume_init() }).collect();
        o
    }};
}

fn out_cells(r: Result<Vec<f64>, u8>) -> Vec<Cell> {
    match r {
        Ok(v) => v.iter().map(|x| if *x == -7.77e77 { Cell::Uninit } else { Cell::F(*x) }).collect(),
        Err(k) => vec![Cell::Panic(k)],
    }
}

fn gen_series(rng: &mut Rng, len: usize) -> (Vec<f64>, String) {
    // dyadic values k/4, |k| <= 400: power sums up to the 4th stay exact in binary64 for windows <= 64
    let style = rng.below(5);
    let pat = *rng.pick(&NULL_PATTERNS);
    let mask = null_mask(rng, pat, len);
    let mut xs = Vec::with_capacity(len);
    let mut cur = rng.range(-40, 40);
    let c = rng.range(-8, 8);
    for i in 0..len {
        let k = match style {
            0 => rng.range(-400, 400),
            1 => *rng.pick(&[-4i64, 2, 8]),               // small alphabet, many ties
            2 => { cur += rng.range(0, 12); cur }          // monotone up
            3 => c,                                        // constant
            _ => { cur += rng.range(-20, 20); cur }        // random walk
        };
        xs.push(if mask[i] { vh::nan_at(i) } else { k as f64 / 4.0 });
    }
    let styles = ["uniform", "alphabet", "monotone", "constant", "walk"];
    (xs, format!("style={} nulls={}", styles[style], pat))
}

fn main() {
    let mut em = Emitter::new();
    let mut rng = Rng::new(em.args.seed);
    let thorough = em.thorough();
    // ---- series: exhaustive small scope + structured random ----------------------------------
    let mut series: Vec<(Vec<f64>, String)> = vec![];
    let alphabet = [-1.0, 0.5, 2.0, f64::NAN];
    let exh_len = if thorough { 4 } else { 2 };
    for len in 0..=exh_len {
        let total = alphabet.len().pow(len as u32);
        for code in 0..total {
            let mut c = code;
            let mut xs = vec![];
            for _ in 0..len {
                xs.push(alphabet[c % 4]);
                c /= 4;
            }
            series.push((xs, "style=exhaustive nulls=enum".to_string()));
        }
    }
    let nrand = if thorough { 2500 } else { 250 };
    for i in 0..nrand {
        let len = if i % 3 == 0 { rng.range(4, 8) } else { rng.range(4, if thorough { 48 } else { 24 }) } as usize;
        series.push(gen_series(&mut rng, len));
    }

    // long histories (a drift that needs hundreds of steps, a counter that wraps, a periodic re-normalisation): a few series
    // of several hundred elements; windows are drawn from 1..=len+1 below, so both short and very long windows occur
    for _ in 0..(if thorough { 10 } else { 3 }) {
        let len = rng.range(300, 700) as usize;
        let (xs, t) = gen_series(&mut rng, len);
        series.push((xs, t.replace("style=", "style=long_")));
    }
    // large-magnitude integers (null-free, so the i32 element type is exercised): each value fits i32, the squares do
    // not — the closures accumulate in f64, an accumulation moved into the element type would overflow here
    for i in 0..(if thorough { 60 } else { 12 }) {
        let len = rng.range(3, 12) as usize;
        let xs: Vec<f64> = (0..len).map(|_| *rng.pick(&[46341.0, 50000.0, -70000.0, 65536.0, 3001.0, -46342.0])).collect();
        let _ = i;
        series.push((xs, "style=big_int nulls=none".to_string()));
    }

    for (xs, stags) in series.iter() {
        let len = xs.len();
        let small = stags.contains("exhaustive");
        let xs_coq = coq_list(xs, |x| coq_f64(*x));
        let xo: Vec<Option<f64>> = xs.iter().map(|x| if x.is_nan() { None } else { Some(*x) }).collect();
        let xo_coq = coq_list(&xo, |x| coq_opt(x, |v| coq_f64(*v)));
        let nulls = xs.iter().filter(|x| x.is_nan()).count();
        // window / min_periods choices
        let mut wmps: Vec<(usize, Option<usize>)> = vec![];
        if small {
            for w in 1..=len + 2 {
                wmps.push((w, None));
                for mp in 0..=w {
                    wmps.push((w, Some(mp)));
                }
            }
        } else {
            for _ in 0..3 {
                let w = rng.range(1, len as i64 + 2) as usize;
                let mp = if rng.chance(1, 4) { None } else { Some(rng.range(0, w as i64) as usize) };
                wmps.push((w, mp));
            }
        }
        for (w, mp) in wmps {
            let mp_coq = coq_opt(&mp, |m| coq_nat(*m));
            for (fi, fname) in FNS.iter().enumerate() {
                // small scope: every function; random: two functions per configuration (rotating)
                if !small && !(rng.chance(1, 3)) {
                    continue;
                }
                let fi_ = fi as i32;
                let tags = |ty: &str, be: &str| format!(
                    "fn=ts_v{} ty={} be={} len={} wrel={} mp={} nullfrac={} {}{}",
                    fname, ty, be, len.min(25), if w > len { "gt" } else if w == len { "eq" } else { "lt" },
                    match mp { None => "omitted".to_string(), Some(0) => "0".into(), Some(m) if m == w => "w".into(), _ => "mid".into() },
                    if len == 0 { 0 } else { nulls * 4 / len.max(1) }, stags, if len == 0 { " nt=0" } else { "" });
                let desc = |ty: &str, be: &str| format!("fn=ts_v{} ty={} be={} w={} mp={:?} xs={:?}", fname, ty, be, w, mp, xs);
                let cmp = if fi >= 6 { "float:1e-7,4e4" } else { "float:1e-9,4e4" };
                // f64 input, Vec backend (index body on both paths), returned
                em.case(cmp, &tags("f64", "vec"), &desc("f64", "vec"),
                    || format!("(run_feat_f {} true {} {} {})", fi, coq_nat(w), mp_coq, xs_coq),
                    || out_cells(guarded(|| call_valid!(fi_, xs, w, mp, Vec<f64>))));
                // f64 input, Vec backend, caller buffer
                if rng.chance(1, 3) { em.case(cmp, &tags("f64", "vec_to"), &desc("f64", "vec_to"),
                    || format!("(run_feat_f {} true {} {} {})", fi, coq_nat(w), mp_coq, xs_coq),
                    || out_cells(guarded(|| call_valid_to!(fi_, xs, w, mp)))); }
                // f64 input, VecDeque backend (default trait bodies: iterator body when returned)
                if rng.chance(1, 3) { em.case(cmp, &tags("f64", "deque"), &desc("f64", "deque"),
                    || format!("(run_feat_f {} false {} {} {})", fi, coq_nat(w), mp_coq, xs_coq),
                    || { let d: VecDeque<f64> = vh::wrapped_deque(xs);
                         out_cells(guarded(|| call_valid!(fi_, d, w, mp, Vec<f64>))) }); }
                // f64 input seen through a REVERSED contiguous ndarray view (stride -1; ndarray fast paths = index body)
                if rng.chance(1, 4) { em.case(cmp, &tags("f64", "nd_rev"), &desc("f64", "nd_rev"),
                    || format!("(run_feat_f {} true {} {} {})", fi, coq_nat(w), mp_coq, xs_coq),
                    || { use tevec::export::ndarray::{Array1, ArrayView1, s};
                         let rev = Array1::from_vec(xs.iter().rev().cloned().collect::<Vec<f64>>());
                         let v: ArrayView1<f64> = rev.slice(s![..;-1]);
                         out_cells(guarded(|| call_valid!(fi_, v, w, mp, Vec<f64>))) }); }
                // Option<f64> input -> Option<f64> output
                if rng.chance(1, 3) { em.case(cmp, &tags("optf64", "vec"), &desc("optf64", "vec"),
                    || format!("(run_feat_o {} true {} {} {})", fi, coq_nat(w), mp_coq, xo_coq),
                    || match guarded(|| call_valid!(fi_, xo, w, mp, Vec<Option<f64>>)) {
                        Ok(v) => cells_optf64(&v), Err(k) => vec![Cell::Panic(k)] }); }
                // f32 output
                if rng.chance(1, 6) { em.case("float:1e-6,4e4", &tags("f64->f32", "vec"), &desc("f64->f32", "vec"),
                    || format!("(run_feat_f {} true {} {} {})", fi, coq_nat(w), mp_coq, xs_coq),
                    || match guarded(|| call_valid!(fi_, xs, w, mp, Vec<f32>)) {
                        Ok(v) => cells_f32(&v), Err(k) => vec![Cell::Panic(k)] }); }
                // plain family on the same data (NaN is an ordinary value there)
                if rng.chance(1, 3) { em.case(cmp, &tags("f64", "plain"), &desc("f64", "plain"),
                    || format!("(run_feat_p {} true {} {} {})", fi, coq_nat(w), mp_coq, xs_coq),
                    || out_cells(guarded(|| call_plain!(fi_, xs, w, mp, Vec<f64>)))); }
                // f32 ELEMENTS (NaN null; the dyadic values are exact in f32): the closures must widen each element to f64
                // before accumulating, so the result is the f64 result
                if rng.chance(1, 4) && xs.iter().all(|x| x.is_nan() || (*x as f32) as f64 == *x) {
                    let x32: Vec<f32> = xs.iter().map(|x| *x as f32).collect();
                    em.case(cmp, &tags("f32in", "vec"), &desc("f32in", "vec"),
                        || format!("(run_feat_f {} true {} {} {})", fi, coq_nat(w), mp_coq, xs_coq),
                        || out_cells(guarded(|| call_valid!(fi_, x32, w, mp, Vec<f64>))));
                }
                // integer elements (never null): both families
                if nulls == 0 && xs.iter().all(|x| x.fract() == 0.0) {
                    let xi: Vec<i32> = xs.iter().map(|x| *x as i32).collect();
                    em.case(cmp, &tags("i32", "vec"), &desc("i32", "vec"),
                        || format!("(run_feat_f {} true {} {} {})", fi, coq_nat(w), mp_coq, xs_coq),
                        || out_cells(guarded(|| call_valid!(fi_, xi, w, mp, Vec<f64>))));
                    em.case(cmp, &tags("i32", "plain"), &desc("i32", "plain"),
                        || format!("(run_feat_p {} true {} {} {})", fi, coq_nat(w), mp_coq, xs_coq),
                        || out_cells(guarded(|| call_plain!(fi_, xi, w, mp, Vec<f64>))));
                }
            }
        }
    }
    // ---- fractional difference ------------------------------------------------------------
    let ds = [0.3, 0.5, 1.0, 1.5, 2.0, 0.75];
    for (si, (xs, stags)) in series.iter().enumerate() {
        let len = xs.len();
        let small = stags.contains("exhaustive");
        if !small && si % 2 == 1 { continue; }
        let xs_coq = coq_list(xs, |x| coq_f64(*x));
        let xo: Vec<Option<f64>> = xs.iter().map(|x| if x.is_nan() { None } else { Some(*x) }).collect();
        let xo_coq = coq_list(&xo, |x| coq_opt(x, |v| coq_f64(*v)));
        let ws: Vec<usize> = if small { (1..=len + 2).collect() } else { vec![rng.range(1, (len as i64 + 2).min(18)) as usize] };
        for w in ws {
            let d = *rng.pick(&ds);
            let mps: Vec<Option<usize>> = if small { let mut v = vec![None]; v.extend((0..=w).map(Some)); v }
                else { vec![if rng.chance(1, 3) { None } else { Some(rng.range(0, w as i64) as usize) }] };
            let wrel = if w > len { "gt" } else if w == len { "eq" } else { "lt" };
            let nt = if len == 0 { " nt=0" } else { "" };
            // plain ts_fdiff (NaN is an ordinary value)
            em.case("float:1e-9,1e3", &format!("fn=ts_fdiff be=vec len={} wrel={} d={} {}{}", len.min(25), wrel, d, stags, nt),
                &format!("fn=ts_fdiff be=vec d={} w={} xs={:?}", d, w, xs),
                || format!("(run_fdiff_p true {} {} {})", coq_f64(d), coq_nat(w), xs_coq),
                || out_cells(guarded(|| { let r: Vec<f64> = xs.ts_fdiff(d, w); r })));
            em.case("float:1e-9,1e3", &format!("fn=ts_fdiff be=optview len={} wrel={} d={} {}{}", len.min(25), wrel, d, stags, nt),
                &format!("fn=ts_fdiff be=optview d={} w={} xs={:?}", d, w, xs),
                || format!("(run_fdiff_p false {} {} {})", coq_f64(d), coq_nat(w), xs_coq),
                || { use tevec::prelude::Vec1View;
                     // option view: default trait bodies (iterator body), elements cast None -> NaN
                     // (the higher-ranked bound on SliceOutput forces a 'static borrow: leak a copy)
                     let xl: &'static Vec<f64> = Box::leak(Box::new(xs.clone()));
                     out_cells(guarded(|| { let r: Vec<f64> = xl.opt().ts_fdiff(d, w); r })) });
            for mp in mps {
                let mp_coq = coq_opt(&mp, |m| coq_nat(*m));
                em.case("float:1e-9,1e3", &format!("fn=ts_vfdiff ty=f64 be=vec len={} wrel={} d={} {}{}", len.min(25), wrel, d, stags, nt),
                    &format!("fn=ts_vfdiff ty=f64 be=vec d={} w={} mp={:?} xs={:?}", d, w, mp, xs),
                    || format!("(run_vfdiff_f true {} {} {} {})", coq_f64(d), coq_nat(w), mp_coq, xs_coq),
                    || out_cells(guarded(|| { let r: Vec<f64> = xs.ts_vfdiff(d, w, mp); r })));
                if rng.chance(1, 2) {
                    em.case("float:1e-9,1e3", &format!("fn=ts_vfdiff ty=optf64 be=vec len={} wrel={} d={} {}{}", len.min(25), wrel, d, stags, nt),
                        &format!("fn=ts_vfdiff ty=optf64 be=vec d={} w={} mp={:?} xs={:?}", d, w, mp, xs),
                        || format!("(run_vfdiff_o true {} {} {} {})", coq_f64(d), coq_nat(w), mp_coq, xo_coq),
                        || match guarded(|| { let r: Vec<Option<f64>> = xo.ts_vfdiff(d, w, mp); r }) {
                            Ok(v) => cells_optf64(&v), Err(k) => vec![Cell::Panic(k)] });
                }
            }
        }
    }

    // ---- audit block (notes/C01.md "Audit matrix") -------------------------------------------------
    // (a) window = 0 (rejected on a non-empty series: C01_window0, C01_fdiff_window0; empty result on an empty one),
    // (b) min_periods above the window (C01_min_periods_above_window: acts as min_periods = window),
    // (c) integer output element types i32 / Option<i32> (the closures end in `res.cast()`; NaN -> 0 resp. None),
    // (d) the plain family on a series holding a NaN (C01_plain_nan_poisons / C01_plain_never_drifts_refuted), incl. the
    //     two witnesses of the refutation and the vector of the repository's own test_ts_mean.
    {
        let audit_series: Vec<Vec<f64>> = vec![vec![], vec![1.0], vec![1.0, f64::NAN, 2.0], vec![0.5, 2.0, -1.0, f64::NAN, 4.0, 5.5]];
        for xs in audit_series.iter() {
            let len = xs.len();
            let xs_coq = coq_list(xs, |x| coq_f64(*x));
            let nt = if len == 0 { " nt=0" } else { "" };
            // (a)
            for mp in [None, Some(0usize), Some(2)] {
                let mp_coq = coq_opt(&mp, |m| coq_nat(*m));
                let w = 0usize;
                for (fi, fname) in FNS.iter().enumerate() {
                    let fi_ = fi as i32;
                    let cmp = "float:1e-9,4e4";
                    let tg = |be: &str| format!("fn=ts_v{} ty=f64 be={} len={} wrel=zero mp={:?} style=audit{}", fname, be, len, mp, nt);
                    let ds = |be: &str| format!("fn=ts_v{} ty=f64 be={} w=0 mp={:?} xs={:?}", fname, be, mp, xs);
                    em.case(cmp, &tg("vec"), &ds("vec"),
                        || format!("(run_feat_f {} true {} {} {})", fi, coq_nat(w), mp_coq, xs_coq),
                        || out_cells(guarded(|| call_valid!(fi_, xs, w, mp, Vec<f64>))));
                    em.case(cmp, &tg("vec_to"), &ds("vec_to"),
                        || format!("(run_feat_f {} true {} {} {})", fi, coq_nat(w), mp_coq, xs_coq),
                        || out_cells(guarded(|| call_valid_to!(fi_, xs, w, mp))));
                    em.case(cmp, &tg("deque"), &ds("deque"),
                        || format!("(run_feat_f {} false {} {} {})", fi, coq_nat(w), mp_coq, xs_coq),
                        || { let d: VecDeque<f64> = vh::wrapped_deque(xs);
                             out_cells(guarded(|| call_valid!(fi_, d, w, mp, Vec<f64>))) });
                    em.case(cmp, &tg("plain"), &ds("plain"),
                        || format!("(run_feat_p {} true {} {} {})", fi, coq_nat(w), mp_coq, xs_coq),
                        || out_cells(guarded(|| call_plain!(fi_, xs, w, mp, Vec<f64>))));
                }
                // fractional differences at window 0: index body asserts, iterator body underflows (`window - 1`)
                em.case("float:1e-9,1e3", &format!("fn=ts_fdiff be=vec len={} wrel=zero style=audit{}", len, nt),
                    &format!("fn=ts_fdiff be=vec d=0.5 w=0 xs={:?}", xs),
                    || format!("(run_fdiff_p true {} {} {})", coq_f64(0.5), coq_nat(0), xs_coq),
                    || out_cells(guarded(|| { let r: Vec<f64> = xs.ts_fdiff(0.5, 0); r })));
                em.case("float:1e-9,1e3", &format!("fn=ts_vfdiff ty=f64 be=vec len={} wrel=zero style=audit{}", len, nt),
                    &format!("fn=ts_vfdiff ty=f64 be=vec d=0.5 w=0 mp={:?} xs={:?}", mp, xs),
                    || format!("(run_vfdiff_f true {} {} {} {})", coq_f64(0.5), coq_nat(0), mp_coq, xs_coq),
                    || out_cells(guarded(|| { let r: Vec<f64> = xs.ts_vfdiff(0.5, 0, mp); r })));
                em.case("float:1e-9,1e3", &format!("fn=ts_fdiff be=optview len={} wrel=zero style=audit{}", len, nt),
                    &format!("fn=ts_fdiff be=optview d=0.5 w=0 xs={:?}", xs),
                    || format!("(run_fdiff_p false {} {} {})", coq_f64(0.5), coq_nat(0), xs_coq),
                    || { use tevec::prelude::Vec1View;
                         let xl: &'static Vec<f64> = Box::leak(Box::new(xs.clone()));
                         out_cells(guarded(|| { let r: Vec<f64> = xl.opt().ts_fdiff(0.5, 0); r })) });
            }
            // (b)
            for w in 1..=3usize {
                for extra in [1usize, 4] {
                    let mp = Some(w + extra);
                    let mp_coq = coq_opt(&mp, |m| coq_nat(*m));
                    for (fi, fname) in FNS.iter().enumerate() {
                        let fi_ = fi as i32;
                        let cmp = if fi >= 6 { "float:1e-7,4e4" } else { "float:1e-9,4e4" };
                        em.case(cmp, &format!("fn=ts_v{} ty=f64 be=vec len={} wrel=any mp=above style=audit{}", fname, len, nt),
                            &format!("fn=ts_v{} ty=f64 be=vec w={} mp={:?} xs={:?}", fname, w, mp, xs),
                            || format!("(run_feat_f {} true {} {} {})", fi, coq_nat(w), mp_coq, xs_coq),
                            || out_cells(guarded(|| call_valid!(fi_, xs, w, mp, Vec<f64>))));
                        em.case(cmp, &format!("fn=ts_v{} ty=f64 be=deque len={} wrel=any mp=above style=audit{}", fname, len, nt),
                            &format!("fn=ts_v{} ty=f64 be=deque w={} mp={:?} xs={:?}", fname, w, mp, xs),
                            || format!("(run_feat_f {} false {} {} {})", fi, coq_nat(w), mp_coq, xs_coq),
                            || { let d: VecDeque<f64> = vh::wrapped_deque(xs);
                                 out_cells(guarded(|| call_valid!(fi_, d, w, mp, Vec<f64>))) });
                    }
                }
            }
        }
        // (c) integer outputs: sum, mean, std, var on generated series (values k/4, so the truncation is exercised)
        for (si, (xs, stags)) in series.iter().enumerate() {
            if si % 5 != 0 || xs.len() > 40 { continue; }
            let len = xs.len();
            let xs_coq = coq_list(xs, |x| coq_f64(*x));
            let nt = if len == 0 { " nt=0" } else { "" };
            let w = 1 + (si / 5) % (len + 2);
            let mp = match si % 3 { 0 => None, 1 => Some(0usize), _ => Some(w.min(2)) };
            let mp_coq = coq_opt(&mp, |m| coq_nat(*m));
            for fi in [0usize, 1, 4, 5] {
                let fi_ = fi as i32;
                em.case("exact", &format!("fn=ts_v{} ty=f64->i32 be=vec len={} {}{}", FNS[fi], len.min(25), stags, nt),
                    &format!("fn=ts_v{} ty=f64->i32 be=vec w={} mp={:?} xs={:?}", FNS[fi], w, mp, xs),
                    || format!("(run_feat_f_i32 {} true {} {} {})", fi, coq_nat(w), mp_coq, xs_coq),
                    || match guarded(|| call_valid!(fi_, xs, w, mp, Vec<i32>)) {
                        Ok(v) => cells_i(&v), Err(k) => vec![Cell::Panic(k)] });
                em.case("exact", &format!("fn=ts_v{} ty=f64->opti32 be=vec len={} {}{}", FNS[fi], len.min(25), stags, nt),
                    &format!("fn=ts_v{} ty=f64->opti32 be=vec w={} mp={:?} xs={:?}", FNS[fi], w, mp, xs),
                    || format!("(run_feat_f_oi32 {} true {} {} {})", fi, coq_nat(w), mp_coq, xs_coq),
                    || match guarded(|| call_valid!(fi_, xs, w, mp, Vec<Option<i32>>)) {
                        Ok(v) => cells_opti(&v), Err(k) => vec![Cell::Panic(k)] });
            }
        }
        // (d) plain family with a NaN in the data
        let witnesses: Vec<(Vec<f64>, usize, Option<usize>)> = vec![
            (vec![f64::NAN, 1.0], 1, Some(1)),
            (vec![f64::NAN, 1.0, 1.0, 2.0], 2, Some(2)),
            (vec![1.0, f64::NAN, 3.0, 4.0, 5.0], 2, Some(1)),          // features.rs test_ts_mean
            (vec![2.0, 0.5, f64::NAN, 4.0, 5.0, 6.0, 7.5, 8.0], 3, None),
        ];
        for (xs, w, mp) in witnesses.iter() {
            let (w, mp) = (*w, *mp);
            let xs_coq = coq_list(xs, |x| coq_f64(*x));
            let mp_coq = coq_opt(&mp, |m| coq_nat(*m));
            for (fi, fname) in FNS.iter().enumerate() {
                let fi_ = fi as i32;
                let cmp = if fi >= 6 { "float:1e-7,4e4" } else { "float:1e-9,4e4" };
                em.case(cmp, &format!("fn=ts_v{} ty=f64 be=plain len={} style=audit_nan_poison", fname, xs.len()),
                    &format!("fn=ts_{} (plain) ty=f64 be=vec w={} mp={:?} xs={:?}", fname, w, mp, xs),
                    || format!("(run_feat_p {} true {} {} {})", fi, coq_nat(w), mp_coq, xs_coq),
                    || out_cells(guarded(|| call_plain!(fi_, xs, w, mp, Vec<f64>))));
                em.case(cmp, &format!("fn=ts_v{} ty=f64 be=plain_deque len={} style=audit_nan_poison", fname, xs.len()),
                    &format!("fn=ts_{} (plain) ty=f64 be=deque w={} mp={:?} xs={:?}", fname, w, mp, xs),
                    || format!("(run_feat_p {} false {} {} {})", fi, coq_nat(w), mp_coq, xs_coq),
                    || { let d: VecDeque<f64> = vh::wrapped_deque(xs);
                         out_cells(guarded(|| call_plain!(fi_, d, w, mp, Vec<f64>))) });
            }
        }
    }
    // ---- EPS boundary of the variance guards (notes/mutation-M1.md) ------------------------------------------------
    // `if var > EPS { .. } else { 0. }` (std, var) and `if var <= EPS { 0. } else { .. }` (skew, kurt), null-aware and plain
    // family: series whose population variance - computed from the running sums in the closures' own operation order - is
    // BIT-EQUAL to EPS = 1e-14 at the last position, so the floor applies there and a guard of the other strictness
    // (features.rs:339 `>` -> `>=`, seen only by the static tie before) returns var * n / (n - 1) ~ 1.3e-14 instead of 0.
    // Zero-sum families (nothing cancels): [x, -x, 0, .., 0] and [x, -x, y, -y]; x by a deterministic scan of the doubles
    // around the real solution.  The variance is compared EXACTLY (the float model mirrors the operation order bit for bit;
    // the usual tolerance relative to 4e4 would hide 1e-14), the standard deviation within 1e-9 absolute (floor 0 against
    // 1.2e-7), skew / kurt with their usual tolerance (0 against an O(1) kurtosis).
    {
        const EPS: f64 = 1e-14;
        fn var_like_code(v: &[f64]) -> f64 {
            let (mut s, mut s2) = (0.0f64, 0.0f64);
            for x in v {
                s += *x;
                s2 += *x * *x;
            }
            let n = v.len() as f64;
            let mean = s / n;
            let mut var = s2 / n;
            var -= mean.powi(2);
            var
        }
        fn scan(center: f64, build: &dyn Fn(f64) -> Vec<f64>) -> Option<Vec<f64>> {
            let c = center.to_bits();
            for k in 0..8192u64 {
                for bits in [c + k, c - k] {
                    let v = build(f64::from_bits(bits));
                    if var_like_code(&v) == EPS {
                        return Some(v);
                    }
                }
            }
            None
        }
        let mut fams: Vec<(String, Vec<f64>)> = vec![];
        for n in 4..=12usize {
            if let Some(v) = scan((n as f64 * EPS / 2.0).sqrt(), &|x| { let mut v = vec![x, -x]; v.resize(n, 0.0); v }) {
                fams.push((format!("pm0_{}", n), v));
                break;
            }
        }
        let mut hits4 = 0;
        for j in 0..16 {
            let y = 1.0e-7 * (1.0 + j as f64 / 64.0);
            if let Some(v) = scan((2.0 * EPS - y * y).sqrt(), &|x| vec![x, -x, y, -y]) {
                fams.push((format!("pm4_{}", j), v));
                hits4 += 1;
                if hits4 == 2 { break; }
            }
        }
        assert!(fams.len() >= 2, "no series with a variance bit-equal to EPS found");
        for (fam, xs) in fams.iter() {
            let len = xs.len();
            let xs_coq = coq_list(xs, |x| coq_f64(*x));
            let xo: Vec<Option<f64>> = xs.iter().map(|x| Some(*x)).collect();
            let xo_coq = coq_list(&xo, |x| coq_opt(x, |v| coq_f64(*v)));
            for w in [len, len + 1] {
                for mp in [None, Some(0usize), Some(2), Some(len)] {
                    let mp_coq = coq_opt(&mp, |m| coq_nat(*m));
                    for fi in [4usize, 5, 6, 7] {
                        let fi_ = fi as i32;
                        let fname = FNS[fi];
                        let cmp = match fi { 4 => "float:1e-9", 5 => "exact", _ => "float:1e-7,4e4" };
                        let tags = |ty: &str, be: &str| format!(
                            "fn=ts_v{} ty={} be={} len={} wrel={} mp={} nullfrac=0 style=eps_boundary_{} nulls=none",
                            fname, ty, be, len, if w > len { "gt" } else { "eq" },
                            match mp { None => "omitted".to_string(), Some(0) => "0".into(), Some(m) if m == w => "w".into(), _ => "mid".into() }, fam);
                        let desc = |ty: &str, be: &str| format!("fn=ts_v{} ty={} be={} w={} mp={:?} xs={:?} (population variance bit-equal to EPS at the last position)", fname, ty, be, w, mp, xs);
                        em.case(cmp, &tags("f64", "vec"), &desc("f64", "vec"),
                            || format!("(run_feat_f {} true {} {} {})", fi, coq_nat(w), mp_coq, xs_coq),
                            || out_cells(guarded(|| call_valid!(fi_, xs, w, mp, Vec<f64>))));
                        em.case(cmp, &tags("f64", "vec_to"), &desc("f64", "vec_to"),
                            || format!("(run_feat_f {} true {} {} {})", fi, coq_nat(w), mp_coq, xs_coq),
                            || out_cells(guarded(|| call_valid_to!(fi_, xs, w, mp))));
                        em.case(cmp, &tags("f64", "deque"), &desc("f64", "deque"),
                            || format!("(run_feat_f {} false {} {} {})", fi, coq_nat(w), mp_coq, xs_coq),
                            || { let d: VecDeque<f64> = vh::wrapped_deque(xs);
                                 out_cells(guarded(|| call_valid!(fi_, d, w, mp, Vec<f64>))) });
                        em.case(cmp, &tags("optf64", "vec"), &desc("optf64", "vec"),
                            || format!("(run_feat_o {} true {} {} {})", fi, coq_nat(w), mp_coq, xo_coq),
                            || match guarded(|| call_valid!(fi_, xo, w, mp, Vec<Option<f64>>)) {
                                Ok(v) => cells_optf64(&v), Err(k) => vec![Cell::Panic(k)] });
                        em.case(cmp, &tags("f64", "plain"), &desc("f64", "plain"),
                            || format!("(run_feat_p {} true {} {} {})", fi, coq_nat(w), mp_coq, xs_coq),
                            || out_cells(guarded(|| call_plain!(fi_, xs, w, mp, Vec<f64>))));
                        em.case(cmp, &tags("f64", "plain_deque"), &desc("f64", "plain_deque"),
                            || format!("(run_feat_p {} false {} {} {})", fi, coq_nat(w), mp_coq, xs_coq),
                            || { let d: VecDeque<f64> = vh::wrapped_deque(xs);
                                 out_cells(guarded(|| call_plain!(fi_, d, w, mp, Vec<f64>))) });
                    }
                }
            }
        }
    }
    em.finish();
}
