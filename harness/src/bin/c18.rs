//! C18: parsers are total and round-trip with their formatters.
//!
//! * `TimeDelta::parse` / `FromStr` / the `&str -> TimeDelta` cast against the Gallina scanner model
//!   (`Run.RunC18.td`): exhaustive strings over a small alphabet, exhaustive well-formed term
//!   sequences, sampled long sequences, boundary/overflow strings, mutations.
//! * `DateTime::<U>::strftime` + `DateTime::<U>::parse` (explicit format and the rule list) at all
//!   four units, the default format and the 11 listed formats, against the text model
//!   (`Run.RunC18.dtc`), plus mutated date-time strings (`dtp`) and arbitrary strings (totality).
//! * `Time::parse` on valid strings (exact) and arbitrary strings (totality).
use tea_time::unit::{Microsecond, Millisecond, Nanosecond, Second};
use tea_time::{DateTime, Time, TimeDelta};
use tevec::dtype::Cast;
use vh::*;

fn cps(s: &str) -> Vec<i128> {
    s.chars().map(|c| c as u32 as i128).collect()
}
fn coq_str(s: &str) -> String {
    coq_list(&cps(s), |c| c.to_string())
}
fn show(s: &str) -> String {
    // printable, unambiguous rendering for the replay description
    format!("{:?}", s)
}

// ------------------------------------------------------------------------------------------------
// TimeDelta

type TdOut = Result<Option<(i32, i128)>, u8>;

fn td_obs(t: TimeDelta) -> (i32, i128) {
    (t.months, t.inner.num_seconds() as i128 * 1_000_000_000 + t.inner.subsec_nanos() as i128)
}

fn td_run(s: &str) -> (Vec<Cell>, &'static str) {
    let s1 = s.to_string();
    let r: TdOut = guarded(move || TimeDelta::parse(&s1).ok().map(td_obs));
    let s2 = s.to_string();
    let r2: TdOut = guarded(move || s2.parse::<TimeDelta>().ok().map(td_obs));
    // the FromStr impl called by name (timedelta.rs `from_str`), and `From<&str>` (timedelta.rs: parse, panics with the
    // parse error's message on a rejected string — by design; it must never produce a value parse would not)
    let s4 = s.to_string();
    let r4: TdOut = guarded(move || <TimeDelta as std::str::FromStr>::from_str(&s4).ok().map(td_obs));
    let s5 = s.to_string();
    let r5: TdOut = guarded(move || Some(td_obs(TimeDelta::from(s5.as_str()))));
    let mut cells = match &r {
        Err(k) => vec![Cell::Panic(*k)],
        Ok(None) => vec![Cell::Err],
        Ok(Some((m, ns))) => vec![Cell::Int(*m as i128), Cell::Int(*ns)],
    };
    if r2 != r || r4 != r {
        cells.push(Cell::Uninit) // FromStr disagrees with parse
    }
    match (&r, &r5) {
        (Ok(Some(v)), Ok(Some(w))) if v == w => {}
        (Ok(None), Err(4)) => {}       // rejected string: From<&str> panics with the error message (panic kind "other")
        (Err(_), _) => {}              // parse itself panicked: already reported by the first cell
        _ => cells.push(Cell::Uninit), // From<&str> disagrees with parse
    }
    if let Ok(Some(v)) = &r {
        // the string casts (tea-dtype/src/cast.rs) `expect` a successful parse: checked on accepted strings
        let s3 = s.to_string();
        let r3 = guarded(move || {
            let t: TimeDelta = s3.as_str().cast();
            let t2: TimeDelta = s3.clone().cast();
            (td_obs(t), td_obs(t2))
        });
        if r3 != Ok((*v, *v)) {
            cells.push(Cell::Uninit)
        }
    }
    let out = match &r {
        Err(_) => "panic",
        Ok(None) => "err",
        Ok(Some(_)) => "ok",
    };
    (cells, out)
}

fn td_case(em: &mut Emitter, kind: &str, extra: &str, s: &str) {
    let (cells, out) = td_run(s);
    let n = s.chars().count();
    let lenb = if n <= 4 { format!("{}", n) } else if n <= 8 { "5-8".into() } else if n <= 16 { "9-16".into() } else { "17+".into() };
    let nt = if s.is_empty() { " nt=0" } else { "" };
    let tags = format!("fn=TimeDelta::parse kind={} out={} chars={} ascii={}{}{}", kind, out, lenb, s.is_ascii() as u8, extra, nt);
    let desc = format!("TimeDelta::parse({}) [also FromStr (parse::<_> and from_str), From<&str>, &str/String cast when accepted]", show(s));
    em.case("exact", &tags, &desc, || format!("td {}", coq_str(s)), || cells);
}

const UNITS: [&str; 10] = ["ns", "us", "ms", "s", "m", "h", "d", "w", "mo", "y"];

fn all_strings(alpha: &[char], maxlen: usize, f: &mut dyn FnMut(&str)) {
    let mut idx: Vec<usize> = vec![];
    loop {
        let s: String = idx.iter().map(|i| alpha[*i]).collect();
        f(&s);
        // next in length-lexicographic order
        let mut k = idx.len();
        loop {
            if k == 0 {
                if idx.len() == maxlen {
                    return;
                }
                idx = vec![0; idx.len() + 1];
                break;
            }
            k -= 1;
            if idx[k] + 1 < alpha.len() {
                idx[k] += 1;
                for j in k + 1..idx.len() {
                    idx[j] = 0
                }
                break;
            }
        }
    }
}

fn rand_number(r: &mut Rng) -> String {
    // digit strings of very different lengths; leading zeros sometimes
    let len = match r.below(10) {
        0..=4 => 1 + r.below(3),
        5..=6 => 4 + r.below(6),
        7 => 10 + r.below(6),
        8 => 16 + r.below(4),
        _ => 19 + r.below(3),
    };
    let mut s = String::new();
    for i in 0..len {
        let d = if i == 0 && !r.chance(1, 8) { 1 + r.below(9) } else { r.below(10) };
        s.push((b'0' + d as u8) as char)
    }
    s
}

fn rand_term(r: &mut Rng, small: bool) -> String {
    let sign = *r.pick(&["", "", "-", "+"]);
    let num = if small { format!("{}", r.below(100)) } else { rand_number(r) };
    format!("{}{}{}", sign, num, r.pick(&UNITS))
}

const MUT_ALPHA: [char; 40] = [
    '0', '1', '5', '9', '-', '+', 'n', 's', 'u', 'm', 'h', 'd', 'w', 'o', 'y', 'x', 'a', 'D', 'M', 'S', ' ', '.', ',', '_',
    '\t', '\n', '\0', 'é', 'ß', 'µ', '٣', '１', '😀', '\u{a0}', '\u{2212}', 'e', 'E', ':', '/', 'µ',
];

fn mutate(r: &mut Rng, s: &str, alpha: &[char]) -> String {
    let mut v: Vec<char> = s.chars().collect();
    let n = 1 + r.below(2);
    for _ in 0..n {
        match r.below(6) {
            0 => {
                let p = r.below(v.len() + 1);
                v.insert(p, *r.pick(alpha))
            }
            1 if !v.is_empty() => {
                let p = r.below(v.len());
                v.remove(p);
            }
            2 if !v.is_empty() => {
                let p = r.below(v.len());
                v[p] = *r.pick(alpha)
            }
            3 if !v.is_empty() => {
                let p = r.below(v.len());
                let c = v[p];
                v.insert(p, c)
            }
            4 if v.len() >= 2 => {
                let p = r.below(v.len() - 1);
                v.swap(p, p + 1)
            }
            _ => {
                let p = r.below(v.len() + 1);
                v.truncate(p)
            }
        }
    }
    v.into_iter().collect()
}

fn td_boundaries() -> Vec<String> {
    let mut v: Vec<String> = vec![];
    for s in [
        "", "-", "+", "--", "+-", "-+", "---1d", "--1d", "+-1d", "-+1d", "a1d", "é1d", "d", "mo", "1", "12", "123456", "1d2", "1d23", "1d-",
        "1d+", "1d--", "1d-2", "d1", "dd", "1dd", "1mo", "1m", "1mos", "1om", "1mo2m", "1m2mo", "1ms", "1sm", "1nss", "1y1y", "1 d", " 1d",
        "1d ", "1d 2h", "1.5d", "1,5d", "1e3d", "1D", "1Mo", "1MO", "1µs", "1us", "1dé", "1dé2h", "é", "😀", "1😀", "1d😀2h", "٣d", "1٣d",
        "1d٣h", "１d", "1\u{0}d", "\u{0}", "0d", "-0d", "+0d", "00d", "-00000000000000000000000001d", "0000000000000000000000000000001ns",
        "1d1d1d1d1d1d1d1d1d1d1d1d1d1d1d1d1d1d1d1d", "2y1mo-3d5h-2m3s", "1y2mo3d4h5m6s", "1h30m45s", "500ms", "1us", "100ns", "1w-7d",
        "-1y+12mo", "1d-1d", "1ns-1ns", "\u{2212}1d", "1d\u{2212}2h", "1-2d", "1+2d", "1--2d", "-", "1-", "1+",
    ] {
        v.push(s.to_string())
    }
    let i64max = i64::MAX as i128;
    // numbers around the i64 limits, 19-21 digits
    for n in [i64max - 1, i64max, i64max + 1, -(i64max), -(i64max) - 1, -(i64max) - 2, 10i128.pow(19), 10i128.pow(20), -(10i128.pow(20)), 99999999999999999999, 18446744073709551616, 18446744073709551617] {
        for u in ["ns", "s", "d", "mo", "y", "us"] {
            v.push(format!("{}{}", n, u))
        }
    }
    // products n * K around the i64 limits
    for (u, k) in [("us", 1000i128), ("ms", 1_000_000), ("m", 60), ("h", 3600), ("d", 86400), ("w", 604800)] {
        let q = i64max / k;
        for n in [q - 1, q, q + 1, -q, -q - 1, -q - 2] {
            v.push(format!("{}{}", n, u))
        }
    }
    // months: i32 limits, years: i32/12 limits, truncation of `n as i32`
    let i32max = i32::MAX as i128;
    for n in [i32max - 1, i32max, i32max + 1, -i32max, -i32max - 1, -i32max - 2, 4294967296, 4294967297, -4294967295, 1 << 40] {
        v.push(format!("{}mo", n));
        v.push(format!("{}y", n));
    }
    for n in [i32max / 12 - 1, i32max / 12, i32max / 12 + 1, -(i32max / 12), -(i32max / 12) - 1, -(i32max / 12) - 2, 357913942, 715827883] {
        v.push(format!("{}y", n))
    }
    for s in ["2147483647mo1mo", "2147483647mo-1mo", "-2147483648mo-1mo", "-2147483648mo1mo", "178956970y7mo", "178956970y8mo", "-178956970y-8mo",
              "-178956970y-9mo", "2147483647mo1mo-1mo", "1mo2147483647mo"] {
        v.push(s.to_string())
    }
    // chrono Duration range: +-i64::MAX ms; seconds limit 9223372036854775
    for s in ["9223372036854775s", "9223372036854776s", "-9223372036854775s", "-9223372036854776s", "-9223372036854777s",
              "9223372036854775s807ms", "9223372036854775s808ms", "9223372036854775s807000000ns", "9223372036854775s807000001ns",
              "-9223372036854775s-807ms", "-9223372036854775s-808ms", "-9223372036854775s-807000000ns", "-9223372036854775s-807000001ns",
              "9223372036854775s999999999ns", "9223372036854775s-1ns", "9223372036854775s9223372036854775807ns", "9223372036854774s1999999999ns",
              "-9223372036854775s9223372036854775807ns", "9223372036854775s-9223372036854775808ns", "15250284452w", "15250284453w",
              "106751991167d", "106751991168d", "2562047788015h", "2562047788016h", "153722867280912m", "153722867280913m",
              // partial sums
              "9223372036854775807ns1ns", "9223372036854775807ns1ns-2ns", "9223372036854775807ns-1ns1ns", "-9223372036854775808ns-1ns",
              "9223372036854775807s-9223372036854775807s", "9223372036854775807s", "9223372036854775807s-9223372036854775000s",
              "9223372036854775807s1s", "5000000000000000000s5000000000000000000s", "-5000000000000000000s-5000000000000000000s",
              "9223372036854775807us", "9223372036854775us", "9223372036854ms", "9223372036855ms", "9223372036854775807ns9223372036854775807ns"] {
        v.push(s.to_string())
    }
    v
}

fn gen_td(em: &mut Emitter) {
    let thorough = em.thorough();
    let mut rng = Rng::new(em.args.seed.wrapping_mul(0x1001).wrapping_add(18));

    // A. every string over a small alphabet up to length 4 (5 thorough)
    let alpha = ['1', '-', '+', 'd', 'm', 'o', 'é', ' '];
    let mut all: Vec<String> = vec![];
    all_strings(&alpha, if thorough { 5 } else { 4 }, &mut |s| all.push(s.to_string()));
    for s in &all {
        td_case(em, "exhaustive-alphabet", "", s)
    }

    // A2. LONG rejected strings with one multi-byte character at every byte offset of a band: error paths echo the input
    // into their message, so anything that cuts or indexes the message by bytes (a length cap, a column marker) must land
    // on a char boundary — totality for inputs well beyond the lengths of the grammar-based strings
    for mb in ['é', '日', '😀'] {
        let (lo, hi) = if thorough { (0usize, 90usize) } else { (25, 60) };
        for n in lo..=hi {
            // the out-of-range arm (the number does not fit), then a long tail
            td_case(em, "long-multibyte", " arm=overflow", &format!("9223372036854775807w{}{}3h", "1d".repeat(n), mb));
            // the unknown-unit arm
            td_case(em, "long-multibyte", " arm=unit", &format!("{}{}q", "1d".repeat(n), mb));
            // an odd byte offset
            td_case(em, "long-multibyte", " arm=digits", &format!("7{}{}1d", "12".repeat(n), mb));
        }
    }

    // B. exhaustive well-formed term sequences
    let signs3 = ["", "+", "-"];
    let mut one: Vec<String> = vec![];
    for sg in signs3 {
        for n in ["0", "1", "7", "12", "007", "59", "1000", "86400"] {
            for u in UNITS {
                one.push(format!("{}{}{}", sg, n, u))
            }
        }
    }
    for s in &one {
        td_case(em, "wf-exhaustive", " terms=1", s)
    }
    let mut t2: Vec<String> = vec![];
    for sg in signs3 {
        for n in ["1", "30"] {
            for u in UNITS {
                t2.push(format!("{}{}{}", sg, n, u))
            }
        }
    }
    for a in &t2 {
        for b in &t2 {
            td_case(em, "wf-exhaustive", " terms=2", &format!("{}{}", a, b))
        }
    }
    let mut t3: Vec<String> = vec![];
    for sg in if thorough { &signs3[..] } else { &["", "-"][..] } {
        for u in UNITS {
            t3.push(format!("{}2{}", sg, u))
        }
    }
    for a in &t3 {
        for b in &t3 {
            for c in &t3 {
                td_case(em, "wf-exhaustive", " terms=3", &format!("{}{}{}", a, b, c))
            }
        }
    }

    // C. sampled sequences of 1..=6 terms, numbers of 1..=21 digits
    let n_c = if thorough { 20000 } else { 1500 };
    for i in 0..n_c {
        let nt = 1 + rng.below(6);
        let small = i % 3 == 0;
        let s: String = (0..nt).map(|_| rand_term(&mut rng, small)).collect();
        td_case(em, "wf-sampled", &format!(" terms={}", nt), &s)
    }

    // D. boundaries / overflow
    for s in td_boundaries() {
        td_case(em, "boundary", "", &s)
    }

    // E. mutations of well-formed strings
    let n_e = if thorough { 30000 } else { 2500 };
    for _ in 0..n_e {
        let nt = 1 + rng.below(4);
        let small = rng.chance(1, 2);
        let base: String = (0..nt).map(|_| rand_term(&mut rng, small)).collect();
        let s = mutate(&mut rng, &base, &MUT_ALPHA);
        td_case(em, "mutation", "", &s)
    }
}

// ------------------------------------------------------------------------------------------------
// DateTime

const DEFAULT_FMT: &str = "%Y-%m-%d %H:%M:%S.%f";
// TIME_RULE_VEC of tea-time/src/datetime.rs (private there); a drift is caught by the default-list column
const RULES: [&str; 11] = [
    "%Y-%m-%d %H:%M:%S",
    "%Y-%m-%d %H:%M:%S.%f",
    "%Y-%m-%d",
    "%Y%m%d",
    "%Y%m%d %H%M%S",
    "%d/%m/%Y",
    "%d/%m/%Y %H%M%S",
    "%Y%m%d%H%M%S",
    "%d/%m/%Y%H%M%S",
    "%Y/%m/%d",
    "%Y/%m/%d %H:%M:%S",
];

fn per_sec(u: usize) -> i128 {
    [1, 1000, 1_000_000, 1_000_000_000][u]
}
const UNIT_NAMES: [&str; 4] = ["Second", "Millisecond", "Microsecond", "Nanosecond"];

macro_rules! with_unit {
    ($u:expr, $U:ident, $body:expr) => {
        match $u {
            0 => { type $U = Second; $body }
            1 => { type $U = Millisecond; $body }
            2 => { type $U = Microsecond; $body }
            _ => { type $U = Nanosecond; $body }
        }
    };
}

/// History independence (seed C17-4): every other call first renders / converts the same raw value at the three
/// other units; a formatter or parser that remembers its last conversion must not let it leak across units.
fn prime(x: i64, u: usize) {
    use std::sync::atomic::{AtomicUsize, Ordering};
    static N: AtomicUsize = AtomicUsize::new(0);
    let n = N.fetch_add(1, Ordering::Relaxed);
    if n % 2 == 1 {
        return;
    }
    let rot = x.rem_euclid(3) as usize;
    for k in 0..3 {
        let v = (u + 1 + (k + rot) % 3) % 4;
        let op = (n / 2 + k) % 3;
        let _ = with_unit!(v, V, guarded(move || {
            let d = DateTime::<V>::new(x);
            match op {
                0 => { let _ = d.as_cr(); }
                1 => { let _ = d.year(); }
                _ => { let _ = d.strftime(None); }
            }
        }));
    }
}

fn opt_cell(r: Result<Option<i64>, u8>) -> Cell {
    match r {
        Err(k) => Cell::Panic(k),
        Ok(None) => Cell::Err,
        Ok(Some(v)) => Cell::Int(v as i128),
    }
}

fn dt_parse_cell(u: usize, s: &str, fmt: Option<&'static str>) -> Cell {
    let s1 = s.to_string();
    with_unit!(u, U, opt_cell(guarded(move || DateTime::<U>::parse(&s1, fmt).ok().map(|d| d.0))))
}
fn dt_fromstr_cell(u: usize, s: &str) -> Cell {
    let s1 = s.to_string();
    with_unit!(u, U, opt_cell(guarded(move || s1.parse::<DateTime<U>>().ok().map(|d| d.0))))
}
/// the FromStr impl called by name (impl_datetime.rs `from_str`)
fn dt_from_str_cell(u: usize, s: &str) -> Cell {
    let s1 = s.to_string();
    with_unit!(u, U, opt_cell(guarded(move || <DateTime<U> as std::str::FromStr>::from_str(&s1).ok().map(|d| d.0))))
}
/// Uninit marker when either form of FromStr disagrees with `parse(s, None)` = `b`
fn dt_fromstr_agrees(u: usize, s: &str, b: &Cell, cells: &mut Vec<Cell>) {
    if dt_fromstr_cell(u, s) != *b || dt_from_str_cell(u, s) != *b {
        cells.push(Cell::Uninit)
    }
}
fn dt_cast_cell(u: usize, s: &str) -> Cell {
    let s1 = s.to_string();
    with_unit!(u, U, opt_cell(guarded(move || {
        let a: DateTime<U> = s1.as_str().cast();
        let b: DateTime<U> = s1.clone().cast();
        if a.0 == b.0 { Some(a.0) } else { None }
    })))
}
fn dt_format(u: usize, x: i64, fmt: Option<&'static str>) -> Result<String, u8> {
    prime(x, u);
    with_unit!(u, U, guarded(move || DateTime::<U>::new(x).strftime(fmt)))
}
fn dt_debug(u: usize, x: i64) -> Result<String, u8> {
    prime(x, u);
    with_unit!(u, U, guarded(move || format!("{:?}", DateTime::<U>::new(x))))
}
fn dt_year(u: usize, x: i64) -> Option<i32> {
    prime(x, u);
    with_unit!(u, U, guarded(move || DateTime::<U>::new(x).year()).ok().flatten())
}

/// k = -1: strftime(None) / the default format; k = 0..=10: the k-th listed rule
fn dt_case(em: &mut Emitter, u: usize, k: i64, x: i64, band: &str) {
    let fmt: Option<&'static str> = if k < 0 { None } else { Some(RULES[k as usize]) };
    let pfmt: &'static str = if k < 0 { DEFAULT_FMT } else { RULES[k as usize] };
    let per = per_sec(u);
    let date_only = matches!(k, 2 | 3 | 5 | 9);
    let subsec = k < 0 || k == 1;
    let undelimited_year = matches!(k, 3 | 4 | 7 | 8);
    let year = dt_year(u, x);
    // can the format express this instant?  (then the round trip must give it back)
    let xs = x as i128;
    let expr = x != i64::MIN
        && year.is_some()
        && (subsec || xs.rem_euclid(per) == 0)
        && (!date_only || xs.rem_euclid(86400 * per) == 0)
        && (!undelimited_year || (0..=9999).contains(&year.unwrap()));
    let mut cells: Vec<Cell> = vec![];
    match dt_format(u, x, fmt) {
        Err(kd) => cells.push(Cell::Panic(kd)),
        Ok(text) => {
            cells.extend(cps(&text).into_iter().map(Cell::Int));
            cells.push(Cell::Sep);
            let a = dt_parse_cell(u, &text, Some(pfmt));
            let b = dt_parse_cell(u, &text, None);
            if expr {
                // the property itself, checked on the implementation independently of the model
                if a != Cell::Int(xs) || b != Cell::Int(xs) {
                    cells.push(Cell::Uninit)
                }
            }
            dt_fromstr_agrees(u, &text, &b, &mut cells);
            if let Cell::Int(_) = b {
                if dt_cast_cell(u, &text) != b {
                    cells.push(Cell::Uninit)
                }
            }
            if k < 0 && dt_debug(u, x) != Ok(text.clone()) {
                cells.push(Cell::Uninit)
            }
            cells.push(a);
            cells.push(b);
        }
    }
    let yb = match year {
        None => "none",
        Some(y) if y < 0 => "<0",
        Some(0) => "0",
        Some(y) if y < 1000 => "1-999",
        Some(y) if y <= 9999 => "1000-9999",
        Some(_) => ">9999",
    };
    let nt = if x == i64::MIN { " nt=0" } else { "" };
    let tags = format!("fn=DateTime::strftime+parse unit={} fmt={} expressible={} year={} band={}{}", UNIT_NAMES[u], k, expr as u8, yb, band, nt);
    let desc = format!(
        "DateTime::<{}>::new({}).strftime({:?}) then parse(text, Some({:?})) and parse(text, None) [FromStr, cast, Debug cross-checked]",
        UNIT_NAMES[u], x, fmt, pfmt
    );
    em.case("exact", &tags, &desc, || format!("dtc {} {} {}", u, coq_z(k as i128), coq_z(xs)), || cells);
}

fn instants(rng: &mut Rng, u: usize, nrand: usize) -> Vec<(i64, &'static str)> {
    let per = per_sec(u);
    let mut out: Vec<(i64, &'static str)> = vec![];
    let push = |secs: i128, nanos: i128, band: &'static str, out: &mut Vec<(i64, &'static str)>| {
        let x = secs * per + nanos / (1_000_000_000 / per);
        if x >= i64::MIN as i128 && x <= i64::MAX as i128 {
            out.push((x as i64, band))
        }
    };
    let bsecs: [i128; 30] = [
        0, 1, -1, 59, 60, 3599, 3600, 86399, 86400, -86400, -86401, 951782400, 951868799, 951868800, 4107542400, -2203891200, 1709251199,
        -62135596800, -62135596801, 253402300799, 253402300800, -62167219200, -62167219201, 8210266876799, 8210266876800,
        -8334601228800, -8334601228801, 1577882096, 32503680000, -30610224000,
    ];
    let bnanos: [i128; 6] = [0, 1, 999_999_999, 500_000_000, 123_456_789, 1_000_000];
    for (i, s) in bsecs.iter().enumerate() {
        push(*s, 0, "boundary", &mut out);
        push(*s, bnanos[1 + i % 5], "boundary", &mut out);
    }
    for x in [i64::MAX, i64::MIN + 1, i64::MIN, i64::MAX - 1, i64::MIN + 2] {
        out.push((x, "i64-limit"))
    }
    let bands: [(i128, i128, &'static str); 6] = [
        (-100_000, 100_000, "1e5s"),
        (-1_000_000_000, 2_000_000_000, "1938-2033"),
        (-9_223_372_036, 9_223_372_036, "ns-range"),
        (-62135596800, 253402300799, "y1-9999"),
        (-62135596800 - 31622400 * 300, -62135596800 + 31622400, "around-y0"),
        (-8334601228800, 8210266876799, "chrono-range"),
    ];
    for i in 0..nrand {
        let (lo, hi, name) = bands[i % bands.len()];
        let secs = lo + (rng.next() as i128 % (hi - lo + 1));
        let nanos = match rng.below(4) {
            0 => 0,
            1 => (rng.below(1000) as i128) * 1_000_000,
            2 => (rng.below(1_000_000) as i128) * 1000,
            _ => rng.below(1_000_000_000) as i128,
        };
        push(secs, nanos, name, &mut out);
        if i % 2 == 0 {
            // the same day at midnight / the same second: expressible by the coarser formats
            push(secs - secs.rem_euclid(86400), 0, name, &mut out);
            push(secs, 0, name, &mut out);
        }
    }
    out
}

const DT_MUT_ALPHA: [char; 24] =
    ['0', '1', '2', '3', '5', '6', '9', '-', '/', ':', '.', ' ', '+', 'T', 'H', 'Z', '\t', '\n', 'é', '٣', '\u{a0}', '\u{3000}', '😀', 'a'];

fn gen_dt(em: &mut Emitter) {
    let thorough = em.thorough();
    let mut rng = Rng::new(em.args.seed.wrapping_mul(0x2003).wrapping_add(77));
    let nrand = if thorough { 400 } else { 72 };
    let mut texts: Vec<(usize, String)> = vec![];
    for u in 0..4 {
        let ins = instants(&mut rng, u, nrand);
        for (j, (x, band)) in ins.iter().enumerate() {
            for k in -1..11i64 {
                // the default format and rule 1 on every instant; the other rules on a rotating third
                if thorough || k < 2 || (j as i64 + k) % 3 == 0 || *band == "boundary" && (j as i64 + k) % 2 == 0 {
                    dt_case(em, u, k, *x, band);
                }
            }
            if j % 4 == 0 {
                if let Ok(t) = dt_format(u, *x, if j % 8 == 0 { None } else { Some(RULES[j % 11]) }) {
                    texts.push((u, t))
                }
            }
        }
    }
    // mutated date-time strings: the rule list against the model (exact: value / Err, never a panic)
    let n_m = if thorough { 12000 } else { 1200 };
    for i in 0..n_m {
        let (u, base) = &texts[rng.below(texts.len())];
        let s = mutate(&mut rng, base, &DT_MUT_ALPHA);
        let c = dt_parse_cell(*u, &s, None);
        let out = match c { Cell::Int(_) => "ok", Cell::Err => "err", _ => "panic" };
        let tags = format!("fn=DateTime::parse kind=mutation unit={} out={} fromstr=1", UNIT_NAMES[*u], out);
        let desc = format!("DateTime::<{}>::parse({}, None) [FromStr: parse::<_> and from_str must agree]", UNIT_NAMES[*u], show(&s));
        let mut cs = vec![c.clone()];
        dt_fromstr_agrees(*u, &s, &c, &mut cs);
        em.case("exact", &tags, &desc, || format!("dtp {} {}", u, coq_str(&s)), || cs);
        if i % 3 == 0 {
            let k = rng.below(11);
            let c = dt_parse_cell(*u, &s, Some(RULES[k]));
            let out = match c { Cell::Int(_) => "ok", Cell::Err => "err", _ => "panic" };
            let tags = format!("fn=DateTime::parse kind=mutation-fmt unit={} fmt={} out={}", UNIT_NAMES[*u], k, out);
            let desc = format!("DateTime::<{}>::parse({}, Some({:?}))", UNIT_NAMES[*u], show(&s), RULES[k]);
            em.case("exact", &tags, &desc, || format!("dtpf {} {} {}", u, k, coq_str(&s)), || vec![c]);
        }
    }
    // hand-picked strings
    for s in ["", " ", "NaT", "nat", "None", "2020-01-01", "2020-1-1", "2020-01-01 00:00:00", "2020-01-01T00:00:00", "2020-01-01 23:59:60",
              "2020-01-01 23:59:60.5", "2020-01-01 24:00:00", "2020-02-30", "2019-02-29", "2020-02-29", "1900-02-29", "2000-02-29", "2020-13-01",
              "2020-00-01", "2020-01-00", "2020-01-32", "20200101", "2020010", "202001011", "20200101 123456", "20200101123456", "2020010112345",
              "01/02/2020", "1/2/2020", "01/02/2020 123456", "01/02/2020123456", "2020/01/02", "2020/01/02 03:04:05", "2020/01/02 03:04",
              "9999-12-31 23:59:59", "9999-12-31 23:59:59.999999999", "10000-01-01", "+10000-01-01", "+10000-01-01 00:00:00", "-0001-01-01",
              "0000-01-01", "0001-01-01", "1677-09-21 00:12:43", "1677-09-21 00:12:44", "2262-04-11 23:47:16", "2262-04-11 23:47:17",
              "1677-09-21 00:12:43.145224192", "1677-09-21 00:12:43.145224191", "2262-04-11 23:47:16.854775807", "2262-04-11 23:47:16.854775808",
              "+262142-12-31", "+262143-01-01", "-262143-01-01", "-262144-12-31", "+99999999999-01-01", "+99999999999999999999-01-01",
              "2020-01-01 00:00:00.5", "2020-01-01 00:00:00.123456789", "2020-01-01 00:00:00.1234567891", "2020-01-01 00:00:00.",
              "2020-01-01  00:00:00", "2020-01-01\t00:00:00", "2020-01-0100:00:00", " 2020-01-01", "2020-01-01 ", "2020- 01-01", "2020 -01-01",
              "2020-01-01 é", "é2020-01-01", "２０２０-01-01", "2020-01-01 00:00:00 +0000", "01/01/2020 H3456", "01/01/2020H3456"] {
        for u in [0usize, 3] {
            let c = dt_parse_cell(u, s, None);
            let out = match c { Cell::Int(_) => "ok", Cell::Err => "err", _ => "panic" };
            let nt = if s.is_empty() { " nt=0" } else { "" };
            let tags = format!("fn=DateTime::parse kind=hand unit={} out={} fromstr=1{}", UNIT_NAMES[u], out, nt);
            let desc = format!("DateTime::<{}>::parse({}, None) [FromStr: parse::<_> and from_str must agree]", UNIT_NAMES[u], show(s));
            let mut cs = vec![c.clone()];
            dt_fromstr_agrees(u, s, &c, &mut cs);
            em.case("exact", &tags, &desc, || format!("dtp {} {}", u, coq_str(s)), || cs);
        }
    }
    // arbitrary strings: totality only (the model is not consulted); every fifth one is LONG (60..200 bytes) with a
    // multi-byte character somewhere past the first 50 bytes (see A2 of the duration cases)
    let n_a = if thorough { 6000 } else { 900 };
    for i in 0..n_a {
        let len = rng.below(24);
        let s: String = if i % 5 == 4 {
            let mb = *rng.pick(&['é', '日', '😀', '\u{a0}']);
            let k = 40 + (i / 5) % 90;
            if i % 2 == 0 { format!("{}{}-01-01 00:00:00", "7".repeat(k), mb) } else { format!("2020-01-01 {}{}{}", "0".repeat(k), mb, ":00") }
        } else {
            (0..len).map(|_| if rng.chance(1, 2) { *rng.pick(&DT_MUT_ALPHA) } else { *rng.pick(&MUT_ALPHA) }).collect()
        };
        let u = i % 4;
        let c = if i % 2 == 0 { dt_parse_cell(u, &s, None) } else { dt_parse_cell(u, &s, Some(RULES[rng.below(11)])) };
        let nt = if s.is_empty() { " nt=0" } else { "" };
        // relational: no panic anywhere; after the separator parse(s, None), s.parse::<_>() and from_str(s) must be one value
        let b = dt_parse_cell(u, &s, None);
        let cs = vec![c, Cell::Sep, b, dt_fromstr_cell(u, &s), dt_from_str_cell(u, &s)];
        let tags = format!("fn=DateTime::parse kind=arbitrary unit={} fromstr=1{}", UNIT_NAMES[u], nt);
        let desc = format!("DateTime::<{}>::parse({}, ..) must not panic; FromStr (parse::<_>, from_str) = parse(s, None)", UNIT_NAMES[u], show(&s));
        em.case("custom:agree", &tags, &desc, || "[]".to_string(), || cs);
    }
}

// ------------------------------------------------------------------------------------------------
// Time

fn time_cell(s: &str, fmt: Option<&'static str>) -> Cell {
    let s1 = s.to_string();
    opt_cell(guarded(move || Time::parse(&s1, fmt).ok().map(|t| t.0)))
}

/// the FromStr impl of Time (impl_time.rs `from_str`), through `str::parse` and by name
fn time_fromstr_cells(s: &str) -> [Cell; 2] {
    let (s1, s2) = (s.to_string(), s.to_string());
    [opt_cell(guarded(move || s1.parse::<Time>().ok().map(|t| t.0))),
     opt_cell(guarded(move || <Time as std::str::FromStr>::from_str(&s2).ok().map(|t| t.0)))]
}

fn gen_time(em: &mut Emitter) {
    let thorough = em.thorough();
    let mut rng = Rng::new(em.args.seed.wrapping_mul(0x3005).wrapping_add(5));
    // valid HH:MM:SS[.fffffffff] strings: exact value (spec: ((h*60+m)*60+s)*10^9 + ns)
    let n_v = if thorough { 3000 } else { 300 };
    for i in 0..n_v {
        let (h, m, s) = match i {
            0 => (0, 0, 0),
            1 => (23, 59, 59),
            2 => (12, 0, 0),
            _ => (rng.below(24), rng.below(60), rng.below(60)),
        };
        let digits = [0usize, 3, 6, 9, 1][i % 5];
        let frac: u64 = if digits == 0 { 0 } else { rng.next() % 10u64.pow(digits as u32) };
        let ns = if digits == 0 { 0 } else { frac * 10u64.pow(9 - digits as u32) };
        let text = if digits == 0 { format!("{:02}:{:02}:{:02}", h, m, s) } else { format!("{:02}:{:02}:{:02}.{:0w$}", h, m, s, frac, w = digits) };
        let fmt: Option<&'static str> = if i % 2 == 0 { None } else { Some("%H:%M:%S%.f") };
        let c = time_cell(&text, fmt);
        let tags = format!("fn=Time::parse kind=valid fracdigits={} fmt={} fromstr=1", digits, fmt.is_some() as u8);
        let desc = format!("Time::parse({}, {:?}) [FromStr: parse::<Time>() and from_str = parse(s, None)]", show(&text), fmt);
        let mut cs = vec![c];
        let b = time_cell(&text, None);
        let [f1, f2] = time_fromstr_cells(&text);
        if f1 != b || f2 != b { cs.push(Cell::Uninit) }
        // a valid HH:MM:SS[.f] string is accepted without a format too: the FromStr value is the same instant
        cs.push(f2);
        em.case("exact", &tags, &desc, || format!("tm {} {} {} {} ++ tm {} {} {} {}", h, m, s, ns, h, m, s, ns), || cs);
    }
    // arbitrary / mutated strings: totality
    let n_a = if thorough { 8000 } else { 800 };
    for i in 0..n_a {
        let s: String = if i % 2 == 0 {
            let base = format!("{:02}:{:02}:{:02}.{:03}", rng.below(30), rng.below(70), rng.below(70), rng.below(1000));
            mutate(&mut rng, &base, &DT_MUT_ALPHA)
        } else {
            let len = rng.below(16);
            (0..len).map(|_| *rng.pick(&DT_MUT_ALPHA)).collect()
        };
        let fmt: Option<&'static str> = match i % 3 { 0 => None, 1 => Some("%H:%M:%S%.f"), _ => Some("%H%M%S") };
        let c = time_cell(&s, fmt);
        let out = match c { Cell::Int(_) => "ok", Cell::Err => "err", _ => "panic" };
        let nt = if s.is_empty() { " nt=0" } else { "" };
        let tags = format!("fn=Time::parse kind=arbitrary out={} fromstr=1{}", out, nt);
        let desc = format!("Time::parse({}, {:?}) must not panic; FromStr (parse::<Time>, from_str) = parse(s, None)", show(&s), fmt);
        let [f1, f2] = time_fromstr_cells(&s);
        let cs = vec![c, Cell::Sep, time_cell(&s, None), f1, f2];
        em.case("custom:agree", &tags, &desc, || "[]".to_string(), || cs);
    }
}


// ------------------------------------------------------------------------------------------------
// audit (YC): Time::parse with an explicit format against the model (`tmp`), Debug / Display of Time (`tmdbg`),
// Debug / String cast of TimeDelta (`tddbg`), Debug of DateTime incl. NaT and unrepresentable instants (`dtdbg`)

const TIME_FMTS: [&str; 4] = ["%H:%M:%S", "%H:%M:%S.%f", "%H%M%S", "%H:%M"];

fn time_fmt_case(em: &mut Emitter, k: usize, s: &str, kind: &str) {
    let c = time_cell(s, Some(TIME_FMTS[k]));
    let out = match c { Cell::Int(_) => "ok", Cell::Err => "err", _ => "panic" };
    let nt = if s.is_empty() { " nt=0" } else { "" };
    let tags = format!("fn=Time::parse+fmt fmt={} kind={} out={}{}", k, kind, out, nt);
    let desc = format!("Time::parse({}, Some({:?}))", show(s), TIME_FMTS[k]);
    em.case("exact", &tags, &desc, || format!("tmp {} {}", k, coq_str(s)), || vec![c]);
}

fn gen_audit(em: &mut Emitter) {
    let thorough = em.thorough();
    let mut rng = Rng::new(em.args.seed.wrapping_mul(0x3007).wrapping_add(11));
    // (a) Time::parse(s, Some(fmt)): rendered valid times, the leap second, out-of-range fields, mutations
    let n_v = if thorough { 1500 } else { 160 };
    for i in 0..n_v {
        let (h, m, s) = match i {
            0 => (0, 0, 0),
            1 => (23, 59, 59),
            2 => (23, 59, 60),
            3 => (12, 0, 60),
            4 => (24, 0, 0),
            5 => (0, 60, 0),
            6 => (0, 0, 61),
            _ => (rng.below(24), rng.below(60), rng.below(61)),
        };
        let ns: u64 = match i % 4 { 0 => 0, 1 => 999_999_999, 2 => rng.below(1000) as u64 * 1_000_000, _ => rng.next() % 1_000_000_000 };
        let texts = [
            format!("{:02}:{:02}:{:02}", h, m, s),
            format!("{:02}:{:02}:{:02}.{:09}", h, m, s, ns),
            format!("{:02}{:02}{:02}", h, m, s),
            format!("{:02}:{:02}", h, m),
        ];
        for k in 0..4 {
            time_fmt_case(em, k, &texts[k], if s == 60 { "leap" } else { "rendered" });
        }
        // a text of one format under another format, and a short fraction ("%f" is a nanosecond COUNT: ".5" is 5 ns)
        time_fmt_case(em, 0, &texts[1], "cross");
        time_fmt_case(em, 1, &format!("{:02}:{:02}:{:02}.{}", h, m, s, ns % 1000), "shortfrac");
        time_fmt_case(em, 2, &texts[0], "cross");
    }
    let n_m = if thorough { 6000 } else { 600 };
    for i in 0..n_m {
        let base = match i % 3 {
            0 => format!("{:02}:{:02}:{:02}", rng.below(26), rng.below(62), rng.below(62)),
            1 => format!("{:02}:{:02}:{:02}.{:09}", rng.below(24), rng.below(60), rng.below(61), rng.next() % 1_000_000_000),
            _ => format!("{:02}{:02}{:02}", rng.below(24), rng.below(60), rng.below(61)),
        };
        let s = mutate(&mut rng, &base, &DT_MUT_ALPHA);
        time_fmt_case(em, i % 4, &s, "mutated");
    }
    // (a') the value Time::parse returns for a leap second lies outside the day: the Timelike getters panic on it
    for text in ["23:59:60", "00:00:60", "12:34:60", "23:59:59", "12:34:56", "00:00:00"] {
        let desc = format!("Time::parse({:?}, Some(\"%H:%M:%S\")) then .hour()", text);
        em.case("exact", &format!("fn=Time::parse+getter leap={}", text.ends_with("60") as u8), &desc,
            || format!("tmleap {}", coq_str(text)), || {
            use tevec::export::chrono::Timelike;
            match Time::parse(text, Some("%H:%M:%S")) {
                Err(_) => vec![Cell::Err],
                Ok(t) => {
                    let mut c = vec![Cell::Int(t.0 as i128)];
                    match guarded(move || t.hour()) {
                        Ok(h) => c.push(Cell::Int(h as i128)),
                        Err(k) => c.push(Cell::Panic(k)),
                    }
                    c
                }
            }
        });
    }
    // (b) Debug / Display of Time (impl_time.rs `fmt`): "Time(<i64>)", both the same text; and the text is not a time
    let mut ts: Vec<i64> = vec![0, 1, -1, 9, 10, -10, 86_399_999_999_999, 86_400_000_000_000, i64::MIN, i64::MAX, i64::MIN + 1];
    for _ in 0..(if thorough { 200 } else { 30 }) {
        ts.push(rng.next() as i64);
        ts.push((rng.next() % 86_400_000_000_000) as i64);
    }
    for t in ts {
        let desc = format!("format!(\"{{:?}}\" / \"{{}}\", Time({})) [Time::parse of that text must be Err]", t);
        em.case("exact", "fn=Time::fmt", &desc, || format!("tmdbg {}", coq_z(t as i128)), || {
            match guarded(move || {
                let tm = Time::from_i64(t);
                let (a, b) = (format!("{:?}", tm), format!("{}", tm));
                let back = Time::parse(&b, None).is_err() && b.parse::<Time>().is_err();
                (a, b, back)
            }) {
                Err(k) => vec![Cell::Panic(k)],
                Ok((a, b, back)) => {
                    let mut c: Vec<Cell> = cps(&a).into_iter().map(Cell::Int).collect();
                    c.push(Cell::Sep);
                    c.extend(cps(&b).into_iter().map(Cell::Int));
                    if !back { c.push(Cell::Uninit) }
                    c
                }
            }
        });
    }
    // (c) Debug of TimeDelta = Cast<String>; the text is not a duration (TimeDelta::parse of it is Err)
    let mut tds: Vec<(i32, i128)> = vec![(0, 0), (14, -1_500_000_000), (-3, 1), (i32::MIN, 0), (i32::MAX, 999_999_999),
        (0, i64::MAX as i128 * 1_000_000), (0, -(i64::MAX as i128) * 1_000_000), (1, -1), (0, -1_000_000_000)];
    for _ in 0..(if thorough { 200 } else { 30 }) {
        tds.push((rng.range(-2400, 2400) as i32, (rng.next() as i64) as i128));
    }
    for (m, ns) in tds {
        let desc = format!("format!(\"{{:?}}\", TimeDelta{{months:{}, inner:{} ns}}) = cast::<String>() [TimeDelta::parse of that text must be Err]", m, ns);
        em.case("exact", "fn=TimeDelta::fmt", &desc, || format!("tddbg {} {}", coq_z(m as i128), coq_z(ns)), || {
            match guarded(move || {
                let secs = ns.div_euclid(1_000_000_000) as i64;
                let nanos = ns.rem_euclid(1_000_000_000) as u32;
                let td = TimeDelta { months: m, inner: tevec::export::chrono::Duration::new(secs, nanos).unwrap() };
                let a = format!("{:?}", td);
                let b: String = td.cast();
                let back = TimeDelta::parse(&a).is_err();
                (a, b, back)
            }) {
                Err(k) => vec![Cell::Panic(k)],
                Ok((a, b, back)) => {
                    let mut c: Vec<Cell> = cps(&a).into_iter().map(Cell::Int).collect();
                    if a != b || !back { c.push(Cell::Uninit) }
                    c
                }
            }
        });
    }
    // (d) Debug of DateTime at every unit: NaT, unrepresentable instants (panic), ordinary instants
    for u in 0..4 {
        let mut xs: Vec<i64> = vec![i64::MIN, i64::MIN + 1, i64::MAX, 0, -1, 1];
        for _ in 0..(if thorough { 60 } else { 10 }) {
            xs.push(rng.next() as i64);
            xs.push((rng.next() % 4_000_000_000) as i64 * per_sec(u) as i64 / 2);
        }
        for x in xs {
            let desc = format!("format!(\"{{:?}}\", DateTime::<{}>::new({}))", UNIT_NAMES[u], x);
            let nt = if x == i64::MIN { " nt=0" } else { "" };
            em.case("exact", &format!("fn=DateTime::fmt unit={}{}", UNIT_NAMES[u], nt), &desc,
                || format!("dtdbg {} {}", u, coq_z(x as i128)), || {
                match dt_debug(u, x) {
                    Err(k) => vec![Cell::Panic(k)],
                    Ok(a) => cps(&a).into_iter().map(Cell::Int).collect(),
                }
            });
        }
    }
}

fn main() {
    let mut em = Emitter::new();
    gen_td(&mut em);
    gen_dt(&mut em);
    gen_time(&mut em);
    gen_audit(&mut em);
    em.finish();
}
