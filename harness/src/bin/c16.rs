//! C16: NaT is absorbing; unit changes agree with the calendar.
//! Every case runs the real tea-time API (into_unit, Cast, as_cr, From<chrono>, getters, operators)
//! and prints the cells that Run/RunC16.v computes from the model.
#[path = "../timegen.rs"]
mod timegen;
use tevec::prelude::Cast;
use timegen::*;
use vh::*;

fn uname(u: usize) -> &'static str {
    UNITS[u]
}

/// timestamps for the pair (u -> t)
fn conv_values(r: &mut Rng, u: usize, t: usize, n_rand: usize) -> Vec<(i64, &'static str)> {
    let ratio = if PER_SEC[u] > PER_SEC[t] { PER_SEC[u] / PER_SEC[t] } else { PER_SEC[t] / PER_SEC[u] };
    let mut v: Vec<(i64, &'static str)> = vec![(0, "zero"), (1, "one"), (-1, "one"), (NAT, "nat"), (NAT + 1, "limit"),
        (i64::MAX, "limit"), (i64::MAX - 1, "limit"), (NAT + 2, "limit")];
    if ratio > 1 {
        for k in [ratio - 1, ratio, ratio + 1, 2 * ratio - 1, 2 * ratio, 7 * ratio + ratio / 2] {
            v.push((k, "ratio"));
            v.push((-k, "ratio"));
        }
        // the multiplication-overflow boundary of the refining direction
        for k in [i64::MAX / ratio, i64::MAX / ratio + 1, i64::MAX / ratio - 1, i64::MIN / ratio, i64::MIN / ratio - 1,
                  i64::MIN / ratio + 1] {
            v.push((k, "mulbound"));
        }
        // range limits rounded to the ratio
        v.push((i64::MAX / ratio * ratio, "limit"));
        v.push((i64::MIN / ratio * ratio, "limit"));
    }
    for _ in 0..n_rand {
        v.push((any_i64(r), "random"));
        v.push((mag_i64(r), "randmag"));
        // pre-epoch, not divisible by the ratio
        let mut x = -(r.range(1, 4_000_000_000_000_000) as i64);
        if ratio > 1 && x % ratio == 0 { x -= 1 + r.range(0, ratio - 2) }
        v.push((x, "preepoch"));
        v.push((dt_1678_2262(r, u), "y1678_2262"));
    }
    v
}

fn main() {
    let mut em = Emitter::new();
    let thorough = em.thorough();
    let seed = em.args.seed;
    let n_rand = if thorough { 120 } else { 14 };

    // ---- 1. all 4x4 unit pairs: into_unit, Cast, and the same conversion through chrono ----------
    for u in 0..4 {
        for t in 0..4 {
            let mut r = Rng::new(seed * 1000 + (u * 4 + t) as u64);
            for (x, class) in conv_values(&mut r, u, t, n_rand) {
                let dir = if u == t { "same" } else if PER_SEC[u] > PER_SEC[t] { "coarsen" } else { "refine" };
                let tags = format!("fn=conv pair={}>{} dir={} class={} sign={}", uname(u), uname(t), dir, class,
                    if x == NAT { "nat" } else if x < 0 { "neg" } else { "nonneg" });
                let desc = format!("DateTime<{}>({}).into_unit::<{}>() / cast / via chrono", uname(u), x, uname(t));
                em.case("exact", &tags, &desc, || format!("(r16_conv {} {} {})", uname(u), uname(t), coq_z(x as i128)), || {
                    with_unit!(u, U => with_unit!(t, T => {
                        prime(x, u); let d = DateTime::<U>::new(x);
                        let mut c = gi(|| d.into_unit::<T>().into_i64());
                        // Cast<DateTime<T>> exists for the 12 distinct pairs; for u == t it is the identity
                        c.extend(gi(|| cast_to::<U, T>(d, u == t)));
                        c.extend(g(|| d.as_cr(), |o| match o {
                            Some(cr) => gi(|| DateTime::<T>::from(cr).into_i64()),
                            None => vec![Cell::Null],
                        }));
                        c
                    }))
                });
                if u != t {
                    let desc = format!("DateTime<{}>({}).into_unit::<{}>().into_unit::<{}>()", uname(u), x, uname(t), uname(u));
                    em.case("exact", &format!("fn=back pair={}>{} dir={} class={}", uname(u), uname(t), dir, class), &desc,
                        || format!("(r16_back {} {} {})", uname(u), uname(t), coq_z(x as i128)), || {
                        with_unit!(u, U => with_unit!(t, T => {
                            prime(x, u); let d = DateTime::<U>::new(x);
                            g(|| d.into_unit::<T>(), |y| {
                                let mut c = vec![int(y.into_i64())];
                                c.extend(gi(|| y.into_unit::<U>().into_i64()));
                                c
                            })
                        }))
                    });
                }
            }
        }
    }

    // ---- 2. integer views ---------------------------------------------------------------------------
    {
        let mut r = Rng::new(seed * 1000 + 77);
        let mut xs = vec![0, 1, -1, NAT, NAT + 1, i64::MAX];
        for _ in 0..(if thorough { 60 } else { 10 }) { xs.push(mag_i64(&mut r)) }
        for (k, x) in xs.into_iter().enumerate() {
            let u = k % 4;
            let tags = format!("fn=basic unit={} class={}", uname(u), if x == NAT { "nat" } else { "valid" });
            em.case("exact", &tags, &format!("DateTime<{}>({}) is_nat/into_i64/into_opt_i64/cast/from_opt_i64", uname(u), x),
                || format!("(r16_basic {})", coq_z(x as i128)), || {
                with_unit!(u, U => {
                    prime(x, u); let d = DateTime::<U>::new(x);
                    let ci: i64 = d.cast();
                    let co: Option<i64> = d.cast();
                    vec![boolc(d.is_nat()), int(d.into_i64()), opt_int(d.into_opt_i64()), int(ci), opt_int(co),
                         int(DateTime::<U>::from_opt_i64(d.into_opt_i64()).into_i64()),
                         int(DateTime::<U>::from(d.into_opt_i64()).into_i64()),
                         int(DateTime::<U>::from(x).into_i64())]
                })
            });
            // NaT -> every OPTIONAL numeric target is None, a valid instant is Some (the value itself is C15's business):
            // the nullness of cast::<Option<i32 | u8 | u64 | usize | isize | f64 | f32>>() against is_nat
            em.case("exact", &format!("fn=optcast unit={} class={}", uname(u), if x == NAT { "nat" } else { "valid" }),
                &format!("DateTime<{}>({}).cast::<Option<i32|u8|u64|usize|isize|f64|f32>>().is_none()", uname(u), x),
                || format!("(c_bool (Tevec.Model.Time.is_nat {x}) ++ c_bool (Tevec.Model.Time.is_nat {x}) ++ c_bool (Tevec.Model.Time.is_nat {x}) ++ c_bool (Tevec.Model.Time.is_nat {x}) ++ c_bool (Tevec.Model.Time.is_nat {x}) ++ c_bool (Tevec.Model.Time.is_nat {x}) ++ c_bool (Tevec.Model.Time.is_nat {x}))", x = coq_z(x as i128)), || {
                with_unit!(u, U => {
                    prime(x, u); let d = DateTime::<U>::new(x);
                    let a: Option<i32> = d.cast(); let b: Option<u8> = d.cast(); let c: Option<u64> = d.cast();
                    let e: Option<usize> = d.cast(); let f: Option<isize> = d.cast(); let g: Option<f64> = d.cast(); let h: Option<f32> = d.cast();
                    vec![boolc(a.is_none()), boolc(b.is_none()), boolc(c.is_none()), boolc(e.is_none()), boolc(f.is_none()), boolc(g.is_none()), boolc(h.is_none())]
                })
            });
            // X9: is_not_nat of the three time types, the Option<i64> view the other way round
            em.case("exact", &format!("fn=flags unit={} class={}", uname(u), if x == NAT { "nat" } else { "valid" }),
                &format!("DateTime<{}>({}) / Time({}) / TimeDelta::from({}): is_nat, is_not_nat; into_opt_i64(from_opt_i64(Some(x))); from_opt_i64(None)", uname(u), x, x, x),
                || format!("(r16_flags {})", coq_z(x as i128)), || {
                with_unit!(u, U => {
                    prime(x, u); let d = DateTime::<U>::new(x);
                    let t = Time::from_i64(x);
                    let td = TimeDelta::from(x);
                    vec![boolc(d.is_nat()), boolc(d.is_not_nat()), boolc(t.is_nat()), boolc(t.is_not_nat()),
                         boolc(td.is_nat()), boolc(td.is_not_nat()),
                         opt_int(DateTime::<U>::from_opt_i64(Some(x)).into_opt_i64()),
                         int(DateTime::<U>::from_opt_i64(None).into_i64())]
                })
            });
        }
    }

    // ---- 3. as_cr, from_cr . as_cr, calendar fields ---------------------------------------------------
    for u in 0..4 {
        let mut r = Rng::new(seed * 1000 + 100 + u as u64);
        let ps = PER_SEC[u];
        let mut xs: Vec<(i64, &str)> = vec![(0, "zero"), (1, "small"), (-1, "small"), (ps, "small"), (-ps, "small"), (ps - 1, "small"),
            (1 - ps, "small"), (NAT, "nat"), (NAT + 1, "limit"), (i64::MAX, "limit"),
            (86_400 * ps, "small"), (-86_400 * ps, "small"), (-86_400 * ps - 1, "small"), (86_400 * ps - 1, "small")];
        // chrono's date range limits at this unit (only reachable for s, ms, us)
        for day in [CR_MIN_DAY, CR_MAX_DAY + 1] {
            if let Some(b) = (day as i128 * 86_400 * ps as i128).try_into().ok() as Option<i64> {
                for dlt in [-1i64, 0, 1] { if let Some(v) = b.checked_add(dlt) { xs.push((v, "crlimit")) } }
            }
        }
        for _ in 0..(if thorough { 150 } else { 22 }) {
            xs.push((any_i64(&mut r), "random"));
            xs.push((mag_i64(&mut r), "randmag"));
            xs.push((dt_1678_2262(&mut r, u), "y1678_2262"));
            xs.push((eom_secs(&mut r) * ps + r.range(0, ps - 1), "eom"));
            // anywhere in chrono's range
            let s = r.range(CR_MIN_DAY * 86_400, CR_MAX_DAY * 86_400);
            if let Some(v) = s.checked_mul(ps) { xs.push((v + r.range(0, ps - 1), "crrange")) }
        }
        for (x, class) in xs {
            let tags = format!("fn=cr unit={} class={} sign={}", uname(u), class, if x == NAT { "nat" } else if x < 0 { "neg" } else { "nonneg" });
            em.case("exact", &tags, &format!("DateTime<{}>({}) as_cr / from(as_cr) / year month day hour minute second time", uname(u), x),
                || format!("(r16_cr {} {})", uname(u), coq_z(x as i128)), || {
                with_unit!(u, U => {
                    prime(x, u); let d = DateTime::<U>::new(x);
                    let mut c = vec![];
                    let o = d.as_cr();
                    match o {
                        Some(cr) => { c.push(int(cr.timestamp())); c.push(int(cr.timestamp_subsec_nanos() as i64)) }
                        None => { c.push(Cell::Null); c.push(Cell::Null) }
                    }
                    match o {
                        Some(cr) => c.extend(gi(|| DateTime::<U>::from(cr).into_i64())),
                        None => c.push(Cell::Null),
                    }
                    c.push(opt_int(d.year().map(|v| v as i64)));
                    c.push(opt_int(d.month().map(|v| v as i64)));
                    c.push(opt_int(d.day().map(|v| v as i64)));
                    c.push(opt_int(d.hour().map(|v| v as i64)));
                    c.push(opt_int(d.minute().map(|v| v as i64)));
                    c.push(opt_int(d.second().map(|v| v as i64)));
                    c.push(opt_int(d.time().map(|t| t.num_seconds_from_midnight() as i64)));
                    c.push(opt_int(d.time().map(|t| t.nanosecond() as i64)));
                    c
                })
            });
            // X9: the TryFrom impl itself (as_cr tests NaT before calling it), the deprecated to_cr, and back
            em.case("exact", &format!("fn=tryfrom unit={} class={} sign={}", uname(u), class, if x == NAT { "nat" } else if x < 0 { "neg" } else { "nonneg" }),
                &format!("chrono::DateTime::<Utc>::try_from(DateTime<{}>({})) / to_cr / from(try_from)", uname(u), x),
                || format!("(r16_tryfrom {} {})", uname(u), coq_z(x as i128)), || {
                with_unit!(u, U => {
                    prime(x, u); let d = DateTime::<U>::new(x);
                    g(|| {
                        let o: Option<CrDateTime<Utc>> = CrDateTime::<Utc>::try_from(d).ok();
                        #[allow(deprecated)]
                        let o2 = d.to_cr();
                        (o, o2)
                    }, |(o, o2)| {
                        let mut c = vec![];
                        for v in [o, o2] {
                            match v {
                                Some(cr) => { c.push(int(cr.timestamp())); c.push(int(cr.timestamp_subsec_nanos() as i64)) }
                                None => { c.push(Cell::Null); c.push(Cell::Null) }
                            }
                        }
                        match o {
                            Some(cr) => c.extend(gi(|| DateTime::<U>::from(cr).into_i64())),
                            None => c.push(Cell::Null),
                        }
                        c
                    })
                })
            });
        }
    }

    // ---- 4. From<chrono::DateTime<Utc>> / NaiveDateTime / Option<NaiveDateTime> -----------------------
    for u in 0..4 {
        let mut r = Rng::new(seed * 1000 + 200 + u as u64);
        let lim_ns = i64::MAX / 1_000_000_000;
        let mut vs: Vec<(i64, u32, &str)> = vec![(0, 0, "zero"), (0, 1, "small"), (-1, 999_999_999, "small"), (-1, 0, "small"),
            (CR_MIN_DAY * 86_400, 0, "crlimit"), (CR_MIN_DAY * 86_400 - 1, 0, "crlimit"),
            (CR_MAX_DAY * 86_400 + 86_399, 999_999_999, "crlimit"), (CR_MAX_DAY * 86_400 + 86_400, 0, "crlimit"),
            (lim_ns, 854_775_807, "nslimit"), (lim_ns, 854_775_808, "nslimit"), (lim_ns + 1, 0, "nslimit"),
            (-lim_ns - 1, 145_224_192, "nslimit"), (-lim_ns - 1, 145_224_191, "nslimit"), (-lim_ns - 1, 145_224_193, "nslimit"),
            (-lim_ns - 2, 999_999_999, "nslimit")];
        for _ in 0..(if thorough { 120 } else { 16 }) {
            vs.push((r.range(CR_MIN_DAY * 86_400, CR_MAX_DAY * 86_400), r.range(0, 999_999_999) as u32, "crrange"));
            vs.push((secs_in_years(&mut r, 1678, 2262), r.range(0, 999_999_999) as u32, "y1678_2262"));
            vs.push((secs_in_years(&mut r, 1600, 1700), r.range(0, 999_999_999) as u32, "pre1678"));
        }
        for (secs, nanos, class) in vs {
            let tags = format!("fn=fromcr unit={} class={} sign={}", uname(u), class, if secs < 0 { "neg" } else { "nonneg" });
            em.case("exact", &tags, &format!("DateTime<{}>::from(chrono from_timestamp({}, {})) and as_cr back", uname(u), secs, nanos),
                || format!("(r16_fromcr {} {} {})", uname(u), coq_z(secs as i128), nanos), || {
                with_unit!(u, U => {
                    match CrDateTime::from_timestamp(secs, nanos) {
                        None => vec![Cell::Null],
                        Some(cr) => g(|| {
                            let a = DateTime::<U>::from(cr);
                            // the NaiveDateTime and Option<NaiveDateTime> routes must agree
                            let b = DateTime::<U>::from(cr.naive_utc());
                            let c = DateTime::<U>::from(Some(cr.naive_utc()));
                            assert!(a == b && b == c, "From<NaiveDateTime> disagrees with From<DateTime<Utc>>");
                            a
                        }, |a| {
                            let mut c = vec![int(a.into_i64())];
                            match a.as_cr() {
                                Some(cr) => { c.push(int(cr.timestamp())); c.push(int(cr.timestamp_subsec_nanos() as i64)) }
                                None => { c.push(Cell::Null); c.push(Cell::Null) }
                            }
                            c
                        }),
                    }
                })
            });
        }
    }
    // Option<NaiveDateTime>::None -> NaT, Default -> NaT
    em.case("exact", "fn=fromnone nt=0", "DateTime::from(None::<NaiveDateTime>), from(None::<i64>), default() are NaT",
        || format!("(c_int NaT ++ c_int NaT ++ c_int NaT)"), || {
        vec![int(DateTime::<Nanosecond>::from(None::<NaiveDateTime>).into_i64()),
             int(DateTime::<Second>::from(None::<i64>).into_i64()),
             int(DateTime::<Millisecond>::default().into_i64())]
    });

    // ---- 5. the calendar itself: day number <-> (y, m, d), against chrono through DateTime<Second> ----
    {
        let mut r = Rng::new(seed * 1000 + 300);
        let mut days: Vec<i64> = (-800..=800).collect();
        for y in [1600, 1700, 1800, 1900, 2000, 2100, 2200, 2400, 0, -1, -400, 4, 100] {
            let base = NaiveDate::from_ymd_opt(y, 2, 27).unwrap().and_hms_opt(0, 0, 0).unwrap().and_utc().timestamp() / 86_400;
            for k in 0..5 { days.push(base + k) }
            let base = NaiveDate::from_ymd_opt(y, 12, 30).unwrap().and_hms_opt(0, 0, 0).unwrap().and_utc().timestamp() / 86_400;
            for k in 0..4 { days.push(base + k) }
        }
        days.extend([CR_MIN_DAY, CR_MIN_DAY + 1, CR_MAX_DAY, CR_MAX_DAY - 1]);
        for _ in 0..(if thorough { 3000 } else { 300 }) {
            days.push(r.range(CR_MIN_DAY, CR_MAX_DAY));
            days.push(r.range(-110_000, 110_000));
        }
        for day in days {
            let tags = format!("fn=civil era={}", if day < -719_468 { "bce" } else if day < 0 { "pre1970" } else { "post1970" });
            em.case("exact", &tags, &format!("DateTime<Second>({} * 86400): year/month/day and back through NaiveDate", day),
                || format!("(r16_civil {})", coq_z(day as i128)), || {
                // guarded: a missing field or a failing conversion is a Panic cell, never a harness abort
                g(|| {
                    let d = DateTime::<Second>::new(day * 86_400);
                    let (y, m, dd) = (d.year().unwrap(), d.month().unwrap(), d.day().unwrap());
                    let back = DateTime::<Second>::from(NaiveDate::from_ymd_opt(y, m as u32, dd as u32).unwrap());
                    vec![int(y as i64), int(m as i64), int(dd as i64), int(back.into_i64().div_euclid(86_400))]
                }, |v| v)
            });
        }
        // (y, m, d) -> day number -> (y, m, d); invalid dates must be invalid in both
        let mut ymds: Vec<(i32, u32, u32)> = vec![];
        for y in [1899, 1900, 1999, 2000, 2001, 2004, 2023, 2100, 1970, 1969, 0, -1, -4, 400, -262143, 262142] {
            for m in 0..=13 { for d in [0u32, 1, 15, 28, 29, 30, 31, 32] { ymds.push((y, m, d)) } }
        }
        for _ in 0..(if thorough { 2000 } else { 200 }) {
            ymds.push((r.range(-262143, 262142) as i32, r.range(1, 12) as u32, r.range(1, 31) as u32));
            ymds.push((r.range(1600, 2300) as i32, r.range(1, 12) as u32, r.range(28, 31) as u32));
        }
        for (y, m, d) in ymds {
            let valid = NaiveDate::from_ymd_opt(y, m, d).is_some();
            let tags = format!("fn=ymd valid={} feb={} {}", valid, m == 2, if valid { "" } else { "nt=0" });
            em.case("exact", &tags, &format!("NaiveDate({}, {}, {}) -> DateTime<Second> -> fields", y, m, d),
                || format!("(r16_ymd {} {} {})", coq_z(y as i128), m, d), || {
                match NaiveDate::from_ymd_opt(y, m, d) {
                    None => vec![Cell::Null],
                    Some(nd) => g(|| {
                        let dt = DateTime::<Second>::from(nd);
                        vec![int(dt.into_i64().div_euclid(86_400)), int(dt.year().unwrap() as i64),
                             int(dt.month().unwrap() as i64), int(dt.day().unwrap() as i64)]
                    }, |v| v),
                }
            });
        }
    }

    // ---- 6. NaT operands in every operator of impl_ops.rs ---------------------------------------------
    {
        let mut r = Rng::new(seed * 1000 + 400);
        // durations: valid ones and the two NaT encodings (zero / non-zero inner)
        let mut ds: Vec<(i32, i128, &str)> = vec![(i32::MIN, 0, "nat"), (i32::MIN, 5_000_000_123, "nat"), (i32::MIN, -1, "nat"),
            (0, 0, "valid"), (0, 1, "valid"), (0, -86_400_000_000_000, "valid"), (3, 0, "valid"), (-14, 7_000_000_000, "valid")];
        for _ in 0..(if thorough { 20 } else { 4 }) {
            ds.push((r.range(-1200, 1200) as i32, mag_i64(&mut r) as i128 / 4, "valid"));
        }
        for u in 0..4 {
            let mut xs: Vec<i64> = vec![NAT, 0, 1_700_000_000 * PER_SEC[u], -1];
            for _ in 0..(if thorough { 8 } else { 2 }) { xs.push(dt_1678_2262(&mut r, u)) }
            for &x in &xs {
                for &(m, ns, dclass) in &ds {
                    if x != NAT && dclass != "nat" { continue }
                    let which = if x == NAT && dclass == "nat" { "both" } else if x == NAT { "lhs" } else { "rhs" };
                    for op in ["add", "sub"] {
                        let tags = format!("fn=dt{}_nat unit={} nat={}", op, uname(u), which);
                        em.case("exact", &tags, &format!("DateTime<{}>({}) {} TimeDelta{{months:{}, ns:{}}}", uname(u), x, op, m, ns),
                            || format!("(r_dt{} {} {} {})", op, uname(u), coq_z(x as i128), td_coq(m, ns)), || {
                            with_unit!(u, U => {
                                prime(x, u); let d = DateTime::<U>::new(x);
                                let t = td(m, ns);
                                gi(|| if op == "add" { (d + t).into_i64() } else { (d - t).into_i64() })
                            })
                        });
                    }
                    let tags = format!("fn=trunc_nat unit={} nat={}", uname(u), which);
                    if x == NAT {
                        em.case("exact", &tags, &format!("DateTime<{}>(NaT).duration_trunc(TimeDelta{{months:{}, ns:{}}})", uname(u), m, ns),
                            || format!("(r_trunc {} {} {})", uname(u), coq_z(x as i128), td_coq(m, ns)), || {
                            with_unit!(u, U => { prime(x, u); let d = DateTime::<U>::new(x); let t = td(m, ns); gi(|| d.duration_trunc(t).into_i64()) })
                        });
                    }
                }
                for &y in &xs {
                    if x != NAT && y != NAT { continue }
                    let which = if x == NAT && y == NAT { "both" } else if x == NAT { "lhs" } else { "rhs" };
                    em.case("exact", &format!("fn=dtdiff_nat unit={} nat={}", uname(u), which),
                        &format!("DateTime<{}>({}) - DateTime({})", uname(u), x, y),
                        || format!("(r_dtdiff {} {} {})", uname(u), coq_z(x as i128), coq_z(y as i128)), || {
                        with_unit!(u, U => { prime(y, u); prime(x, u); let (a, b) = (DateTime::<U>::new(x), DateTime::<U>::new(y)); gtd(|| a - b) })
                    });
                }
            }
        }
        // TimeDelta algebra with NaT
        for &(m1, n1, c1) in &ds {
            em.case("exact", &format!("fn=tdneg_nat nat={}", c1 == "nat"), &format!("-TimeDelta{{months:{}, ns:{}}}", m1, n1),
                || format!("(r_tdneg {})", td_coq(m1, n1)), || gtd(|| -td(m1, n1)));
            for k in [0i32, 1, -1, 7, i32::MAX, i32::MIN] {
                if c1 != "nat" && !(k == 0 || k == 7) { continue }
                em.case("exact", &format!("fn=tdmul_nat nat={}", c1 == "nat"), &format!("TimeDelta{{months:{}, ns:{}}} * {}", m1, n1, k),
                    || format!("(r_tdmul {} {})", td_coq(m1, n1), coq_z(k as i128)), || gtd(|| td(m1, n1) * k));
            }
            for &(m2, n2, c2) in &ds {
                if c1 != "nat" && c2 != "nat" { continue }
                let which = if c1 == "nat" && c2 == "nat" { "both" } else if c1 == "nat" { "lhs" } else { "rhs" };
                for op in ["add", "sub"] {
                    em.case("exact", &format!("fn=td{}_nat nat={}", op, which),
                        &format!("TimeDelta{{months:{}, ns:{}}} {} TimeDelta{{months:{}, ns:{}}}", m1, n1, op, m2, n2),
                        || format!("(r_td{} {} {})", op, td_coq(m1, n1), td_coq(m2, n2)),
                        || gtd(|| if op == "add" { td(m1, n1) + td(m2, n2) } else { td(m1, n1) - td(m2, n2) }));
                }
            }
        }
        // From<i64> / From<Option<i64>> for TimeDelta: i64::MIN and None are NaT
        for v in [NAT, 0, 1, -1, i64::MAX, NAT + 1] {
            em.case("exact", &format!("fn=tdfrom nat={}", v == NAT), &format!("TimeDelta::from({}i64)", v),
                || format!("(r_tdfrom {})", coq_z(v as i128)), || {
                gtd(|| {
                    let a = TimeDelta::from(v);
                    let b = TimeDelta::from(if v == NAT { None } else { Some(v) });
                    assert!(a == b);
                    a
                })
            });
        }
        // Time +- TimeDelta with NaT on either side
        let ts: Vec<i64> = vec![NAT, 0, 43_200_000_000_000, 86_399_999_999_999];
        for &t in &ts {
            for &(m, ns, dclass) in &ds {
                if t != NAT && dclass != "nat" { continue }
                let which = if t == NAT && dclass == "nat" { "both" } else if t == NAT { "lhs" } else { "rhs" };
                for op in ["add", "sub"] {
                    em.case("exact", &format!("fn=time{}_nat nat={}", op, which),
                        &format!("Time({}) {} TimeDelta{{months:{}, ns:{}}}", t, op, m, ns),
                        || format!("(r_time{} {} {})", op, coq_z(t as i128), td_coq(m, ns)), || {
                        let tm = Time::from_i64(t);
                        let d = td(m, ns);
                        gi(|| if op == "add" { (tm + d).into_i64() } else { (tm - d).into_i64() })
                    });
                }
            }
        }
    }
    // ---- 7. audit (YC): conversions no case named — Default of the three types, TimeDelta::nat(), From<Duration> /
    // From<Option<Duration>>, From<NaiveDate> at every unit (incl. the NaT outcome at ns), and the witnesses of
    // "valid operands can produce NaT" (Props/C16.v C16_nat_result_converse_refuted) replayed on the real operators
    em.case("exact", "fn=defaults", "DateTime::default() / TimeDelta::default() / Time::default() / TimeDelta::from(None::<Duration>) / TimeDelta::nat()",
        || "r16_defaults".to_string(), || {
        g(|| {
            let d = DateTime::<Microsecond>::default();
            let t = TimeDelta::default();
            let tm = Time::default();
            let o = TimeDelta::from(None::<Duration>);
            let n = TimeDelta::nat();
            (d, t, tm, o, n)
        }, |(d, t, tm, o, n)| {
            let mut c = vec![int(d.into_i64())];
            c.extend(td_cells(&t));
            c.push(int(tm.into_i64()));
            c.extend(td_cells(&o));
            c.extend(td_cells(&n));
            c.push(boolc(t.is_nat()));
            c.push(boolc(tm.is_nat()));
            c
        })
    });
    {
        let mut r = Rng::new(seed * 1000 + 500);
        let mut nss: Vec<i128> = vec![0, 1, -1, 999_999_999, -1_000_000_001, i64::MIN as i128, i64::MAX as i128, DUR_MAX_NS, -DUR_MAX_NS];
        for _ in 0..(if thorough { 40 } else { 8 }) { nss.push(mag_i64(&mut r) as i128) }
        for ns in nss {
            em.case("exact", "fn=tddur", &format!("TimeDelta::from(Duration of {} ns) / from(Some(..))", ns),
                || format!("(r16_tddur {})", coq_z(ns)), || {
                g(|| (TimeDelta::from(dur(ns)), TimeDelta::from(Some(dur(ns)))), |(a, b)| {
                    let mut c = td_cells(&a);
                    c.extend(td_cells(&b));
                    c.push(boolc(a.is_nat()));
                    c
                })
            });
        }
        let mut days: Vec<i64> = vec![0, 1, -1, 11_016, -25_508, 106_751, 106_752, -106_751, -106_752, -106_753, 200_000, -200_000,
            CR_MIN_DAY, CR_MAX_DAY];
        for _ in 0..(if thorough { 200 } else { 24 }) {
            days.push(r.range(CR_MIN_DAY, CR_MAX_DAY));
            days.push(r.range(-110_000, 110_000));
        }
        for day in days {
            for u in 0..4 {
                let tags = format!("fn=naivedate unit={} window={}", uname(u), if (-106_751..=106_751).contains(&day) { "ns" } else { "out" });
                em.case("exact", &tags, &format!("DateTime<{}>::from(NaiveDate of day {}) and its fields", uname(u), day),
                    || format!("(r16_naivedate {} {})", uname(u), coq_z(day as i128)), || {
                    with_unit!(u, U => {
                        g(|| {
                            let nd = NaiveDate::from_ymd_opt(1970, 1, 1).unwrap() + Duration::days(day);
                            let d = DateTime::<U>::from(nd);
                            vec![int(d.into_i64()), opt_int(d.year().map(|v| v as i64)), opt_int(d.month().map(|v| v as i64)),
                                 opt_int(d.day().map(|v| v as i64)), opt_int(d.hour().map(|v| v as i64)),
                                 opt_int(d.minute().map(|v| v as i64)), opt_int(d.second().map(|v| v as i64))]
                        }, |v| v)
                    })
                });
            }
        }
    }
    // valid operands whose result is NaT
    em.case("exact", "fn=valid_to_nat op=tdadd", "TimeDelta{months:-1} + TimeDelta{months:-2147483647}",
        || format!("(r_tdadd {} {})", td_coq(-1, 0), td_coq(-2147483647, 0)), || gtd(|| td(-1, 0) + td(-2147483647, 0)));
    em.case("exact", "fn=valid_to_nat op=tdsub", "TimeDelta{months:-1} - TimeDelta{months:2147483647}",
        || format!("(r_tdsub {} {})", td_coq(-1, 0), td_coq(2147483647, 0)), || gtd(|| td(-1, 0) - td(2147483647, 0)));
    em.case("exact", "fn=valid_to_nat op=tdmul", "TimeDelta{months:-1073741824} * 2",
        || format!("(r_tdmul {} 2)", td_coq(-1073741824, 0)), || gtd(|| td(-1073741824, 0) * 2));
    em.case("exact", "fn=valid_to_nat op=timeadd", "Time(0) + TimeDelta{ns: i64::MIN}",
        || format!("(r_timeadd 0 {})", td_coq(0, i64::MIN as i128)), || gi(|| (Time::from_i64(0) + td(0, i64::MIN as i128)).into_i64()));
    em.case("exact", "fn=valid_to_nat op=dtadd", "DateTime<Nano>(i64::MAX) + TimeDelta{ns: 1}",
        || format!("(r_dtadd Nano {} {})", coq_z(i64::MAX as i128), td_coq(0, 1)),
        || gi(|| (DateTime::<Nanosecond>::new(i64::MAX) + td(0, 1)).into_i64()));
    em.finish();
}

/// Cast<DateTime<T>> for DateTime<U> (macro-generated for the 12 distinct pairs)
fn cast_to<U: tea_time::TimeUnitTrait, T: tea_time::TimeUnitTrait>(d: DateTime<U>, same: bool) -> i64
where
    DateTime<U>: CastTo<T>,
{
    let _ = same;
    <DateTime<U> as CastTo<T>>::cast_to(d)
}

trait CastTo<T: tea_time::TimeUnitTrait> {
    fn cast_to(self) -> i64;
}
macro_rules! impl_cast_to {
    ($($u:ident => ($($t:ident),*)),*) => { $($(
        impl CastTo<$t> for DateTime<$u> {
            fn cast_to(self) -> i64 { let r: DateTime<$t> = Cast::cast(self); r.into_i64() }
        }
    )*)* };
}
impl_cast_to!(Millisecond => (Microsecond, Second, Nanosecond), Microsecond => (Millisecond, Second, Nanosecond),
    Second => (Millisecond, Microsecond, Nanosecond), Nanosecond => (Millisecond, Microsecond, Second));
// same unit: no Cast impl between units is involved; the identity
impl CastTo<Second> for DateTime<Second> { fn cast_to(self) -> i64 { self.into_unit::<Second>().into_i64() } }
impl CastTo<Millisecond> for DateTime<Millisecond> { fn cast_to(self) -> i64 { self.into_unit::<Millisecond>().into_i64() } }
impl CastTo<Microsecond> for DateTime<Microsecond> { fn cast_to(self) -> i64 { self.into_unit::<Microsecond>().into_i64() } }
impl CastTo<Nanosecond> for DateTime<Nanosecond> { fn cast_to(self) -> i64 { self.into_unit::<Nanosecond>().into_i64() } }
