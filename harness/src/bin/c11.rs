//! C11: aggregations (AggValidBasic, AggBasic, AggValidExt) vs the model of Model/Agg.v.
//!
//! Every case runs one *group* of functions on one input through one iterator source:
//!   sym   count count_valid count_none vsum vmin vmax vcount_value(v) for v in vals        (exact)
//!   pos   vfirst vlast vargmin vargmax                                                       (exact)
//!   mom   for mp in 0..=maxmp: vmean vmean_var.0 vmean_var.1 vvar vstd                       (1e-9)
//!   sk    for mp in 0..=maxmp: vskew vkurt                                                   (1e-7)
//!   plain count_value(v).. first last n_sum.0 n_sum.1 sum mean max min argmax argmin         (1e-9, Option as flag+value)
//!   cov / corr   for mp in 0..=maxmp: vcov / vcorr_pearson of two series                      (1e-9 / 1e-7)
//!   mask  for mp in 0..=maxmp: n_vsum_filter.0 n_vsum_filter.1 n_sum_filter vmean_filter(mp) (1e-9)
//!   boolv vany vall count_valid count_none vfirst vlast;  boolp any all first last count_value(true)
//!   number (audit) Number::{min_with,max_with,floor,ceil,abs,n_add,n_prod,kh_sum} on f64 / f32 / i32 / i64 / u64 / usize (exact)
//!   casts  (audit) Number::{to,fromas} between f64 / f32 / i32 / i64 / usize                       (exact)
//!   fold2 / vapply (audit) IterBasic::{vfold2,vapply} with order-sensitive callbacks               (exact)
//! Generator / rendering code never sees the tevec prelude (it shadows Iterator::{sum,min,max,..});
//! all calls into tevec live in `mod imp`.
use std::collections::VecDeque;

use vh::*;

mod imp {
    use tevec::prelude::{AggBasic, AggValidBasic, AggValidExt, BoolType, Cast, IsNone, Number};
    use vh::Cell;

    pub trait ToCell {
        fn cell(&self) -> Cell;
    }
    impl ToCell for f64 {
        fn cell(&self) -> Cell { Cell::F(*self) }
    }
    impl ToCell for f32 {
        fn cell(&self) -> Cell { Cell::F(*self as f64) }
    }
    impl ToCell for i32 {
        fn cell(&self) -> Cell { Cell::Int(*self as i128) }
    }
    impl ToCell for i64 {
        fn cell(&self) -> Cell { Cell::Int(*self as i128) }
    }
    impl ToCell for usize {
        fn cell(&self) -> Cell { Cell::Int(*self as i128) }
    }
    impl ToCell for bool {
        fn cell(&self) -> Cell { Cell::Int(*self as i128) }
    }
    impl<X: ToCell> ToCell for Option<X> {
        fn cell(&self) -> Cell {
            match self {
                // an optional result must be canonical: `Some(NaN)` is NOT the null of an Option (DESIGN 5.4) and must not be
                // read as one — it becomes an Err cell, which no model output contains
                Some(v) => match v.cell() { Cell::F(x) if x.is_nan() => Cell::Err, c => c },
                None => Cell::Null,
            }
        }
    }
    fn opt2<X: ToCell>(o: Option<X>, c: &mut Vec<Cell>) {
        match o {
            Some(v) => { c.push(Cell::Int(1)); c.push(v.cell()) }
            None => { c.push(Cell::Int(0)); c.push(Cell::Null) }
        }
    }

    pub fn sym<T, I>(mk: impl Fn() -> I, vals: &[T]) -> Vec<Cell>
    where
        I: IntoIterator<Item = T>,
        T: IsNone + Clone,
        T::Inner: Number + ToCell,
    {
        #[allow(deprecated)]
        let mut c = vec![
            Cell::Int(AggValidBasic::count(mk()) as i128),
            Cell::Int(mk().count_valid() as i128),
            Cell::Int(mk().count_none() as i128),
            // vsum is plain arithmetic: on the hostile stream inf + -inf is a legitimate Some(NaN) (DESIGN 5.2), not a null
            match mk().vsum() { Some(v) => v.cell(), None => Cell::Null },
            mk().vmin().cell(),
            mk().vmax().cell(),
        ];
        for v in vals {
            c.push(Cell::Int(mk().vcount_value(v.clone()) as i128));
        }
        c
    }

    /// `mk` is the source as the other groups use it (for the option view: `&OptIter`, whose IntoIterator is its own
    /// code path, seed C11-5); only vlast needs the double-ended form `mkde`
    pub fn pos<T, I, J>(mk: impl Fn() -> J, mkde: impl Fn() -> I) -> Vec<Cell>
    where
        J: IntoIterator<Item = T>,
        I: IntoIterator<Item = T>,
        I::IntoIter: DoubleEndedIterator,
        T: IsNone + ToCell,
        T::Inner: Number,
    {
        // the forward-only results through both forms must agree (an Err cell otherwise)
        let both = |a: Cell, b: Cell| if format!("{:?}", a) == format!("{:?}", b) { a } else { Cell::Err };
        vec![both(mk().vfirst().cell(), mkde().vfirst().cell()), mkde().vlast().cell(),
             both(mk().vargmin().cell(), mkde().vargmin().cell()), both(mk().vargmax().cell(), mkde().vargmax().cell())]
    }

    pub fn mom<T, I>(mk: impl Fn() -> I, maxmp: usize) -> Vec<Cell>
    where
        I: IntoIterator<Item = T>,
        T: IsNone,
        T::Inner: Number,
    {
        let mut c = vec![];
        for mp in 0..=maxmp {
            c.push(Cell::F(mk().vmean()));
            let (m, v) = mk().vmean_var(mp);
            c.push(Cell::F(m));
            c.push(Cell::F(v));
            c.push(Cell::F(mk().vvar(mp)));
            c.push(Cell::F(mk().vstd(mp)));
        }
        c
    }

    pub fn sk<T, I>(mk: impl Fn() -> I, maxmp: usize) -> Vec<Cell>
    where
        I: IntoIterator<Item = T>,
        T: IsNone,
        T::Inner: Number,
    {
        let mut c = vec![];
        for mp in 0..=maxmp {
            c.push(Cell::F(mk().vskew(mp)));
            c.push(Cell::F(mk().vkurt(mp)));
        }
        c
    }

    pub fn plain<X, I>(mk: impl Fn() -> I, vals: &[X]) -> Vec<Cell>
    where
        I: IntoIterator<Item = X>,
        I::IntoIter: DoubleEndedIterator,
        X: Number + ToCell,
    {
        let mut c = vec![];
        for v in vals {
            c.push(Cell::Int(AggBasic::count_value(mk(), *v) as i128));
        }
        opt2(AggBasic::first(mk()), &mut c);
        opt2(AggBasic::last(mk()), &mut c);
        let (n, s) = AggBasic::n_sum(mk());
        c.push(Cell::Int(n as i128));
        opt2(s, &mut c);
        opt2(AggBasic::sum(mk()), &mut c);
        opt2(AggBasic::mean(mk()), &mut c);
        opt2(AggBasic::max(mk()), &mut c);
        opt2(AggBasic::min(mk()), &mut c);
        c.push(AggBasic::argmax(mk()).cell());
        c.push(AggBasic::argmin(mk()).cell());
        c
    }

    pub fn cov<T, I, T2, I2>(mk: impl Fn() -> I, mk2: impl Fn() -> I2, maxmp: usize) -> Vec<Cell>
    where
        I: IntoIterator<Item = T>,
        I2: IntoIterator<Item = T2>,
        T: IsNone,
        T2: IsNone,
        T::Inner: Number,
        T2::Inner: Number,
        T::Cast<f64>: ToCell,
    {
        (0..=maxmp).map(|mp| mk().vcov(mk2(), mp).cell()).collect()
    }

    /// O = f64
    pub fn corr<T, I, T2, I2>(mk: impl Fn() -> I, mk2: impl Fn() -> I2, maxmp: usize) -> Vec<Cell>
    where
        I: IntoIterator<Item = T>,
        I2: IntoIterator<Item = T2>,
        T: IsNone,
        T2: IsNone,
        T::Inner: Number,
        T2::Inner: Number,
    {
        (0..=maxmp).map(|mp| { let r: f64 = mk().vcorr_pearson(mk2(), mp); Cell::F(r) }).collect()
    }
    /// O = Option<f64>: a null result must be None, not Some(NaN)
    pub fn corr_opt<T, I, T2, I2>(mk: impl Fn() -> I, mk2: impl Fn() -> I2, maxmp: usize) -> Vec<Cell>
    where
        I: IntoIterator<Item = T>,
        I2: IntoIterator<Item = T2>,
        T: IsNone,
        T2: IsNone,
        T::Inner: Number,
        T2::Inner: Number,
    {
        (0..=maxmp)
            .map(|mp| {
                let r: Option<f64> = mk().vcorr_pearson(mk2(), mp);
                match r {
                    Some(x) if x.is_nan() => Cell::Err, // non-canonical null
                    Some(x) => Cell::F(x),
                    None => Cell::Null,
                }
            })
            .collect()
    }
    /// O = f32
    pub fn corr_f32<T, I, T2, I2>(mk: impl Fn() -> I, mk2: impl Fn() -> I2, maxmp: usize) -> Vec<Cell>
    where
        I: IntoIterator<Item = T>,
        I2: IntoIterator<Item = T2>,
        T: IsNone,
        T2: IsNone,
        T::Inner: Number,
        T2::Inner: Number,
    {
        (0..=maxmp).map(|mp| { let r: f32 = mk().vcorr_pearson(mk2(), mp); Cell::F(r as f64) }).collect()
    }

    /// Vec1View-level wrapper tevec::agg::AggValidFinal::vcorr(.., Pearson)
    pub fn vcorr_view(xs: &Vec<f64>, ys: &Vec<f64>, mp: Option<usize>) -> Vec<Cell> {
        use tevec::prelude::{AggValidFinal, CorrMethod};
        vec![Cell::F(xs.vcorr(ys, mp, CorrMethod::Pearson))]
    }

    pub fn mask<T, I, U, M>(mk: impl Fn() -> I, mkm: impl Fn() -> M, maxmp: usize) -> Vec<Cell>
    where
        I: IntoIterator<Item = T>,
        M: IntoIterator<Item = U>,
        T: IsNone,
        T::Inner: Number + ToCell,
        U: IsNone,
        U::Inner: Cast<bool>,
    {
        let mut c = vec![];
        for mp in 0..=maxmp {
            let (n, s) = mk().n_vsum_filter(mkm());
            c.push(Cell::Int(n as i128));
            c.push(s.cell());
            c.push(mk().n_sum_filter(mkm()).cell());
            c.push(Cell::F(mk().vmean_filter(mkm(), mp)));
        }
        c
    }

    pub fn boolv<T, I>(mk: impl Fn() -> I) -> Vec<Cell>
    where
        I: IntoIterator<Item = T>,
        I::IntoIter: DoubleEndedIterator,
        T: IsNone + ToCell,
        T::Inner: BoolType,
    {
        vec![
            mk().vany().cell(),
            mk().vall().cell(),
            mk().count_valid().cell(),
            mk().count_none().cell(),
            mk().vfirst().cell(),
            mk().vlast().cell(),
        ]
    }

    pub fn boolp<I>(mk: impl Fn() -> I) -> Vec<Cell>
    where
        I: IntoIterator<Item = bool>,
        I::IntoIter: DoubleEndedIterator,
    {
        vec![
            AggBasic::any(mk()).cell(),
            AggBasic::all(mk()).cell(),
            AggBasic::first(mk()).cell(),
            AggBasic::last(mk()).cell(),
            AggBasic::count_value(mk(), true).cell(),
        ]
    }

    // ---- audit additions: tea-dtype/src/number.rs helpers, iter_traits.rs vfold2 / vapply -----------------
    impl ToCell for u64 {
        fn cell(&self) -> Cell { Cell::Int(*self as i128) }
    }
    /// cells: min_with max_with floor ceil abs | n_add(a,b,&mut 3) -> value n | n_prod likewise |
    ///        fold n_add from zero over xs -> value n | fold n_prod from one -> value n | Kahan fold -> sum compensation
    pub fn number<X: Number + ToCell>(zero: X, one: X, a: X, b: X, xs: &[X]) -> Vec<Cell> {
        let mut c = vec![
            <X as Number>::min_with(a, b).cell(),
            <X as Number>::max_with(a, b).cell(),
            <X as Number>::floor(a).cell(),
            <X as Number>::ceil(a).cell(),
            <X as Number>::abs(a).cell(),
        ];
        let mut n = 3usize;
        let r = <X as Number>::n_add(a, b, &mut n);
        c.push(r.cell());
        c.push(n.cell());
        let mut n = 3usize;
        let r = <X as Number>::n_prod(a, b, &mut n);
        c.push(r.cell());
        c.push(n.cell());
        let (mut n, mut acc) = (0usize, zero);
        for v in xs { acc = <X as Number>::n_add(acc, *v, &mut n); }
        c.push(acc.cell());
        c.push(n.cell());
        let (mut n, mut acc) = (0usize, one);
        for v in xs { acc = <X as Number>::n_prod(acc, *v, &mut n); }
        c.push(acc.cell());
        c.push(n.cell());
        let (mut comp, mut acc) = (zero, zero);
        for v in xs { acc = <X as Number>::kh_sum(acc, *v, &mut comp); }
        c.push(acc.cell());
        c.push(comp.cell());
        c
    }
    /// the type's own range constants (Number::min_ / max_) as they are: compared with literal cells
    pub fn number_range<X: Number + ToCell>() -> Vec<Cell> {
        vec![X::min_().cell(), X::max_().cell()]
    }

    /// sign bit of the extreme (1 / 0 / null): tells +0 from -0, which value cells cannot
    pub fn zero_signs(xs: &[f64]) -> Vec<Cell> {
        use tevec::prelude::TIter;
        let sg = |o: Option<f64>| match o { Some(m) => Cell::Int(m.is_sign_negative() as i128), None => Cell::Null };
        vec![sg(xs.titer().vmin()), sg(xs.titer().vmax())]
    }

    /// Number::to / Number::fromas (layout in Run/RunC11.v num_casts)
    pub fn casts(x: f64, k: i64) -> Vec<Cell> {
        let k32: i32 = <i64 as Number>::to::<i32>(k);
        vec![
            <f64 as Number>::to::<i32>(x).cell(),
            <f64 as Number>::to::<i64>(x).cell(),
            <f64 as Number>::to::<usize>(x).cell(),
            <f64 as Number>::to::<f64>(x).cell(),
            <f64 as Number>::to::<f32>(x).cell(),
            <i32 as Number>::fromas(x).cell(),
            <i64 as Number>::fromas(x).cell(),
            <i64 as Number>::to::<f64>(k).cell(),
            k32.cell(),
            <i64 as Number>::to::<usize>(k).cell(),
            <f64 as Number>::fromas(k).cell(),
            <f32 as Number>::fromas(k).cell(),
            <i32 as Number>::to::<i64>(k32).cell(),
            <i32 as Number>::to::<f64>(k32).cell(),
            <f64 as Number>::fromas(k32).cell(),
        ]
    }

    /// IterBasic::vfold2 with acc -> (count + 1, 3 acc + a - 2 b)
    pub fn fold2<T, I, T2, I2>(mk: impl Fn() -> I, mk2: impl Fn() -> I2) -> Vec<Cell>
    where
        I: IntoIterator<Item = T>,
        I2: IntoIterator<Item = T2>,
        T: IsNone<Inner = f64>,
        T2: IsNone<Inner = f64>,
    {
        use tevec::prelude::IterBasic;
        let (n, v) = mk().vfold2(mk2(), (0usize, 0.0f64), |acc, a: T, b: T2| (acc.0 + 1, 3.0 * acc.1 + a.unwrap() - 2.0 * b.unwrap()));
        vec![Cell::Int(n as i128), Cell::F(v)]
    }
    /// IterBasic::vapply with captured state (calls, running sum, last value)
    pub fn vapply<T, I>(mk: impl Fn() -> I) -> Vec<Cell>
    where
        I: IntoIterator<Item = T>,
        T: IsNone<Inner = f64>,
    {
        use tevec::prelude::IterBasic;
        let (mut calls, mut sum, mut last) = (0usize, 0.0f64, f64::NAN);
        mk().vapply(|v: f64| { calls += 1; sum += v; last = v; });
        vec![Cell::Int(calls as i128), Cell::F(sum), Cell::F(last)]
    }
}

fn run(f: impl FnOnce() -> Vec<Cell>) -> Vec<Cell> {
    match guarded(std::panic::AssertUnwindSafe(f)) {
        Ok(c) => c,
        Err(k) => vec![Cell::Panic(k)],
    }
}

/// a generated series: `k[i]` = Some(value numerator) / None (null); value = k / den (den = 1: integers, 4: dyadic)
#[derive(Clone)]
struct Series {
    k: Vec<Option<i64>>,
    den: i64,
    tags: String,
}

impl Series {
    fn len(&self) -> usize { self.k.len() }
    fn nv(&self) -> usize { self.k.iter().filter(|x| x.is_some()).count() }
    fn f64s(&self) -> Vec<f64> {
        self.k.iter().map(|x| match x { Some(k) => *k as f64 / self.den as f64, None => f64::NAN }).collect()
    }
    fn optf64s(&self) -> Vec<Option<f64>> {
        self.k.iter().map(|x| x.map(|k| k as f64 / self.den as f64)).collect()
    }
    fn is_int(&self) -> bool { self.den == 1 }
    fn nullfree(&self) -> bool { self.k.iter().all(|x| x.is_some()) }
    fn i64s(&self) -> Vec<i64> { self.k.iter().map(|x| x.unwrap()).collect() }
    fn opti32s(&self) -> Vec<Option<i32>> { self.k.iter().map(|x| x.map(|k| k as i32)).collect() }
    fn distinct(&self) -> usize {
        let mut v: Vec<i64> = self.k.iter().flatten().cloned().collect();
        v.sort();
        v.dedup();
        v.len()
    }
    /// tags describing which branches of the model the input reaches
    fn shape_tags(&self) -> String {
        let nv = self.nv();
        format!(
            "len={} nv={} spread={} {}{}",
            self.len().min(12),
            if nv >= 5 { "5+".to_string() } else { nv.to_string() },
            match self.distinct() { 0 => "none", 1 => "const", 2 => "two", _ => "many" },
            self.tags,
            if self.len() == 0 { " nt=0" } else { "" }
        )
    }
}

fn coq_f(xs: &[f64]) -> String { coq_list(xs, |x| coq_f64(*x)) }
fn coq_of(xs: &[Option<f64>]) -> String { coq_list(xs, |x| coq_opt(x, |v| coq_f64(*v))) }
fn coq_zs(xs: &[i64]) -> String { coq_list(xs, |x| coq_z(*x as i128)) }
fn coq_ozs(xs: &[Option<i64>]) -> String { coq_list(xs, |x| coq_opt(x, |v| coq_z(*v as i128))) }
fn coq_bs(xs: &[bool]) -> String { coq_list(xs, |x| coq_bool(*x)) }
fn coq_obs(xs: &[Option<bool>]) -> String { coq_list(xs, |x| coq_opt(x, |v| coq_bool(*v))) }
fn sweep(maxmp: usize, body: &str) -> String {
    format!("(sweep {} (fun mp : nat => {}))", coq_nat(maxmp), body)
}
fn pack(body: String) -> String {
    format!("(pack {})", body)
}

fn gen_series(rng: &mut Rng, len: usize) -> Series {
    let style = rng.below(6);
    let pat = *rng.pick(&NULL_PATTERNS);
    let mask = null_mask(rng, pat, len);
    let den = if rng.chance(1, 2) { 1 } else { 4 };
    let mut cur = rng.range(-40, 40);
    let c = rng.range(-8, 8);
    let mut k = Vec::with_capacity(len);
    for i in 0..len {
        let v = match style {
            0 => rng.range(-400, 400),
            1 => *rng.pick(&[-4i64, 2, 8]),                     // small alphabet, heavy ties
            2 => { cur += rng.range(0, 12); cur }                // monotone up (ties possible)
            3 => c,                                              // constant
            4 => { cur -= rng.range(0, 12); cur }                // monotone down
            _ => { cur += rng.range(-20, 20); cur }              // random walk
        };
        k.push(if mask[i] { None } else { Some(v) });
    }
    let styles = ["uniform", "alphabet", "up", "constant", "down", "walk"];
    Series { k, den, tags: format!("style={} nulls={}", styles[style], pat) }
}

fn permute(rng: &mut Rng, n: usize, how: usize) -> Vec<usize> {
    let mut p: Vec<usize> = (0..n).collect();
    match how {
        0 => p.reverse(),
        1 => { if n > 0 { p.rotate_left(1) } }
        _ => { for i in (1..n).rev() { let j = rng.below(i + 1); p.swap(i, j) } }
    }
    p
}

const SYM_LAYOUT: &str = "cells: count count_valid count_none vsum vmin vmax vcount_value(v) for v in vals";
const POS_LAYOUT: &str = "cells: vfirst vlast vargmin vargmax";
const MOM_LAYOUT: &str = "cells: for mp in 0..=maxmp: vmean vmean_var.0 vmean_var.1 vvar vstd";
const SK_LAYOUT: &str = "cells: for mp in 0..=maxmp: vskew vkurt";
const PLAIN_LAYOUT: &str = "cells: count_value(v) for v in vals; then (flag,value) first last; n_sum.0; (flag,value) n_sum.1 sum mean max min; argmax argmin";

/// the four single-series groups of the valid family through one source
macro_rules! valid_groups {
    ($em:expr, $kind:expr, $ty:expr, $src:expr, $s:expr, $coq:expr, $vals:expr, $vals_coq:expr, $shown:expr,
     $mk:expr, $mkde:expr, $groups:expr) => {{
        let s: &Series = $s;
        let maxmp = s.len() + 1;
        let tg = |g: &str| format!("fn={} ty={} src={} {}", g, $ty, $src, s.shape_tags());
        let ds = |g: &str, layout: &str| format!("group={} ty={} src={} xs={} vals={} maxmp={} ; {}", g, $ty, $src, $shown, $vals_coq, maxmp, layout);
        if $groups & 1 != 0 {
            $em.case("custom:exact", &tg("sym"), &ds("sym", SYM_LAYOUT),
                || pack(format!("(sym_{} {} {})", $kind, $vals_coq, $coq)), || run(|| imp::sym($mk, $vals)));
        }
        if $groups & 2 != 0 {
            $em.case("custom:exact", &tg("pos"), &ds("pos", POS_LAYOUT),
                || pack(format!("(pos_{} {})", $kind, $coq)), || run(|| imp::pos($mk, $mkde)));
        }
        if $groups & 4 != 0 {
            $em.case("custom:float:1e-9", &tg("mom"), &ds("mom", MOM_LAYOUT),
                || sweep(maxmp, &format!("mom_{} mp {}", $kind, $coq)), || run(|| imp::mom($mk, maxmp)));
        }
        if $groups & 8 != 0 {
            $em.case("custom:float:1e-7", &tg("sk"), &ds("sk", SK_LAYOUT),
                || sweep(maxmp, &format!("sk_{} mp {}", $kind, $coq)), || run(|| imp::sk($mk, maxmp)));
        }
    }};
}

fn single_series(em: &mut Emitter, rng: &mut Rng, s: &Series, full: bool) {
    use tevec::export::ndarray::Array1;
    use tevec::prelude::{TIter, Vec1View};
    let all = 15usize;
    // which extra sources to run: everything on small inputs (`full`), a random half otherwise
    // (a random quarter for the 4096 exhaustive series of length 6 of the thorough tier)
    let den = if s.tags.contains("exhaustive") && s.len() >= 6 { 4 } else { 2 };
    let pick = |rng: &mut Rng| full || rng.chance(1, den);
    // ---- f64 (NaN null) ------------------------------------------------------------------
    let xf = s.f64s();
    let cf = coq_f(&xf);
    let shown = format!("{:?}", xf);
    let first = xf.iter().cloned().find(|x| !x.is_nan()).unwrap_or(0.0);
    let vals_f = vec![0.0, 2.0, first, f64::NAN];
    let vals_f_coq = coq_f(&vals_f);
    valid_groups!(em, "f", "f64", "vec", s, cf, &vals_f, vals_f_coq, shown, || xf.clone(), || xf.clone(), all);
    valid_groups!(em, "f", "f64", "titer", s, cf, &vals_f, vals_f_coq, shown, || xf.titer(), || xf.titer(), all);
    if pick(rng) {
        // option view: items are Option<f64>, NaN -> None
        let o = xf.opt();
        let vals_o: Vec<Option<f64>> = vals_f.iter().map(|x| if x.is_nan() { None } else { Some(*x) }).collect();
        valid_groups!(em, "f", "f64", "opt", s, cf, &vals_o, vals_f_coq, shown, || &o, || o.titer(), all);
    }
    if pick(rng) {
        // a ring buffer whose data wraps around the end of its allocation
        let d: VecDeque<f64> = vh::wrapped_deque(&xf);
        valid_groups!(em, "f", "f64", "deque", s, cf, &vals_f, vals_f_coq, shown, || d.titer(), || d.titer(), all);
        valid_groups!(em, "f", "f64", "deque_owned", s, cf, &vals_f, vals_f_coq, shown, || d.clone(), || d.clone(), 5);
    }
    if pick(rng) {
        let a = Array1::from_vec(xf.clone());
        valid_groups!(em, "f", "f64", "ndarray", s, cf, &vals_f, vals_f_coq, shown, || a.titer(), || a.titer(), all);
        let mut rev: Vec<f64> = xf.clone();
        rev.reverse();
        let b = Array1::from_vec(rev);
        let bv = b.slice(tevec::export::ndarray::s![..;-1]);
        valid_groups!(em, "f", "f64", "ndarray_rev", s, cf, &vals_f, vals_f_coq, shown, || bv.titer(), || bv.titer(), all);
        // the option view of the reversed view, consumed through `&OptIter: IntoIterator` (seed C11-5: a slice fast path
        // there + memory-order slices of ndarray views = the elements in reverse order)
        let ob = bv.opt();
        let vals_o: Vec<Option<f64>> = vals_f.iter().map(|x| if x.is_nan() { None } else { Some(*x) }).collect();
        valid_groups!(em, "f", "f64", "ndarray_rev_opt", s, cf, &vals_o, vals_f_coq, shown, || &ob, || ob.titer(), all);
    }
    if pick(rng) {
        valid_groups!(em, "f", "f64", "stditer", s, cf, &vals_f, vals_f_coq, shown,
            || xf.iter().cloned(), || xf.iter().cloned(), all);
    }
    // plain family on the same data (NaN is an ordinary value there)
    {
        let maxmp = 0;
        let _ = maxmp;
        let nf = if s.nullfree() { 1 } else { 0 };
        let tags = |src: &str| format!("fn=plain ty=f64 src={} nullfree={} {}", src, nf, s.shape_tags());
        let desc = |src: &str| format!("group=plain ty=f64 src={} xs={} vals={} ; {}", src, shown, vals_f_coq, PLAIN_LAYOUT);
        em.case("custom:float:1e-9", &tags("titer"), &desc("titer"),
            || pack(format!("(plain_f {} {})", vals_f_coq, cf)), || run(|| imp::plain(|| xf.titer(), &vals_f)));
        if pick(rng) {
            em.case("custom:float:1e-9", &tags("vec"), &desc("vec"),
                || pack(format!("(plain_f {} {})", vals_f_coq, cf)), || run(|| imp::plain(|| xf.clone(), &vals_f)));
        }
    }
    // ---- f32 -------------------------------------------------------------------------------
    if pick(rng) {
        let x32: Vec<f32> = xf.iter().map(|x| *x as f32).collect();
        let v32: Vec<f32> = vals_f.iter().map(|x| *x as f32).collect();
        valid_groups!(em, "f", "f32", "vec", s, cf, &v32, vals_f_coq, shown, || x32.clone(), || x32.clone(), all);
        valid_groups!(em, "f", "f32", "titer", s, cf, &v32, vals_f_coq, shown, || x32.titer(), || x32.titer(), 3);
    }
    // ---- Option<f64> -------------------------------------------------------------------------
    {
        let xo = s.optf64s();
        let co = coq_of(&xo);
        let vals_o: Vec<Option<f64>> = vals_f.iter().map(|x| if x.is_nan() { None } else { Some(*x) }).collect();
        let vals_o_coq = coq_of(&vals_o);
        valid_groups!(em, "o", "optf64", "vec", s, co, &vals_o, vals_o_coq, shown, || xo.clone(), || xo.clone(), all);
        if pick(rng) {
            valid_groups!(em, "o", "optf64", "titer", s, co, &vals_o, vals_o_coq, shown, || xo.titer(), || xo.titer(), all);
        }
    }
    // ---- integers ------------------------------------------------------------------------------
    if s.is_int() {
        let ko: Vec<Option<i64>> = s.k.clone();
        let coz = coq_ozs(&ko);
        let xo32 = s.opti32s();
        let firsti = s.k.iter().flatten().cloned().next().unwrap_or(0);
        let vals_oz: Vec<Option<i32>> = vec![Some(0), Some(2), Some(firsti as i32), None];
        let vals_oz_coq = coq_ozs(&[Some(0), Some(2), Some(firsti), None]);
        valid_groups!(em, "oz", "opti32", "vec", s, coz, &vals_oz, vals_oz_coq, shown, || xo32.clone(), || xo32.clone(), all);
        if pick(rng) {
            valid_groups!(em, "oz", "opti32", "titer", s, coz, &vals_oz, vals_oz_coq, shown, || xo32.titer(), || xo32.titer(), all);
        }
        if s.nullfree() {
            let xi64 = s.i64s();
            let xi32: Vec<i32> = xi64.iter().map(|x| *x as i32).collect();
            let cz = coq_zs(&xi64);
            let vals_z64: Vec<i64> = vec![0, 2, firsti];
            let vals_z32: Vec<i32> = vec![0, 2, firsti as i32];
            let vals_z_coq = coq_zs(&vals_z64);
            valid_groups!(em, "z", "i32", "vec", s, cz, &vals_z32, vals_z_coq, shown, || xi32.clone(), || xi32.clone(), all);
            valid_groups!(em, "z", "i32", "titer", s, cz, &vals_z32, vals_z_coq, shown, || xi32.titer(), || xi32.titer(), all);
            if pick(rng) {
                valid_groups!(em, "z", "i64", "vec", s, cz, &vals_z64, vals_z_coq, shown, || xi64.clone(), || xi64.clone(), all);
            }
            if pick(rng) {
                // option view of an integer series: all Some
                let o = xi32.opt();
                let vo: Vec<Option<i32>> = vals_z32.iter().map(|x| Some(*x)).collect();
                valid_groups!(em, "z", "i32", "opt", s, cz, &vo, vals_z_coq, shown, || &o, || o.titer(), all);
            }
            let tags = format!("fn=plain ty=i32 src=titer nullfree=1 {}", s.shape_tags());
            let desc = format!("group=plain ty=i32 src=titer xs={} vals={} ; {}", shown, vals_z_coq, PLAIN_LAYOUT);
            em.case("custom:float:1e-9", &tags, &desc,
                || pack(format!("(plain_z {} {})", vals_z_coq, cz)), || run(|| imp::plain(|| xi32.titer(), &vals_z32)));
            if pick(rng) {
                let tags = format!("fn=plain ty=i64 src=vec nullfree=1 {}", s.shape_tags());
                let desc = format!("group=plain ty=i64 src=vec xs={} vals={} ; {}", shown, vals_z_coq, PLAIN_LAYOUT);
                em.case("custom:float:1e-9", &tags, &desc,
                    || pack(format!("(plain_z {} {})", vals_z_coq, cz)), || run(|| imp::plain(|| xi64.clone(), &vals_z64)));
            }
        }
    }
}

/// permuted copies: the implementation on a permutation of xs against the model on xs itself
/// (symmetric functions only: groups sym, mom, sk)
fn permuted(em: &mut Emitter, rng: &mut Rng, s: &Series, hows: &[usize]) {
    use tevec::prelude::TIter;
    if s.len() < 2 { return; }
    let xf = s.f64s();
    let cf = coq_f(&xf);
    let first = xf.iter().cloned().find(|x| !x.is_nan()).unwrap_or(0.0);
    let vals_f = vec![0.0, 2.0, first, f64::NAN];
    let vals_f_coq = coq_f(&vals_f);
    for how in hows {
        let p = permute(rng, s.len(), *how);
        let yf: Vec<f64> = p.iter().map(|i| xf[*i]).collect();
        let shown = format!("{:?} (a permutation of the model's input {:?})", yf, xf);
        let hn = ["reverse", "rotate", "shuffle"][*how];
        let src = format!("perm_{}", hn);
        valid_groups!(em, "f", "f64", src, s, cf, &vals_f, vals_f_coq, shown, || yf.titer(), || yf.titer(), 13);
        if s.is_int() {
            let yo: Vec<Option<i32>> = p.iter().map(|i| s.k[*i].map(|k| k as i32)).collect();
            let coz = coq_ozs(&s.k);
            let firsti = s.k.iter().flatten().cloned().next().unwrap_or(0);
            let vals_oz: Vec<Option<i32>> = vec![Some(0), Some(2), Some(firsti as i32), None];
            let vals_oz_coq = coq_ozs(&[Some(0), Some(2), Some(firsti), None]);
            valid_groups!(em, "oz", "opti32", src, s, coz, &vals_oz, vals_oz_coq, shown, || yo.clone(), || yo.clone(), 13);
        }
    }
}

/// two series with independent null patterns: vcov, vcorr_pearson (pairwise deletion)
fn two_series(em: &mut Emitter, rng: &mut Rng, a: &Series, b: &Series, full: bool, extra_tag: &str) {
    use tevec::prelude::TIter;
    let maxmp = a.len().min(b.len()) + 1;
    let (xa, xb) = (a.f64s(), b.f64s());
    let (ca, cb) = (coq_f(&xa), coq_f(&xb));
    let npair = a.k.iter().zip(b.k.iter()).filter(|(x, y)| x.is_some() && y.is_some()).count();
    let tg = |g: &str, ty: &str, src: &str| format!(
        "fn={} ty={} src={} len={} npair={} lens={} {}{}", g, ty, src, a.len().min(12),
        if npair >= 5 { "5+".to_string() } else { npair.to_string() },
        if a.len() == b.len() { "eq" } else if a.len() < b.len() { "first_shorter" } else { "second_shorter" },
        extra_tag, if maxmp == 1 { " nt=0" } else { "" });
    let ds = |g: &str, ty: &str, src: &str| format!(
        "group={} ty={} src={} xs={:?} ys={:?} maxmp={} ; cells: for mp in 0..=maxmp: {}", g, ty, src, xa, xb, maxmp,
        if g == "cov" { "vcov" } else { "vcorr_pearson" });
    let pick = |rng: &mut Rng| full || rng.chance(1, 2);
    // f64 x f64
    em.case("custom:float:1e-9", &tg("cov", "f64,f64", "titer"), &ds("cov", "f64,f64", "titer"),
        || sweep(maxmp, &format!("cov_ff mp {} {}", ca, cb)), || run(|| imp::cov(|| xa.titer(), || xb.titer(), maxmp)));
    em.case("custom:float:1e-7", &tg("corr", "f64,f64", "titer"), &ds("corr", "f64,f64", "titer"),
        || sweep(maxmp, &format!("corr_ff mp {} {}", ca, cb)), || run(|| imp::corr(|| xa.titer(), || xb.titer(), maxmp)));
    if pick(rng) {
        em.case("custom:float:1e-9", &tg("cov", "f64,f64", "vec"), &ds("cov", "f64,f64", "vec"),
            || sweep(maxmp, &format!("cov_ff mp {} {}", ca, cb)), || run(|| imp::cov(|| xa.clone(), || xb.clone(), maxmp)));
        em.case("custom:float:1e-7", &tg("corr", "f64,f64->optf64", "vec"), &ds("corr", "f64,f64->optf64", "vec"),
            || sweep(maxmp, &format!("corr_ff mp {} {}", ca, cb)), || run(|| imp::corr_opt(|| xa.clone(), || xb.clone(), maxmp)));
    }
    if pick(rng) {
        em.case("custom:float:1e-6", &tg("corr", "f64,f64->f32", "titer"), &ds("corr", "f64,f64->f32", "titer"),
            || sweep(maxmp, &format!("corr_ff mp {} {}", ca, cb)), || run(|| imp::corr_f32(|| xa.titer(), || xb.titer(), maxmp)));
    }
    if a.len() == b.len() && pick(rng) {
        // Vec1View-level wrapper with omitted / explicit min_periods
        let mpo = if rng.chance(1, 2) { None } else { Some(rng.below(maxmp + 1)) };
        let mpv = mpo.unwrap_or(a.len() / 2);
        em.case("custom:float:1e-7", &tg("vcorr_view", "f64,f64", "vec"),
            &format!("fn=vcorr(Pearson) mp={:?} xs={:?} ys={:?}", mpo, xa, xb),
            || pack(format!("(corr_ff {} {} {})", coq_nat(mpv), ca, cb)), || run(|| imp::vcorr_view(&xa, &xb, mpo)));
    }
    // option views / Option<f64>
    if pick(rng) {
        let (oa, ob) = (a.optf64s(), b.optf64s());
        let (coa, cob) = (coq_of(&oa), coq_of(&ob));
        em.case("custom:float:1e-9", &tg("cov", "optf64,optf64", "vec"), &ds("cov", "optf64,optf64", "vec"),
            || sweep(maxmp, &format!("cov_oo mp {} {}", coa, cob)), || run(|| imp::cov(|| oa.clone(), || ob.clone(), maxmp)));
        em.case("custom:float:1e-7", &tg("corr", "optf64,optf64", "titer"), &ds("corr", "optf64,optf64", "titer"),
            || sweep(maxmp, &format!("corr_oo mp {} {}", coa, cob)), || run(|| imp::corr(|| oa.titer(), || ob.titer(), maxmp)));
        em.case("custom:float:1e-9", &tg("cov", "f64,optf64", "titer"), &ds("cov", "f64,optf64", "titer"),
            || sweep(maxmp, &format!("cov_fo mp {} {}", ca, cob)), || run(|| imp::cov(|| xa.titer(), || ob.titer(), maxmp)));
        em.case("custom:float:1e-7", &tg("corr", "f64,optf64", "titer"), &ds("corr", "f64,optf64", "titer"),
            || sweep(maxmp, &format!("corr_fo mp {} {}", ca, cob)), || run(|| imp::corr(|| xa.titer(), || ob.titer(), maxmp)));
        use tevec::prelude::Vec1View;
        let (va, vb) = (xa.opt(), xb.opt());
        em.case("custom:float:1e-9", &tg("cov", "f64,f64", "opt"), &ds("cov", "f64,f64", "opt"),
            || sweep(maxmp, &format!("cov_ff mp {} {}", ca, cb)), || run(|| imp::cov(|| &va, || &vb, maxmp)));
        // first series = option view of a reversed ndarray view, partner in plain order
        let mut ra: Vec<f64> = xa.clone();
        ra.reverse();
        let arr = tevec::export::ndarray::Array1::from_vec(ra);
        let rv = arr.slice(tevec::export::ndarray::s![..;-1]);
        let orv = rv.opt();
        em.case("custom:float:1e-9", &tg("cov", "f64,f64", "ndarray_rev_opt"), &ds("cov", "f64,f64", "ndarray_rev_opt"),
            || sweep(maxmp, &format!("cov_ff mp {} {}", ca, cb)), || run(|| imp::cov(|| &orv, || &vb, maxmp)));
        em.case("custom:float:1e-7", &tg("corr", "f64,f64", "ndarray_rev_opt"), &ds("corr", "f64,f64", "ndarray_rev_opt"),
            || sweep(maxmp, &format!("corr_ff mp {} {}", cb, ca)), || run(|| imp::corr(|| &vb, || &orv, maxmp)));
    }
    // integers
    if a.is_int() && b.is_int() {
        let (ka, kb) = (a.k.clone(), b.k.clone());
        let (cka, ckb) = (coq_ozs(&ka), coq_ozs(&kb));
        let (ia, ib) = (a.opti32s(), b.opti32s());
        em.case("custom:float:1e-9", &tg("cov", "opti32,opti32", "vec"), &ds("cov", "opti32,opti32", "vec"),
            || sweep(maxmp, &format!("cov_ozoz mp {} {}", cka, ckb)), || run(|| imp::cov(|| ia.clone(), || ib.clone(), maxmp)));
        em.case("custom:float:1e-7", &tg("corr", "opti32,opti32", "titer"), &ds("corr", "opti32,opti32", "titer"),
            || sweep(maxmp, &format!("corr_ozoz mp {} {}", cka, ckb)), || run(|| imp::corr(|| ia.titer(), || ib.titer(), maxmp)));
        if a.nullfree() && b.nullfree() {
            let (za, zb) = (a.i64s(), b.i64s());
            let (cza, czb) = (coq_zs(&za), coq_zs(&zb));
            let (z32a, z32b): (Vec<i32>, Vec<i32>) = (za.iter().map(|x| *x as i32).collect(), zb.iter().map(|x| *x as i32).collect());
            em.case("custom:float:1e-9", &tg("cov", "i32,i64", "titer"), &ds("cov", "i32,i64", "titer"),
                || sweep(maxmp, &format!("cov_zz mp {} {}", cza, czb)), || run(|| imp::cov(|| z32a.titer(), || zb.titer(), maxmp)));
            em.case("custom:float:1e-7", &tg("corr", "i32,i32", "vec"), &ds("corr", "i32,i32", "vec"),
                || sweep(maxmp, &format!("corr_zz mp {} {}", cza, czb)), || run(|| imp::corr(|| z32a.clone(), || z32b.clone(), maxmp)));
            // mixed element types i32 x f64: each side is cast to f64 on its own (modelled at the float instance)
            em.case("custom:float:1e-9", &tg("cov", "i32,f64", "titer"), &ds("cov", "i32,f64", "titer"),
                || sweep(maxmp, &format!("cov_ff mp {} {}", ca, cb)), || run(|| imp::cov(|| z32a.titer(), || xb.titer(), maxmp)));
        }
    }
}

/// masked sum / mean
fn masked(em: &mut Emitter, rng: &mut Rng, s: &Series, m: &[Option<bool>], full: bool) {
    use tevec::prelude::TIter;
    let maxmp = s.len().min(m.len()) + 1;
    let xf = s.f64s();
    let cf = coq_f(&xf);
    let nsel = s.k.iter().zip(m.iter()).filter(|(x, f)| x.is_some() && **f == Some(true)).count();
    let mnull = m.iter().any(|f| f.is_none());
    let tg = |ty: &str, mty: &str| format!(
        "fn=mask ty={} mask={} len={} nsel={} masknulls={} lens={} {}{}", ty, mty, s.len().min(12),
        if nsel >= 5 { "5+".to_string() } else { nsel.to_string() }, mnull as u8,
        if s.len() == m.len() { "eq" } else if s.len() < m.len() { "data_shorter" } else { "mask_shorter" },
        s.tags, if maxmp == 1 { " nt=0" } else { "" });
    let ds = |ty: &str, mty: &str| format!(
        "group=mask ty={} mask={} xs={:?} mask={:?} maxmp={} ; cells: for mp in 0..=maxmp: n_vsum_filter.0 n_vsum_filter.1 n_sum_filter vmean_filter(mp)",
        ty, mty, xf, m, maxmp);
    let pick = |rng: &mut Rng| full || rng.chance(1, 2);
    let com = coq_obs(m);
    // Option<bool> mask
    let mo: Vec<Option<bool>> = m.to_vec();
    em.case("custom:float:1e-9", &tg("f64", "optbool"), &ds("f64", "optbool"),
        || sweep(maxmp, &format!("mask_fob mp {} {}", cf, com)), || run(|| imp::mask(|| xf.titer(), || mo.titer(), maxmp)));
    // f64 mask 0.0 / 1.0 / NaN
    if pick(rng) {
        let mf: Vec<f64> = m.iter().map(|f| match f { Some(true) => 1.0, Some(false) => 0.0, None => f64::NAN }).collect();
        em.case("custom:float:1e-9", &tg("f64", "f64"), &ds("f64", "f64"),
            || sweep(maxmp, &format!("mask_fob mp {} {}", cf, com)), || run(|| imp::mask(|| xf.clone(), || mf.clone(), maxmp)));
    }
    if pick(rng) {
        let xo = s.optf64s();
        let co = coq_of(&xo);
        em.case("custom:float:1e-9", &tg("optf64", "optbool"), &ds("optf64", "optbool"),
            || sweep(maxmp, &format!("mask_oob mp {} {}", co, com)), || run(|| imp::mask(|| xo.titer(), || mo.clone(), maxmp)));
    }
    if s.is_int() && pick(rng) {
        let ko = s.k.clone();
        let cko = coq_ozs(&ko);
        let io = s.opti32s();
        em.case("custom:float:1e-9", &tg("opti32", "optbool"), &ds("opti32", "optbool"),
            || sweep(maxmp, &format!("mask_ozob mp {} {}", cko, com)), || run(|| imp::mask(|| io.titer(), || mo.titer(), maxmp)));
    }
    if !mnull {
        // bool / i32 masks (never null)
        let mb: Vec<bool> = m.iter().map(|f| f.unwrap()).collect();
        let cmb = coq_bs(&mb);
        em.case("custom:float:1e-9", &tg("f64", "bool"), &ds("f64", "bool"),
            || sweep(maxmp, &format!("mask_fb mp {} {}", cf, cmb)), || run(|| imp::mask(|| xf.titer(), || mb.titer(), maxmp)));
        if pick(rng) {
            let mi: Vec<i32> = mb.iter().map(|f| *f as i32).collect();
            em.case("custom:float:1e-9", &tg("f64", "i32"), &ds("f64", "i32"),
                || sweep(maxmp, &format!("mask_fb mp {} {}", cf, cmb)), || run(|| imp::mask(|| xf.titer(), || mi.titer(), maxmp)));
        }
        if pick(rng) {
            let xo = s.optf64s();
            let co = coq_of(&xo);
            em.case("custom:float:1e-9", &tg("optf64", "bool"), &ds("optf64", "bool"),
                || sweep(maxmp, &format!("mask_ob mp {} {}", co, cmb)), || run(|| imp::mask(|| xo.clone(), || mb.clone(), maxmp)));
        }
        if s.is_int() {
            let io = s.opti32s();
            let cko = coq_ozs(&s.k);
            if pick(rng) {
                em.case("custom:float:1e-9", &tg("opti32", "bool"), &ds("opti32", "bool"),
                    || sweep(maxmp, &format!("mask_ozb mp {} {}", cko, cmb)), || run(|| imp::mask(|| io.titer(), || mb.titer(), maxmp)));
            }
            if s.nullfree() {
                let z = s.i64s();
                let cz = coq_zs(&z);
                let z32: Vec<i32> = z.iter().map(|x| *x as i32).collect();
                em.case("custom:float:1e-9", &tg("i32", "bool"), &ds("i32", "bool"),
                    || sweep(maxmp, &format!("mask_zb mp {} {}", cz, cmb)), || run(|| imp::mask(|| z32.titer(), || mb.titer(), maxmp)));
                if pick(rng) {
                    em.case("custom:float:1e-9", &tg("i64", "optbool"), &ds("i64", "optbool"),
                        || sweep(maxmp, &format!("mask_zob mp {} {}", cz, com)), || run(|| imp::mask(|| z.clone(), || mo.clone(), maxmp)));
                }
            }
        }
    }
}

fn bools(em: &mut Emitter, xs: &[Option<bool>]) {
    use tevec::prelude::{TIter, Vec1View};
    let len = xs.len();
    let nv = xs.iter().filter(|x| x.is_some()).count();
    let nt = if len == 0 { " nt=0" } else { "" };
    let tags = |g: &str, ty: &str, src: &str| format!(
        "fn={} ty={} src={} len={} nv={} anytrue={} allvalidtrue={}{}", g, ty, src, len, nv.min(5),
        xs.iter().any(|x| *x == Some(true)) as u8, xs.iter().flatten().all(|x| *x) as u8, nt);
    let xo: Vec<Option<bool>> = xs.to_vec();
    let co = coq_obs(&xo);
    let d = |g: &str, ty: &str, src: &str| format!(
        "group={} ty={} src={} xs={:?} ; cells: {}", g, ty, src, xs,
        if g == "boolv" { "vany vall count_valid count_none vfirst vlast" } else { "any all first last count_value(true)" });
    em.case("custom:exact", &tags("boolv", "optbool", "vec"), &d("boolv", "optbool", "vec"),
        || format!("(boolv_ob {})", co), || run(|| imp::boolv(|| xo.clone())));
    em.case("custom:exact", &tags("boolv", "optbool", "titer"), &d("boolv", "optbool", "titer"),
        || format!("(boolv_ob {})", co), || run(|| imp::boolv(|| xo.titer())));
    if nv == len {
        let xb: Vec<bool> = xs.iter().map(|x| x.unwrap()).collect();
        let cb = coq_bs(&xb);
        em.case("custom:exact", &tags("boolv", "bool", "vec"), &d("boolv", "bool", "vec"),
            || format!("(boolv_b {})", cb), || run(|| imp::boolv(|| xb.clone())));
        em.case("custom:exact", &tags("boolv", "bool", "titer"), &d("boolv", "bool", "titer"),
            || format!("(boolv_b {})", cb), || run(|| imp::boolv(|| xb.titer())));
        let o = xb.opt();
        em.case("custom:exact", &tags("boolv", "bool", "opt"), &d("boolv", "bool", "opt"),
            || format!("(boolv_b {})", cb), || run(|| imp::boolv(|| o.titer())));
        em.case("custom:exact", &tags("boolp", "bool", "titer"), &d("boolp", "bool", "titer"),
            || format!("(boolp {})", cb), || run(|| imp::boolp(|| xb.titer())));
        em.case("custom:exact", &tags("boolp", "bool", "vec"), &d("boolp", "bool", "vec"),
            || format!("(boolp {})", cb), || run(|| imp::boolp(|| xb.clone())));
    }
}

/// audit additions: the Number helpers of tea-dtype/src/number.rs, Number::to / fromas, IterBasic::vfold2 / vapply
fn audit_cases(em: &mut Emitter, rng: &mut Rng, thorough: bool) {
    use tevec::prelude::TIter;
    const NUM_LAYOUT: &str = "cells: min_with(a,b) max_with(a,b) floor(a) ceil(a) abs(a); n_add(a,b,n=3) -> value n; n_prod(a,b,n=3) -> value n; \
fold n_add from 0 over xs -> value n; fold n_prod from 1 over xs -> value n; Kahan fold over xs -> sum compensation";
    let neg_nan = f64::from_bits(f64::NAN.to_bits() | (1u64 << 63));
    // ---- f64: every ordered pair of special values, and series on which the compensation matters ----------
    let specials: [f64; 18] = [f64::NAN, neg_nan, f64::INFINITY, f64::NEG_INFINITY, 0.0, -0.0, 1.5, -1.5, 2.0, 0.75, -0.25,
        4503599627370497.0, 2500000000000000.5, -2500000000000000.5, 1e300, -1e300, 5e-324, f64::MAX];
    let series_f: Vec<Vec<f64>> = vec![
        vec![], vec![1.0, 1e-16, 1e-16, 1e-16, 1e-16], vec![1e16, 1.0, -1e16], vec![0.1; 10], vec![1.0, f64::NAN, 2.0],
        vec![f64::NAN], vec![1e308, 1e308, -1e308], vec![3.0, 1e-17, -3.0, 1e-17], vec![0.5, 0.25, 4.0, -2.0],
    ];
    let mut kf = 0usize;
    for a in specials.iter() {
        for b in specials.iter() {
            let xs = &series_f[kf % series_f.len()];
            kf += 1;
            let (a, b) = (*a, *b);
            let tags = format!("fn=number ty=f64 a={} b={} len={}", fclass(a), fclass(b), xs.len());
            let desc = format!("group=number ty=f64 a={:?} b={:?} xs={:?} ; {}", a, b, xs, NUM_LAYOUT);
            em.case("custom:exact", &tags, &desc,
                || pack(format!("(num_f {} {} {})", coq_f64(a), coq_f64(b), coq_f(xs))),
                || run(|| imp::number(0.0f64, 1.0f64, a, b, xs)));
        }
    }
    // random dyadic values and series (sums and products exact or correctly rounded identically in Rust and Coq)
    for i in 0..(if thorough { 1500 } else { 300 }) {
        let a = rng.range(-1600, 1600) as f64 / 8.0;
        let b = if rng.chance(1, 8) { f64::NAN } else { rng.range(-1600, 1600) as f64 / 8.0 };
        let len = rng.range(0, 12) as usize;
        let xs: Vec<f64> = (0..len).map(|_| match i % 3 {
            0 => rng.range(-40, 40) as f64 / 4.0,
            1 => if rng.chance(1, 5) { f64::NAN } else { (rng.range(-2000, 2000) as f64) * 1e-3 },   // decimal fractions: every addition rounds
            _ => (rng.range(1, 9) as f64) * 10f64.powi(rng.range(-18, 18) as i32),                    // wildly different magnitudes
        }).collect();
        let tags = format!("fn=number ty=f64 a={} b={} len={}", fclass(a), fclass(b), xs.len().min(12));
        let desc = format!("group=number ty=f64 a={:?} b={:?} xs={:?} ; {}", a, b, xs, NUM_LAYOUT);
        em.case("custom:exact", &tags, &desc,
            || pack(format!("(num_f {} {} {})", coq_f64(a), coq_f64(b), coq_f(&xs))),
            || run(|| imp::number(0.0f64, 1.0f64, a, b, &xs)));
    }
    // ---- f32: comparisons / rounding to an integer / abs only (values whose f32 and f64 arithmetic coincide) ----
    let sp32: [f32; 12] = [f32::NAN, f32::INFINITY, f32::NEG_INFINITY, 0.0, -0.0, 1.5, -1.5, 2.0, 0.75, -0.25, 8388609.0, -1000000.5];
    for a in sp32.iter() {
        for b in sp32.iter() {
            let (a, b) = (*a, *b);
            // the arithmetic cells (n_add / n_prod of two values) must be exact in f32: skip pairs whose sum or product is not
            let exact = ((a as f64 + b as f64) as f32 as f64 == a as f64 + b as f64 || (a + b).is_nan())
                && ((a as f64 * b as f64) as f32 as f64 == a as f64 * b as f64 || (a * b).is_nan());
            if !exact { continue; }
            let tags = format!("fn=number ty=f32 a={} b={} len=0", fclass(a as f64), fclass(b as f64));
            let desc = format!("group=number ty=f32 a={:?} b={:?} xs=[] ; {}", a, b, NUM_LAYOUT);
            em.case("custom:exact", &tags, &desc,
                || pack(format!("(num_f {} {} [])", coq_f64(a as f64), coq_f64(b as f64))),
                || run(|| imp::number(0.0f32, 1.0f32, a, b, &[])));
        }
    }
    // ---- integers: i32, i64, u64, usize (floor / ceil are the identity, abs of an unsigned is the identity) -------
    for i in 0..(if thorough { 600 } else { 150 }) {
        let a = rng.range(-50, 50);
        let b = rng.range(-50, 50);
        let len = rng.range(0, 7) as usize;
        let xs: Vec<i64> = (0..len).map(|_| rng.range(-6, 6)).collect();
        let cz = coq_zs(&xs);
        let tags = |ty: &str| format!("fn=number ty={} a=int b=int len={}", ty, len);
        let desc = |ty: &str, a: i64, b: i64, xs: &dyn std::fmt::Debug| format!("group=number ty={} a={} b={} xs={:?} ; {}", ty, a, b, xs, NUM_LAYOUT);
        match i % 4 {
            0 => {
                let x32: Vec<i32> = xs.iter().map(|v| *v as i32).collect();
                em.case("custom:exact", &tags("i32"), &desc("i32", a, b, &x32),
                    || pack(format!("(num_z {} {} {})", coq_z(a as i128), coq_z(b as i128), cz)),
                    || run(|| imp::number(0i32, 1i32, a as i32, b as i32, &x32)));
            }
            1 => {
                em.case("custom:exact", &tags("i64"), &desc("i64", a, b, &xs),
                    || pack(format!("(num_z {} {} {})", coq_z(a as i128), coq_z(b as i128), cz)),
                    || run(|| imp::number(0i64, 1i64, a, b, &xs)));
            }
            _ => {
                // unsigned: non-negative values only
                let (ua, ub) = (a.unsigned_abs(), b.unsigned_abs());
                let ux: Vec<u64> = xs.iter().map(|v| v.unsigned_abs()).collect();
                let cu = coq_zs(&ux.iter().map(|v| *v as i64).collect::<Vec<i64>>());
                if i % 4 == 2 {
                    em.case("custom:exact", &tags("u64"), &desc("u64", ua as i64, ub as i64, &ux),
                        || pack(format!("(num_z {} {} {})", ua, ub, cu)),
                        || run(|| imp::number(0u64, 1u64, ua, ub, &ux)));
                } else {
                    let uz: Vec<usize> = ux.iter().map(|v| *v as usize).collect();
                    em.case("custom:exact", &tags("usize"), &desc("usize", ua as i64, ub as i64, &uz),
                        || pack(format!("(num_z {} {} {})", ua, ub, cu)),
                        || run(|| imp::number(0usize, 1usize, ua as usize, ub as usize, &uz)));
                }
            }
        }
    }
    // Number::min_ / max_: the range constants (finite f64::MIN / MAX for floats — NOT the infinities)
    {
        let lit = |lo: String, hi: String| format!("({} ++ {})", lo, hi);
        em.case("custom:exact", "fn=number_range ty=i32", "fn=Number::min_, max_ ty=i32",
            || lit("c_int (-2147483648)".into(), "c_int 2147483647".into()), || run(|| imp::number_range::<i32>()));
        em.case("custom:exact", "fn=number_range ty=i64", "fn=Number::min_, max_ ty=i64",
            || lit("c_int (-9223372036854775808)".into(), "c_int 9223372036854775807".into()), || run(|| imp::number_range::<i64>()));
        em.case("custom:exact", "fn=number_range ty=u64", "fn=Number::min_, max_ ty=u64",
            || lit("c_int 0".into(), "c_int 18446744073709551615".into()), || run(|| imp::number_range::<u64>()));
        em.case("custom:exact", "fn=number_range ty=usize", "fn=Number::min_, max_ ty=usize",
            || lit("c_int 0".into(), "c_int 18446744073709551615".into()), || run(|| imp::number_range::<usize>()));
        em.case("custom:exact", "fn=number_range ty=f64", "fn=Number::min_, max_ ty=f64",
            || lit(format!("c_float {}", coq_f64(f64::MIN)), format!("c_float {}", coq_f64(f64::MAX))), || run(|| imp::number_range::<f64>()));
        em.case("custom:exact", "fn=number_range ty=f32", "fn=Number::min_, max_ ty=f32",
            || lit(format!("c_float {}", coq_f64(f32::MIN as f64)), format!("c_float {}", coq_f64(f32::MAX as f64))), || run(|| imp::number_range::<f32>()));
    }
    // ---- which of two equal extremes is returned: +0 / -0 in every order (C11_perm_extrema_bitwise_refuted) ----------
    for len in 1..=3usize {
        for xs in enumerate(&[0.0f64, -0.0, f64::NAN, 1.0, -1.0], len) {
            em.case("custom:exact", &format!("fn=zero_sign ty=f64 len={}", len),
                &format!("group=zero_sign xs={:?} (bits {:?}) ; cells: sign bit of vmin, of vmax", xs, xs.iter().map(|x| format!("{:016x}", x.to_bits())).collect::<Vec<_>>()),
                || format!("(zero_sign_f {})", coq_f(&xs)), || run(|| imp::zero_signs(&xs)));
        }
    }
    // ---- Number::to / fromas ---------------------------------------------------------------------------------
    const CAST_LAYOUT: &str = "cells: x.to::<i32>() x.to::<i64>() x.to::<usize>() x.to::<f64>() x.to::<f32>() i32::fromas(x) i64::fromas(x) \
k.to::<f64>() k.to::<i32>() k.to::<usize>() f64::fromas(k) f32::fromas(k) k32.to::<i64>() k32.to::<f64>() f64::fromas(k32)";
    let xs_cast: [f64; 16] = [f64::NAN, f64::INFINITY, f64::NEG_INFINITY, 0.0, -0.0, 1.5, -1.5, 2.5, 2147483647.5, -2147483648.5,
        4294967296.0, 9.3e18, -9.3e18, 1e20, 16777217.0, 0.1];
    let ks_cast: [i64; 10] = [0, -1, 7, 2147483647, 2147483648, -2147483649, 4294967298, 9007199254740993, i64::MAX, i64::MIN];
    for (i, x) in xs_cast.iter().enumerate() {
        for (j, k) in ks_cast.iter().enumerate() {
            if !(thorough || (i + j) % 2 == 0) { continue; }
            let (x, k) = (*x, *k);
            em.case("custom:exact", &format!("fn=casts x={} k={}", fclass(x), if k < 0 { "neg" } else if k > i32::MAX as i64 { "wide" } else { "small" }),
                &format!("group=casts x={:?} k={} ; {}", x, k, CAST_LAYOUT),
                || format!("(num_casts {} {})", coq_f64(x), coq_z(k as i128)), || run(|| imp::casts(x, k)));
        }
    }
    // ---- IterBasic::vfold2 / vapply -------------------------------------------------------------------------
    const F2_LAYOUT: &str = "cells: vfold2 with acc -> (count + 1, 3 acc + a - 2 b): count value";
    const VA_LAYOUT: &str = "cells: vapply with state (calls, sum, last): calls sum last";
    let alpha: [Option<i64>; 4] = [Some(-1), Some(0), Some(2), None];
    let mk = |k: &Vec<Option<i64>>| -> (Vec<f64>, Vec<Option<f64>>) {
        (k.iter().map(|v| v.map(|z| z as f64).unwrap_or(f64::NAN)).collect(), k.iter().map(|v| v.map(|z| z as f64)).collect())
    };
    let mut pairs: Vec<(Vec<Option<i64>>, Vec<Option<i64>>)> = vec![];
    for la in 0..=3usize {
        for lb in 0..=3usize {
            if la + lb > 5 { continue; }
            for ka in enumerate(&alpha, la) {
                for kb in enumerate(&alpha, lb) {
                    if la == 3 && lb >= 2 && !rng.chance(1, 4) { continue; }
                    pairs.push((ka.clone(), kb));
                }
            }
        }
    }
    for _ in 0..(if thorough { 400 } else { 80 }) {
        let la = rng.range(0, 14) as usize;
        let lb = (la as i64 + rng.range(-2, 2)).max(0) as usize;
        let g = |rng: &mut Rng, n: usize| -> Vec<Option<i64>> { (0..n).map(|_| if rng.chance(1, 4) { None } else { Some(rng.range(-9, 9)) }).collect() };
        let a = g(rng, la);
        let b = g(rng, lb);
        pairs.push((a, b));
    }
    for (ka, kb) in pairs.iter() {
        let (fa, oa) = mk(ka);
        let (fb, ob) = mk(kb);
        let npair = ka.iter().zip(kb.iter()).filter(|(x, y)| x.is_some() && y.is_some()).count();
        let nt = if ka.is_empty() || kb.is_empty() { " nt=0" } else { "" };
        let tg = |ty: &str| format!("fn=vfold2 ty={} len={} npair={} lens={}{}", ty, ka.len().min(12), npair.min(5),
            if ka.len() == kb.len() { "eq" } else if ka.len() < kb.len() { "first_shorter" } else { "second_shorter" }, nt);
        let ds = |ty: &str| format!("group=vfold2 ty={} xs={:?} ys={:?} ; {}", ty, fa, fb, F2_LAYOUT);
        em.case("custom:exact", &tg("f64,f64"), &ds("f64,f64"),
            || format!("(fold2_ff {} {})", coq_f(&fa), coq_f(&fb)), || run(|| imp::fold2(|| fa.titer(), || fb.titer())));
        em.case("custom:exact", &tg("optf64,optf64"), &ds("optf64,optf64"),
            || format!("(fold2_oo {} {})", coq_of(&oa), coq_of(&ob)), || run(|| imp::fold2(|| oa.clone(), || ob.clone())));
        em.case("custom:exact", &tg("f64,optf64"), &ds("f64,optf64"),
            || format!("(fold2_fo {} {})", coq_f(&fa), coq_of(&ob)), || run(|| imp::fold2(|| fa.clone(), || ob.titer())));
        let nta = if ka.is_empty() { " nt=0" } else { "" };
        let nv = ka.iter().filter(|x| x.is_some()).count();
        em.case("custom:exact", &format!("fn=vapply ty=f64 len={} nv={}{}", ka.len().min(12), nv.min(5), nta),
            &format!("group=vapply ty=f64 xs={:?} ; {}", fa, VA_LAYOUT),
            || format!("(vapply_f {})", coq_f(&fa)), || run(|| imp::vapply(|| fa.titer())));
        em.case("custom:exact", &format!("fn=vapply ty=optf64 len={} nv={}{}", ka.len().min(12), nv.min(5), nta),
            &format!("group=vapply ty=optf64 xs={:?} ; {}", oa, VA_LAYOUT),
            || format!("(vapply_o {})", coq_of(&oa)), || run(|| imp::vapply(|| oa.clone())));
    }
}

/// coarse class of a float for the input histogram
fn fclass(x: f64) -> &'static str {
    if x.is_nan() { "nan" } else if x.is_infinite() { "inf" } else if x == 0.0 { "zero" }
    else if x.fract() == 0.0 { "integral" } else { "fractional" }
}

fn enumerate<X: Clone>(alphabet: &[X], len: usize) -> Vec<Vec<X>> {
    let mut out = vec![];
    let total = alphabet.len().pow(len as u32);
    for code in 0..total {
        let mut c = code;
        let mut xs = Vec::with_capacity(len);
        for _ in 0..len {
            xs.push(alphabet[c % alphabet.len()].clone());
            c /= alphabet.len();
        }
        out.push(xs);
    }
    out
}

/// one-pass population variance exactly as vmean_var / vskew / vkurt / vcorr_pearson compute it (sum, sum of squares, / n, - mean^2);
/// plain f64 arithmetic, no tevec
fn onepass_popvar(xs: &[f64]) -> f64 {
    let (mut m1, mut m2) = (0.0f64, 0.0f64);
    for v in xs {
        m1 += *v;
        m2 += *v * *v;
    }
    let n = xs.len() as f64;
    m1 /= n;
    m2 /= n;
    m2 - m1 * m1
}
fn ulps(x: f64, k: i64) -> f64 { f64::from_bits((x.to_bits() as i64 + k) as u64) }

/// mutation campaign M2 (agg.rs:734 `var_a > EPS` -> `>=` was seen only by the static tie): series whose COMPUTED one-pass
/// population variance is exactly the double 1e-14 (= EPS), one step below and one step above it.  The generated k/4, k/7, k/10
/// values never land on the threshold itself, so `<=` / `<` and `>` / `>=` in the EPS guards of vskew, vkurt and vcorr_pearson were
/// indistinguishable by input.  The last element is found by bisection + a scan of neighbouring doubles; bases come from their
/// own stream of the seed (nothing else is re-sampled).
fn eps_edge_cases(em: &mut Emitter) {
    use tevec::prelude::TIter;
    const EPS: f64 = 1e-14;
    let mut rng = Rng::new(em.args.seed ^ 0x6570_735f_6564_6765);
    for n in 2..=5usize {
        let mut found = 0;
        for _attempt in 0..40 {
            if found >= 2 { break; }
            // n-1 values of magnitude 1e-7 with a mean near 0 (then sum2/n and the result share a binade and the threshold is reachable)
            let mut base: Vec<f64> = (0..n - 1).map(|i| (if i % 2 == 0 { -1.0 } else { 0.5 }) * (rng.range(60, 140) as f64) * 1e-9).collect();
            if n >= 4 && rng.chance(1, 2) { base[1] = 0.0; }
            let var_with = |y: f64| { let mut v = base.clone(); v.push(y); onepass_popvar(&v) };
            let (mut lo, mut hi) = (1e-9f64, 1e-5f64);
            if !(var_with(lo) < EPS && var_with(hi) > EPS) { continue; }
            for _ in 0..200 {
                let mid = (lo + hi) / 2.0;
                if var_with(mid) < EPS { lo = mid } else { hi = mid }
            }
            let hit = (-400..400i64).map(|k| ulps(lo, k)).find(|y| var_with(*y) == EPS);
            let y = match hit { Some(y) => y, None => continue };
            found += 1;
            let below = (1..400i64).map(|k| ulps(y, -k)).find(|y| var_with(*y) < EPS).unwrap();
            let above = (1..400i64).map(|k| ulps(y, k)).find(|y| var_with(*y) > EPS).unwrap();
            for (side, last) in [("at", y), ("below", below), ("above", above)] {
                let mut xf = base.clone();
                xf.push(last);
                let s = Series { k: (0..n as i64).map(Some).collect(), den: 1, tags: format!("style=eps_edge side={} nulls=none", side) };
                let cf = coq_f(&xf);
                let shown = format!("{:?} (bits {:?})", xf, xf.iter().map(|x| format!("{:016x}", x.to_bits())).collect::<Vec<_>>());
                let vals_f = vec![0.0, f64::NAN];
                let vals_f_coq = coq_f(&vals_f);
                // mom (4) + sk (8): vmean_var / vvar / vstd floor, vskew / vkurt `var <= EPS -> 0`
                valid_groups!(em, "f", "f64", "vec", &s, cf, &vals_f, vals_f_coq, shown, || xf.clone(), || xf.clone(), 12);
                valid_groups!(em, "f", "f64", "titer", &s, cf, &vals_f, vals_f_coq, shown, || xf.titer(), || xf.titer(), 12);
                // vcorr_pearson: the edge series as first / second / both operands; the partner has an ordinary spread
                let ramp: Vec<f64> = (0..n).map(|i| (i * i) as f64).collect();
                let cr = coq_f(&ramp);
                let maxmp = n + 1;
                for (which, xa, xb, ca, cb) in [("first", &xf, &ramp, &cf, &cr), ("second", &ramp, &xf, &cr, &cf), ("both", &xf, &xf, &cf, &cf)] {
                    let tags = format!("fn=corr ty=f64,f64 src=titer len={} npair={} lens=eq style=eps_edge side={} edge={}", n, n, side, which);
                    let desc = format!("group=corr ty=f64,f64 src=titer xs={:?} ys={:?} maxmp={} ; cells: for mp in 0..=maxmp: vcorr_pearson ; one-pass popvar of the {} series is {} EPS",
                        xa, xb, maxmp, which, side);
                    em.case("custom:float:1e-7", &tags, &desc,
                        || sweep(maxmp, &format!("corr_ff mp {} {}", ca, cb)), || run(|| imp::corr(|| xa.titer(), || xb.titer(), maxmp)));
                }
            }
        }
    }
}

fn main() {
    let mut em = Emitter::new();
    let mut rng = Rng::new(em.args.seed);
    let thorough = em.thorough();
    let alphabet: [Option<i64>; 4] = [Some(-1), Some(0), Some(2), None];

    // ---- single series: exhaustive small scope -----------------------------------------------
    let exh_len = if thorough { 6 } else { 5 };
    for len in 0..=exh_len {
        for k in enumerate(&alphabet, len) {
            let s = Series { k, den: 1, tags: "style=exhaustive nulls=enum".into() };
            // all sources up to length 4; beyond that the primary ones + a random half of the others
            single_series(&mut em, &mut rng, &s, len <= 3);
            if len >= 2 && len <= 4 {
                permuted(&mut em, &mut rng, &s, &[0, 1]);
            }
        }
    }
    // dyadic alphabet (quarters), exhaustive to length 3 (thorough 4): exercises the f64-only paths
    let alphabet_q: [Option<i64>; 4] = [Some(-3), Some(1), Some(10), None];
    for len in 1..=(if thorough { 4 } else { 3 }) {
        for k in enumerate(&alphabet_q, len) {
            let s = Series { k, den: 4, tags: "style=exhaustive_quarters nulls=enum".into() };
            single_series(&mut em, &mut rng, &s, false);
        }
    }
    // ---- hostile values for the exact (order / count / position) groups ---------------------------
    // +-inf, the largest finite magnitudes, signed zeros, both signs of NaN: nothing is computed with them except
    // comparisons (and one running sum, which the float model mirrors operation by operation), so the comparison
    // with the model stays exact.  A fold seeded with T::MIN / T::MAX instead of the first valid element, or a
    // comparison that is not null-last for a NaN with the sign bit set, shows up only here.
    {
        use tevec::prelude::{TIter, Vec1View};
        let neg_nan = f64::from_bits(f64::NAN.to_bits() | (1u64 << 63));
        let hostile: [f64; 8] = [f64::NEG_INFINITY, f64::INFINITY, f64::MAX, f64::MIN, 1.5, -0.0, f64::NAN, neg_nan];
        let hl = if thorough { 4 } else { 3 };
        for len in 1..=hl {
            for xf in enumerate(&hostile, len) {
                // (the thorough tier samples a quarter of the 4096 series of length 4)
                if len == 4 && !rng.chance(1, 4) { continue; }
                let cf = coq_f(&xf);
                let shown = format!("{:?} (bits {:?})", xf, xf.iter().map(|x| format!("{:016x}", x.to_bits())).collect::<Vec<_>>());
                let nv = xf.iter().filter(|x| !x.is_nan()).count();
                let vals_f = vec![0.0, f64::INFINITY, f64::NEG_INFINITY, f64::NAN];
                let vals_f_coq = coq_f(&vals_f);
                let tg = |g: &str, ty: &str, src: &str| format!("fn={} ty={} src={} len={} nv={} style=hostile", g, ty, src, len, nv);
                let ds = |g: &str, ty: &str, src: &str, layout: &str| format!("group={} ty={} src={} xs={} vals={} ; {}", g, ty, src, shown, vals_f_coq, layout);
                em.case("custom:exact", &tg("sym", "f64", "vec"), &ds("sym", "f64", "vec", SYM_LAYOUT),
                    || pack(format!("(sym_f {} {})", vals_f_coq, cf)), || run(|| imp::sym(|| xf.clone(), &vals_f)));
                em.case("custom:exact", &tg("pos", "f64", "titer"), &ds("pos", "f64", "titer", POS_LAYOUT),
                    || pack(format!("(pos_f {})", cf)), || run(|| imp::pos(|| xf.titer(), || xf.titer())));
                // the mean family on the same values: an infinity FOLLOWED by further valid elements must stay that infinity
                // (seed C11-6: a compensated sum turns inf into NaN at the next element); the float model mirrors every operation
                {
                    let maxmp = len + 1;
                    em.case("custom:float:1e-9", &tg("mom", "f64", "vec"), &ds("mom", "f64", "vec", MOM_LAYOUT),
                        || sweep(maxmp, &format!("mom_f mp {}", cf)), || run(|| imp::mom(|| xf.clone(), maxmp)));
                }
                // the option view and the Option<f64> encoding of the same logical series
                let o = xf.opt();
                let vals_o: Vec<Option<f64>> = vals_f.iter().map(|x| if x.is_nan() { None } else { Some(*x) }).collect();
                em.case("custom:exact", &tg("sym", "f64", "opt"), &ds("sym", "f64", "opt", SYM_LAYOUT),
                    || pack(format!("(sym_f {} {})", vals_f_coq, cf)), || run(|| imp::sym(|| &o, &vals_o)));
                let xo: Vec<Option<f64>> = xf.iter().map(|x| if x.is_nan() { None } else { Some(*x) }).collect();
                let co = coq_of(&xo);
                let vals_o_coq = coq_of(&vals_o);
                em.case("custom:exact", &tg("sym", "optf64", "vec"), &ds("sym", "optf64", "vec", SYM_LAYOUT),
                    || pack(format!("(sym_o {} {})", vals_o_coq, co)), || run(|| imp::sym(|| xo.clone(), &vals_o)));
                em.case("custom:exact", &tg("pos", "optf64", "titer"), &ds("pos", "optf64", "titer", POS_LAYOUT),
                    || pack(format!("(pos_o {})", co)), || run(|| imp::pos(|| xo.titer(), || xo.titer())));
                if len <= 2 || rng.chance(1, 4) {
                    let x32: Vec<f32> = xf.iter().map(|x| if *x == f64::MAX { f32::MAX } else if *x == f64::MIN { f32::MIN } else { *x as f32 }).collect();
                    let c32 = coq_f(&x32.iter().map(|x| *x as f64).collect::<Vec<f64>>());
                    em.case("custom:exact", &tg("pos", "f32", "titer"), &ds("pos", "f32", "titer", POS_LAYOUT),
                        || pack(format!("(pos_f {})", c32)), || run(|| imp::pos(|| x32.titer(), || x32.titer())));
                }
            }
        }
    }
    // ---- 64-bit integers above 2^53 (neighbouring values are indistinguishable as f64): the exact groups (counts, sum,
    // extrema, positions) must be computed in the element type, never after a lossy widening to f64
    {
        let p53: i64 = 1 << 53;
        let wide: [Option<i64>; 5] = [Some(p53), Some(p53 + 1), Some(p53 + 2), Some(-p53 - 1), Some(p53 + 1)];
        for len in 1..=3usize {
            for k in enumerate(&wide, len) {
                if len == 3 && !rng.chance(1, 2) { continue; }
                let s = Series { k, den: 1, tags: "style=wide_i64 nulls=none".into() };
                let xi64 = s.i64s();
                let cz = coq_zs(&xi64);
                let shown = format!("{:?}", xi64);
                let vals_z64: Vec<i64> = vec![p53, p53 + 1, xi64[0]];
                let vals_z_coq = coq_zs(&vals_z64);
                valid_groups!(em, "z", "i64", "vec", &s, cz, &vals_z64, vals_z_coq, shown, || xi64.clone(), || xi64.clone(), 3);
                let xo: Vec<Option<i64>> = xi64.iter().map(|x| Some(*x)).collect();
                let vo: Vec<Option<i64>> = vals_z64.iter().map(|x| Some(*x)).collect();
                let coz = coq_ozs(&xo);
                let vo_coq = coq_ozs(&vo);
                valid_groups!(em, "oz", "opti64", "vec", &s, coz, &vo, vo_coq, shown, || xo.clone(), || xo.clone(), 3);
            }
        }
    }
    // ---- large-magnitude integers: every element and the plain sum fit the element type (i32), the sum of SQUARES
    // does not — the library accumulates moments in f64, so nothing may overflow; an accumulation moved into the element
    // type (a "save a cast per element" refactoring) is visible only here
    {
        let big: [Option<i64>; 6] = [Some(46341), Some(50000), Some(-70000), Some(1000003), Some(65536), None];
        for len in 1..=(if thorough { 4 } else { 3 }) {
            for k in enumerate(&big, len) {
                if len == 3 && !rng.chance(1, 3) { continue; }
                if len == 4 && !rng.chance(1, 12) { continue; }
                let s = Series { k, den: 1, tags: "style=big_int nulls=enum".into() };
                single_series(&mut em, &mut rng, &s, false);
            }
        }
    }
    // ---- single series: structured random ------------------------------------------------------
    let nrand = if thorough { 2000 } else { 300 };
    let mut randoms: Vec<Series> = vec![];
    for i in 0..nrand {
        let len = match i % 4 { 0 => rng.range(1, 6), 1 => rng.range(4, 12), _ => rng.range(6, 40) } as usize;
        let s = gen_series(&mut rng, len);
        single_series(&mut em, &mut rng, &s, false);
        permuted(&mut em, &mut rng, &s, &[0, 2, 2]);
        randoms.push(s);
    }

    // ---- two series ----------------------------------------------------------------------------
    let pair_len = 3;
    for len in 0..=pair_len {
        let second: Vec<Vec<Option<i64>>> =
            if len <= (if thorough { 3 } else { 2 }) { enumerate(&alphabet, len) } else { enumerate(&[Some(0), Some(2), None], len) };
        for ka in enumerate(&alphabet, len) {
            for kb in second.iter() {
                let a = Series { k: ka.clone(), den: 1, tags: String::new() };
                let b = Series { k: kb.clone(), den: 1, tags: String::new() };
                two_series(&mut em, &mut rng, &a, &b, len <= 2, "style=exhaustive");
            }
        }
    }
    for (i, a) in randoms.iter().enumerate() {
        // second series: independent / same nulls / affine image (|corr| = 1) / constant (zero spread) / unequal length
        let how = i % 6;
        let b = match how {
            0 | 1 => { let mut b = gen_series(&mut rng, a.len()); b.den = a.den; b }
            2 => Series { k: a.k.iter().map(|x| x.map(|k| 3 * k + 5)).collect(), den: a.den, tags: String::new() },
            3 => Series { k: a.k.iter().map(|x| x.map(|k| -2 * k + 1)).collect(), den: a.den, tags: String::new() },
            4 => { let mut b = gen_series(&mut rng, a.len()); b.den = a.den;
                   let c = rng.range(-5, 5); b.k.iter_mut().for_each(|x| if x.is_some() { *x = Some(c) }); b }
            _ => { let l = (a.len() as i64 + rng.range(-3, 3)).max(0) as usize; let mut b = gen_series(&mut rng, l); b.den = a.den; b }
        };
        let hows = ["independent", "independent", "affine_pos", "affine_neg", "second_constant", "unequal_len"];
        two_series(&mut em, &mut rng, a, &b, false, &format!("style=random second={}", hows[how]));
    }
    // non-dyadic values (k/7, k/10): a constant series then has a tiny non-zero variance (rounding residue of sum2/n - mean^2)
    // instead of an exact 0, and only the EPS guards keep the correlation null (seed C04-5: one guard on the product)
    for (i, a0) in randoms.iter().enumerate().take(if thorough { 240 } else { 60 }) {
        let den = [7i64, 10, 7][i % 3];
        let a = Series { k: a0.k.clone(), den, tags: String::new() };
        let mut b = gen_series(&mut rng, a.len());
        b.den = den;
        let how = i % 3;
        if how != 2 {
            let c = rng.range(-9, 9);
            b.k.iter_mut().for_each(|x| if x.is_some() { *x = Some(c) });
        }
        let (a, b) = if how == 1 { (b, a) } else { (a, b) };
        two_series(&mut em, &mut rng, &a, &b, false, &format!("style=nondyadic second={}", ["second_constant", "first_constant", "independent"][how]));
    }
    // unequal lengths, small
    for (la, lb) in [(0usize, 2usize), (2, 0), (2, 3), (3, 2), (1, 4), (4, 1)] {
        for _ in 0..(if thorough { 40 } else { 8 }) {
            let mut a = gen_series(&mut rng, la); a.den = 1;
            let mut b = gen_series(&mut rng, lb); b.den = 1;
            two_series(&mut em, &mut rng, &a, &b, true, "style=random second=unequal_len");
        }
    }

    // ---- masked sum / mean ---------------------------------------------------------------------------
    let mask_alpha = [Some(true), Some(false), None];
    let mask_len = if thorough { 4 } else { 3 };
    for len in 0..=mask_len {
        let data_alpha: Vec<Option<i64>> = if len <= 3 { alphabet.to_vec() } else { vec![Some(-1), Some(2), None] };
        for k in enumerate(&data_alpha, len) {
            let s = Series { k, den: 1, tags: "style=exhaustive".into() };
            for m in enumerate(&mask_alpha, len) {
                masked(&mut em, &mut rng, &s, &m, len <= 2);
            }
        }
    }
    for (i, s) in randoms.iter().enumerate() {
        let ml = if i % 5 == 4 { (s.len() as i64 + rng.range(-2, 2)).max(0) as usize } else { s.len() };
        let pnull = [0u64, 0, 1, 3][i % 4];
        let m: Vec<Option<bool>> = (0..ml).map(|_| if rng.chance(pnull, 10) { None } else { Some(rng.chance(1, 2)) }).collect();
        masked(&mut em, &mut rng, s, &m, false);
    }

    // ---- booleans --------------------------------------------------------------------------------------
    let bool_len = if thorough { 7 } else { 5 };
    for len in 0..=bool_len {
        for xs in enumerate(&[Some(true), Some(false), None], len) {
            bools(&mut em, &xs);
        }
    }
    for _ in 0..(if thorough { 200 } else { 40 }) {
        let len = rng.range(6, 30) as usize;
        let p = rng.range(0, 10) as u64;
        let q = rng.range(0, 4) as u64;
        let xs: Vec<Option<bool>> = (0..len).map(|_| if rng.chance(q, 10) { None } else { Some(rng.chance(p, 10)) }).collect();
        bools(&mut em, &xs);
    }
    // ---- audit additions: Number helpers, casts, vfold2 / vapply ---------------------------------------------
    audit_cases(&mut em, &mut rng, thorough);
    // ---- mutation campaign M2: inputs ON the EPS threshold of the variance guards ---------------------------------------
    eps_edge_cases(&mut em);
    em.finish();
}
