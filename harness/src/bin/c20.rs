//! C20: composite analytics of the `tevec` crate vs the model of Model/Composite.v.
//!   winsorize   MapValidFinal::winsorize(method, param)            3 methods x parameter grid
//!   spearman    AggValidFinal::vcorr(.., Spearman)                 vs model, vs the library's own
//!               vrank + vcorr_pearson, and on strictly increasing transforms of either series
//!   half_life   AggValidFinal::half_life(min_periods)              vs the executable model and vs a
//!               plain re-run of the search over the library's own vcorr_pearson(vshift(lag))
//!   autocorr    the oracle itself: vcorr_pearson(vshift(lag)) for lags 1..=k
//!   vcorr_pearson_arm  AggValidFinal::vcorr(.., Pearson) (agg.rs:44) vs the model and vs a direct vcorr_pearson call with
//!               the default min_periods = len / 2 of the FIRST series (audit addition, own random stream)
//! Element types f64 (NaN null), Option<f64>, i32; backends Vec, VecDeque (wrapped ring), ndarray.
//! Generator / rendering code never sees the tevec prelude; all calls into tevec live in `mod imp`.
use std::collections::VecDeque;

use tevec::export::ndarray::Array1;
use vh::*;

mod imp {
    use std::panic::AssertUnwindSafe;

    use tevec::prelude::{
        AggValidBasic, AggValidFinal, Cast, CorrMethod, IsNone, MapValidBasic, MapValidFinal, MapValidVec,
        Number, TIter, Vec1View, WinsorizeMethod,
    };
    use vh::{guarded, Cell};

    /// Ok(Some((announced length, items))) | Ok(None) = Err(..) | Err(kind) = panic
    pub fn wins<T, V>(v: &V, m: usize, p: Option<f64>) -> Result<Option<(usize, Vec<f64>)>, u8>
    where
        V: Vec1View<T>,
        T: IsNone + Cast<f64>,
        T::Inner: Number,
    {
        let meth = [WinsorizeMethod::Quantile, WinsorizeMethod::Median, WinsorizeMethod::Sigma][m];
        guarded(AssertUnwindSafe(|| match v.winsorize(meth, p) {
            Ok(it) => {
                let hint = Iterator::size_hint(&it).0;
                let out: Vec<f64> = Iterator::collect(it);
                Some((hint, out))
            }
            Err(_) => None,
        }))
    }

    pub fn cell_f(c: f64) -> Cell { Cell::F(c) }
    pub fn cell_o(c: Option<f64>) -> Cell { match c { Some(x) if x.is_nan() => Cell::Err, Some(x) => Cell::F(x), None => Cell::Null } }   // Some(NaN) is not a null (DESIGN 5.4)

    macro_rules! per_type {
        ($T:ty, $spear:ident, $hl:ident, $ac:ident, $tocell:ident) => {
            /// [vcorr(.., Spearman), Pearson of the library's own average ranks]
            pub fn $spear<V: Vec1View<$T>>(a: &V, b: &V, mp: Option<usize>) -> Vec<Cell> {
                let r = guarded(AssertUnwindSafe(|| {
                    let c = a.vcorr(b, mp, CorrMethod::Spearman);
                    let r1: Vec<f64> = a.vrank(false, false);
                    let r2: Vec<f64> = b.vrank(false, false);
                    let mpe = mp.unwrap_or(a.len() / 2);
                    let d: f64 = r1.titer().vcorr_pearson(r2.titer(), mpe);
                    (c, d)
                }));
                match r {
                    Ok((c, d)) => vec![$tocell(c), Cell::F(d)],
                    Err(k) => vec![Cell::Panic(k)],
                }
            }
            pub fn $hl<V: Vec1View<$T>>(v: &V, mp: Option<usize>) -> Result<usize, u8> {
                guarded(AssertUnwindSafe(|| v.half_life(mp)))
            }
            /// the autocorrelation the search looks at
            pub fn $ac<V: Vec1View<$T>>(v: &V, mp: usize, lag: usize) -> Result<f64, u8> {
                guarded(AssertUnwindSafe(|| {
                    let c: f64 = v.titer().vcorr_pearson(v.titer().vshift(lag as i32, None), mp);
                    c
                }))
            }
        };
    }
    per_type!(f64, spear_f, hl_f, ac_f, cell_f);
    per_type!(Option<f64>, spear_o, hl_o, ac_o, cell_o);
    per_type!(i32, spear_i, hl_i, ac_i, cell_f);

    macro_rules! pearson_arm {
        ($T:ty, $pear:ident, $tocell:ident) => {
            /// [vcorr(.., Pearson) (agg.rs:44), vcorr_pearson called directly with the default min_periods = len / 2 of the FIRST series]
            pub fn $pear<V: Vec1View<$T>>(a: &V, b: &V, mp: Option<usize>) -> Vec<Cell> {
                let r = guarded(AssertUnwindSafe(|| {
                    let c = a.vcorr(b, mp, CorrMethod::Pearson);
                    let mpe = mp.unwrap_or(a.len() / 2);
                    let d: f64 = a.titer().vcorr_pearson(b.titer(), mpe);
                    (c, d)
                }));
                match r {
                    Ok((c, d)) => vec![$tocell(c), Cell::F(d)],
                    Err(k) => vec![Cell::Panic(k)],
                }
            }
        };
    }
    pearson_arm!(f64, pear_f, cell_f);
    pearson_arm!(Option<f64>, pear_o, cell_o);
    pearson_arm!(i32, pear_i, cell_f);
}

// ---- series -------------------------------------------------------------------------------------
#[derive(Clone)]
struct Series {
    xs: Vec<Option<f64>>,
    tags: String,
}
impl Series {
    fn f(&self) -> Vec<f64> { self.xs.iter().enumerate().map(|(i, x)| x.unwrap_or(vh::nan_at(i))).collect() }
    fn o(&self) -> Vec<Option<f64>> { self.xs.clone() }
    fn i(&self) -> Vec<i32> { self.xs.iter().map(|x| x.unwrap() as i32).collect() }
    fn integral(&self) -> bool { self.xs.iter().all(|x| x.map_or(true, |v| v.fract() == 0.0 && v.abs() < 1e9)) }
    fn nonull(&self) -> bool { self.xs.iter().all(|x| x.is_some()) }
    fn nvalid(&self) -> usize { self.xs.iter().filter(|x| x.is_some()).count() }
    fn map(&self, g: impl Fn(f64) -> f64) -> Series {
        Series { xs: self.xs.iter().map(|x| x.map(&g)).collect(), tags: self.tags.clone() }
    }
}

#[derive(Clone, Copy, PartialEq, Debug)]
enum Ty { F, O, I }
impl Ty {
    fn name(self) -> &'static str { match self { Ty::F => "f64", Ty::O => "optf64", Ty::I => "i32" } }
    fn sfx(self) -> &'static str { match self { Ty::F => "f", Ty::O => "o", Ty::I => "n" } }
    fn nbe(self) -> usize { match self { Ty::F => 3, Ty::O => 2, Ty::I => 2 } }
}
fn be_name(ty: Ty, be: usize) -> &'static str {
    match (ty, be) { (_, 0) => "vec", (_, 1) => "deque", _ => "nd" }
}

fn rot_deque<T: Clone + Default>(xs: &[T], rot: usize) -> VecDeque<T> {
    let mut d: VecDeque<T> = VecDeque::with_capacity(xs.len().max(1));
    for _ in 0..rot { d.push_back(T::default()) }
    for _ in 0..rot { d.pop_front(); }
    for x in xs { d.push_back(x.clone()) }
    d
}

fn coq_series(s: &Series, ty: Ty) -> String {
    match ty {
        Ty::F | Ty::I => coq_list(&s.f(), |x| coq_f64(*x)),
        Ty::O => coq_list(&s.xs, |x| coq_opt(x, |v| coq_f64(*v))),
    }
}
fn coq_mp(mp: Option<usize>) -> String { coq_opt(&mp, |m| coq_nat(*m)) }

fn types_of(s: &Series) -> Vec<Ty> {
    let mut t = vec![Ty::F, Ty::O];
    if s.integral() && s.nonull() { t.push(Ty::I) }
    t
}

// ---- running the implementation -------------------------------------------------------------------
fn run_wins(ty: Ty, be: usize, s: &Series, m: usize, p: Option<f64>) -> Vec<Cell> {
    let r = match (ty, be) {
        (Ty::F, 0) => imp::wins(&s.f(), m, p),
        (Ty::F, 1) => imp::wins(&rot_deque(&s.f(), 2), m, p),
        (Ty::F, _) => { let r = Array1::from_vec(s.f().into_iter().rev().collect::<Vec<f64>>()); imp::wins(&r.slice(tevec::export::ndarray::s![..;-1]), m, p) }   // reversed contiguous view (stride -1)
        (Ty::O, 0) => imp::wins(&s.o(), m, p),
        (Ty::O, _) => imp::wins(&rot_deque(&s.o(), 1), m, p),
        (Ty::I, 0) => imp::wins(&s.i(), m, p),
        (Ty::I, _) => imp::wins(&rot_deque(&s.i(), 3), m, p),
    };
    match r {
        Ok(Some((hint, out))) => {
            let mut c = vec![Cell::Int(hint as i128)];
            c.extend(cells_f64(&out));
            c.push(Cell::Sep);
            c.extend(cells_f64(&s.f()));
            c
        }
        Ok(None) => vec![Cell::Err],
        Err(k) => vec![Cell::Panic(k)],
    }
}

fn run_spear(ty: Ty, be: usize, a: &Series, b: &Series, mp: Option<usize>) -> Vec<Cell> {
    match (ty, be) {
        (Ty::F, 0) => imp::spear_f(&a.f(), &b.f(), mp),
        (Ty::F, 1) => imp::spear_f(&rot_deque(&a.f(), 2), &rot_deque(&b.f(), 1), mp),
        (Ty::F, _) => { let ra = Array1::from_vec(a.f().into_iter().rev().collect::<Vec<f64>>()); let rb = Array1::from_vec(b.f().into_iter().rev().collect::<Vec<f64>>()); imp::spear_f(&ra.slice(tevec::export::ndarray::s![..;-1]), &rb.slice(tevec::export::ndarray::s![..;-1]), mp) }
        (Ty::O, 0) => imp::spear_o(&a.o(), &b.o(), mp),
        (Ty::O, _) => imp::spear_o(&rot_deque(&a.o(), 1), &rot_deque(&b.o(), 2), mp),
        (Ty::I, 0) => imp::spear_i(&a.i(), &b.i(), mp),
        (Ty::I, _) => imp::spear_i(&rot_deque(&a.i(), 3), &rot_deque(&b.i(), 1), mp),
    }
}

fn run_pear(ty: Ty, be: usize, a: &Series, b: &Series, mp: Option<usize>) -> Vec<Cell> {
    match (ty, be) {
        (Ty::F, 0) => imp::pear_f(&a.f(), &b.f(), mp),
        (Ty::F, 1) => imp::pear_f(&rot_deque(&a.f(), 2), &rot_deque(&b.f(), 1), mp),
        (Ty::F, _) => { let ra = Array1::from_vec(a.f().into_iter().rev().collect::<Vec<f64>>()); let rb = Array1::from_vec(b.f().into_iter().rev().collect::<Vec<f64>>()); imp::pear_f(&ra.slice(tevec::export::ndarray::s![..;-1]), &rb.slice(tevec::export::ndarray::s![..;-1]), mp) }
        (Ty::O, 0) => imp::pear_o(&a.o(), &b.o(), mp),
        (Ty::O, _) => imp::pear_o(&rot_deque(&a.o(), 1), &rot_deque(&b.o(), 2), mp),
        (Ty::I, 0) => imp::pear_i(&a.i(), &b.i(), mp),
        (Ty::I, _) => imp::pear_i(&rot_deque(&a.i(), 3), &rot_deque(&b.i(), 1), mp),
    }
}

fn run_hl(ty: Ty, be: usize, s: &Series, mp: Option<usize>) -> Result<usize, u8> {
    match (ty, be) {
        (Ty::F, 0) => imp::hl_f(&s.f(), mp),
        (Ty::F, 1) => imp::hl_f(&rot_deque(&s.f(), 2), mp),
        (Ty::F, _) => { let r = Array1::from_vec(s.f().into_iter().rev().collect::<Vec<f64>>()); imp::hl_f(&r.slice(tevec::export::ndarray::s![..;-1]), mp) }
        (Ty::O, 0) => imp::hl_o(&s.o(), mp),
        (Ty::O, _) => imp::hl_o(&rot_deque(&s.o(), 1), mp),
        (Ty::I, 0) => imp::hl_i(&s.i(), mp),
        (Ty::I, _) => imp::hl_i(&rot_deque(&s.i(), 3), mp),
    }
}
fn run_ac(ty: Ty, s: &Series, mp: usize, lag: usize) -> Result<f64, u8> {
    match ty {
        Ty::F => imp::ac_f(&s.f(), mp, lag),
        Ty::O => imp::ac_o(&s.o(), mp, lag),
        Ty::I => imp::ac_i(&s.i(), mp, lag),
    }
}

/// the search of half_life re-run in plain Rust over an oracle; also classifies the branches taken
struct Sim { result: usize, dbl: usize, mid_above: usize, mid_below: usize, edge: bool, broke: bool, exact_half: bool }
fn simulate(len: usize, corr: &mut dyn FnMut(usize) -> f64) -> Sim {
    let mut s = Sim { result: 0, dbl: 0, mid_above: 0, mid_below: 0, edge: false, broke: false, exact_half: false };
    if len == 0 { return s }
    let (mut n, mut last_n, mut i) = (0usize, 0usize, 0u32);
    while n < len {
        n = 1usize << i;
        let c = corr(n);
        if c != 0.5 && (c - 0.5).abs() < 1e-9 { s.edge = true }
        if c == 0.5 { s.exact_half = true }
        if c <= 0.5 || c.is_nan() { s.broke = true; break } else { last_n = n }
        i += 1;
        s.dbl += 1;
    }
    n = n.min(len - 1);
    let mut guard = 0;
    while n > last_n && n - last_n > 1 && guard < 200 {
        guard += 1;
        let life = (n + last_n) / 2;
        let c = corr(life);
        if c != 0.5 && (c - 0.5).abs() < 1e-9 { s.edge = true }
        if c == 0.5 { s.exact_half = true }
        if c <= 0.5 || c.is_nan() { n = life; s.mid_below += 1 } else { last_n = life; s.mid_above += 1 }
    }
    s.result = n;
    s
}

// ---- generators ---------------------------------------------------------------------------------------
const STYLES: [&str; 8] = ["constant", "monotone", "alternating", "ties", "outliers", "uniform", "walk", "monodown"];

fn gen_values(rng: &mut Rng, style: &str, len: usize, integral: bool) -> Vec<f64> {
    let sc = if integral { 1.0 } else { 0.25 };
    let mut v = Vec::with_capacity(len);
    let c = rng.range(-8, 8);
    let (a, b) = (rng.range(-20, 20), rng.range(-20, 20));
    let mut cur = rng.range(-40, 40);
    for i in 0..len {
        let k = match style {
            "constant" => c,
            "monotone" => { cur += rng.range(0, 3); cur }
            "monodown" => { cur -= rng.range(1, 3); cur }
            "alternating" => if i % 2 == 0 { a } else { b },
            "ties" => *rng.pick(&[-4i64, 2, 8]),
            "outliers" => if rng.chance(1, 8) { rng.range(200, 400) * if rng.chance(1, 2) { 1 } else { -1 } } else { rng.range(-8, 8) },
            "uniform" => rng.range(-400, 400),
            _ => { cur += rng.range(-20, 20); cur }
        };
        v.push(k as f64 * sc);
    }
    v
}

fn with_nulls(rng: &mut Rng, vals: Vec<f64>, pat: &str) -> Vec<Option<f64>> {
    let mask = null_mask(rng, pat, vals.len());
    vals.iter().zip(mask.iter()).map(|(v, m)| if *m { None } else { Some(*v) }).collect()
}

fn gen_series(rng: &mut Rng, len: usize) -> Series {
    let style = *rng.pick(&STYLES);
    let pat = if rng.chance(1, 3) { "none" } else { *rng.pick(&NULL_PATTERNS) };
    let integral = rng.chance(1, 2);
    let vals = gen_values(rng, style, len, integral);
    Series { xs: with_nulls(rng, vals, pat), tags: format!("style={} nulls={}", style, pat) }
}

/// AR(1) path x_t = phi x_{t-1} + e_t with dyadic innovations, rounded to multiples of 1/64
fn gen_ar1(rng: &mut Rng, len: usize, phi: f64) -> Vec<f64> {
    let mut v = Vec::with_capacity(len);
    let mut x = rng.range(-16, 16) as f64 / 4.0;
    for _ in 0..len {
        let e = rng.range(-8, 8) as f64 / 4.0;
        x = ((phi * x + e) * 64.0).round() / 64.0;
        v.push(x);
    }
    v
}

fn all_series(alphabet: &[Option<f64>], len: usize) -> Vec<Vec<Option<f64>>> {
    let k = alphabet.len();
    let total = k.pow(len as u32);
    (0..total).map(|code| { let mut c = code; (0..len).map(|_| { let x = alphabet[c % k]; c /= k; x }).collect() }).collect()
}

const QS: [f64; 5] = [0.0, 0.01, 0.1, 0.25, 0.5];
const KS: [f64; 5] = [0.0, 0.5, 1.0, 2.0, 3.0];
const MNAME: [&str; 3] = ["quantile", "median", "sigma"];

fn emit_wins(em: &mut Emitter, s: &Series, ty: Ty, be: usize, m: usize, p: Option<f64>, scope_in: bool) {
    let len = s.xs.len();
    let n = s.nvalid();
    let ptag = match p { None => "default".to_string(), Some(x) => format!("{}", x) };
    let tags = format!("fn=winsorize method={} p={} ty={} be={} len={} nvalid={} scope={} {}{}", MNAME[m], ptag, ty.name(),
        be_name(ty, be), len.min(41), n.min(9), if scope_in { "in" } else { "out" }, s.tags, if len == 0 { " nt=0" } else { "" });
    let desc = format!("fn=winsorize ty={} be={} method={} param={:?} xs={:?}", ty.name(), be_name(ty, be), MNAME[m], p, s.xs);
    em.case(if scope_in { "custom:wins" } else { "float:1e-9" }, &tags, &desc,
        || format!("(run_wins_{} {} {} {})", ty.sfx(), m, coq_opt(&p, |x| coq_f64(*x)), coq_series(s, ty)),
        || run_wins(ty, be, s, m, p));
}

fn emit_spear(em: &mut Emitter, a: &Series, b: &Series, ty: Ty, be: usize, mp: Option<usize>, extra: &str) {
    let len = a.xs.len();
    let npair = a.xs.iter().zip(b.xs.iter()).filter(|(x, y)| x.is_some() && y.is_some()).count();
    let nulls_differ = a.xs.iter().zip(b.xs.iter()).any(|(x, y)| x.is_some() != y.is_some());
    let tags = format!("fn=spearman ty={} be={} len={} lens={} npair={} nulls_differ={} mp={} {} {}{}", ty.name(), be_name(ty, be),
        len.min(41), if a.xs.len() == b.xs.len() { "eq" } else { "ne" }, npair.min(9), nulls_differ as u8,
        match mp { None => "default".into(), Some(m) => format!("{}", m.min(9)) }, a.tags, extra, if len == 0 { " nt=0" } else { "" });
    let desc = format!("fn=vcorr(Spearman) ty={} be={} mp={:?} xs={:?} ys={:?}", ty.name(), be_name(ty, be), mp, a.xs, b.xs);
    em.case("custom:same:1e-7", &tags, &desc,
        || format!("(rep_cells 2%nat (run_corr_{} {} true {} {}))", ty.sfx(), coq_mp(mp), coq_series(a, ty), coq_series(b, ty)),
        || run_spear(ty, be, a, b, mp));
}

/// the Pearson arm of vcorr (agg.rs:44): the model term is the same interpreter with spearman = false
fn emit_pear(em: &mut Emitter, a: &Series, b: &Series, ty: Ty, be: usize, mp: Option<usize>, extra: &str) {
    let len = a.xs.len();
    let npair = a.xs.iter().zip(b.xs.iter()).filter(|(x, y)| x.is_some() && y.is_some()).count();
    let tags = format!("fn=vcorr_pearson_arm ty={} be={} len={} lens={} npair={} mp={} {} {}{}", ty.name(), be_name(ty, be),
        len.min(41), if a.xs.len() == b.xs.len() { "eq" } else if a.xs.len() < b.xs.len() { "first_shorter" } else { "first_longer" }, npair.min(9),
        match mp { None => "default".into(), Some(m) => format!("{}", m.min(9)) }, a.tags, extra, if len == 0 { " nt=0" } else { "" });
    let desc = format!("fn=vcorr(Pearson) ty={} be={} mp={:?} xs={:?} ys={:?}", ty.name(), be_name(ty, be), mp, a.xs, b.xs);
    em.case("custom:same:1e-7", &tags, &desc,
        || format!("(rep_cells 2%nat (run_corr_{} {} false {} {}))", ty.sfx(), coq_mp(mp), coq_series(a, ty), coq_series(b, ty)),
        || run_pear(ty, be, a, b, mp));
}

/// strictly increasing maps applied to the implementation's input only
fn emit_invariance(em: &mut Emitter, a: &Series, b: &Series, ty: Ty, mp: Option<usize>) {
    let tags = format!("fn=spearman_invariance ty={} len={} {}", ty.name(), a.xs.len().min(41), a.tags);
    let desc = format!("fn=vcorr(Spearman) invariance under x->3x+1, x->x^3, y->exp(y/8), both; ty={} mp={:?} xs={:?} ys={:?}",
        ty.name(), mp, a.xs, b.xs);
    let fa = a.map(|x| 3.0 * x + 1.0);
    let ca = a.map(|x| x * x * x);
    let eb = b.map(|y| (y / 8.0).exp());
    em.case("custom:same:1e-7", &tags, &desc,
        || format!("(rep_cells 10%nat (run_corr_{} {} true {} {}))", ty.sfx(), coq_mp(mp), coq_series(a, ty), coq_series(b, ty)),
        || {
            let mut c = vec![];
            for (x, y) in [(a, b), (&fa, b), (&ca, b), (a, &eb), (&ca, &eb)] { c.extend(run_spear(ty, 0, x, y, mp)) }
            c
        });
}

fn emit_hl(em: &mut Emitter, s: &Series, ty: Ty, be: usize, mp: Option<usize>) {
    let len = s.xs.len();
    let mpe = mp.unwrap_or(len / 2);
    // classify with the library's own oracle (not available for i32: T::none() panics)
    let (sim, simcell) = if ty == Ty::I {
        (None, vec![])
    } else {
        let mut panicked = None;
        let sim = simulate(len, &mut |lag| match run_ac(ty, s, mpe, lag) { Ok(c) => c, Err(k) => { panicked = Some(k); f64::NAN } });
        let cell = match panicked { Some(k) => Cell::Panic(k), None => Cell::Int(sim.result as i128) };
        (Some(sim), vec![cell])
    };
    let btags = match &sim {
        Some(x) => format!("dbl={} mid_above={} mid_below={} cap={} ret0={} edge={} exact_half={} broke={}", x.dbl.min(9), x.mid_above.min(5), x.mid_below.min(5),
            (len >= 2 && x.result == len - 1) as u8, (x.result == 0) as u8, x.edge as u8, x.exact_half as u8, x.broke as u8),
        None => "dbl=na".into(),
    };
    let tags = format!("fn=half_life ty={} be={} len={} mp={} {} {}{}", ty.name(), be_name(ty, be), (len / 8 * 8).min(304),
        match mp { None => "default".into(), Some(m) => if m == 1 { "1".into() } else if m == len { "len".into() } else { "mid".to_string() } },
        btags, s.tags, if len == 0 { " nt=0" } else { "" });
    let desc = format!("fn=half_life ty={} be={} mp={:?} xs={:?}", ty.name(), be_name(ty, be), mp, s.xs);
    let edge = sim.as_ref().map_or(false, |x| x.edge);
    let reps = 1 + simcell.len();
    em.case(if edge { "anyok" } else { "exact" }, &tags, &desc,
        || format!("(rep_cells {}%nat (run_hl_{} {} {}))", reps, ty.sfx(), coq_mp(mp), coq_series(s, ty)),
        || {
            let mut c = match run_hl(ty, be, s, mp) { Ok(n) => vec![Cell::Int(n as i128)], Err(k) => vec![Cell::Panic(k)] };
            c.extend(simcell.clone());
            c
        });
}

fn emit_ac(em: &mut Emitter, s: &Series, ty: Ty, mp: usize, k: usize) {
    let tags = format!("fn=autocorr ty={} len={} {}", ty.name(), s.xs.len().min(41), s.tags);
    let desc = format!("fn=vcorr_pearson(vshift(lag)) lags=1..={} ty={} mp={} xs={:?}", k, ty.name(), mp, s.xs);
    em.case("float:1e-7", &tags, &desc,
        || format!("(run_ac_{} {} {} {})", ty.sfx(), coq_nat(mp), coq_nat(k), coq_series(s, ty)),
        || (1..=k).map(|lag| match run_ac(ty, s, mp, lag) { Ok(c) => Cell::F(c), Err(e) => Cell::Panic(e) }).collect());
}

fn main() {
    let mut em = Emitter::new();
    let mut rng = Rng::new(em.args.seed);
    let thorough = em.thorough();
    let mut rot = 0usize; // rotating choice of backend / secondary type

    // =========================== winsorize ===========================================================
    {
        // exhaustive small scope: alphabet {-1, 2, 3, null}, every method x every parameter
        let alpha4 = [Some(-1.0), Some(2.0), Some(3.0), None];
        let full_len = if thorough { 5 } else { 4 };
        let mut params: Vec<(usize, Option<f64>)> = vec![];
        for q in QS { params.push((0, Some(q))) }
        for k in KS { params.push((1, Some(k))) }
        for k in KS { params.push((2, Some(k))) }
        for m in 0..3 { params.push((m, None)) }
        for len in 0..=full_len {
            for xs in all_series(&alpha4, len) {
                let s = Series { xs, tags: "style=exhaustive4 nulls=enum".into() };
                let tys = types_of(&s);
                for (m, p) in params.iter() {
                    rot += 1;
                    emit_wins(&mut em, &s, Ty::F, 0, *m, *p, true);
                    let ty = tys[rot % tys.len()];
                    let be = rot % ty.nbe();
                    if !(ty == Ty::F && be == 0) { emit_wins(&mut em, &s, ty, be, *m, *p, true) }
                }
            }
        }
        // alphabet {0.5, 1.5, null} (heavy ties), longer: one parameter per method, rotating
        let alpha3 = [Some(0.5), Some(1.5), None];
        let (lo3, hi3) = (full_len + 1, if thorough { 8 } else { 6 });
        for len in lo3..=hi3 {
            for xs in all_series(&alpha3, len) {
                let s = Series { xs, tags: "style=exhaustive3 nulls=enum".into() };
                for m in 0..3usize {
                    rot += 1;
                    let p = if m == 0 { QS[rot % 5] } else { KS[rot % 5] };
                    let ty = [Ty::F, Ty::O][rot % 2];
                    emit_wins(&mut em, &s, ty, rot % ty.nbe(), m, Some(p), true);
                }
            }
        }
        // structured random, every parameter
        let nrand = if thorough { 1200 } else { 150 };
        for i in 0..nrand {
            let len = if i % 4 == 0 { rng.range(1, 8) } else { rng.range(8, 40) } as usize;
            let s = gen_series(&mut rng, len);
            let tys = types_of(&s);
            for (m, p) in params.iter() {
                rot += 1;
                let ty = tys[rot % tys.len()];
                emit_wins(&mut em, &s, ty, rot % ty.nbe(), *m, *p, true);
            }
            // outside the quantifier of the property (still tied to the model): q > 1/2, q outside [0,1], k < 0
            if i % 3 == 0 {
                for (m, p) in [(0usize, 0.75), (0, 1.0), (0, 1.5), (0, -0.1), (1, -1.0), (2, -0.5)] {
                    emit_wins(&mut em, &s, Ty::F, 0, m, Some(p), false);
                }
                emit_wins(&mut em, &s, Ty::F, 0, 0, Some(f64::NAN), false);
            }
        }
    }

    // f32 elements (seed C20-5: the mean of the sigma method summed in the element type): series whose running sum is NOT
    // representable in f32 - 2^24 next to small integers - and NaN nulls; the model runs on the values widened to f64
    {
        let big = 16777216.0f32;
        let crafted: Vec<Vec<f32>> = vec![
            vec![big, 3.0, 3.0, 3.0, 3.0, -big], vec![3.0, big, 5.0, -big, 7.0, 1.0], vec![big, 1.0, 1.0, 1.0, f32::NAN, -big, 9.0],
            vec![1.5, 2.5, -0.5, 4.0], vec![big, big, 1.0, 1.0, 1.0, 1.0, -big, -big, 2.0],
        ];
        for x32 in crafted.iter() {
            let s = Series { xs: x32.iter().map(|x| if x.is_nan() { None } else { Some(*x as f64) }).collect(), tags: "style=f32_wide nulls=some".into() };
            for (m, p) in [(2usize, None), (2, Some(1.0)), (2, Some(0.5)), (1, None), (0, Some(0.25))] {
                let tags = format!("fn=winsorize method={} p={} ty=f32 be=vec len={} nvalid={} scope=in {}", MNAME[m],
                    match p { None => "default".to_string(), Some(x) => format!("{}", x) }, x32.len(), s.nvalid().min(9), s.tags);
                em.case("custom:wins", &tags, &format!("fn=winsorize ty=f32 be=vec method={} param={:?} xs={:?}", MNAME[m], p, x32),
                    || format!("(run_wins_f {} {} {})", m, coq_opt(&p, |x| coq_f64(*x)), coq_series(&s, Ty::F)),
                    || match imp::wins(x32, m, p) {
                        Ok(Some((hint, out))) => { let mut c = vec![Cell::Int(hint as i128)]; c.extend(cells_f64(&out)); c.push(Cell::Sep); c.extend(cells_f64(&s.f())); c }
                        Ok(None) => vec![Cell::Err],
                        Err(k) => vec![Cell::Panic(k)],
                    });
            }
        }
    }

    // =========================== Spearman ================================================================
    {
        let alpha4 = [Some(-1.0), Some(2.0), Some(3.0), None];
        let full_len = 2;
        for len in 0..=3usize {
            let all = all_series(&alpha4, len);
            for xa in all.iter() {
                for xb in all.iter() {
                    let a = Series { xs: xa.clone(), tags: "style=exhaustive4 nulls=enum".into() };
                    let b = Series { xs: xb.clone(), tags: String::new() };
                    rot += 1;
                    let mps: Vec<Option<usize>> = if len <= full_len || thorough {
                        let mut v: Vec<Option<usize>> = (0..=len + 1).map(Some).collect();
                        v.push(None);
                        v
                    } else {
                        vec![[None, Some(1), Some(2), Some(len)][rot % 4]]
                    };
                    let tys = if a.nonull() && b.nonull() { vec![Ty::F, Ty::O, Ty::I] } else { vec![Ty::F, Ty::O] };
                    for mp in mps {
                        rot += 1;
                        let ty = tys[rot % tys.len()];
                        emit_spear(&mut em, &a, &b, ty, rot % ty.nbe(), mp, "");
                    }
                }
            }
        }
        if thorough {
            let alpha3 = [Some(0.5), Some(1.5), None];
            let all = all_series(&alpha3, 4);
            for xa in all.iter() {
                for xb in all.iter() {
                    rot += 1;
                    let a = Series { xs: xa.clone(), tags: "style=exhaustive3 nulls=enum".into() };
                    let b = Series { xs: xb.clone(), tags: String::new() };
                    let ty = [Ty::F, Ty::O][rot % 2];
                    emit_spear(&mut em, &a, &b, ty, rot % ty.nbe(), [None, Some(1), Some(3), Some(4)][rot % 4], "");
                }
            }
        }
        let nrand = if thorough { 2500 } else { 350 };
        for i in 0..nrand {
            let len = if i % 4 == 0 { rng.range(2, 8) } else { rng.range(8, 40) } as usize;
            let a = gen_series(&mut rng, len);
            // second series: independent / a monotone image with ties broken differently / shorter
            let kind = i % 5;
            let b = match kind {
                0 | 1 => gen_series(&mut rng, len),
                2 => {
                    let img = a.map(|x| -2.0 * x + 0.25);
                    let pat = *rng.pick(&["none", "p10", "p50"]);
                    let m = null_mask(&mut rng, pat, len);
                    Series { xs: img.xs.iter().zip(m).map(|(o, nul)| if nul { None } else { *o }).collect(), tags: String::new() }
                }
                3 => { let l2 = len.saturating_sub(rng.below(3)); gen_series(&mut rng, l2) }
                _ => { let mut b = gen_series(&mut rng, len); for j in 0..len { if rng.chance(1, 2) { b.xs[j] = a.xs[j] } } b }
            };
            let mut tys = vec![Ty::F, Ty::O];
            if a.integral() && a.nonull() && b.integral() && b.nonull() { tys.push(Ty::I) }
            let mp = match i % 4 { 0 => None, 1 => Some(1), 2 => Some(rng.below(len + 2)), _ => Some(len / 2 + 1) };
            rot += 1;
            let ty = tys[rot % tys.len()];
            emit_spear(&mut em, &a, &b, ty, rot % ty.nbe(), mp, &format!("second={}", ["indep", "indep", "antitone", "shorter", "mixed"][kind]));
            if i % 2 == 0 {
                let ty = [Ty::F, Ty::O][rot % 2];
                emit_invariance(&mut em, &a, &b, ty, mp);
            }
        }
    }

    // =========================== half_life ===============================================================
    {
        // exhaustive small scope: alphabet {-1, 2, null}, every min_periods 1..=len and the default
        let alpha3 = [Some(-1.0), Some(2.0), None];
        let exh = if thorough { 6 } else { 5 };
        for len in 0..=exh {
            for xs in all_series(&alpha3, len) {
                let s = Series { xs, tags: "style=exhaustive3 nulls=enum".into() };
                let mut mps: Vec<Option<usize>> = (1..=len).map(Some).collect();
                mps.push(None);
                mps.push(Some(0));
                let tys = types_of(&s);
                for mp in mps {
                    rot += 1;
                    let ty = tys[rot % tys.len()];
                    emit_hl(&mut em, &s, ty, rot % ty.nbe(), mp);
                }
            }
        }
        // crafted: the autocorrelation at a bisection midpoint is exactly 0.5 in binary64 (the `<=` boundary)
        for xs in [vec![-2.0, -2.0, 1.0, 0.0, 3.0, 3.0], vec![-2.0, -2.0, 1.0, 0.0, 2.0, 2.0], vec![1.0, 1.0, -1.0, 0.0, -3.0, -3.0],
                   vec![-1.0, -1.0, 0.0, 0.0, 2.0, 2.0], vec![1.0, 1.0, 0.0, 0.0, -1.0, -1.0],
                   vec![1.0, 3.0, 1.0, 0.0, 0.0, 0.0, -2.0, -2.0, -3.0, -1.0, -1.0, -3.0]] {
            let s = Series { xs: xs.iter().map(|x| Some(*x)).collect(), tags: "style=crafted_half nulls=none".into() };
            for ty in [Ty::F, Ty::O] {
                for be in 0..ty.nbe() { emit_hl(&mut em, &s, ty, be, Some(1)); }
                emit_hl(&mut em, &s, ty, 0, Some(2));
            }
        }
        // structured paths, lengths 0..=64 (thorough 0..=300)
        let maxlen = if thorough { 300 } else { 64 };
        let phis = [0.0, 0.25, 0.5, 0.75, 0.9, 0.95, 0.99, 1.0];
        let mut len = 0usize;
        while len <= maxlen {
            let mut paths: Vec<(Vec<f64>, String)> = vec![];
            for st in ["constant", "monotone", "alternating", "walk"] {
                let integral = rng.chance(1, 2);
                paths.push((gen_values(&mut rng, st, len, integral), format!("style={}", st)));
            }
            for phi in phis { paths.push((gen_ar1(&mut rng, len, phi), format!("style=ar1_{}", phi))) }
            // a slowly varying path (moving average of a walk): autocorrelation stays high for many lags
            {
                let w = gen_values(&mut rng, "walk", len + 8, true);
                let sm: Vec<f64> = (0..len).map(|i| w[i..i + 8].iter().sum::<f64>() / 8.0).collect();
                paths.push((sm, "style=smooth_walk".into()));
            }
            for (vals, st) in paths {
                let pat = if rng.chance(1, 2) { "none" } else { *rng.pick(&NULL_PATTERNS) };
                let s = Series { xs: with_nulls(&mut rng, vals, pat), tags: format!("{} nulls={}", st, pat) };
                let tys = types_of(&s);
                let mut mps = vec![Some(1), None];
                if len >= 2 { mps.push(Some(rng.range(2, len as i64) as usize)) }
                if rng.chance(1, 4) { mps.push(Some(len)) }
                for mp in mps {
                    rot += 1;
                    let ty = tys[rot % tys.len()];
                    emit_hl(&mut em, &s, ty, rot % ty.nbe(), mp);
                }
                if len >= 2 && rng.chance(1, 3) {
                    let ty = [Ty::F, Ty::O][rot % 2];
                    emit_ac(&mut em, &s, ty, [1usize, 2, len / 2][rot % 3], len.min(6) + 1);
                }
            }
            len += if len < 24 { 1 } else if thorough { 7 } else { 5 };
        }
    }
    // =========================== audit additions (own random stream: everything above is unchanged) =====
    {
        let mut rng2 = Rng::new(em.args.seed ^ 0x20_A0D1);
        let mut rot2 = 0usize;
        // ---- vcorr, Pearson arm: exhaustive pairs over {-1, 2, 3, null}; equal lengths 0..=3 and unequal lengths
        let alpha4 = [Some(-1.0), Some(2.0), Some(3.0), None];
        for (la, lb) in [(0usize, 0usize), (1, 1), (2, 2), (3, 3), (0, 2), (2, 0), (1, 3), (3, 1), (2, 3), (3, 2)] {
            let (alla, allb) = (all_series(&alpha4, la), all_series(&alpha4, lb));
            let stride = if la + lb >= 5 { 4 } else { 1 };
            let mut cnt = 0usize;
            for xa in alla.iter() {
                for xb in allb.iter() {
                    cnt += 1;
                    if thorough || cnt % stride == 0 {
                        let a = Series { xs: xa.clone(), tags: "style=exhaustive4 nulls=enum".into() };
                        let b = Series { xs: xb.clone(), tags: String::new() };
                        let mps: Vec<Option<usize>> = if la.max(lb) <= 2 {
                            let mut v: Vec<Option<usize>> = (0..=la + 1).map(Some).collect();
                            v.push(None);
                            v
                        } else {
                            rot2 += 1;
                            vec![[None, Some(1), Some(2), Some(3)][rot2 % 4]]
                        };
                        let tys = if a.nonull() && b.nonull() { vec![Ty::F, Ty::O, Ty::I] } else { vec![Ty::F, Ty::O] };
                        for mp in mps {
                            rot2 += 1;
                            let ty = tys[rot2 % tys.len()];
                            emit_pear(&mut em, &a, &b, ty, rot2 % ty.nbe(), mp, "");
                        }
                    }
                }
            }
        }
        let nrand = if thorough { 1200 } else { 200 };
        for i in 0..nrand {
            let len = if i % 4 == 0 { rng2.range(2, 8) } else { rng2.range(8, 40) } as usize;
            let a = gen_series(&mut rng2, len);
            let kind = i % 5;
            let b = match kind {
                0 | 1 => gen_series(&mut rng2, len),
                2 => a.map(|x| -2.0 * x + 0.25),
                3 => { let l2 = len.saturating_sub(1 + rng2.below(3)); gen_series(&mut rng2, l2) }
                _ => { let l2 = len + 1 + rng2.below(3); gen_series(&mut rng2, l2) }
            };
            let mut tys = vec![Ty::F, Ty::O];
            if a.integral() && a.nonull() && b.integral() && b.nonull() { tys.push(Ty::I) }
            let mp = match i % 4 { 0 => None, 1 => Some(1), 2 => Some(rng2.below(len + 2)), _ => Some(len / 2 + 1) };
            rot2 += 1;
            let ty = tys[rot2 % tys.len()];
            emit_pear(&mut em, &a, &b, ty, rot2 % ty.nbe(), mp, &format!("second={}", ["indep", "indep", "affine", "shorter", "longer"][kind]));
        }
        // the default min_periods = len / 2 of the FIRST series decides (max_with(2) hides it for short series): no nulls, omitted
        // min_periods, one series about half as long as the other, in both orders
        for la in 6..=(if thorough { 40usize } else { 24 }) {
            for d in 0..3usize {
                let lb = (la / 2 + d).saturating_sub(1);
                let a = Series { xs: gen_values(&mut rng2, "walk", la, true).into_iter().map(Some).collect(), tags: "style=default_from_first nulls=none".into() };
                let b = Series { xs: gen_values(&mut rng2, "walk", lb, true).into_iter().map(Some).collect(), tags: String::new() };
                for (x, y) in [(&a, &b), (&b, &a)] {
                    rot2 += 1;
                    let ty = [Ty::F, Ty::O, Ty::I][rot2 % 3];
                    let y2 = Series { xs: y.xs.clone(), tags: String::new() };
                    let x2 = Series { xs: x.xs.clone(), tags: "style=default_from_first nulls=none".into() };
                    emit_pear(&mut em, &x2, &y2, ty, rot2 % ty.nbe(), None, "second=half");
                }
            }
        }
        // ---- winsorize: the witnesses of C20_winsorize_scope_needed replayed on the real code (q = 1, k = -1: [1, 2, 3] ->
        //      [3, 3, 1]), and a NaN multiplier (series unchanged), every element type
        for xs in [vec![Some(1.0), Some(2.0), Some(3.0)], vec![Some(1.0), None, Some(2.0), Some(3.0)], vec![Some(2.0), Some(-1.0), Some(3.0), Some(3.0), Some(7.0)]] {
            let s = Series { xs, tags: "style=crafted_reversed nulls=some".into() };
            for ty in types_of(&s) {
                for (m, p) in [(0usize, 1.0), (0, 0.75), (1, -1.0), (2, -1.0), (1, f64::NAN), (2, f64::NAN), (0, f64::NAN)] {
                    emit_wins(&mut em, &s, ty, 0, m, Some(p), false);
                }
            }
        }
    }
    em.finish();
}
