use tea_time::*;
use vh::*;
fn main() {
    let x = DateTime::<unit::Second>::new(1577882096); // 2020-01-01 12:34:56
    for f in ["%d/%m/%Y H%M%S", "%d/%m/%YH%M%S", "%d/%m/%Y %H%M%S", "%d/%m/%Y%H%M%S"] {
        let s = x.strftime(Some(f));
        let r = guarded({let s = s.clone(); move || DateTime::<unit::Second>::parse(&s, Some(f)).map(|t| t.0)});
        let r2 = guarded({let s = s.clone(); move || DateTime::<unit::Second>::parse(&s, None).map(|t| t.0)});
        println!("{:?} -> {:?} -> {:?} / default-list {:?}", f, s, r.map(|x| x.map_err(|e| e.to_string())), r2.map(|x| x.map_err(|e| e.to_string())));
    }
    for s in ["9999-01-01 00:00:00", "1600-01-01"] {
        let r = guarded(move || DateTime::<unit::Nanosecond>::parse(s, None).map(|t| t.0));
        println!("DTns {:?} -> {:?}", s, r.map(|x| x.map_err(|e| e.to_string())));
    }
}
