//! C03: rolling extrema / arg-extrema / rank / min-max normalisation / z-score vs the model.
//!
//! Carriers: integer element types (i32, Option<i32>) are compared with the model at Z, float element
//! types (f64 with NaN null, Option<f64>) with the model at Coq's binary64.  Backends: Vec (index body on
//! both the returned and the caller-buffer path) and VecDeque (iterator body when returned, index body
//! with a caller buffer).  Two kinds of cases:
//!   * batch: one series, one function, one configuration; EVERY window 1..=len+2 and EVERY min_periods
//!     (omitted, 0..=w): per window the min_periods = 0 run in full, a separator, then one summary cell per
//!     other min_periods (see `batch`; comparator custom:batch decodes a difference back to
//!     (w, min_periods, position));
//!   * single: one (w, min_periods) — used for the longer random series.
use std::collections::VecDeque;

use tevec::prelude::{RollingValidCmp, RollingValidNorm, Vec1};
use vh::*;

/// generator / oracle code: never sees the tevec prelude
mod gen_ {
    use vh::*;

    pub const STYLES: [&str; 8] = ["bin", "quad", "up", "down", "plateau", "walk", "uniform", "const"];
    pub const NULLS: [&str; 10] =
        ["none", "all", "leading", "trailing", "alternating", "blocks", "p10", "p50", "p90", "period"];

    pub fn mask(rng: &mut Rng, pat: &str, len: usize) -> Vec<bool> {
        if pat == "period" {
            // null blocks of length q every p positions: aligned with the expiry of window p (and multiples)
            let p = 2 + rng.below(5);
            let q = 1 + rng.below(p - 1);
            let ph = rng.below(p);
            (0..len).map(|i| (i + ph) % p < q).collect()
        } else {
            null_mask(rng, pat, len)
        }
    }

    pub fn series(rng: &mut Rng, len: usize) -> (Vec<Option<i64>>, String) {
        let style = rng.below(STYLES.len());
        let pat = *rng.pick(&NULLS);
        let m = mask(rng, pat, len);
        let mut cur = rng.range(-40, 40);
        let c = rng.range(-8, 8);
        let mut run_left = 0;
        let mut xs = Vec::with_capacity(len);
        for i in 0..len {
            let k = match STYLES[style] {
                "bin" => rng.range(0, 1),
                "quad" => rng.range(0, 3),
                "up" => { cur += rng.range(1, 5); cur }
                "down" => { cur -= rng.range(1, 5); cur }
                "plateau" => {
                    if run_left == 0 { run_left = rng.range(1, 4); cur = rng.range(-3, 3); }
                    run_left -= 1;
                    cur
                }
                "walk" => { cur += rng.range(-6, 6); cur }
                "uniform" => rng.range(-400, 400),
                _ => c,
            };
            xs.push(if m[i] { None } else { Some(k) });
        }
        (xs, format!("style={} nulls={}", STYLES[style], pat))
    }

    /// hostile floats for the order kernels (no arithmetic happens there): zeros of both signs,
    /// subnormals, huge and tiny magnitudes, neighbours
    pub fn hostile(rng: &mut Rng, len: usize) -> Vec<f64> {
        let al = [0.0, -0.0, 5e-324, -5e-324, 1e-310, 1e308, -1e308, 1.0, 1.0000000000000002, -1.0,
                  2.5, f64::NAN, f64::NAN, 1.7976931348623157e308, -1.7976931348623157e308, 0.1];
        (0..len).map(|_| *rng.pick(&al)).collect()
    }

    /// branch counters of the cached-extreme machine for window w (clamped like the code does), from
    /// the input alone: the cached index after step e is the LAST position of the null-last extreme
    /// of the window, so a rescan happens at step e exactly when that position of step e-1 is < start(e).
    /// returns (rescans, rescans with a null newcomer, all-null windows)
    pub fn branches(xs: &[Option<i64>], w: usize, rev: bool) -> (usize, usize, usize) {
        let len = xs.len();
        let w = w.min(len);
        if w == 0 { return (0, 0, 0); }
        let key = |i: usize| -> (u8, i64) { match xs[i] { None => (1, 0), Some(k) => (0, if rev { -k } else { k }) } };
        let (mut rs, mut rsn, mut alln) = (0, 0, 0);
        let mut prev: Option<usize> = None;
        for e in 0..len {
            let start = if e + 1 >= w { Some(e + 1 - w) } else { None };
            let s0 = start.unwrap_or(0);
            if let (Some(p), Some(s)) = (prev, start) {
                if p < s {
                    rs += 1;
                    if xs[e].is_none() { rsn += 1; }
                }
            }
            let mut p = s0;
            for j in s0..=e { if key(j) <= key(p) { p = j; } }
            prev = Some(p);
            if (s0..=e).all(|j| xs[j].is_none()) { alln += 1; }
        }
        (rs, rsn, alln)
    }

    pub fn bucket(n: usize) -> &'static str {
        match n { 0 => "0", 1 => "1", 2..=3 => "2-3", 4..=9 => "4-9", _ => "10+" }
    }
}

trait ToCells { fn to_cells(&self) -> Vec<Cell>; }
const SENT: f64 = -7.77e77;
impl ToCells for Vec<f64> {
    fn to_cells(&self) -> Vec<Cell> { self.iter().map(|x| if *x == SENT { Cell::Uninit } else { Cell::F(*x) }).collect() }
}
impl ToCells for Vec<Option<f64>> { fn to_cells(&self) -> Vec<Cell> { cells_optf64(self) } }
impl ToCells for Vec<Option<i32>> { fn to_cells(&self) -> Vec<Cell> { cells_opti(self) } }
impl ToCells for VecDeque<f64> { fn to_cells(&self) -> Vec<Cell> { self.iter().map(|x| Cell::F(*x)).collect() } }

fn fin<O: ToCells>(r: Result<O, u8>) -> Vec<Cell> {
    match r { Ok(v) => v.to_cells(), Err(k) => vec![Cell::Panic(k)] }
}

// fn codes: 0 vmin 1 vmax 2 vargmin 3 vargmax 4..=7 vrank(pct,rev) 8 minmaxnorm 9 zscore
const FNS: [&str; 10] = ["ts_vmin", "ts_vmax", "ts_vargmin", "ts_vargmax", "ts_vrank", "ts_vrank_rev",
                         "ts_vrank_pct", "ts_vrank_pct_rev", "ts_vminmaxnorm", "ts_vzscore"];

/// returned path: `$vo` is the value-typed output container (ts_vmin / ts_vmax), `$fo` the f64-typed one
macro_rules! call_ret {
    ($fi:expr, $v:expr, $w:expr, $mp:expr, $VO:ty, $VU:ty, $FO:ty, $FU:ty) => {{
        let (v, w, mp) = (&$v, $w, $mp);
        match $fi {
            0 => fin(guarded(|| v.ts_vmin::<$VO, $VU>(w, mp))),
            1 => fin(guarded(|| v.ts_vmax::<$VO, $VU>(w, mp))),
            2 => fin(guarded(|| v.ts_vargmin::<$FO, $FU>(w, mp))),
            3 => fin(guarded(|| v.ts_vargmax::<$FO, $FU>(w, mp))),
            4 => fin(guarded(|| v.ts_vrank::<$FO, $FU>(w, mp, false, false))),
            5 => fin(guarded(|| v.ts_vrank::<$FO, $FU>(w, mp, false, true))),
            6 => fin(guarded(|| v.ts_vrank::<$FO, $FU>(w, mp, true, false))),
            7 => fin(guarded(|| v.ts_vrank::<$FO, $FU>(w, mp, true, true))),
            8 => fin(guarded(|| v.ts_vminmaxnorm::<$FO, $FU>(w, mp))),
            _ => fin(guarded(|| v.ts_vzscore::<$FO, $FU>(w, mp))),
        }
    }};
}

/// caller-buffer path into a Vec<f64> pre-filled with a sentinel (an unwritten slot shows up as Uninit)
macro_rules! call_to {
    ($fi:expr, $v:expr, $w:expr, $mp:expr, $len:expr) => {{
        let (v, w, mp, len) = (&$v, $w, $mp, $len);
        let r = guarded(|| {
            let mut u: Vec<std::mem::MaybeUninit<f64>> = (0..len).map(|_| std::mem::MaybeUninit::new(SENT)).collect();
            {
                let b = Some(Vec::<f64>::uninit_ref_mut(&mut u));
                let _: Option<Vec<f64>> = match $fi {
                    0 => v.ts_vmin_to::<Vec<f64>, f64>(w, mp, b),
                    1 => v.ts_vmax_to::<Vec<f64>, f64>(w, mp, b),
                    2 => v.ts_vargmin_to::<Vec<f64>, f64>(w, mp, b),
                    3 => v.ts_vargmax_to::<Vec<f64>, f64>(w, mp, b),
                    4 => v.ts_vrank_to::<Vec<f64>, f64>(w, mp, false, false, b),
                    5 => v.ts_vrank_to::<Vec<f64>, f64>(w, mp, false, true, b),
                    6 => v.ts_vrank_to::<Vec<f64>, f64>(w, mp, true, false, b),
                    7 => v.ts_vrank_to::<Vec<f64>, f64>(w, mp, true, true, b),
                    8 => v.ts_vminmaxnorm_to::<Vec<f64>, f64>(w, mp, b),
                    _ => v.ts_vzscore_to::<Vec<f64>, f64>(w, mp, b),
                };
            }
            let o: Vec<f64> = u.into_iter().map(|x| unsafe { x.assume_init() }).collect();
            o
        });
        fin(r)
    }};
}

/// every window 1..=len+2 x every min_periods (omitted, 0..=w).  Layout (same as Run/RunC03.v all_wmp): per
/// window the run with min_periods = 0 in full, a separator, then ONE cell per other min_periods (omitted,
/// 1..=w): the panic, or the integer whose bit i says "output i is non-null", or -1 when a non-null output
/// differs from the min_periods = 0 run.
fn batch(len: usize, mut one: impl FnMut(usize, Option<usize>) -> Vec<Cell>) -> Vec<Cell> {
    fn is_null(c: &Cell) -> bool { matches!(c, Cell::Null) || matches!(c, Cell::F(x) if x.is_nan()) }
    fn same(a: &Cell, b: &Cell) -> bool { let (mut x, mut y) = (String::new(), String::new()); a.enc(&mut x); b.enc(&mut y); x == y }
    let mut out = vec![];
    for w in 1..=len + 2 {
        let base = one(w, Some(0));
        out.extend(base.iter().cloned());
        out.push(Cell::Sep);
        let mut mps = vec![None];
        mps.extend((1..=w).map(Some));
        for mp in mps {
            let r = one(w, mp);
            if let [Cell::Panic(k)] = r[..] { out.push(Cell::Panic(k)); continue; }
            if r.iter().any(|c| matches!(c, Cell::Uninit)) { out.push(Cell::Uninit); continue; }
            let base_ok = !matches!(base[..], [Cell::Panic(_)]) && base.len() == r.len();
            let mut m: i128 = 0;
            let mut ok = base_ok;
            if ok {
                for (i, (a, a0)) in r.iter().zip(base.iter()).enumerate() {
                    if is_null(a) { continue; }
                    if same(a, a0) { m += 1i128 << i } else { ok = false; break; }
                }
            }
            out.push(Cell::Int(if ok { m } else { -1 }));
        }
    }
    out
}

/// the model term of a configuration; `suffix`: f (f64), o (Option<f64>), zo (Option<i32>), zp (i32)
fn term(batch: bool, fi: usize, suffix: &str, body: bool, w: usize, mp: Option<usize>, xs_coq: &str) -> String {
    let wmp = if batch { String::new() } else { format!(" {} {}", coq_nat(w), coq_opt(&mp, |m| coq_nat(*m))) };
    let b = coq_bool(body);
    let p = if batch { "batch" } else { "run" };
    match fi {
        0..=3 => format!("({}_ext_{} {} {}{} {})", p, suffix, fi, b, wmp, xs_coq),
        4..=7 => {
            let (pct, rev) = (fi >= 6, fi % 2 == 1);
            if batch { format!("(batch_rank_{} {} {} {} {})", suffix, b, coq_bool(pct), coq_bool(rev), xs_coq) }
            else { format!("(run_rank_{} {}{} {} {} {})", suffix, b, wmp, coq_bool(pct), coq_bool(rev), xs_coq) }
        }
        8 => {
            // float model; the sentinels are those of the element type (kind 1: i32)
            let (sfx, kind) = match suffix { "zp" => ("p", 1), "zo" => ("o", 1), s => (s, 0) };
            format!("({}_mmnorm_{} {} {}{} {})", p, sfx, kind, b, wmp, xs_coq)
        }
        _ => {
            let sfx = match suffix { "zp" => "p", "zo" => "o", s => s };
            format!("({}_zscore_{} {}{} {})", p, sfx, b, wmp, xs_coq)
        }
    }
}

struct Views {
    f: Vec<f64>,
    o: Vec<Option<f64>>,
    zo: Vec<Option<i32>>,
    zp: Option<Vec<i32>>,
    f_coq: String,
    o_coq: String,
    zo_coq: String,
    zp_coq: String,
    // integer-valued float renderings for the normalisations on integer element types
    zof_coq: String,
    zpf_coq: String,
}

fn views(xs: &[Option<i64>]) -> Views {
    let f: Vec<f64> = xs.iter().enumerate().map(|(i, x)| x.map(|k| k as f64 / 4.0).unwrap_or(vh::nan_at(i))).collect();
    let o: Vec<Option<f64>> = xs.iter().map(|x| x.map(|k| k as f64 / 4.0)).collect();
    let zo: Vec<Option<i32>> = xs.iter().map(|x| x.map(|k| k as i32)).collect();
    let zp: Option<Vec<i32>> = if xs.iter().all(|x| x.is_some()) { Some(xs.iter().map(|x| x.unwrap() as i32).collect()) } else { None };
    Views {
        f_coq: coq_list(&f, |x| coq_f64(*x)),
        o_coq: coq_list(&o, |x| coq_opt(x, |v| coq_f64(*v))),
        zo_coq: coq_list(&zo, |x| coq_opt(x, |v| coq_z(*v as i128))),
        zp_coq: zp.as_ref().map(|v| coq_list(v, |x| coq_z(*x as i128))).unwrap_or_default(),
        zof_coq: coq_list(&zo, |x| coq_opt(x, |v| coq_f64(*v as f64))),
        zpf_coq: zp.as_ref().map(|v| coq_list(v, |x| coq_f64(*x as f64))).unwrap_or_default(),
        f, o, zo, zp,
    }
}

fn main() {
    let mut em = Emitter::new();
    let mut rng = Rng::new(em.args.seed);
    let thorough = em.thorough();

    // ------------------------------------------------------------------ series
    // (values k or null, tags, batch?, level: 2 = every function and element type, 1 = the cached-extreme
    //  functions on Option<i32> (+ a quarter on f64) only)
    let mut series: Vec<(Vec<Option<i64>>, String, bool, u8)> = vec![];
    let mut lvl = Rng::new(em.args.seed ^ 0x1e7e1);
    // exhaustive over {0, 1, null}: quick to length 6, thorough to 7
    let (exh_full, exh_third, exh_ext) = if thorough { (5, 6, 7) } else { (4, 5, 6) };
    for len in 1..=exh_ext {
        for code in 0..3usize.pow(len as u32) {
            let mut c = code;
            let mut xs = vec![];
            for _ in 0..len { xs.push(match c % 3 { 0 => Some(0), 1 => Some(1), _ => None }); c /= 3; }
            let level = if len <= exh_full { 2 } else if len <= exh_third && lvl.chance(1, 3) { 2 } else { 1 };
            series.push((xs, "style=exh01n nulls=enum".into(), true, level));
        }
    }
    // exhaustive over {0..3} (no nulls: ties and orders) up to length 3 (thorough 4)
    for len in 1..=(if thorough { 4 } else { 3 }) {
        for code in 0..4usize.pow(len as u32) {
            let mut c = code;
            let mut xs = vec![];
            for _ in 0..len { xs.push(Some((c % 4) as i64)); c /= 4; }
            series.push((xs, "style=exh0123 nulls=none".into(), true, 2));
        }
    }
    // beyond the exhaustive lengths: sampled series over {0,1,null} (thorough: lengths 8 and 9)
    if thorough {
        for len in [8usize, 9] {
            for _ in 0..500 {
                let xs = (0..len).map(|_| match rng.below(3) { 0 => Some(0), 1 => Some(1), _ => None }).collect();
                series.push((xs, "style=rand01n nulls=enum".into(), true, 1));
            }
        }
    }
    // structured random, single (w, min_periods) configurations
    let nrand = if thorough { 1000 } else { 200 };
    for i in 0..nrand {
        let len = if i % 3 == 0 { rng.range(2, 9) } else { rng.range(7, 40) } as usize;
        let (xs, t) = gen_::series(&mut rng, len);
        series.push((xs, t, false, 2));
    }

    // long histories (see c01.rs): the cached extreme expires hundreds of times, counters run for hundreds of steps
    for _ in 0..(if thorough { 8 } else { 2 }) {
        let len = rng.range(300, 600) as usize;
        let (xs, t) = gen_::series(&mut rng, len);
        series.push((xs, t.replace("style=", "style=long_"), false, 2));
    }

    let mut sel = Rng::new(em.args.seed ^ 0xC03);
    for (xs, stags, small, level) in series.iter() {
        let level = *level;
        let len = xs.len();
        let v = views(xs);
        let nulls = xs.iter().filter(|x| x.is_none()).count();
        // ring buffers that have wrapped (vh::wrapped_deque)
        let dq_f: VecDeque<f64> = vh::wrapped_deque(&v.f);
        let dq_zo: VecDeque<Option<i32>> = vh::wrapped_deque(&v.zo);
        // configurations: (w, mp) list; batch = all of them in one case
        let wmps: Vec<(usize, Option<usize>)> = if *small { vec![(0, None)] } else {
            (0..3).map(|j| {
                let w = if j == 0 { rng.range(1, (len as i64).min(6)) } else { rng.range(1, len as i64 + 2) } as usize;
                let mp = if rng.chance(1, 4) { None } else { Some(rng.range(0, w as i64) as usize) };
                (w, mp)
            }).collect()
        };
        for (w, mp) in wmps {
            for fi in 0..FNS.len() {
                if !*small && !sel.chance(1, 3) { continue; }
                if level == 1 && fi >= 4 { continue; }
                let is_norm = fi >= 8;
                // branch counters of the cached-extreme machine (min side for everything but the max functions)
                let rev = fi == 1 || fi == 3;
                let (rs, rsn, alln) = if *small {
                    (1..=len + 2).map(|w| gen_::branches(xs, w, rev)).fold((0, 0, 0), |a, b| (a.0 + b.0, a.1 + b.1, a.2 + b.2))
                } else { gen_::branches(xs, w, rev) };
                let tags = |ty: &str, be: &str| format!(
                    "fn={} ty={} be={} kind={} len={} wrel={} mp={} nullfrac={} {} rescans={} rescan_nullnew={} allnull_win={}",
                    FNS[fi], ty, be, if *small { "batch" } else { "single" }, len.min(25),
                    if *small { "all" } else if w > len { "gt" } else if w == len { "eq" } else { "lt" },
                    if *small { "all".to_string() } else { match mp { None => "omitted".into(), Some(0) => "0".into(), Some(m) if m == w => "w".into(), _ => "mid".to_string() } },
                    nulls * 4 / len.max(1), stags, gen_::bucket(rs), gen_::bucket(rsn), gen_::bucket(alln));
                let desc = |ty: &str, be: &str, data: String| if *small {
                    format!("fn={} ty={} be={} BATCH(every w=1..={}, every mp: per w the mp=Some(0) run, a separator, then one mask cell for mp=None,Some(1)..=Some(w)) xs={}", FNS[fi], ty, be, len + 2, data)
                } else {
                    format!("fn={} ty={} be={} w={} mp={:?} xs={}", FNS[fi], ty, be, w, mp, data)
                };
                let cmp: String = if *small { format!("custom:batch:{}:{}", len, if is_norm { "1e-9" } else { "exact" }) }
                                  else if is_norm { "float:1e-9,1e3".into() } else { "exact".into() };
                let small = *small;
                macro_rules! emit {
                    ($ty:expr, $be:expr, $sfx:expr, $body:expr, $coq:expr, $data:expr, $one:expr) => {
                        em.case(&cmp, &tags($ty, $be), &desc($ty, $be, $data),
                            || term(small, fi, $sfx, $body, w, mp, $coq),
                            || if small { batch(len, $one) } else { ($one)(w, mp) });
                    };
                }
                // ---- f64 (NaN null): Vec returned / Vec caller buffer / VecDeque returned / VecDeque caller buffer
                let fl_on = level == 2 || sel.chance(1, 4);
                if fl_on {
                emit!("f64", "vec", "f", true, &v.f_coq, format!("{:?}", v.f),
                      |w, mp| call_ret!(fi, v.f, w, mp, Vec<f64>, f64, Vec<f64>, f64));
                }
                if level == 2 {
                if small || sel.chance(1, 2) {
                    emit!("f64", "vec_to", "f", true, &v.f_coq, format!("{:?}", v.f), |w, mp| call_to!(fi, v.f, w, mp, len));
                }
                emit!("f64", "deque", "f", false, &v.f_coq, format!("{:?}", v.f),
                      |w, mp| call_ret!(fi, dq_f, w, mp, Vec<f64>, f64, Vec<f64>, f64));
                if small || sel.chance(1, 2) {
                    emit!("f64", "deque_to", "f", true, &v.f_coq, format!("{:?}", v.f), |w, mp| call_to!(fi, dq_f, w, mp, len));
                }
                // the same series through a REVERSED contiguous ndarray view (stride -1; ndarray fast path = index body)
                if small || sel.chance(1, 3) {
                    let rev_arr = tevec::export::ndarray::Array1::from_vec(v.f.iter().rev().cloned().collect::<Vec<f64>>());
                    let nd_rev: tevec::export::ndarray::ArrayView1<f64> = rev_arr.slice(tevec::export::ndarray::s![..;-1]);
                    emit!("f64", "nd_rev", "f", true, &v.f_coq, format!("{:?}", v.f),
                          |w, mp| call_ret!(fi, nd_rev, w, mp, Vec<f64>, f64, Vec<f64>, f64));
                }
                // f64 -> Option<f64> outputs
                if sel.chance(1, 3) {
                    emit!("f64->optf64", "vec", "f", true, &v.f_coq, format!("{:?}", v.f),
                          |w, mp| call_ret!(fi, v.f, w, mp, Vec<Option<f64>>, Option<f64>, Vec<Option<f64>>, Option<f64>));
                }
                // ---- Option<f64>
                if len <= 4 || sel.chance(1, 3) {
                    emit!("optf64", "vec", "o", true, &v.o_coq, format!("{:?}", v.o),
                          |w, mp| call_ret!(fi, v.o, w, mp, Vec<Option<f64>>, Option<f64>, Vec<Option<f64>>, Option<f64>));
                }
                }
                // ---- Option<i32>: value output Option<i32>, index / rank output f64
                {
                    let coq = if is_norm { &v.zof_coq } else { &v.zo_coq };
                    emit!("opti32", "vec", "zo", true, coq, format!("{:?}", v.zo),
                          |w, mp| call_ret!(fi, v.zo, w, mp, Vec<Option<i32>>, Option<i32>, Vec<f64>, f64));
                    if level == 2 && (len <= 4 || sel.chance(1, 3)) {
                        emit!("opti32", "deque", "zo", false, coq, format!("{:?}", v.zo),
                              |w, mp| call_ret!(fi, dq_zo, w, mp, Vec<Option<i32>>, Option<i32>, Vec<Option<f64>>, Option<f64>));
                    }
                    // index output cast to Option<i32> (as the repository's own tests do)
                    if level == 2 && (2..=3).contains(&fi) && sel.chance(1, 2) {
                        emit!("opti32->opti32", "vec", "zo", true, coq, format!("{:?}", v.zo),
                              |w, mp| call_ret!(fi, v.zo, w, mp, Vec<Option<i32>>, Option<i32>, Vec<Option<i32>>, Option<i32>));
                    }
                }
                // ---- i32 (never null)
                if let (Some(zp), 2) = (v.zp.as_ref(), level) {
                    let coq = if is_norm { &v.zpf_coq } else { &v.zp_coq };
                    emit!("i32", "vec", "zp", true, coq, format!("{:?}", zp),
                          |w, mp| call_ret!(fi, zp, w, mp, Vec<Option<i32>>, Option<i32>, Vec<f64>, f64));
                    if sel.chance(1, 3) {
                        emit!("i32->f64", "vec", "zp", true, coq, format!("{:?}", zp),
                              |w, mp| call_ret!(fi, zp, w, mp, Vec<f64>, f64, Vec<Option<f64>>, Option<f64>));
                    }
                }
            }
        }
    }

    // ------------------------------------------------------------------ empty series (trivial, outside C03's quantifier)
    // The model reproduces what the code does: Vec / caller-buffer paths return an empty result; the iterator
    // body (VecDeque returned) of the cmp family asserts `window > 0` on the window clamped to 0 (see notes/C03.md).
    {
        let xs: Vec<f64> = vec![];
        let dq: VecDeque<f64> = VecDeque::new();
        for fi in 0..FNS.len() {
            for w in [1usize, 3] {
                let mp: Option<usize> = None;
                em.case("exact", &format!("fn={} ty=f64 be=vec kind=single len=0 nt=0", FNS[fi]),
                    &format!("fn={} ty=f64 be=vec w={} mp=None xs=[]", FNS[fi], w),
                    || term(false, fi, "f", true, w, mp, "[]"),
                    || call_ret!(fi, xs, w, mp, Vec<f64>, f64, Vec<f64>, f64));
                em.case("exact", &format!("fn={} ty=f64 be=deque kind=single len=0 nt=0", FNS[fi]),
                    &format!("fn={} ty=f64 be=deque w={} mp=None xs=[]", FNS[fi], w),
                    || term(false, fi, "f", false, w, mp, "[]"),
                    || call_ret!(fi, dq, w, mp, Vec<f64>, f64, Vec<f64>, f64));
            }
        }
    }

    // ------------------------------------------------------------------ hostile floats (order kernels only)
    let nh = if thorough { 600 } else { 120 };
    for _ in 0..nh {
        let len = rng.range(1, 12) as usize;
        let xs = gen_::hostile(&mut rng, len);
        let xo: Vec<Option<f64>> = xs.iter().map(|x| if x.is_nan() { None } else { Some(*x) }).collect();
        let xs_coq = coq_list(&xs, |x| coq_f64(*x));
        let xo_coq = coq_list(&xo, |x| coq_opt(x, |v| coq_f64(*v)));
        let w = rng.range(1, len as i64 + 2) as usize;
        let mp = if rng.chance(1, 4) { None } else { Some(rng.range(0, w as i64) as usize) };
        let dq: VecDeque<f64> = vh::wrapped_deque(&xs);
        for fi in 0..8 {
            let tags = |ty: &str, be: &str| format!("fn={} ty={} be={} kind=single len={} wrel={} style=hostile nulls=p12",
                FNS[fi], ty, be, len, if w > len { "gt" } else if w == len { "eq" } else { "lt" });
            em.case("exact", &tags("f64", "vec"), &format!("fn={} ty=f64 be=vec w={} mp={:?} xs={:?}", FNS[fi], w, mp, xs),
                || term(false, fi, "f", true, w, mp, &xs_coq),
                || call_ret!(fi, xs, w, mp, Vec<f64>, f64, Vec<f64>, f64));
            em.case("exact", &tags("f64", "deque"), &format!("fn={} ty=f64 be=deque w={} mp={:?} xs={:?}", FNS[fi], w, mp, xs),
                || term(false, fi, "f", false, w, mp, &xs_coq),
                || call_ret!(fi, dq, w, mp, Vec<f64>, f64, Vec<f64>, f64));
            em.case("exact", &tags("optf64", "vec"), &format!("fn={} ty=optf64 be=vec w={} mp={:?} xs={:?}", FNS[fi], w, mp, xo),
                || term(false, fi, "o", true, w, mp, &xo_coq),
                || call_ret!(fi, xo, w, mp, Vec<Option<f64>>, Option<f64>, Vec<Option<f64>>, Option<f64>));
        }
    }

    // ------------------------------------------------------------------ audit block (notes/C03.md "Audit matrix")
    // window = 0 (C03_window0_rejected: the assertion fails on a non-empty series, both bodies and the caller buffer;
    // C03_empty_series on the empty one) and min_periods above the clamped window (C03_min_periods_above_window_all_null:
    // NOT clamped in the cmp family -> all null; clamped to the window in the norm family)
    {
        let audit: Vec<Vec<f64>> = vec![vec![], vec![2.0], vec![1.0, f64::NAN, 1.0, 0.5], vec![0.25, 0.25, 3.0, f64::NAN, f64::NAN, 1.0]];
        for xs in audit.iter() {
            let len = xs.len();
            let xs_coq = coq_list(xs, |x| coq_f64(*x));
            let xo: Vec<Option<f64>> = xs.iter().map(|x| if x.is_nan() { None } else { Some(*x) }).collect();
            let xo_coq = coq_list(&xo, |x| coq_opt(x, |v| coq_f64(*v)));
            let dq: VecDeque<f64> = vh::wrapped_deque(xs);
            let nt = if len == 0 { " nt=0" } else { "" };
            let mut cfgs: Vec<(usize, Option<usize>)> = vec![(0, None), (0, Some(0)), (0, Some(1))];
            for w in [1usize, 2, len.max(1), len + 2] { for extra in [1usize, 3] { cfgs.push((w, Some(w.min(len.max(1)) + extra))); cfgs.push((w, Some(w + extra))); } }
            for (w, mp) in cfgs {
                for fi in 0..FNS.len() {
                    let cmp = if fi >= 8 { "float:1e-9,1e3" } else { "exact" };
                    let tags = |ty: &str, be: &str| format!("fn={} ty={} be={} kind=single len={} wrel={} style=audit{}",
                        FNS[fi], ty, be, len, if w == 0 { "zero" } else if w > len { "gt" } else if w == len { "eq" } else { "lt" }, nt);
                    em.case(cmp, &tags("f64", "vec"), &format!("fn={} ty=f64 be=vec w={} mp={:?} xs={:?}", FNS[fi], w, mp, xs),
                        || term(false, fi, "f", true, w, mp, &xs_coq),
                        || call_ret!(fi, xs, w, mp, Vec<f64>, f64, Vec<f64>, f64));
                    em.case(cmp, &tags("f64", "deque"), &format!("fn={} ty=f64 be=deque w={} mp={:?} xs={:?}", FNS[fi], w, mp, xs),
                        || term(false, fi, "f", false, w, mp, &xs_coq),
                        || call_ret!(fi, dq, w, mp, Vec<f64>, f64, Vec<f64>, f64));
                    em.case(cmp, &tags("f64", "vec_to"), &format!("fn={} ty=f64 be=vec_to w={} mp={:?} xs={:?}", FNS[fi], w, mp, xs),
                        || term(false, fi, "f", true, w, mp, &xs_coq),
                        || call_to!(fi, xs, w, mp, len));
                    em.case(cmp, &tags("optf64", "vec"), &format!("fn={} ty=optf64 be=vec w={} mp={:?} xs={:?}", FNS[fi], w, mp, xo),
                        || term(false, fi, "o", true, w, mp, &xo_coq),
                        || call_ret!(fi, xo, w, mp, Vec<Option<f64>>, Option<f64>, Vec<Option<f64>>, Option<f64>));
                }
            }
        }
    }
    em.finish();
}
