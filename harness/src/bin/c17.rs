//! C17: date-time / duration / time-of-day arithmetic and its inverse laws.
//! Real API: DateTime<U> +- TimeDelta, DateTime - DateTime, TimeDelta neg/+/-/*//, TimeDelta::parse,
//! Time constructors / Timelike getters / with_* / as_cr / from_cr / +- TimeDelta, duration_trunc.
#[path = "../timegen.rs"]
mod timegen;
use timegen::*;
use vh::*;

fn uname(u: usize) -> &'static str {
    UNITS[u]
}
fn z(v: i64) -> String {
    coq_z(v as i128)
}

fn dt_values(r: &mut Rng, u: usize, n: usize) -> Vec<(i64, &'static str)> {
    let ps = PER_SEC[u];
    let mut v = vec![(0, "epoch"), (-1, "pre1970"), (1, "small"), (951_782_400 * ps, "leap2000"), // 2000-02-29
        (-2_203_891_200 * ps + ps - 1, "y1900"), (4_107_542_399 * ps, "y2100")];
    for _ in 0..n {
        v.push((dt_1678_2262(r, u), "y1678_2262"));
        v.push((eom_secs(r) * ps + r.range(0, ps - 1), "eom"));
        v.push((-(r.range(1, 9_000_000_000) as i64) * ps - r.range(0, ps - 1), "pre1970"));
    }
    v
}

fn time_obs(f: impl FnOnce() -> Time) -> Vec<Cell> {
    g(f, |t| {
        let mut c = vec![int(t.into_i64())];
        c.extend(gi(|| t.hour() as i64));
        c.extend(gi(|| t.minute() as i64));
        c.extend(gi(|| t.second() as i64));
        c.extend(gi(|| t.nanosecond() as i64));
        match t.as_cr() {
            Some(nt) => {
                c.push(int(nt.num_seconds_from_midnight() as i64));
                c.push(int(nt.nanosecond() as i64));
                c.push(int(Time::from_cr(&nt).into_i64()));
            }
            None => c.push(Cell::Null),
        }
        c
    })
}

fn main() {
    let mut em = Emitter::new();
    let thorough = em.thorough();
    let seed = em.args.seed;

    // ---- 1. every subset of the ten duration units, both signs: parse, x + d, x - d ----------------
    {
        let mut r = Rng::new(seed * 2000 + 1);
        let sign_modes: &[i32] = if thorough { &[1, -1, 0] } else { &[0] };
        for mask in 0u32..1024 {
            for (si, &sign) in sign_modes.iter().enumerate() {
                let sign = if thorough { sign } else { [1, -1, 0][(mask % 3) as usize] };
                let (s, months, ns) = td_from_mask(&mut r, mask, sign);
                let nunits = mask.count_ones();
                let stag = match sign { 1 => "pos", -1 => "neg", _ => "mixed" };
                if mask != 0 {
                    em.case("exact", &format!("fn=tdparse nunits={} sign={} months={}", nunits, stag, months != 0),
                        &format!("TimeDelta::parse({:?})", s), || format!("(c_int {} ++ c_int {})", coq_z(months as i128), coq_z(ns)),
                        || g(|| TimeDelta::parse(&s).unwrap(), |d| td_cells(&d)));
                }
                let u = ((mask as usize) + si) % 4;
                for (x, class) in dt_values(&mut r, u, 1).into_iter().skip(if mask % 16 == 0 { 0 } else { 6 }) {
                    for op in ["add", "sub"] {
                        let tags = format!("fn=dt{} unit={} nunits={} sign={} months={} x={}", op, uname(u), nunits, stag, months != 0, class);
                        em.case("exact", &tags, &format!("DateTime<{}>({}) {} {:?} = TimeDelta{{months:{}, ns:{}}}", uname(u), x, op, s, months, ns),
                            || format!("(r_dt{} {} {} {})", op, uname(u), z(x), td_coq(months, ns)), || {
                            with_unit!(u, U => {
                                prime(x, u); let d = DateTime::<U>::new(x);
                                // the parse result itself is checked by the fn=tdparse case; a parse error must not abort the harness
                                let t = if mask != 0 { TimeDelta::parse(&s).unwrap_or_else(|_| td(months, ns)) } else { td(0, 0) };
                                gi(|| if op == "add" { (d + t).into_i64() } else { (d - t).into_i64() })
                            })
                        });
                    }
                }
            }
        }
        // range limits: in-range operands whose result leaves the unit / chrono range must panic as modelled
        for u in 0..4 {
            let lim: Vec<i64> = if u == 3 { vec![i64::MAX, i64::MAX - 1, NAT + 1, NAT + 2] } else {
                let hi = (CR_MAX_DAY + 1) * 86_400 * PER_SEC[u] - 1;
                let lo = CR_MIN_DAY * 86_400 * PER_SEC[u];
                vec![hi, hi - 1, lo, lo + 1, hi + 1, lo - 1, i64::MAX, NAT + 1]
            };
            for &x in &lim {
                for &(m, ns) in &[(0i32, 1i128), (0, -1), (0, UNIT_NS[u] as i128), (0, -(UNIT_NS[u] as i128)), (1, 0), (-1, 0),
                                  (0, 86_400_000_000_000), (0, -86_400_000_000_000), (0, 0), (0, DUR_MAX_NS), (0, -DUR_MAX_NS)] {
                    for op in ["add", "sub"] {
                        em.case("exact", &format!("fn=dt{}_limit unit={}", op, uname(u)),
                            &format!("DateTime<{}>({}) {} TimeDelta{{months:{}, ns:{}}}", uname(u), x, op, m, ns),
                            || format!("(r_dt{} {} {} {})", op, uname(u), z(x), td_coq(m, ns)), || {
                            with_unit!(u, U => {
                                prime(x, u); let d = DateTime::<U>::new(x);
                                let t = td(m, ns);
                                gi(|| if op == "add" { (d + t).into_i64() } else { (d - t).into_i64() })
                            })
                        });
                    }
                }
            }
        }
    }

    // ---- 2. (x + d) - d and (x - d) + d for month-free d ------------------------------------------------
    {
        let mut r = Rng::new(seed * 2000 + 2);
        let reps = if thorough { 4 } else { 1 };
        for mask in 0u32..256 {
            for u in 0..4 {
                for _ in 0..reps {
                    let sign = [1, -1, 0][r.below(3)];
                    let (s, _, ns) = td_from_mask(&mut r, mask, sign);
                    let x = if r.chance(1, 3) { -(r.range(0, 9_000_000_000) as i64) * PER_SEC[u] - r.range(0, PER_SEC[u] - 1) } else { dt_1678_2262(&mut r, u) };
                    let sub = ns.rem_euclid(UNIT_NS[u] as i128) != 0;
                    for (f, first_add) in [("r17_rt", true), ("r17_rt2", false)] {
                        let tags = format!("fn={} unit={} subunit={} nunits={} x={}", f, uname(u), sub, mask.count_ones(), if x < 0 { "pre1970" } else { "post1970" });
                        let desc = if first_add { format!("(DateTime<{}>({}) + {:?}) - same  [ns={}]", uname(u), x, s, ns) }
                                   else { format!("(DateTime<{}>({}) - {:?}) + same  [ns={}]", uname(u), x, s, ns) };
                        em.case("exact", &tags, &desc, || format!("({} {} {} {})", f, uname(u), z(x), coq_z(ns)), || {
                            with_unit!(u, U => {
                                prime(x, u); let d = DateTime::<U>::new(x);
                                let t = td(0, ns);
                                g(|| if first_add { d + t } else { d - t }, |y| {
                                    let mut c = vec![int(y.into_i64())];
                                    c.extend(gi(|| if first_add { (y - t).into_i64() } else { (y + t).into_i64() }));
                                    c
                                })
                            })
                        });
                    }
                }
            }
        }
        // the smallest witnesses of the known class, and sub-unit d at every coarse unit
        for u in 0..3 {
            for &x in &[0i64, 1, -1, 1_700_000_000 * PER_SEC[u]] {
                for &ns in &[1i128, -1, UNIT_NS[u] as i128 - 1, UNIT_NS[u] as i128 + 1, -(UNIT_NS[u] as i128) - 1, UNIT_NS[u] as i128, 0] {
                    let sub = ns.rem_euclid(UNIT_NS[u] as i128) != 0;
                    em.case("exact", &format!("fn=r17_rt unit={} subunit={} witness=1", uname(u), sub),
                        &format!("(DateTime<{}>({}) + {}ns) - {}ns", uname(u), x, ns, ns),
                        || format!("(r17_rt {} {} {})", uname(u), z(x), coq_z(ns)), || {
                        with_unit!(u, U => {
                            prime(x, u); let d = DateTime::<U>::new(x);
                            let t = td(0, ns);
                            g(|| d + t, |y| { let mut c = vec![int(y.into_i64())]; c.extend(gi(|| (y - t).into_i64())); c })
                        })
                    });
                }
            }
        }
    }

    // ---- 3. (a - b) + b = a -------------------------------------------------------------------------------
    for u in 0..4 {
        let mut r = Rng::new(seed * 2000 + 30 + u as u64);
        let mut pairs: Vec<(i64, i64, &str)> = vec![(0, 0, "equal"), (1, 0, "near"), (0, 1, "near"), (-1, 1, "near"), (NAT, 0, "nat"), (0, NAT, "nat"), (NAT, NAT, "nat")];
        if u == 3 { pairs.push((i64::MAX, NAT + 1, "limits")); pairs.push((NAT + 1, i64::MAX, "limits")) } else {
            let hi = (CR_MAX_DAY + 1) * 86_400 * PER_SEC[u] - 1;
            let lo = CR_MIN_DAY * 86_400 * PER_SEC[u];
            pairs.push((hi, lo, "limits")); pairs.push((lo, hi, "limits")); pairs.push((hi + 1, 0, "outside"));
        }
        for _ in 0..(if thorough { 250 } else { 40 }) {
            let a = dt_1678_2262(&mut r, u);
            pairs.push((a, dt_1678_2262(&mut r, u), "y1678_2262"));
            pairs.push((a, a + mag_i64(&mut r) % 100_000, "near"));
            pairs.push((dt_values(&mut r, u, 1)[7].0, dt_values(&mut r, u, 1)[8].0, "eom_pre1970"));
        }
        for (a, b, class) in pairs {
            em.case("exact", &format!("fn=r17_ab unit={} class={} order={}", uname(u), class, if a < b { "lt" } else if a == b { "eq" } else { "gt" }),
                &format!("a = DateTime<{}>({}), b = ({}): a - b, then b + (a - b)", uname(u), a, b),
                || format!("(r17_ab {} {} {})", uname(u), z(a), z(b)), || {
                with_unit!(u, U => {
                    prime(b, u); prime(a, u); let (da, db) = (DateTime::<U>::new(a), DateTime::<U>::new(b));
                    g(|| da - db, |d| { let mut c = td_cells(&d); c.extend(gi(|| (db + d).into_i64())); c })
                })
            });
        }
    }

    // ---- 4. duration algebra --------------------------------------------------------------------------------
    {
        let mut r = Rng::new(seed * 2000 + 4);
        let n = if thorough { 1500 } else { 250 };
        for i in 0..n {
            let mut mk = |r: &mut Rng| -> (i32, i128) {
                match r.below(8) {
                    0 => (0, 0),
                    1 => (r.range(-1200, 1200) as i32, 0),
                    2 => (0, mag_i64(r) as i128),
                    3 => { let m = (r.next() % 1024) as u32; let (_, mo, ns) = td_from_mask(r, m, 0); (mo, ns) }
                    4 => (r.range(-1200, 1200) as i32, mag_i64(r) as i128 / 1000),
                    // near the limits of i32 months / chrono's Duration range (overflow must panic, never wrap)
                    5 => (if r.chance(1, 2) { i32::MAX - r.range(0, 3) as i32 } else { i32::MIN + 1 + r.range(0, 3) as i32 }, r.range(-5, 5) as i128),
                    6 => (r.range(-3, 3) as i32, if r.chance(1, 2) { DUR_MAX_NS - r.range(0, 3) as i128 } else { -DUR_MAX_NS + r.range(0, 3) as i128 }),
                    _ => (r.range(-1200, 1200) as i32, r.range(-1_000_000, 1_000_000) as i128 * 1_000_000_007),
                }
            };
            let (a, b, c) = (mk(&mut r), mk(&mut r), mk(&mut r));
            let k: i32 = match i % 6 { 0 => 0, 1 => 1, 2 => -1, 3 => r.range(-1200, 1200) as i32, 4 => r.range(-40, 40) as i32, _ => mag_i64(&mut r) as i32 };
            let big = |v: (i32, i128)| v.0.unsigned_abs() > 1_000_000 || v.1.abs() > (1i128 << 62);
            let tags = format!("fn=r17_alg months={} k={} range={}", a.0 != 0 || b.0 != 0, if k == 0 { "zero" } else if k.abs() <= 1200 { "small" } else { "big" },
                if big(a) || big(b) || big(c) { "limit" } else { "normal" });
            em.case("exact", &tags, &format!("a=TimeDelta{{{},{}}} b={{{},{}}} c={{{},{}}} k={}: a+b b+a (a+b)+c a+(b+c) a+-a a+0 --a a-b a+-b k(a+b) ka+kb ka", a.0, a.1, b.0, b.1, c.0, c.1, k),
                || format!("(r17_alg {} {} {} {})", td_coq(a.0, a.1), td_coq(b.0, b.1), td_coq(c.0, c.1), coq_z(k as i128)), || {
                let (ta, tb, tc) = (td(a.0, a.1), td(b.0, b.1), td(c.0, c.1));
                let zero = td(0, 0);
                let mut cells = vec![];
                cells.extend(gtd(|| ta + tb));
                cells.extend(gtd(|| tb + ta));
                cells.extend(gtd(|| (ta + tb) + tc));
                cells.extend(gtd(|| ta + (tb + tc)));
                cells.extend(gtd(|| ta + (-ta)));
                cells.extend(gtd(|| ta + zero));
                cells.extend(gtd(|| -(-ta)));
                cells.extend(gtd(|| ta - tb));
                cells.extend(gtd(|| ta + (-tb)));
                cells.extend(gtd(|| (ta + tb) * k));
                cells.extend(gtd(|| ta * k + tb * k));
                cells.extend(gtd(|| ta * k));
                cells
            });
        }
        // division (documented as "may not as expected"; modelled as written)
        for _ in 0..(if thorough { 300 } else { 60 }) {
            let a = (if r.chance(1, 2) { 0 } else { r.range(-50, 50) as i32 }, mag_i64(&mut r) as i128 / 8);
            let b = (if r.chance(1, 2) { 0 } else { r.range(-50, 50) as i32 }, if r.chance(1, 8) { 0 } else { r.range(-5_000_000_000_000, 5_000_000_000_000) as i128 });
            em.case("exact", &format!("fn=tddiv months={}", a.0 != 0 && b.0 != 0), &format!("TimeDelta{{{},{}}} / TimeDelta{{{},{}}}", a.0, a.1, b.0, b.1),
                || format!("(r_tddiv {} {})", td_coq(a.0, a.1), td_coq(b.0, b.1)), || gi(|| (td(a.0, a.1) / td(b.0, b.1)) as i64));
        }
    }

    // ---- 5. month arithmetic = calendar arithmetic with end-of-month clamping ---------------------------
    for u in 0..4 {
        let mut r = Rng::new(seed * 2000 + 50 + u as u64);
        let mut cases: Vec<(i64, i32, &str)> = vec![];
        let ps = PER_SEC[u];
        // Jan 31 / Feb 29 / Mar 31 ... of leap and non-leap years x a sweep of month counts
        for (y, m, d) in [(2000, 1, 31), (2000, 2, 29), (1900, 1, 31), (2100, 3, 31), (2023, 5, 31), (2024, 2, 29), (1999, 12, 31), (2023, 8, 30)] {
            let s = NaiveDate::from_ymd_opt(y, m, d).unwrap().and_hms_opt(13, 7, 59).unwrap().and_utc().timestamp();
            let ks: Vec<i32> = if thorough { (-1200..=1200).step_by(if u == 0 { 1 } else { 7 }).collect() } else { (-1200..=1200).step_by(97).chain(-14..=14).collect() };
            for k in ks { cases.push((s * ps + (ps - 1), k, "eom_sweep")) }
        }
        for _ in 0..(if thorough { 400 } else { 60 }) {
            cases.push((eom_secs(&mut r) * ps + r.range(0, ps - 1), r.range(-1200, 1200) as i32, "eom"));
            cases.push((dt_1678_2262(&mut r, u), r.range(-1200, 1200) as i32, "y1678_2262"));
        }
        for (x, k, class) in cases {
            for add in [true, false] {
                if k == 0 { continue }
                let tags = format!("fn=r17_months unit={} class={} op={} ksign={}", uname(u), class, if add { "add" } else { "sub" }, if k < 0 { "neg" } else { "pos" });
                em.case("exact", &tags, &format!("DateTime<{}>({}) {} {} months: result, its y/m/d, time of day", uname(u), x, if add { "+" } else { "-" }, k),
                    || format!("(r17_months {} {} {} {})", uname(u), z(x), coq_z(k as i128), coq_bool(add)), || {
                    with_unit!(u, U => {
                        prime(x, u); let d = DateTime::<U>::new(x);
                        let t = td(k, 0);
                        g(|| if add { d + t } else { d - t }, |y| {
                            // an unrepresentable result is NaT: its fields are None cells, never an unwrap here
                            let sub = if y.is_nat() { None } else { Some(y.into_i64().rem_euclid(ps)) };
                            vec![int(y.into_i64()), opt_int(y.year().map(|v| v as i64)), opt_int(y.month().map(|v| v as i64)),
                                 opt_int(y.day().map(|v| v as i64)),
                                 opt_int(y.time().map(|t| t.num_seconds_from_midnight() as i64)), opt_int(sub)]
                        })
                    })
                });
            }
        }
    }

    // ---- 6. Time of day ---------------------------------------------------------------------------------------
    {
        let mut r = Rng::new(seed * 2000 + 6);
        let mut hms: Vec<(i64, i64, i64)> = vec![];
        for h in [0, 1, 11, 12, 23] { for m in [0, 1, 30, 59] { for s in [0, 1, 59] { hms.push((h, m, s)) } } }
        for _ in 0..(if thorough { 600 } else { 80 }) { hms.push((r.range(0, 23), r.range(0, 59), r.range(0, 59))) }
        for (i, &(h, m, s)) in hms.iter().enumerate() {
            let milli = if i % 5 == 0 { 999 } else { r.range(0, 999) };
            let micro = if i % 5 == 1 { 999_999 } else { r.range(0, 999_999) };
            let nano = if i % 5 == 2 { 999_999_999 } else { r.range(0, 999_999_999) };
            let tg = |k: &str| format!("fn=time_ctor ctor={} inrange=true hour={}", k, h);
            em.case("exact", &tg("hms"), &format!("Time::from_hms({}, {}, {}) -> getters, as_cr, from_cr", h, m, s),
                || format!("(r17_hms {} {} {})", h, m, s), || time_obs(|| Time::from_hms(h, m, s)));
            em.case("exact", &tg("hms_milli"), &format!("Time::from_hms_milli({}, {}, {}, {})", h, m, s, milli),
                || format!("(r17_hms_milli {} {} {} {})", h, m, s, milli), || time_obs(|| Time::from_hms_milli(h, m, s, milli)));
            em.case("exact", &tg("hms_micro"), &format!("Time::from_hms_micro({}, {}, {}, {})", h, m, s, micro),
                || format!("(r17_hms_micro {} {} {} {})", h, m, s, micro), || time_obs(|| Time::from_hms_micro(h, m, s, micro)));
            em.case("exact", &tg("hms_nano"), &format!("Time::from_hms_nano({}, {}, {}, {})", h, m, s, nano),
                || format!("(r17_hms_nano {} {} {} {})", h, m, s, nano), || time_obs(|| Time::from_hms_nano(h, m, s, nano)));
            em.case("exact", &tg("nsm"), &format!("Time::from_num_seconds_from_midnight({}, {})", h * 3600 + m * 60 + s, nano),
                || format!("(r17_nsm {} {})", h * 3600 + m * 60 + s, nano), || time_obs(|| Time::from_num_seconds_from_midnight(h * 3600 + m * 60 + s, nano)));
            // the property itself: components in, the same components out
            em.case("exact", &tg("spec"), &format!("Time::from_hms_nano({}, {}, {}, {}): hour minute second nanosecond = the components", h, m, s, nano),
                || format!("(r17_hms_spec {} {} {} {})", h, m, s, nano), || {
                let t = Time::from_hms_nano(h, m, s, nano);
                vec![int(t.hour() as i64), int(t.minute() as i64), int(t.second() as i64), int(t.nanosecond() as i64)]
            });
            em.case("exact", &tg("spec_milli"), &format!("Time::from_hms_milli({}, {}, {}, {}): components", h, m, s, milli),
                || format!("(r17_hms_spec {} {} {} {})", h, m, s, milli * 1_000_000), || {
                let t = Time::from_hms_milli(h, m, s, milli);
                vec![int(t.hour() as i64), int(t.minute() as i64), int(t.second() as i64), int(t.nanosecond() as i64)]
            });
        }
        // out-of-range components and raw values (negative, >= 24 h, u32 wrap-around, NaT, overflow)
        let mut odd: Vec<(i64, i64, i64, i64)> = vec![(24, 0, 0, 0), (23, 59, 60, 0), (23, 60, 0, 0), (-1, 0, 0, 0), (0, 0, 0, -1), (0, 0, 0, 1_000_000_000),
            (i64::MAX, 0, 0, 0), (0, i64::MAX / 60 + 1, 0, 0), (2_562_047_788, 0, 0, 0), (2_562_047_789, 0, 0, 0), (0, 0, i64::MAX / 1_000_000_000 + 1, 0),
            (0, 0, 0, i64::MAX), (23, 59, 59, 1_999_999_999), (1_193_046, 28, 16, 5)];
        for _ in 0..(if thorough { 100 } else { 20 }) { odd.push((r.range(-30, 30), r.range(-70, 70), r.range(-70, 70), mag_i64(&mut r) / 4)) }
        for (h, m, s, x) in odd {
            em.case("exact", "fn=time_ctor ctor=hms_nano inrange=false", &format!("Time::from_hms_nano({}, {}, {}, {})", h, m, s, x),
                || format!("(r17_hms_nano {} {} {} {})", z(h), z(m), z(s), z(x)), || time_obs(|| Time::from_hms_nano(h, m, s, x)));
            em.case("exact", "fn=time_ctor ctor=hms_milli inrange=false", &format!("Time::from_hms_milli({}, {}, {}, {})", h, m, s, x),
                || format!("(r17_hms_milli {} {} {} {})", z(h), z(m), z(s), z(x)), || time_obs(|| Time::from_hms_milli(h, m, s, x)));
            em.case("exact", "fn=time_ctor ctor=hms_micro inrange=false", &format!("Time::from_hms_micro({}, {}, {}, {})", h, m, s, x),
                || format!("(r17_hms_micro {} {} {} {})", z(h), z(m), z(s), z(x)), || time_obs(|| Time::from_hms_micro(h, m, s, x)));
            em.case("exact", "fn=time_ctor ctor=nsm inrange=false", &format!("Time::from_num_seconds_from_midnight({}, {})", s, x),
                || format!("(r17_nsm {} {})", z(s), z(x)), || time_obs(|| Time::from_num_seconds_from_midnight(s, x)));
        }
        let mut raws: Vec<i64> = vec![0, 1, -1, 86_399_999_999_999, 86_400_000_000_000, 86_400_000_000_001, NAT, NAT + 1, i64::MAX,
            4_294_967_296_000_000_000, 4_294_967_296_000_000_000 + 3_661_000_000_005, -4_294_967_296_000_000_000 + 5, 999_999_999, 1_000_000_000,
            59_999_999_999, 60_000_000_000];
        for _ in 0..(if thorough { 300 } else { 40 }) { raws.push(r.range(0, 86_399_999_999_999)); raws.push(mag_i64(&mut r)) }
        for &t in &raws {
            let inr = (0..86_400_000_000_000).contains(&t);
            em.case("exact", &format!("fn=time_raw inrange={}", inr), &format!("Time({}) getters, as_cr, from_cr", t),
                || format!("(r17_time {})", z(t)), || time_obs(|| Time::from_i64(t)));
            // with_hour / with_minute / with_second / with_nanosecond
            let kind = (t.unsigned_abs() % 4) as i64;
            for v in [0u32, 1, 23, 24, 59, 60, 999_999_999, 1_000_000_000, 1_999_999_999, 2_000_000_000, r.range(0, 70) as u32] {
                em.case("exact", &format!("fn=time_with kind={} inrange={}", kind, inr), &format!("Time({}).with_[{}]({})", t, ["hour", "minute", "second", "nanosecond"][kind as usize], v),
                    || format!("(r17_with {} {} {})", z(t), kind, v), || {
                    let tm = Time::from_i64(t);
                    g(|| match kind { 0 => tm.with_hour(v), 1 => tm.with_minute(v), 2 => tm.with_second(v), _ => tm.with_nanosecond(v) },
                      |o| vec![opt_int(o.map(|x| x.into_i64()))])
                });
            }
        }
        // Time +- d
        let n = if thorough { 1500 } else { 250 };
        for i in 0..n {
            let t = match i % 7 { 0 => 0, 1 => 86_399_999_999_999, 2 => mag_i64(&mut r), 3 => if r.chance(1, 2) { i64::MAX - r.range(0, 5) } else { NAT + 1 + r.range(0, 5) }, _ => r.range(0, 86_399_999_999_999) };
            let (m, ns): (i32, i128) = match i % 9 {
                0 => (0, 0), 1 => (r.range(-3, 3) as i32, 1_000_000_000),
                2 => (0, mag_i64(&mut r) as i128), 3 => (0, i64::MAX as i128 + r.range(0, 2) as i128), 4 => (0, i64::MIN as i128 - r.range(0, 2) as i128),
                5 => (0, DUR_MAX_NS), 6 => { let mk = (r.next() % 256) as u32; let (_, _, ns) = td_from_mask(&mut r, mk, 0); (0, ns) }
                _ => (0, r.range(-86_400_000_000_000, 86_400_000_000_000) as i128),
            };
            let tags = format!("fn=timeop months={} dfits={} tin={}", m != 0, ns >= i64::MIN as i128 && ns <= i64::MAX as i128, (0..86_400_000_000_000).contains(&t));
            em.case("exact", &tags, &format!("Time({}) + and - TimeDelta{{months:{}, ns:{}}}", t, m, ns),
                || format!("(r17_timeop {} {})", z(t), td_coq(m, ns)), || {
                let tm = Time::from_i64(t);
                let d = td(m, ns);
                let mut c = gi(|| (tm + d).into_i64());
                c.extend(gi(|| (tm - d).into_i64()));
                c
            });
        }
    }

    // ---- 7. duration_trunc ---------------------------------------------------------------------------------------
    for u in 0..4 {
        let mut r = Rng::new(seed * 2000 + 70 + u as u64);
        let fixed: Vec<i128> = vec![1, 7, 1_000, 1_000_000, 1_000_000_000, 60_000_000_000, 300_000_000_000, 3_600_000_000_000,
            86_400_000_000_000, 604_800_000_000_000, 1_500_000_000, 999, 123_456_789_012];
        let mut ds: Vec<(i32, i128, &str)> = fixed.iter().map(|&n| (0, n, "fixed")).collect();
        for m in [1, 2, 3, 4, 6, 12] { ds.push((m, 0, "months_div12")) }
        for m in [5, 7, 8, 9, 10, 11, 18, 24, 120] { ds.push((m, 0, "months_other")) }
        ds.extend([(0, 0, "zero"), (0, -1, "negative"), (0, -86_400_000_000_000, "negative"), (-1, 0, "negmonths"), (-3, 5, "negmonths"),
                   (1, 86_400_000_000_000, "both"), (3, 3_600_000_000_000, "both"), (12, -1, "both"), (0, i64::MAX as i128 + 1, "huge"), (1, i64::MAX as i128 + 1, "huge")]);
        for _ in 0..(if thorough { 30 } else { 5 }) { ds.push((0, r.range(1, 4_000_000_000_000_000) as i128, "fixed_random")) }
        let nx = if thorough { 12 } else { 2 };
        for &(m, ns, dclass) in &ds {
            let mut xs = dt_values(&mut r, u, nx);
            if u != 3 {
                xs.push(((CR_MAX_DAY - 5) * 86_400 * PER_SEC[u], "beyond_ns")); xs.push((-9_300_000_000 * PER_SEC[u], "beyond_ns"));
                // years <= 0 (the `year_ce` before-common-era arm of the month truncation): 0000-02-15, -0003-11-30, 0001-01-01
                xs.push(((-62_167_219_200 + 45 * 86_400 + 3_723) * PER_SEC[u], "bce"));
                xs.push(((-62_167_219_200 - 3 * 365 * 86_400 + 333 * 86_400 + 86_399) * PER_SEC[u] + PER_SEC[u] - 1, "bce"));
                xs.push(((-62_167_219_200 + 366 * 86_400) * PER_SEC[u], "bce"));
            }
            xs.push((if u == 3 { NAT + 1 } else { -9_223_372_036 * PER_SEC[u] }, "nslimit"));
            for (x, xclass) in xs {
                let tags = format!("fn=r17_trunc unit={} d={} x={} sign={}", uname(u), dclass, xclass, if x < 0 { "pre1970" } else { "post1970" });
                em.case("exact", &tags, &format!("DateTime<{}>({}).duration_trunc(TimeDelta{{months:{}, ns:{}}})", uname(u), x, m, ns),
                    || format!("(r17_trunc {} {} {})", uname(u), z(x), td_coq(m, ns)), || {
                    with_unit!(u, U => {
                        prime(x, u); let d = DateTime::<U>::new(x);
                        let t = td(m, ns);
                        let c = gi(|| d.duration_trunc(t).into_i64());
                        let mut cc = c.clone();
                        cc.extend(c);
                        cc
                    })
                });
            }
        }
    }
    // ---- 8. extension X27: with_* observed / chained / commuting, (k * d) / d, division, scaling laws, PartialOrd -------
    {
        let mut r = Rng::new(seed * 2000 + 8);
        let kinds = ["hour", "minute", "second", "nanosecond"];
        let with = |tm: Time, kind: i64, v: u32| match kind { 0 => tm.with_hour(v), 1 => tm.with_minute(v), 2 => tm.with_second(v), _ => tm.with_nanosecond(v) };
        // (a) with_* on times of day (and a few invalid receivers): the result and what its getters report
        let mut ts: Vec<i64> = vec![0, 1, 999_999_999, 1_000_000_000, 59_999_999_999, 3_599_999_999_999, 3_600_000_000_000, 45_296_000_000_007,
            86_398_999_999_999, 86_399_000_000_000, 86_399_999_999_999, 86_400_000_000_000, -1, -1_000_000_000, NAT, i64::MAX,
            4_294_967_296_000_000_000 + 3_661_000_000_005, -4_294_880_896_000_000_000, -4_294_880_896_000_000_001, -4_294_967_296_000_000_000 + 5];
        for _ in 0..(if thorough { 400 } else { 60 }) { ts.push(r.range(0, 86_399_999_999_999)) }
        for &t in &ts {
            let inr = (0..86_400_000_000_000).contains(&t);
            for kind in 0..4i64 {
                let lim: u32 = [24, 60, 60, 1_000_000_000][kind as usize];
                let mut vs: Vec<u32> = vec![0, lim - 1, lim, r.range(0, lim as i64 - 1) as u32, r.range(0, lim as i64 - 1) as u32];
                if kind == 3 { vs.extend([1_000_000_000, 1_500_000_000, 1_999_999_999, 2_000_000_000, u32::MAX]) } else { vs.push(u32::MAX) }
                for v in vs {
                    let class = if v < lim { "valid" } else if kind == 3 && v < 2_000_000_000 { "leap" } else { "out" };
                    em.case("exact", &format!("fn=with_obs kind={} inrange={} v={}", kinds[kind as usize], inr, class),
                        &format!("Time({}).with_{}({}) -> value, hour minute second nanosecond of the result", t, kinds[kind as usize], v),
                        || format!("(r17_with_obs {} {} {})", z(t), kind, v), || {
                        g(|| with(Time::from_i64(t), kind, v), |o| match o {
                            None => vec![Cell::Null],
                            Some(x) => {
                                let mut c = vec![int(x.into_i64())];
                                c.extend(gi(|| x.hour() as i64));
                                c.extend(gi(|| x.minute() as i64));
                                c.extend(gi(|| x.second() as i64));
                                c.extend(gi(|| x.nanosecond() as i64));
                                c
                            }
                        })
                    });
                }
            }
            // two setters in both orders (commutation; same kind twice = the last one wins on one side, the first on the other)
            if inr {
                for _ in 0..2 {
                    let (k1, k2) = (r.range(0, 3), r.range(0, 3));
                    let lim = |k: i64| [24i64, 60, 60, 1_000_000_000][k as usize];
                    let (v1, v2) = (r.range(0, lim(k1) - 1) as u32, if r.chance(1, 6) { lim(k2) as u32 } else { r.range(0, lim(k2) - 1) as u32 });
                    em.case("exact", &format!("fn=with_pair k1={} k2={} same={}", kinds[k1 as usize], kinds[k2 as usize], k1 == k2),
                        &format!("Time({}): with_{}({}) then with_{}({}), and the other order", t, kinds[k1 as usize], v1, kinds[k2 as usize], v2),
                        || format!("(r17_with_pair {} {} {} {} {})", z(t), k1, v1, k2, v2), || {
                        let tm = Time::from_i64(t);
                        let mut c = g(|| with(tm, k1, v1).and_then(|x| with(x, k2, v2)), |o| vec![opt_int(o.map(|x| x.into_i64()))]);
                        c.extend(g(|| with(tm, k2, v2).and_then(|x| with(x, k1, v1)), |o| vec![opt_int(o.map(|x| x.into_i64()))]));
                        c
                    });
                }
            }
        }
        // (b) the four setters from midnight = from_hms_nano (spec cell), invalid components = None
        let mut comps: Vec<(u32, u32, u32, u32)> = vec![(0, 0, 0, 0), (23, 59, 59, 999_999_999), (24, 0, 0, 0), (0, 60, 0, 0), (0, 0, 60, 0), (0, 0, 0, 2_000_000_000),
            (0, 0, 0, 1_000_000_000), (23, 59, 59, 1_999_999_999), (12, 34, 56, 789)];
        for _ in 0..(if thorough { 600 } else { 100 }) { comps.push((r.range(0, 23) as u32, r.range(0, 59) as u32, r.range(0, 59) as u32, r.range(0, 999_999_999) as u32)) }
        for (h, m, s_, n) in comps {
            let valid = h < 24 && m < 60 && s_ < 60 && n < 1_000_000_000;
            em.case("exact", &format!("fn=with_chain valid={}", valid),
                &format!("Time(0).with_hour({}).with_minute({}).with_second({}).with_nanosecond({}) vs Time::from_hms_nano", h, m, s_, n),
                || format!("(r17_with_chain {} {} {} {})", h, m, s_, n), || {
                let c = g(|| Time::from_i64(0).with_hour(h).and_then(|x| x.with_minute(m)).and_then(|x| x.with_second(s_)).and_then(|x| x.with_nanosecond(n)),
                          |o| vec![opt_int(o.map(|x| x.into_i64()))]);
                let mut cc = c.clone();
                cc.extend(c);
                cc
            });
        }
        // (c) (d * k) / d  (spec cell k), d with and without months, k over the i32 range
        let n = if thorough { 1500 } else { 300 };
        for i in 0..n {
            let m: i32 = match i % 4 { 0 | 1 => 0, 2 => r.range(-50, 50) as i32, _ => r.range(-1200, 1200) as i32 };
            let ns: i128 = match i % 7 {
                0 => r.range(-5, 5) as i128, 1 => mag_i64(&mut r) as i128, 2 => { let mk = (r.next() % 256) as u32; td_from_mask(&mut r, mk, 0).2 }
                3 => r.range(-5_000_000_000_000, 5_000_000_000_000) as i128, 4 => if r.chance(1, 2) { 1 } else { -1 },
                5 => mag_i64(&mut r) as i128 / 1_000_000, _ => r.range(1, 86_400) as i128 * 1_000_000_000,
            };
            let k: i32 = match i % 6 { 0 => 0, 1 => 1, 2 => -1, 3 => r.range(-1200, 1200) as i32, 4 => mag_i64(&mut r) as i32, _ => if r.chance(1, 2) { i32::MAX - r.range(0, 2) as i32 } else { i32::MIN + r.range(0, 2) as i32 } };
            let fits = ns.checked_mul(k as i128).map_or(false, |p| p >= i64::MIN as i128 && p <= i64::MAX as i128);
            em.case("exact", &format!("fn=muldiv months={} zero_ns={} k={} fits={}", m != 0, ns == 0, if k == 0 { "zero" } else if k.unsigned_abs() <= 1200 { "small" } else { "big" }, fits),
                &format!("d = TimeDelta{{{},{}}}, k = {}: d * k, then (d * k) / d", m, ns, k),
                || format!("(r17_muldiv {} {})", td_coq(m, ns), coq_z(k as i128)), || {
                let d = td(m, ns);
                g(|| d * k, |kd| { let mut c = td_cells(&kd); c.extend(gi(|| (kd / d) as i64)); c })
            });
        }
        // (d) a / b on month-free operands (spec cell: truncated quotient), and every failure mode of the division
        let mut divs: Vec<((i32, i128), (i32, i128), &str)> = vec![
            ((i32::MIN, 0), (0, 1), "nat"), ((0, 1), (i32::MIN, 0), "nat"), ((i32::MIN, 5), (i32::MIN, 7), "nat"),
            ((0, 5), (0, 0), "zero"), ((2, 0), (1, 0), "zero"), ((0, 0), (0, 0), "zero"), ((3, 7), (3, 0), "zero"), ((0, i64::MAX as i128 + 1), (0, 0), "huge"),
            ((0, i64::MIN as i128), (0, -1), "min_neg1"), ((1, i64::MIN as i128), (1, -1), "min_neg1"), ((0, i64::MIN as i128), (0, 1), "limits"), ((0, i64::MAX as i128), (0, -1), "limits"),
            ((0, i64::MAX as i128 + 1), (0, 1), "huge"), ((0, 1), (0, i64::MIN as i128 - 1), "huge"), ((0, DUR_MAX_NS), (0, -DUR_MAX_NS), "huge"),
            ((0, 4_294_967_296), (0, 1), "wrap"), ((0, 2_147_483_648), (0, 1), "wrap"), ((0, -2_147_483_649), (0, 1), "wrap"), ((0, 2_147_483_647), (0, 1), "limits"), ((0, -2_147_483_648), (0, 1), "limits"),
            ((4, 10), (2, 3), "months_mismatch"), ((4, 10), (2, 5), "months"), ((-6, -15), (2, 5), "months"), ((5, 4_294_967_298), (2, 1), "months_wrap"), ((7, 7), (7, 7), "months")];
        for _ in 0..(if thorough { 600 } else { 120 }) {
            let a = mag_i64(&mut r) as i128;
            let b = match r.below(4) { 0 => r.range(-9, 9) as i128, 1 => mag_i64(&mut r) as i128, 2 => a / (r.range(1, 40) as i128), _ => r.range(-5_000_000_000_000, 5_000_000_000_000) as i128 };
            divs.push(((0, a), (0, b), "monthfree"));
        }
        for (a, b, class) in divs {
            em.case("exact", &format!("fn=div class={} sign={}", class, if (a.1 < 0) != (b.1 < 0) { "opposite" } else { "same" }),
                &format!("TimeDelta{{{},{}}} / TimeDelta{{{},{}}}", a.0, a.1, b.0, b.1),
                || format!("(r17_div {} {})", td_coq(a.0, a.1), td_coq(b.0, b.1)), || {
                let c = gi(|| (td(a.0, a.1) / td(b.0, b.1)) as i64);
                let mut cc = c.clone();
                cc.extend(c);
                cc
            });
        }
        // (e) scaling laws: (j+k)d, jd+kd, (jk)d, j(kd), (-1)d, -d, 0d, 1d  — also for NaT d (NaT * 0 must stay NaT)
        let n = if thorough { 1500 } else { 300 };
        for i in 0..n {
            let (m, ns): (i32, i128) = match i % 8 {
                0 => (i32::MIN, [0i128, 5, -7][r.below(3)]), 1 => (0, 0), 2 => (r.range(-1200, 1200) as i32, 0), 3 => (0, mag_i64(&mut r) as i128),
                4 => (if r.chance(1, 2) { i32::MAX - r.range(0, 3) as i32 } else { i32::MIN + 1 + r.range(0, 3) as i32 }, r.range(-5, 5) as i128),
                5 => (r.range(-3, 3) as i32, if r.chance(1, 2) { DUR_MAX_NS - r.range(0, 3) as i128 } else { -DUR_MAX_NS + r.range(0, 3) as i128 }),
                6 => { let mk = (r.next() % 1024) as u32; let (_, mo, ns) = td_from_mask(&mut r, mk, 0); (mo, ns) }
                _ => (r.range(-1200, 1200) as i32, r.range(-1_000_000, 1_000_000) as i128 * 1_000_000_007),
            };
            let (j, k): (i32, i32) = loop {
                let pick = |r: &mut Rng| -> i32 { match r.below(6) { 0 => 0, 1 => 1, 2 => -1, 3 => r.range(-40, 40) as i32, 4 => r.range(-46_000, 46_000) as i32, _ => mag_i64(r) as i32 } };
                let (j, k) = (pick(&mut r), pick(&mut r));
                if j.checked_add(k).is_some() && j.checked_mul(k).is_some() { break (j, k) }
            };
            em.case("exact", &format!("fn=scale nat={} months={} j0={} k0={}", m == i32::MIN, m != 0, j == 0, k == 0),
                &format!("d = TimeDelta{{{},{}}}, j = {}, k = {}: (j+k)d jd+kd (jk)d j(kd) (-1)d -d 0d 1d", m, ns, j, k),
                || format!("(r17_scale {} {} {})", td_coq(m, ns), coq_z(j as i128), coq_z(k as i128)), || {
                let d = td(m, ns);
                let mut c = vec![];
                c.extend(gtd(|| d * (j + k)));
                c.extend(gtd(|| d * j + d * k));
                c.extend(gtd(|| d * (j * k)));
                c.extend(gtd(|| (d * k) * j));
                c.extend(gtd(|| d * -1));
                c.extend(gtd(|| -d));
                c.extend(gtd(|| d * 0));
                c.extend(gtd(|| d * 1));
                c
            });
        }
        // (f) PartialOrd::partial_cmp both ways; From<Option<i64>>
        let n = if thorough { 800 } else { 160 };
        for i in 0..n {
            let mk = |r: &mut Rng| -> (i32, i128) { match r.below(6) { 0 => (i32::MIN, r.range(-2, 2) as i128), 1 => (0, 0), 2 => (r.range(-3, 3) as i32, r.range(-3, 3) as i128),
                3 => (0, mag_i64(r) as i128), 4 => (r.range(-1200, 1200) as i32, mag_i64(r) as i128), _ => (i32::MIN + 1, -DUR_MAX_NS) } };
            let a = mk(&mut r);
            let b = if i % 5 == 0 { a } else { mk(&mut r) };
            em.case("exact", &format!("fn=cmp nat_l={} nat_r={} same_months={}", a.0 == i32::MIN, b.0 == i32::MIN, a.0 == b.0),
                &format!("TimeDelta{{{},{}}}.partial_cmp(TimeDelta{{{},{}}}) and the reverse", a.0, a.1, b.0, b.1),
                || format!("(r17_cmp {} {})", td_coq(a.0, a.1), td_coq(b.0, b.1)), || {
                let (ta, tb) = (td(a.0, a.1), td(b.0, b.1));
                let enc = |o: Option<std::cmp::Ordering>| vec![opt_int(o.map(|c| c as i64))];
                let mut c = g(|| ta.partial_cmp(&tb), enc);
                c.extend(g(|| tb.partial_cmp(&ta), enc));
                c
            });
        }
        for o in [None, Some(0i64), Some(1), Some(-1), Some(NAT), Some(NAT + 1), Some(i64::MAX), Some(86_399_999_999_999)] {
            em.case("exact", &format!("fn=from_opt some={}", o.is_some()), &format!("Time::from({:?}), is_nat, TimeDelta::from({:?})", o, o),
                || format!("(r17_from_opt {})", coq_opt(&o, |v| z(*v))), || {
                let t: Time = o.into();
                let mut c = vec![int(t.into_i64()), boolc(t.is_nat())];
                c.extend(gtd(|| TimeDelta::from(o)));
                c
            });
        }
    }

    // ---- 9. audit (notes/C17.md "Audit matrix"): lines no case reached + the laws the audit added -----------------------
    {
        let mut r = Rng::new(seed * 2000 + 9);
        // (a) NaT.duration_trunc(d) returns NaT for every d (datetime.rs `return self`), and duration_trunc twice
        for u in 0..4 {
            let ds: Vec<(i32, i128)> = vec![(0, 1), (0, 1_000), (0, 1_000_000_000), (0, 3_600_000_000_000), (0, 86_400_000_000_000), (0, 1_500_000_000),
                (0, 0), (0, -5), (1, 0), (3, 0), (12, 0), (5, 0), (-1, 0), (i32::MIN, 0), (1, 3_600_000_000_000), (0, 7 * PER_SEC[3 - u.min(3)] as i128)];
            for &(m, ns) in &ds {
                let mut xs = vec![(NAT, "nat")];
                for (x, c) in dt_values(&mut r, u, if thorough { 6 } else { 1 }) { xs.push((x, c)); }
                for (x, xclass) in xs {
                    em.case("exact", &format!("fn=r17_trunc2 unit={} x={} months={} fixed={}", uname(u), xclass, m != 0, ns != 0),
                        &format!("DateTime<{}>({}).duration_trunc(d).duration_trunc(d), d = TimeDelta{{months:{}, ns:{}}}", uname(u), x, m, ns),
                        || format!("(r17_trunc2 {} {} {})", uname(u), z(x), td_coq(m, ns)), || {
                        with_unit!(u, U => {
                            prime(x, u); let d = DateTime::<U>::new(x); let t = td(m, ns);
                            g(|| d.duration_trunc(t), |y| { let mut c = vec![int(y.into_i64())]; c.extend(gi(|| y.duration_trunc(t).into_i64())); c })
                        })
                    });
                }
            }
        }
        // (b) a - b then a - (a - b) = b
        for u in 0..4 {
            let mut pairs: Vec<(i64, i64, &str)> = vec![(0, 0, "equal"), (1, 0, "near"), (0, 1, "near"), (NAT, 0, "nat"), (0, NAT, "nat")];
            for _ in 0..(if thorough { 200 } else { 30 }) {
                let a = dt_1678_2262(&mut r, u);
                pairs.push((a, dt_1678_2262(&mut r, u), "y1678_2262"));
                pairs.push((a, a + mag_i64(&mut r) % 100_000, "near"));
            }
            for (a, b, class) in pairs {
                em.case("exact", &format!("fn=r17_ab2 unit={} class={}", uname(u), class),
                    &format!("a = DateTime<{}>({}), b = ({}): a - b, then a - (a - b)", uname(u), a, b),
                    || format!("(r17_ab2 {} {} {})", uname(u), z(a), z(b)), || {
                    with_unit!(u, U => {
                        prime(b, u); prime(a, u); let (da, db) = (DateTime::<U>::new(a), DateTime::<U>::new(b));
                        g(|| da - db, |d| { let mut c = td_cells(&d); c.extend(gi(|| (da - d).into_i64())); c })
                    })
                });
            }
        }
        // (c) TimeDelta + - * neg with NaT operands (impl_ops.rs Sub: `TimeDelta::nat()`), both NaT encodings, and at the limits
        {
            let specials: Vec<(i32, i128)> = vec![(i32::MIN, 0), (i32::MIN, 5), (0, 0), (1, 0), (-1, 7), (i32::MAX, 0), (i32::MIN + 1, 0), (0, DUR_MAX_NS), (0, -DUR_MAX_NS), (1200, 86_400_000_000_000)];
            for &a in &specials { for &b in &specials {
                let k = [0, 1, -1, 2, 1200][(r.next() % 5) as usize] as i32;
                em.case("exact", &format!("fn=r17_tdops nat_l={} nat_r={}", a.0 == i32::MIN, b.0 == i32::MIN),
                    &format!("a=TimeDelta{{{},{}}} b={{{},{}}} k={}: a+b a-b a*k -a", a.0, a.1, b.0, b.1, k),
                    || format!("(r17_tdops {} {} {})", td_coq(a.0, a.1), td_coq(b.0, b.1), coq_z(k as i128)), || {
                    let (ta, tb) = (td(a.0, a.1), td(b.0, b.1));
                    let mut c = gtd(|| ta + tb); c.extend(gtd(|| ta - tb)); c.extend(gtd(|| ta * k)); c.extend(gtd(|| -ta)); c
                });
            } }
        }
        // (d) months + fixed part in one operator vs two operators; x - d vs x + (-d); x + k months - k months
        for u in 0..4 {
            for _ in 0..(if thorough { 150 } else { 25 }) {
                for (x, xclass) in dt_values(&mut r, u, 1).into_iter().skip(3) {
                    let k = match r.below(4) { 0 => 1, 1 => -1, 2 => r.range(-1200, 1200) as i32, _ => r.range(-14, 14) as i32 };
                    let n: i128 = match r.below(4) { 0 => 0, 1 => r.range(-5, 5) as i128, 2 => mag_i64(&mut r) as i128 / 1000, _ => r.range(-100_000, 100_000) as i128 * PER_SEC[3 - u] as i128 };
                    em.case("exact", &format!("fn=r17_mixed unit={} x={} kzero={} nzero={}", uname(u), xclass, k == 0, n == 0),
                        &format!("DateTime<{}>({}) + TimeDelta{{{},{}}} vs (+ {} months) then (+ {} ns)", uname(u), x, k, n, k, n),
                        || format!("(r17_mixed {} {} {})", uname(u), z(x), td_coq(k, n)), || {
                        with_unit!(u, U => {
                            prime(x, u); let d = DateTime::<U>::new(x);
                            let mut c = gi(|| (d + td(k, n)).into_i64());
                            c.extend(gi(|| ((d + td(k, 0)) + td(0, n)).into_i64())); c
                        })
                    });
                    em.case("exact", &format!("fn=r17_subneg unit={} x={} kzero={}", uname(u), xclass, k == 0),
                        &format!("DateTime<{}>({}) - TimeDelta{{{},{}}} vs + (-d)", uname(u), x, k, n),
                        || format!("(r17_subneg {} {} {})", uname(u), z(x), td_coq(k, n)), || {
                        with_unit!(u, U => {
                            prime(x, u); let d = DateTime::<U>::new(x);
                            let mut c = gi(|| (d - td(k, n)).into_i64());
                            c.extend(gi(|| (d + (-td(k, n))).into_i64())); c
                        })
                    });
                    em.case("exact", &format!("fn=r17_month_rt unit={} x={} kzero={}", uname(u), xclass, k == 0),
                        &format!("DateTime<{}>({}) + {} months - {} months", uname(u), x, k, k),
                        || format!("(r17_month_rt {} {} {})", uname(u), z(x), coq_z(k as i128)), || {
                        with_unit!(u, U => {
                            prime(x, u); let d = DateTime::<U>::new(x);
                            let mut c = gi(|| (d + td(k, 0)).into_i64());
                            c.extend(gi(|| ((d + td(k, 0)) - td(k, 0)).into_i64())); c
                        })
                    });
                }
            }
        }
        // (e) Time - d then + d
        for i in 0..(if thorough { 400 } else { 80 }) {
            let t: i64 = match i % 5 { 0 => r.range(0, 86_399_999_999_999), 1 => NAT, 2 => mag_i64(&mut r), 3 => NAT + 1 + r.range(0, 5), _ => i64::MAX - r.range(0, 5) };
            let ns: i128 = match r.below(4) { 0 => r.range(-10, 10) as i128, 1 => mag_i64(&mut r) as i128, 2 => i64::MAX as i128 + r.range(0, 3) as i128, _ => r.range(-86_400_000_000_000, 86_400_000_000_000) as i128 };
            em.case("exact", &format!("fn=r17_time_rt nat={} big={}", t == NAT, ns.abs() > i64::MAX as i128),
                &format!("Time({}) - {} ns, then + {} ns", t, ns, ns),
                || format!("(r17_time_rt {} {})", z(t), coq_z(ns)), || {
                let tt = Time::from_i64(t);
                let mut c = gi(|| (tt - td(0, ns)).into_i64());
                c.extend(gi(|| ((tt - td(0, ns)) + td(0, ns)).into_i64())); c
            });
        }
    }
    em.finish();
}
