//! C04: rolling covariance / correlation / regressions (binary.rs, reg.rs) vs the model (float instance).
//! 8 two-series entry points + 5 time-trend entry points, Vec / VecDeque backends, returned and
//! caller-buffer paths, f64 / Option<f64> / i32 elements, independent null patterns.
use std::collections::VecDeque;

use tevec::prelude::{RollingValidBinary, RollingValidReg, RollingValidRegBinary, Vec1};
use vh::*;

const FN2: [&str; 8] = [
    "ts_vcov", "ts_vcorr", "ts_vregx_alpha", "ts_vregx_beta", "ts_vregx_all",
    "ts_vregx_resid_mean", "ts_vregx_resid_std", "ts_vregx_resid_skew",
];
const FN1: [&str; 5] = ["ts_vreg", "ts_vtsf", "ts_vreg_slope", "ts_vreg_intercept", "ts_vreg_resid_mean"];
const SENT: f64 = -7.77e77;

/// scalar two-series entry points (every code but 4 = ts_vregx_all)
macro_rules! call2 {
    ($fn:expr, $a:expr, $b:expr, $w:expr, $mp:expr, $O:ty) => {{
        let r: $O = match $fn {
            0 => $a.ts_vcov($b, $w, $mp),
            1 => $a.ts_vcorr($b, $w, $mp),
            2 => $a.ts_vregx_alpha($b, $w, $mp),
            3 => $a.ts_vregx_beta($b, $w, $mp),
            5 => $a.ts_vregx_resid_mean($b, $w, $mp),
            6 => $a.ts_vregx_resid_std($b, $w, $mp),
            _ => $a.ts_vregx_resid_skew($b, $w, $mp),
        };
        r
    }};
}
/// caller-buffer path, buffer pre-filled with a sentinel
macro_rules! call2_to {
    ($fn:expr, $a:expr, $b:expr, $w:expr, $mp:expr) => {{
        let len = tevec::prelude::GetLen::len(&$a);
        let mut u: Vec<std::mem::MaybeUninit<f64>> = (0..len).map(|_| std::mem::MaybeUninit::new(SENT)).collect();
        {
            let o = Some(Vec::<f64>::uninit_ref_mut(&mut u));
            let _: Option<Vec<f64>> = match $fn {
                0 => $a.ts_vcov_to($b, $w, $mp, o),
                1 => $a.ts_vcorr_to($b, $w, $mp, o),
                2 => $a.ts_vregx_alpha_to($b, $w, $mp, o),
                3 => $a.ts_vregx_beta_to($b, $w, $mp, o),
                5 => $a.ts_vregx_resid_mean_to($b, $w, $mp, o),
                6 => $a.ts_vregx_resid_std_to($b, $w, $mp, o),
                _ => $a.ts_vregx_resid_skew_to($b, $w, $mp, o),
            };
        }
        let o: Vec<f64> = u.into_iter().map(|x| unsafe { x.assume_init() }).collect();
        o
    }};
}
macro_rules! call1 {
    ($fn:expr, $a:expr, $w:expr, $mp:expr, $O:ty) => {{
        let r: $O = match $fn {
            8 => $a.ts_vreg($w, $mp),
            9 => $a.ts_vtsf($w, $mp),
            10 => $a.ts_vreg_slope($w, $mp),
            11 => $a.ts_vreg_intercept($w, $mp),
            _ => $a.ts_vreg_resid_mean($w, $mp),
        };
        r
    }};
}
macro_rules! call1_to {
    ($fn:expr, $a:expr, $w:expr, $mp:expr) => {{
        let len = tevec::prelude::GetLen::len(&$a);
        let mut u: Vec<std::mem::MaybeUninit<f64>> = (0..len).map(|_| std::mem::MaybeUninit::new(SENT)).collect();
        {
            let o = Some(Vec::<f64>::uninit_ref_mut(&mut u));
            let _: Option<Vec<f64>> = match $fn {
                8 => $a.ts_vreg_to($w, $mp, o),
                9 => $a.ts_vtsf_to($w, $mp, o),
                10 => $a.ts_vreg_slope_to($w, $mp, o),
                11 => $a.ts_vreg_intercept_to($w, $mp, o),
                _ => $a.ts_vreg_resid_mean_to($w, $mp, o),
            };
        }
        let o: Vec<f64> = u.into_iter().map(|x| unsafe { x.assume_init() }).collect();
        o
    }};
}

fn out_cells(r: Result<Vec<f64>, u8>) -> Vec<Cell> {
    match r {
        Ok(v) => v.iter().map(|x| if *x == SENT { Cell::Uninit } else { Cell::F(*x) }).collect(),
        Err(k) => vec![Cell::Panic(k)],
    }
}
fn out_cells_opt(r: Result<Vec<Option<f64>>, u8>) -> Vec<Cell> {
    match r {
        Ok(v) => cells_optf64(&v),
        Err(k) => vec![Cell::Panic(k)],
    }
}
fn out_cells_f32(r: Result<Vec<f32>, u8>) -> Vec<Cell> {
    match r {
        Ok(v) => cells_f32(&v),
        Err(k) => vec![Cell::Panic(k)],
    }
}
fn out_cells3(r: Result<Vec<(f64, f64, f64)>, u8>) -> Vec<Cell> {
    match r {
        Ok(v) => v.iter().flat_map(|t| [Cell::F(t.0), Cell::F(t.1), Cell::F(t.2)]).collect(),
        Err(k) => vec![Cell::Panic(k)],
    }
}
fn out_cells3_opt(r: Result<Vec<(Option<f64>, Option<f64>, Option<f64>)>, u8>) -> Vec<Cell> {
    let c = |x: Option<f64>| match x { Some(v) if v.is_nan() => Cell::Err, Some(v) => Cell::F(v), None => Cell::Null };   // Some(NaN) is not a null (DESIGN 5.4)
    match r {
        Ok(v) => v.iter().flat_map(|t| [c(t.0), c(t.1), c(t.2)]).collect(),
        Err(k) => vec![Cell::Panic(k)],
    }
}

/// like vh::guarded, but keeps the panic message: the audit corner cases compare WHICH check of the code fired
/// (0 = none, 1 = the window assertion, 2 = the length assertion of the index bodies, 9 = anything else)
fn guarded_id<R>(f: impl FnOnce() -> R + std::panic::UnwindSafe) -> (Result<R, u8>, Cell) {
    use std::sync::Mutex;
    static LAST: Mutex<String> = Mutex::new(String::new());
    std::panic::set_hook(Box::new(|info| {
        let mut s = String::new();
        if let Some(m) = info.payload().downcast_ref::<&str>() {
            s.push_str(m)
        } else if let Some(m) = info.payload().downcast_ref::<String>() {
            s.push_str(m)
        }
        *LAST.lock().unwrap() = s;
    }));
    let r = std::panic::catch_unwind(f);
    let _ = std::panic::take_hook();
    match r {
        Ok(v) => (Ok(v), Cell::Int(0)),
        Err(_) => {
            let msg = LAST.lock().unwrap().clone();
            if msg.contains("must not be shorter") {
                (Err(2), Cell::Int(2))
            } else if msg.contains("window must be greater") {
                (Err(2), Cell::Int(1))
            } else {
                (Err(vh::panic_kind(&msg)), Cell::Int(9))
            }
        }
    }
}
fn with_id<R>(g: (Result<R, u8>, Cell), f: impl FnOnce(Result<R, u8>) -> Vec<Cell>) -> Vec<Cell> {
    let (r, id) = g;
    let mut v = vec![id];
    v.extend(f(r));
    v
}

fn to_opt(xs: &[f64]) -> Vec<Option<f64>> {
    xs.iter().map(|x| if x.is_nan() { None } else { Some(*x) }).collect()
}
fn coq_fs(xs: &[f64]) -> String {
    coq_list(xs, |x| coq_f64(*x))
}
fn coq_os(xs: &[Option<f64>]) -> String {
    coq_list(xs, |x| coq_opt(x, |v| coq_f64(*v)))
}
fn maxabs(xs: &[f64]) -> f64 {
    let mut m = 1.0f64;
    for x in xs {
        if !x.is_nan() && x.abs() > m {
            m = x.abs()
        }
    }
    m
}
fn is_int_series(xs: &[f64]) -> bool {
    let mut ok = true;
    for x in xs {
        if x.is_nan() || x.fract() != 0.0 {
            ok = false
        }
    }
    ok
}
fn apply_mask(ks: &[i64], den: f64, mask: &[bool]) -> Vec<f64> {
    let mut v = Vec::with_capacity(ks.len());
    for i in 0..ks.len() {
        v.push(if mask[i] { vh::nan_at(i) } else { ks[i] as f64 / den });
    }
    v
}

const PAIR_STYLES: [&str; 8] =
    ["uniform", "alphabet", "collinear", "const_regressor", "const_response", "walk", "collinear_outlier", "monotone_regressor"];

/// a pair of equal-length series (first = response a, second = regressor b), dyadic values, independent nulls
fn gen_pair(rng: &mut Rng, len: usize) -> (Vec<f64>, Vec<f64>, String) {
    let style = rng.below(PAIR_STYLES.len());
    let pa = *rng.pick(&NULL_PATTERNS);
    let pb = if rng.chance(1, 3) { "none" } else { *rng.pick(&NULL_PATTERNS) };
    let ma = null_mask(rng, pa, len);
    let mb = null_mask(rng, pb, len);
    let mut ka = vec![0i64; len];
    let mut kb = vec![0i64; len];
    let mut den = 4.0;
    let (mut ca, mut cb) = (rng.range(-40, 40), rng.range(-40, 40));
    let c = rng.range(-20, 20);
    let d = *rng.pick(&[-6i64, -3, -2, -1, 1, 2, 3, 5]);
    let out_at = if len > 0 { rng.below(len) } else { 0 };
    for i in 0..len {
        match style {
            0 => { ka[i] = rng.range(-400, 400); kb[i] = rng.range(-400, 400); }
            1 => { ka[i] = *rng.pick(&[-4i64, 2, 8]); kb[i] = *rng.pick(&[-4i64, 2, 8]); }
            2 | 6 => {
                // a = c/4 + (d/2) * b, b = kb/4: numerators over 8
                den = 8.0;
                cb += rng.range(-12, 12);
                kb[i] = 2 * cb;
                ka[i] = 2 * c + d * cb;
                if style == 6 && i == out_at { ka[i] += 8 * rng.range(1, 9); }
            }
            3 => { ka[i] = rng.range(-400, 400); kb[i] = c; }
            4 => { ka[i] = c; kb[i] = rng.range(-400, 400); }
            5 => { ca += rng.range(-20, 20); cb += rng.range(-20, 20); ka[i] = ca; kb[i] = cb; }
            _ => { ka[i] = rng.range(-400, 400); cb += rng.range(0, 12); kb[i] = cb; }
        }
    }
    (apply_mask(&ka, den, &ma), apply_mask(&kb, den, &mb), format!("style={} nulls={} nulls2={}", PAIR_STYLES[style], pa, pb))
}

const TREND_STYLES: [&str; 6] = ["uniform", "alphabet", "line", "constant", "walk", "line_outlier"];

/// one series; "line" = c + d * (rank among the non-null elements): linear in every window's 1..n
fn gen_trend(rng: &mut Rng, len: usize) -> (Vec<f64>, String) {
    let style = rng.below(TREND_STYLES.len());
    let pat = *rng.pick(&NULL_PATTERNS);
    let mask = null_mask(rng, pat, len);
    let mut ks = vec![0i64; len];
    let mut cur = rng.range(-40, 40);
    let c = rng.range(-40, 40);
    let d = *rng.pick(&[-9i64, -4, -1, 1, 2, 3, 7]);
    let out_at = if len > 0 { rng.below(len) } else { 0 };
    let mut rank = 0i64;
    for i in 0..len {
        if !mask[i] { rank += 1; }
        ks[i] = match style {
            0 => rng.range(-400, 400),
            1 => *rng.pick(&[-4i64, 2, 8]),
            2 => c + d * rank,
            3 => c,
            4 => { cur += rng.range(-20, 20); cur }
            _ => c + d * rank + if i == out_at { 4 * rng.range(1, 9) } else { 0 },
        };
    }
    (apply_mask(&ks, 4.0, &mask), format!("style={} nulls={}", TREND_STYLES[style], pat))
}

fn wmp_choices(rng: &mut Rng, len: usize, small: bool, all_mp: bool) -> Vec<(usize, Option<usize>)> {
    let mut v = vec![];
    if small {
        for w in 1..=len + 2 {
            v.push((w, None));
            for mp in 0..=w {
                if all_mp || mp <= 3 || mp == w { v.push((w, Some(mp))); }
            }
        }
    } else {
        for _ in 0..3 {
            let w = rng.range(1, len as i64 + 2) as usize;
            let mp = if rng.chance(1, 4) { None } else { Some(rng.range(0, w as i64) as usize) };
            v.push((w, mp));
        }
    }
    v
}
fn mp_tag(w: usize, mp: Option<usize>) -> String {
    match mp { None => "omitted".to_string(), Some(0) => "0".into(), Some(m) if m == w => "w".into(), _ => "mid".into() }
}
fn wrel(w: usize, len: usize) -> &'static str {
    if w > len { "gt" } else if w == len { "eq" } else { "lt" }
}
fn nullfrac(xs: &[f64]) -> usize {
    let mut n = 0;
    for x in xs { if x.is_nan() { n += 1 } }
    if xs.is_empty() { 0 } else { n * 4 / xs.len() }
}

fn main() {
    let mut em = Emitter::new();
    let mut rng = Rng::new(em.args.seed);
    let thorough = em.thorough();
    let alphabet = [-1.0, 0.0, 2.0, f64::NAN];

    // =========================== two-series family ===========================================
    let mut pairs: Vec<(Vec<f64>, Vec<f64>, String)> = vec![];
    let exh2 = if thorough { 3 } else { 2 };
    for len in 0..=exh2 {
        let total = 16usize.pow(len as u32);
        for code in 0..total {
            let mut c = code;
            let (mut a, mut b) = (vec![], vec![]);
            for _ in 0..len {
                a.push(alphabet[c % 4]);
                b.push(alphabet[(c / 4) % 4]);
                c /= 16;
            }
            pairs.push((a, b, "style=exhaustive nulls=enum nulls2=enum".to_string()));
        }
    }
    let nrand = if thorough { 1200 } else { 260 };
    for i in 0..nrand {
        let len = if i % 3 == 0 { rng.range(3, 8) } else { rng.range(3, 24) } as usize;
        pairs.push(gen_pair(&mut rng, len));
    }
    // long histories (see c01.rs)
    for _ in 0..(if thorough { 8 } else { 2 }) {
        let len = rng.range(300, 600) as usize;
        let (a, b, t) = gen_pair(&mut rng, len);
        pairs.push((a, b, t.replace("style=", "style=long_")));
    }
    // non-dyadic values (k/7, k/10): the running sums carry rounding residue, so a window that is constant in one series has a
    // tiny non-zero variance instead of an exact 0 - the EPS guards of cov / corr are what keeps the result null there (seed
    // C04-5 replaced the two guards by one on the product).  cov / corr only: the regression families keep dyadic data, their
    // singular windows are decided in exact arithmetic (DESIGN 5.6).
    for i in 0..(if thorough { 300 } else { 70 }) {
        let len = if i % 3 == 0 { rng.range(3, 8) } else { rng.range(3, 24) } as usize;
        let (a, b, t) = gen_pair(&mut rng, len);
        let q = *rng.pick(&[4.0 / 7.0, 4.0 / 10.0, 8.0 / 7.0]);
        pairs.push((a.iter().map(|x| x * q).collect(), b.iter().map(|x| x * q).collect(), t.replace("style=", "style=nondyadic_")));
    }
    for (pi, (a, b, stags)) in pairs.iter().enumerate() {
        let len = a.len();
        let small = stags.contains("exhaustive");
        let (a_coq, b_coq) = (coq_fs(a), coq_fs(b));
        let (ao, bo) = (to_opt(a), to_opt(b));
        let (ao_coq, bo_coq) = (coq_os(&ao), coq_os(&bo));
        let m = maxabs(a).max(maxabs(b));
        let ints = is_int_series(a) && is_int_series(b);
        // exhaustive scope: every (w, mp) up to len 2; at len 3 (thorough) every w, a rotating third of the functions
        for (ci, (w, mp)) in wmp_choices(&mut rng, len, small, len <= 2).into_iter().enumerate() {
            // thorough, exhaustive length 3: a rotating 1/36 of the (w, mp) configurations per pair
            if small && len >= 3 && (pi + ci) % 36 != 0 { continue; }
            let mp_coq = coq_opt(&mp, |m| coq_nat(*m));
            for (fi, fname) in FN2.iter().enumerate() {
                if small {
                    let keep = len <= 1 || (pi + ci + fi) % 3 == 0;
                    if !keep { continue; }
                } else if !rng.chance(1, 2) {
                    continue;
                }
                if fi > 1 && stags.contains("nondyadic") { continue; }
                let fi_ = fi as i32;
                // tolerance relative to the magnitude of what enters the closed form (DESIGN 5.1)
                let scale = match fi { 1 | 7 => 1.0, 0 | 4 => m * m, _ => m * (len.max(1) as f64) };
                let cmp = format!("custom:sing:1e-7,{}", scale);
                let cmp32 = format!("custom:sing:1e-5,{}", scale);
                let tags = |ty: &str, be: &str| format!(
                    "fn={} ty={} be={} len={} wrel={} mp={} nullfrac={} nullfrac2={} {}{}",
                    fname, ty, be, len.min(25), wrel(w, len), mp_tag(w, mp), nullfrac(a), nullfrac(b), stags,
                    if len == 0 { " nt=0" } else { "" });
                let desc = |ty: &str, be: &str| format!("fn={} ty={} be={} w={} mp={:?} a={:?} b={:?}", fname, ty, be, w, mp, a, b);
                let term = |suffix: &str, body: bool, x: &str, y: &str| format!(
                    "(run_two_{} {} {} {} {} {} {})", suffix, fi, coq_bool(body), coq_nat(w), mp_coq, x, y);
                if fi == 4 {
                    // ts_vregx_all: returned only (no out parameter), triples
                    em.case(&cmp, &tags("f64", "vec"), &desc("f64", "vec"), || term("ff", true, &a_coq, &b_coq),
                        || out_cells3(guarded(|| { let r: Vec<(f64, f64, f64)> = a.ts_vregx_all(b, w, mp); r })));
                    if small || rng.chance(1, 2) {
                        em.case(&cmp, &tags("f64", "deque"), &desc("f64", "deque"), || term("ff", false, &a_coq, &b_coq),
                            || { let (da, db): (VecDeque<f64>, VecDeque<f64>) = (a.iter().cloned().collect(), b.iter().cloned().collect());
                                 out_cells3(guarded(|| { let r: Vec<(f64, f64, f64)> = da.ts_vregx_all(&db, w, mp); r })) });
                    }
                    if rng.chance(1, 3) {
                        em.case(&cmp, &tags("optf64", "vec"), &desc("optf64", "vec"), || term("oo", true, &ao_coq, &bo_coq),
                            || out_cells3_opt(guarded(|| { let r: Vec<(Option<f64>, Option<f64>, Option<f64>)> = ao.ts_vregx_all(&bo, w, mp); r })));
                    }
                    continue;
                }
                // f64 x f64, Vec backend (index body), returned
                em.case(&cmp, &tags("f64", "vec"), &desc("f64", "vec"), || term("ff", true, &a_coq, &b_coq),
                    || out_cells(guarded(|| call2!(fi_, a, b, w, mp, Vec<f64>))));
                // VecDeque backend, returned: default trait method = iterator body
                if small || rng.chance(1, 2) {
                    em.case(&cmp, &tags("f64", "deque"), &desc("f64", "deque"), || term("ff", false, &a_coq, &b_coq),
                        || { let (da, db): (VecDeque<f64>, VecDeque<f64>) = (a.iter().cloned().collect(), b.iter().cloned().collect());
                             out_cells(guarded(|| call2!(fi_, da, &db, w, mp, Vec<f64>))) });
                }
                // caller buffer, Vec and VecDeque inputs (index body)
                if rng.chance(1, 3) {
                    em.case(&cmp, &tags("f64", "vec_to"), &desc("f64", "vec_to"), || term("ff", true, &a_coq, &b_coq),
                        || out_cells(guarded(|| call2_to!(fi_, a, b, w, mp))));
                }
                if rng.chance(1, 4) {
                    em.case(&cmp, &tags("f64", "deque_to"), &desc("f64", "deque_to"), || term("ff", true, &a_coq, &b_coq),
                        || { let (da, db): (VecDeque<f64>, VecDeque<f64>) = (a.iter().cloned().collect(), b.iter().cloned().collect());
                             out_cells(guarded(|| call2_to!(fi_, da, &db, w, mp))) });
                }
                // both series seen through REVERSED contiguous ndarray views (stride -1)
                if rng.chance(1, 5) {
                    em.case(&cmp, &tags("f64", "nd_rev"), &desc("f64", "nd_rev"), || term("ff", true, &a_coq, &b_coq),
                        || { use tevec::export::ndarray::{Array1, ArrayView1, s};
                             let ra = Array1::from_vec(a.iter().rev().cloned().collect::<Vec<f64>>());
                             let rb = Array1::from_vec(b.iter().rev().cloned().collect::<Vec<f64>>());
                             let va: ArrayView1<f64> = ra.slice(s![..;-1]);
                             let vb: ArrayView1<f64> = rb.slice(s![..;-1]);
                             out_cells(guarded(|| call2!(fi_, va, &vb, w, mp, Vec<f64>))) });
                }
                // mixed backends: Vec against VecDeque (the first series decides the body)
                if rng.chance(1, 6) {
                    em.case(&cmp, &tags("f64", "vec_x_deque"), &desc("f64", "vec_x_deque"), || term("ff", true, &a_coq, &b_coq),
                        || { let db: VecDeque<f64> = vh::wrapped_deque(b);
                             out_cells(guarded(|| call2!(fi_, a, &db, w, mp, Vec<f64>))) });
                }
                // Option<f64> x Option<f64> -> Option<f64>
                if rng.chance(1, 3) {
                    em.case(&cmp, &tags("optf64", "vec"), &desc("optf64", "vec"), || term("oo", true, &ao_coq, &bo_coq),
                        || out_cells_opt(guarded(|| call2!(fi_, ao, &bo, w, mp, Vec<Option<f64>>))));
                }
                // mixed element types
                if rng.chance(1, 6) {
                    em.case(&cmp, &tags("f64_x_optf64", "vec"), &desc("f64_x_optf64", "vec"), || term("fo", true, &a_coq, &bo_coq),
                        || out_cells(guarded(|| call2!(fi_, a, &bo, w, mp, Vec<f64>))));
                }
                if rng.chance(1, 6) {
                    em.case(&cmp, &tags("optf64_x_f64", "deque"), &desc("optf64_x_f64", "deque"), || term("of", false, &ao_coq, &b_coq),
                        || { let da: VecDeque<Option<f64>> = vh::wrapped_deque(&ao);
                             out_cells(guarded(|| call2!(fi_, da, b, w, mp, Vec<f64>))) });
                }
                // f32 output
                if rng.chance(1, 8) {
                    em.case(&cmp32, &tags("f64->f32", "vec"), &desc("f64->f32", "vec"), || term("ff", true, &a_coq, &b_coq),
                        || out_cells_f32(guarded(|| call2!(fi_, a, b, w, mp, Vec<f32>))));
                }
                // integer elements (never null)
                if ints && (small || rng.chance(1, 2)) {
                    let (ai, bi): (Vec<i32>, Vec<i64>) = (a.iter().map(|x| *x as i32).collect(), b.iter().map(|x| *x as i64).collect());
                    em.case(&cmp, &tags("i32_x_i64", "vec"), &desc("i32_x_i64", "vec"), || term("ff", true, &a_coq, &b_coq),
                        || out_cells(guarded(|| call2!(fi_, ai, &bi, w, mp, Vec<f64>))));
                }
            }
        }
    }

    // =========================== time-trend family ============================================
    let mut series: Vec<(Vec<f64>, String)> = vec![];
    let exh1 = if thorough { 4 } else { 3 };
    for len in 0..=exh1 {
        let total = 4usize.pow(len as u32);
        for code in 0..total {
            let mut c = code;
            let mut xs = vec![];
            for _ in 0..len {
                xs.push(alphabet[c % 4]);
                c /= 4;
            }
            series.push((xs, "style=exhaustive nulls=enum".to_string()));
        }
    }
    let nrand1 = if thorough { 1200 } else { 220 };
    for i in 0..nrand1 {
        let len = if i % 3 == 0 { rng.range(3, 8) } else { rng.range(3, 24) } as usize;
        series.push(gen_trend(&mut rng, len));
    }
    for (si, (xs, stags)) in series.iter().enumerate() {
        let len = xs.len();
        let small = stags.contains("exhaustive");
        let xs_coq = coq_fs(xs);
        let xo = to_opt(xs);
        let xo_coq = coq_os(&xo);
        let m = maxabs(xs);
        let ints = is_int_series(xs);
        for (ci, (w, mp)) in wmp_choices(&mut rng, len, small, len <= 3).into_iter().enumerate() {
            // thorough, exhaustive length 4: a rotating sixth of the (w, mp) configurations per series
            if small && len >= 4 && (si + ci) % 6 != 0 { continue; }
            let mp_coq = coq_opt(&mp, |m| coq_nat(*m));
            for (k, fname) in FN1.iter().enumerate() {
                if !small && !rng.chance(1, 2) {
                    continue;
                }
                let fi = 8 + k;
                let fi_ = fi as i32;
                let l = len.max(1) as f64;
                let scale = if fi == 12 { (m * l) * (m * l) } else { m * l };
                let cmp = format!("custom:sing:1e-7,{}", scale);
                let cmp32 = format!("custom:sing:1e-5,{}", scale);
                let tags = |ty: &str, be: &str| format!(
                    "fn={} ty={} be={} len={} wrel={} mp={} nullfrac={} {}{}",
                    fname, ty, be, len.min(25), wrel(w, len), mp_tag(w, mp), nullfrac(xs), stags, if len == 0 { " nt=0" } else { "" });
                let desc = |ty: &str, be: &str| format!("fn={} ty={} be={} w={} mp={:?} xs={:?}", fname, ty, be, w, mp, xs);
                let term = |suffix: &str, body: bool, x: &str| format!(
                    "(run_trend_{} {} {} {} {} {})", suffix, fi, coq_bool(body), coq_nat(w), mp_coq, x);
                em.case(&cmp, &tags("f64", "vec"), &desc("f64", "vec"), || term("f", true, &xs_coq),
                    || out_cells(guarded(|| call1!(fi_, xs, w, mp, Vec<f64>))));
                if small || rng.chance(1, 2) {
                    em.case(&cmp, &tags("f64", "deque"), &desc("f64", "deque"), || term("f", false, &xs_coq),
                        || { let d: VecDeque<f64> = vh::wrapped_deque(xs);
                             out_cells(guarded(|| call1!(fi_, d, w, mp, Vec<f64>))) });
                }
                if rng.chance(1, 3) {
                    em.case(&cmp, &tags("f64", "vec_to"), &desc("f64", "vec_to"), || term("f", true, &xs_coq),
                        || out_cells(guarded(|| call1_to!(fi_, xs, w, mp))));
                }
                if rng.chance(1, 4) {
                    em.case(&cmp, &tags("f64", "deque_to"), &desc("f64", "deque_to"), || term("f", true, &xs_coq),
                        || { let d: VecDeque<f64> = vh::wrapped_deque(xs);
                             out_cells(guarded(|| call1_to!(fi_, d, w, mp))) });
                }
                if rng.chance(1, 3) {
                    em.case(&cmp, &tags("optf64", "vec"), &desc("optf64", "vec"), || term("o", true, &xo_coq),
                        || out_cells_opt(guarded(|| call1!(fi_, xo, w, mp, Vec<Option<f64>>))));
                }
                if rng.chance(1, 8) {
                    em.case(&cmp32, &tags("f64->f32", "vec"), &desc("f64->f32", "vec"), || term("f", true, &xs_coq),
                        || out_cells_f32(guarded(|| call1!(fi_, xs, w, mp, Vec<f32>))));
                }
                if ints && (small || rng.chance(1, 2)) {
                    let xi: Vec<i32> = xs.iter().map(|x| *x as i32).collect();
                    em.case(&cmp, &tags("i32", "vec"), &desc("i32", "vec"), || term("f", true, &xs_coq),
                        || out_cells(guarded(|| call1!(fi_, xi, w, mp, Vec<f64>))));
                }
            }
        }
    }
    // =========================== audit corner inputs (Props/C04.v (8), (9)) ====================
    // window 0 and series of UNEQUAL length through every two-series entry point: the index body (Vec, caller
    // buffer) asserts `other.len() >= len` first and then the window; the iterator body (VecDeque returned)
    // asserts the window on the first series only and evaluates the common prefix.
    {
        let vals_a = [1.5, -2.0, f64::NAN, 4.25, 0.5, -3.0];
        let vals_b = [0.25, 3.0, -1.0, f64::NAN, 2.0, 7.5];
        let lens: [(usize, usize); 9] = [(0, 0), (0, 2), (1, 0), (2, 1), (1, 3), (3, 2), (2, 4), (3, 3), (4, 6)];
        for (la, lb) in lens.iter().cloned() {
            let a: Vec<f64> = vals_a[..la].to_vec();
            let b: Vec<f64> = vals_b[..lb].to_vec();
            let (a_coq, b_coq) = (coq_fs(&a), coq_fs(&b));
            let (ao, bo) = (to_opt(&a), to_opt(&b));
            let (ao_coq, bo_coq) = (coq_os(&ao), coq_os(&bo));
            let rel = if lb < la { "second_shorter" } else if lb > la { "second_longer" } else { "equal" };
            for w in 0..=3usize {
                for mp in [None, Some(0usize), Some(1)] {
                    let mp_coq = coq_opt(&mp, |m| coq_nat(*m));
                    for (fi, fname) in FN2.iter().enumerate() {
                        let fi_ = fi as i32;
                        let cmp = "custom:chk:1e-7,64".to_string();
                        let tags = |ty: &str, be: &str| format!(
                            "fn={} ty={} be={} len={} wrel={} mp={} lens={} style=corner{}",
                            fname, ty, be, la, if w == 0 { "zero" } else { wrel(w, la) }, mp_tag(w.max(1), mp), rel,
                            if la == 0 { " nt=0" } else { "" });
                        let desc = |ty: &str, be: &str| format!("fn={} ty={} be={} w={} mp={:?} a={:?} b={:?}", fname, ty, be, w, mp, a, b);
                        let term = |suffix: &str, body: bool, x: &str, y: &str| format!(
                            "(run_two_chk_{} {} {} {} {} {} {})", suffix, fi, coq_bool(body), coq_nat(w), mp_coq, x, y);
                        if fi == 4 {
                            em.case(&cmp, &tags("f64", "vec"), &desc("f64", "vec"), || term("ff", true, &a_coq, &b_coq),
                                || with_id(guarded_id(|| { let r: Vec<(f64, f64, f64)> = a.ts_vregx_all(&b, w, mp); r }), out_cells3));
                            em.case(&cmp, &tags("f64", "deque"), &desc("f64", "deque"), || term("ff", false, &a_coq, &b_coq),
                                || { let (da, db): (VecDeque<f64>, VecDeque<f64>) = (a.iter().cloned().collect(), b.iter().cloned().collect());
                                     with_id(guarded_id(|| { let r: Vec<(f64, f64, f64)> = da.ts_vregx_all(&db, w, mp); r }), out_cells3) });
                            continue;
                        }
                        em.case(&cmp, &tags("f64", "vec"), &desc("f64", "vec"), || term("ff", true, &a_coq, &b_coq),
                            || with_id(guarded_id(|| call2!(fi_, a, &b, w, mp, Vec<f64>)), out_cells));
                        em.case(&cmp, &tags("f64", "deque"), &desc("f64", "deque"), || term("ff", false, &a_coq, &b_coq),
                            || { let (da, db): (VecDeque<f64>, VecDeque<f64>) = (a.iter().cloned().collect(), b.iter().cloned().collect());
                                 with_id(guarded_id(|| call2!(fi_, da, &db, w, mp, Vec<f64>)), out_cells) });
                        em.case(&cmp, &tags("f64", "vec_to"), &desc("f64", "vec_to"), || term("ff", true, &a_coq, &b_coq),
                            || with_id(guarded_id(|| call2_to!(fi_, a, &b, w, mp)), out_cells));
                        em.case(&cmp, &tags("f64", "deque_to"), &desc("f64", "deque_to"), || term("ff", true, &a_coq, &b_coq),
                            || { let (da, db): (VecDeque<f64>, VecDeque<f64>) = (a.iter().cloned().collect(), b.iter().cloned().collect());
                                 with_id(guarded_id(|| call2_to!(fi_, da, &db, w, mp)), out_cells) });
                        em.case(&cmp, &tags("optf64", "vec"), &desc("optf64", "vec"), || term("oo", true, &ao_coq, &bo_coq),
                            || with_id(guarded_id(|| call2!(fi_, ao, &bo, w, mp, Vec<Option<f64>>)), out_cells_opt));
                        em.case(&cmp, &tags("optf64_x_f64", "deque"), &desc("optf64_x_f64", "deque"), || term("of", false, &ao_coq, &b_coq),
                            || { let da: VecDeque<Option<f64>> = vh::wrapped_deque(&ao);
                                 with_id(guarded_id(|| call2!(fi_, da, &b, w, mp, Vec<f64>)), out_cells) });
                    }
                }
            }
        }
        // the one-series family with window 0
        for la in 0..=2usize {
            let xs: Vec<f64> = vals_a[..la].to_vec();
            let xs_coq = coq_fs(&xs);
            for mp in [None, Some(0usize)] {
                let mp_coq = coq_opt(&mp, |m| coq_nat(*m));
                for (k, fname) in FN1.iter().enumerate() {
                    let fi = 8 + k;
                    let fi_ = fi as i32;
                    let cmp = "custom:sing:1e-7,64".to_string();
                    let tags = |be: &str| format!("fn={} ty=f64 be={} len={} wrel=zero mp={} style=corner{}",
                        fname, be, la, mp_tag(1, mp), if la == 0 { " nt=0" } else { "" });
                    let desc = |be: &str| format!("fn={} ty=f64 be={} w=0 mp={:?} xs={:?}", fname, be, mp, xs);
                    let term = |body: bool| format!("(run_trend_f {} {} {} {} {})", fi, coq_bool(body), coq_nat(0), mp_coq, xs_coq);
                    em.case(&cmp, &tags("vec"), &desc("vec"), || term(true),
                        || out_cells(guarded(|| call1!(fi_, xs, 0, mp, Vec<f64>))));
                    em.case(&cmp, &tags("deque"), &desc("deque"), || term(false),
                        || { let d: VecDeque<f64> = vh::wrapped_deque(&xs);
                             out_cells(guarded(|| call1!(fi_, d, 0, mp, Vec<f64>))) });
                    em.case(&cmp, &tags("vec_to"), &desc("vec_to"), || term(true),
                        || out_cells(guarded(|| call1_to!(fi_, xs, 0, mp))));
                }
            }
        }
    }
    // =========================== EPS boundary of ts_vcorr (notes/mutation-M1.md) ==================
    // `if (var_a > EPS) & (var_b > EPS)`: the guard is STRICT.  Series whose variance - computed from the running sums in the
    // closure's own operation order - is BIT-EQUAL to EPS = 1e-14 at the last position: the correlation is null there, a
    // non-strict guard (binary.rs:122 `>` -> `>=`, seen only by the static tie before) gives a number.  Zero-sum families, so
    // that nothing cancels and the value EPS is reachable: [x, -x, 0, .., 0] (var = fl(2 fl(x^2) / n)) and [x, -x, y, -y]
    // (var = fl(sum2) / 4); x by a deterministic scan of the doubles around the real solution (no randomness).  The boundary
    // series takes both roles (var_a / var_b), both driver bodies, the caller buffer, f64 and Option<f64> elements.
    {
        const EPS: f64 = 1e-14;
        fn var_like_code(v: &[f64]) -> f64 {
            let (mut s, mut s2) = (0.0f64, 0.0f64);
            for x in v {
                s += *x;
                s2 += *x * *x;
            }
            let n = v.len() as f64;
            let mean = s / n;
            let mut var = s2 / n;
            var -= mean.powi(2);
            var
        }
        fn scan(center: f64, build: &dyn Fn(f64) -> Vec<f64>) -> Option<Vec<f64>> {
            let c = center.to_bits();
            for k in 0..8192u64 {
                for bits in [c + k, c - k] {
                    let v = build(f64::from_bits(bits));
                    if var_like_code(&v) == EPS {
                        return Some(v);
                    }
                }
            }
            None
        }
        // [x, -x, 0, ..., 0] of n = 2..=12 elements (var = fl(2 fl(x^2) / n)): the first n that has a hit; [x, -x, y, -y] for
        // y = 1e-7 (1 + j/64), j = 0..16: the first two hits (each (n) / (j) is reachable or not depending on rounding parity)
        let mut fams: Vec<(String, Vec<f64>)> = vec![];
        for n in 2..=12usize {
            if let Some(v) = scan((n as f64 * EPS / 2.0).sqrt(), &|x| { let mut v = vec![x, -x]; v.resize(n, 0.0); v }) {
                fams.push((format!("pm0_{}", n), v));
                break;
            }
        }
        let mut hits4 = 0;
        for j in 0..16 {
            let y = 1.0e-7 * (1.0 + j as f64 / 64.0);
            if let Some(v) = scan((2.0 * EPS - y * y).sqrt(), &|x| vec![x, -x, y, -y]) {
                fams.push((format!("pm4_{}", j), v));
                hits4 += 1;
                if hits4 == 2 { break; }
            }
        }
        assert!(fams.len() >= 2, "no series with a variance bit-equal to EPS found");
        let spread = [1.0, 2.0, 0.5, 4.0, -1.5, 3.0, 0.25, -2.0, 1.75, 5.0, -0.5, 2.5];
        for (fam, bd) in fams.iter() {
            let n = bd.len();
            let other: Vec<f64> = spread[..n].to_vec();
            for role in 0..2 {
                let (a, b) = if role == 0 { (bd.clone(), other.clone()) } else { (other.clone(), bd.clone()) };
                let (a_coq, b_coq) = (coq_fs(&a), coq_fs(&b));
                let (ao, bo) = (to_opt(&a), to_opt(&b));
                let (ao_coq, bo_coq) = (coq_os(&ao), coq_os(&bo));
                for w in [n, n + 1] {
                    for mp in [None, Some(0usize), Some(2)] {
                        let mp_coq = coq_opt(&mp, |m| coq_nat(*m));
                        let cmp = "custom:sing:1e-7,1".to_string();
                        let tags = |ty: &str, be: &str| format!(
                            "fn=ts_vcorr ty={} be={} len={} wrel={} mp={} nullfrac=0 nullfrac2=0 style=eps_boundary_{}_{} nulls=none nulls2=none",
                            ty, be, n, wrel(w, n), mp_tag(w, mp), fam, if role == 0 { "first" } else { "second" });
                        let desc = |ty: &str, be: &str| format!("fn=ts_vcorr ty={} be={} w={} mp={:?} a={:?} b={:?} (variance of the {} series bit-equal to EPS at the last position)",
                            ty, be, w, mp, a, b, if role == 0 { "first" } else { "second" });
                        let term = |suffix: &str, body: bool, x: &str, y: &str| format!(
                            "(run_two_{} 1 {} {} {} {} {})", suffix, coq_bool(body), coq_nat(w), mp_coq, x, y);
                        em.case(&cmp, &tags("f64", "vec"), &desc("f64", "vec"), || term("ff", true, &a_coq, &b_coq),
                            || out_cells(guarded(|| call2!(1, a, &b, w, mp, Vec<f64>))));
                        em.case(&cmp, &tags("f64", "deque"), &desc("f64", "deque"), || term("ff", false, &a_coq, &b_coq),
                            || { let (da, db): (VecDeque<f64>, VecDeque<f64>) = (a.iter().cloned().collect(), b.iter().cloned().collect());
                                 out_cells(guarded(|| call2!(1, da, &db, w, mp, Vec<f64>))) });
                        em.case(&cmp, &tags("f64", "vec_to"), &desc("f64", "vec_to"), || term("ff", true, &a_coq, &b_coq),
                            || out_cells(guarded(|| call2_to!(1, a, &b, w, mp))));
                        em.case(&cmp, &tags("optf64", "vec"), &desc("optf64", "vec"), || term("oo", true, &ao_coq, &bo_coq),
                            || out_cells_opt(guarded(|| call2!(1, ao, &bo, w, mp, Vec<Option<f64>>))));
                    }
                }
            }
        }
    }
    em.finish();
}
