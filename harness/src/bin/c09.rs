//! C09: trusted-length iterators yield exactly as many items as they announce.
//!
//! Every iterator under test is obtained through the public API and is statically required to be
//! `TrustedLen` (`fwd` / `dei`).  It is NEVER given to a raw trusted collector before its contract
//! has been checked: `size_hint()` is read, then the remaining items are counted by plain safe
//! iteration on a fresh copy that replayed the same consumption prefix.
use std::collections::VecDeque;
use std::mem::MaybeUninit;
use std::panic::AssertUnwindSafe;

use tevec::export::ndarray::{s, Array1, ArrayView1};
use tevec::prelude::{
    CollectTrustedToVec, MapBasic, MapValidBasic, MapValidFinal, MapValidVec, TIter, TResult,
    ToTrustIter, TrustedLen, TryCollectTrustedToVec, UninitVec, Vec1, Vec1Collect, Vec1Create, Vec1View, WinsorizeMethod,
    WriteTrustIter,
};
use vh::*;

const LIMIT: usize = 100_000;
const SENT: f64 = -987654321.25;

trait Dei: Iterator + DoubleEndedIterator {}
impl<I: Iterator + DoubleEndedIterator> Dei for I {}
type BI<'a, T> = Box<dyn Iterator<Item = T> + 'a>;
type BD<'a, T> = Box<dyn Dei<Item = T> + 'a>;
type BT<'a, T> = Box<dyn TrustedLen<Item = T> + 'a>;

/// only iterators that the library declares `TrustedLen` can enter the observation
fn fwd<'a, I: TrustedLen + 'a>(i: I) -> BI<'a, I::Item> {
    Box::new(i)
}
fn dei<'a, I: TrustedLen + DoubleEndedIterator + 'a>(i: I) -> BD<'a, I::Item> {
    Box::new(i)
}

// ---- "is this type declared TrustedLen?" decided at compile time (inherent const beats trait const) ----
struct Declared<T>(std::marker::PhantomData<T>);
trait NotDeclared {
    const TRUSTED: bool = false;
}
impl<T> NotDeclared for Declared<T> {}
impl<T: TrustedLen> Declared<T> {
    const TRUSTED: bool = true;
}
type ScanFn = fn(&mut f64, f64) -> Option<f64>;
type ScanTy = std::iter::Scan<std::vec::IntoIter<f64>, f64, ScanFn>;
type FilterTy = std::iter::Filter<std::vec::IntoIter<f64>, fn(&f64) -> bool>;
fn scan_stop(st: &mut f64, x: f64) -> Option<f64> {
    *st += 1.0;
    if *st > 2.0 { None } else { Some(x) }
}

// ---- items -> cells ---------------------------------------------------------------------------
trait Obs {
    fn put(&self, mask: u8, out: &mut Vec<Cell>);
}
impl Obs for f64 {
    fn put(&self, mask: u8, out: &mut Vec<Cell>) {
        out.push(match mask {
            0 => Cell::F(*self),
            1 => if self.is_nan() { Cell::Null } else { Cell::Int(0) },
            _ => Cell::Int(0),
        })
    }
}
macro_rules! obs_int {
    ($($t:ty),*) => {$(
        impl Obs for $t {
            fn put(&self, mask: u8, out: &mut Vec<Cell>) {
                out.push(if mask == 0 { Cell::Int(*self as i128) } else { Cell::Int(0) })
            }
        }
    )*};
}
obs_int!(i32, i64, usize);
impl<T: Obs> Obs for Option<T> {
    fn put(&self, mask: u8, out: &mut Vec<Cell>) {
        match self {
            Some(x) => x.put(mask, out),
            None => out.push(if mask >= 2 { Cell::Int(0) } else { Cell::Null }),
        }
    }
}
impl<A: Obs, B: Obs> Obs for (A, B) {
    fn put(&self, mask: u8, out: &mut Vec<Cell>) {
        self.0.put(mask, out);
        self.1.put(mask, out);
    }
}
impl<T: Obs> Obs for TResult<T> {
    fn put(&self, mask: u8, out: &mut Vec<Cell>) {
        match self {
            Ok(x) => x.put(mask, out),
            Err(_) => out.push(if mask >= 2 { Cell::Int(0) } else { Cell::Err }),
        }
    }
}

fn hint_cells(h: (usize, Option<usize>), out: &mut Vec<Cell>) {
    out.push(Cell::Int(h.0 as i128));
    out.push(match h.1 {
        Some(u) => Cell::Int(u as i128),
        None => Cell::Null,
    });
}

fn count_rest<T>(it: &mut dyn Iterator<Item = T>) -> usize {
    let mut c = 0;
    while it.next().is_some() {
        c += 1;
        if c > LIMIT {
            break;
        }
    }
    c
}

fn finish(r: Result<Vec<Cell>, u8>) -> Vec<Cell> {
    match r {
        Ok(v) => v,
        Err(k) => vec![Cell::Panic(k)],
    }
}

/// `nth(k)` must be `k + 1` calls of `next()` (std's Iterator contract), also for the size hint it leaves behind: an adaptor
/// that overrides `nth` / `nth_back` with its own bookkeeping is exercised here.  Model-free relational oracle: on a
/// violation the cells `Err k hint_upper remaining` are appended, which no model output contains.
/// cell equality with NaN == NaN
fn same(a: &[Cell], b: &[Cell]) -> bool { format!("{:?}", a) == format!("{:?}", b) }
/// self-test switch: `C09_NO_ORACLE=1 ./check C09` runs with the model comparison alone
fn oracle_off() -> bool { std::env::var_os("C09_NO_ORACLE").is_some() }
fn nth_consistency<'a, T: Obs>(mk: &dyn Fn() -> BI<'a, T>, mask: u8, out: &mut Vec<Cell>) {
    if oracle_off() { return; }
    for k in 0..3usize {
        let mut a = mk();
        let mut b = mk();
        let xa = a.nth(k);
        let mut xb = None;
        for _ in 0..=k { xb = b.next(); if xb.is_none() { break; } }
        let (mut ca, mut cb) = (vec![], vec![]);
        match xa { Some(x) => x.put(mask, &mut ca), None => ca.push(Cell::Null) }
        match xb { Some(x) => x.put(mask, &mut cb), None => cb.push(Cell::Null) }
        let ha = a.size_hint();
        let hb = b.size_hint();
        let ra = count_rest(&mut *a);
        let rb = count_rest(&mut *b);
        if !same(&ca, &cb) || ha != hb || ra != rb {
            out.push(Cell::Err);
            out.push(Cell::Int(k as i128));
            out.push(match ha.1 { Some(u) => Cell::Int(u as i128), None => Cell::Null });
            out.push(Cell::Int(ra as i128));
            return;
        }
    }
}
fn nth_back_consistency<'a, T: Obs>(mk: &dyn Fn() -> BD<'a, T>, mask: u8, out: &mut Vec<Cell>) {
    if oracle_off() { return; }
    for k in 0..3usize {
        let mut a = mk();
        let mut b = mk();
        let xa = a.nth_back(k);
        let mut xb = None;
        for _ in 0..=k { xb = b.next_back(); if xb.is_none() { break; } }
        let (mut ca, mut cb) = (vec![], vec![]);
        match xa { Some(x) => x.put(mask, &mut ca), None => ca.push(Cell::Null) }
        match xb { Some(x) => x.put(mask, &mut cb), None => cb.push(Cell::Null) }
        let ha = a.size_hint();
        let hb = b.size_hint();
        let ra = count_rest(&mut *a);
        let rb = count_rest(&mut *b);
        // and forward nth on the double-ended iterator
        let mut c = mk();
        let mut d = mk();
        let xc = c.nth(k);
        let mut xd = None;
        for _ in 0..=k { xd = d.next(); if xd.is_none() { break; } }
        let (mut cc, mut cd) = (vec![], vec![]);
        match xc { Some(x) => x.put(mask, &mut cc), None => cc.push(Cell::Null) }
        match xd { Some(x) => x.put(mask, &mut cd), None => cd.push(Cell::Null) }
        let (hc, hd) = (c.size_hint(), d.size_hint());
        let (rc, rd) = (count_rest(&mut *c), count_rest(&mut *d));
        if !same(&ca, &cb) || ha != hb || ra != rb || !same(&cc, &cd) || hc != hd || rc != rd {
            out.push(Cell::Err);
            out.push(Cell::Int(k as i128));
            out.push(match ha.1 { Some(u) => Cell::Int(u as i128), None => Cell::Null });
            out.push(Cell::Int(ra as i128));
            return;
        }
    }
}

/// forward-only observation: `steps` calls of next(); at every point hint + plain count of the rest
/// the law of C09 checked directly (no model): 1 if at every point of a forward consumption lower = upper = items to come
fn hint_law<'a, T>(mk: &dyn Fn() -> BI<'a, T>, steps: usize) -> u8 {
    match guarded(AssertUnwindSafe(|| {
        let mut main = mk();
        for j in 0..=steps {
            let (lo, hi) = main.size_hint();
            let mut f = mk();
            for _ in 0..j {
                f.next();
            }
            let mut rest = 0usize;
            while f.next().is_some() {
                rest += 1;
                if rest > LIMIT { break; }
            }
            if hi != Some(lo) || lo != rest {
                return 0u8;
            }
            main.next();
        }
        1u8
    })) {
        Ok(b) => b,
        Err(_) => 2,
    }
}

fn observe_fwd<'a, T: Obs>(mk: &dyn Fn() -> BI<'a, T>, steps: usize, mask: u8) -> Vec<Cell> {
    finish(guarded(AssertUnwindSafe(|| {
        let mut out = vec![];
        let mut main = mk();
        for j in 0..=steps {
            hint_cells(main.size_hint(), &mut out);
            let mut f = mk();
            for _ in 0..j {
                f.next();
            }
            out.push(Cell::Int(count_rest(&mut *f) as i128));
            if j < steps {
                match main.next() {
                    Some(x) => x.put(mask, &mut out),
                    None => out.push(Cell::Null),
                }
            }
        }
        let mut c = 0;
        while let Some(x) = main.next() {
            x.put(mask, &mut out);
            c += 1;
            if c > LIMIT {
                break;
            }
        }
        nth_consistency(mk, mask, &mut out);
        out.push(Cell::Sep);
        out
    })))
}

/// relative observation (no absolute counts, no items): hint - remaining count at every point
fn observe_rel<'a, T>(mk: &dyn Fn() -> BI<'a, T>, steps: usize) -> Vec<Cell> {
    finish(guarded(AssertUnwindSafe(|| {
        let mut out = vec![];
        let mut main = mk();
        for j in 0..=steps {
            let h = main.size_hint();
            let mut f = mk();
            for _ in 0..j {
                f.next();
            }
            let c = count_rest(&mut *f) as i128;
            out.push(Cell::Int(h.0 as i128 - c));
            out.push(match h.1 { Some(u) => Cell::Int(u as i128 - c), None => Cell::Null });
            if j < steps {
                main.next();
            }
        }
        out
    })))
}

/// double-ended observation along a script (false = next, true = next_back)
fn observe_dei<'a, T: Obs>(mk: &dyn Fn() -> BD<'a, T>, script: &[bool], mask: u8) -> Vec<Cell> {
    finish(guarded(AssertUnwindSafe(|| {
        let mut out = vec![];
        let mut main = mk();
        for j in 0..=script.len() {
            hint_cells(main.size_hint(), &mut out);
            let mut f = mk();
            for b in &script[..j] {
                if *b { f.next_back(); } else { f.next(); }
            }
            out.push(Cell::Int(count_rest(&mut *f) as i128));
            if j < script.len() {
                let o = if script[j] { main.next_back() } else { main.next() };
                match o {
                    Some(x) => x.put(mask, &mut out),
                    None => out.push(Cell::Null),
                }
            }
        }
        let mut c = 0;
        while let Some(x) = main.next() {
            x.put(mask, &mut out);
            c += 1;
            if c > LIMIT {
                break;
            }
        }
        nth_back_consistency(mk, mask, &mut out);
        out.push(Cell::Sep);
        out
    })))
}

// ---- instruction scripts: Next | NextBack | Nth(k) | NthBack(k) (Model.Iter.instr) ---------------------
#[derive(Clone, Copy, Debug, PartialEq)]
enum Ins {
    Next,
    NextBack,
    Nth(usize),
    NthBack(usize),
}
fn cins(sc: &[Ins]) -> String {
    coq_list(sc, |i| match i {
        Ins::Next => "INext".into(),
        Ins::NextBack => "INextBack".into(),
        Ins::Nth(k) => format!("(INth {})", coq_nat(*k)),
        Ins::NthBack(k) => format!("(INthBack {})", coq_nat(*k)),
    })
}
fn rand_ins(r: &mut Rng, both: bool, kmax: usize) -> Ins {
    match r.below(if both { 10 } else { 5 }) {
        0 | 1 => Ins::Next,
        2 | 3 | 4 => Ins::Nth(r.below(kmax + 1)),
        5 | 6 => Ins::NextBack,
        _ => Ins::NthBack(r.below(kmax + 1)),
    }
}
/// a script of `n` instructions with at least one Nth / NthBack
fn rand_script(r: &mut Rng, both: bool, n: usize, kmax: usize) -> Vec<Ins> {
    let mut sc: Vec<Ins> = (0..n).map(|_| rand_ins(r, both, kmax)).collect();
    if !sc.iter().any(|i| matches!(i, Ins::Nth(_) | Ins::NthBack(_))) {
        let at = r.below(n.max(1));
        let ins = if both && r.chance(1, 2) { Ins::NthBack(r.below(kmax + 1)) } else { Ins::Nth(r.below(kmax + 1)) };
        if sc.is_empty() { sc.push(ins) } else { sc[at] = ins }
    }
    sc
}
fn has_nth_tag(sc: &[Ins]) -> String {
    let nn = sc.iter().filter(|i| matches!(i, Ins::Nth(_))).count();
    let nb = sc.iter().filter(|i| matches!(i, Ins::NthBack(_))).count();
    format!("nths={} nth_backs={}", nn.min(3), nb.min(3))
}

/// observation along an instruction script, generic in the boxed iterator type: at every point the hint and the
/// number of items a fresh copy (same prefix replayed) still yields, then the item of the instruction; after the
/// script the rest, then `count()` and `last()` of fresh copies that replayed the whole script
fn observe_x<B: Iterator>(
    mk: &dyn Fn() -> B,
    act: &dyn Fn(&mut B, Ins) -> Option<B::Item>,
    script: &[Ins],
    mask: u8,
    oracle: &dyn Fn(&mut Vec<Cell>),
) -> Vec<Cell>
where
    B::Item: Obs,
{
    finish(guarded(AssertUnwindSafe(|| {
        let mut out = vec![];
        let mut main = mk();
        for j in 0..=script.len() {
            hint_cells(main.size_hint(), &mut out);
            let mut f = mk();
            for i in &script[..j] {
                act(&mut f, *i);
            }
            out.push(Cell::Int(count_rest(&mut f) as i128));
            if j < script.len() {
                match act(&mut main, script[j]) {
                    Some(x) => x.put(mask, &mut out),
                    None => out.push(Cell::Null),
                }
            }
        }
        let mut c = 0;
        while let Some(x) = main.next() {
            x.put(mask, &mut out);
            c += 1;
            if c > LIMIT {
                break;
            }
        }
        let mut f = mk();
        for i in script {
            act(&mut f, *i);
        }
        out.push(Cell::Int(Iterator::count(f) as i128));
        let mut f = mk();
        for i in script {
            act(&mut f, *i);
        }
        match Iterator::last(f) {
            Some(x) => x.put(mask, &mut out),
            None => out.push(Cell::Null),
        }
        oracle(&mut out);
        out.push(Cell::Sep);
        out
    })))
}
/// front instructions only (Box<dyn Iterator>)
fn observe_xf<'a, T: Obs>(mk: &dyn Fn() -> BI<'a, T>, script: &[Ins], mask: u8) -> Vec<Cell> {
    observe_x(
        mk,
        &|it: &mut BI<'a, T>, i| match i {
            Ins::Next => it.next(),
            Ins::Nth(k) => it.nth(k),
            _ => panic!("back instruction on a forward-only iterator"),
        },
        script,
        mask,
        &|out| nth_consistency(mk, mask, out),
    )
}
/// all four instructions (Box<dyn Dei>)
fn observe_xd<'a, T: Obs>(mk: &dyn Fn() -> BD<'a, T>, script: &[Ins], mask: u8) -> Vec<Cell> {
    observe_x(
        mk,
        &|it: &mut BD<'a, T>, i| match i {
            Ins::Next => it.next(),
            Ins::Nth(k) => it.nth(k),
            Ins::NextBack => it.next_back(),
            Ins::NthBack(k) => it.nth_back(k),
        },
        script,
        mask,
        &|out| nth_back_consistency(mk, mask, out),
    )
}

/// contract check by plain iteration on fresh copies: hint == count before any consumption
/// (YA) TrustedLen::is_empty() and TrustedLen::len() at every point of `steps` calls of next(), with the items
fn observe_empty<'a, T: Obs>(mk: &dyn Fn() -> BT<'a, T>, steps: usize, mask: u8) -> Vec<Cell> {
    finish(guarded(AssertUnwindSafe(|| {
        let mut out = vec![];
        let mut main = mk();
        for j in 0..=steps {
            out.push(Cell::Int(TrustedLen::is_empty(&main) as i128));
            out.push(Cell::Int(TrustedLen::len(&main) as i128));
            if j < steps {
                match main.next() {
                    Some(x) => x.put(mask, &mut out),
                    None => out.push(Cell::Null),
                }
            }
        }
        out.push(Cell::Sep);
        out
    })))
}

fn contract_ok<'a, T>(mk: &dyn Fn() -> BI<'a, T>) -> bool {
    let mut it = mk();
    let h = it.size_hint();
    let c = count_rest(&mut *it);
    h.1 == Some(c)
}

// ---- Coq rendering --------------------------------------------------------------------------------
fn cv(x: f64) -> String {
    if x.is_nan() { "VNull".into() } else { format!("(VZ {})", coq_z(x as i128)) }
}
fn cl(xs: &[f64]) -> String {
    coq_list(xs, |x| cv(*x))
}
fn cov(v: Option<f64>) -> String {
    match v {
        None => "None".into(),
        Some(x) => format!("(Some {})", cv(x)),
    }
}
fn cscript(sc: &[bool]) -> String {
    coq_list(sc, |b| coq_bool(*b))
}
fn cz(n: i64) -> String {
    coq_z(n as i128)
}

// ---- data -----------------------------------------------------------------------------------------
/// values 1, 2, 3, ... with NaN where the bit of `mask` is set
fn series(len: usize, mask: u32) -> Vec<f64> {
    (0..len).map(|i| if mask >> i & 1 == 1 { f64::NAN } else { (i + 1) as f64 }).collect()
}
fn mask_name(len: usize, mask: u32) -> &'static str {
    let all = if len == 0 { 0 } else { (1u32 << len) - 1 };
    if mask & all == 0 { "none" } else if mask & all == all { "all" } else { "some" }
}
fn rot_deque(xs: &[f64], rot: usize) -> VecDeque<f64> {
    let mut d: VecDeque<f64> = VecDeque::with_capacity(xs.len().max(1));
    for _ in 0..rot { d.push_back(0.0); }
    for _ in 0..rot { d.pop_front(); }
    for x in xs { d.push_back(*x) }
    d
}
fn nband(len: usize) -> Vec<i32> {
    let l = len as i32;
    let mut v: Vec<i32> = (-l - 3..=l + 3).collect();
    v.extend([i32::MIN, i32::MIN + 1, i32::MAX]);
    v
}
fn nrel(n: i32, len: usize) -> &'static str {
    let a = n.unsigned_abs() as usize;
    if n == 0 { "zero" } else if a > len + 3 { "extreme" } else if a > len { "gt" } else if a == len { "eq" } else { "lt" }
}
fn nt(len: usize) -> &'static str {
    if len == 0 { " nt=0" } else { "" }
}

macro_rules! pre_iter {
    ($xs:expr, $kf:expr, $kb:expr) => {{
        let mut it = $xs.titer();
        for _ in 0..$kf { it.next(); }
        for _ in 0..$kb { it.next_back(); }
        it
    }};
}

// ---- random pipelines: the harness-side AST interpreter --------------------------------------------
#[derive(Clone, Debug)]
enum Src {
    Vec,
    Rev,
    Bfill(Option<f64>),
    Vdiff(i32),
    Roll(usize),
    RepeatN(f64, usize),
}
#[derive(Clone, Debug)]
enum Stage {
    Shift(i32, f64),
    VShift(i32, Option<f64>),
    Ffill(Option<f64>),
    Fill(f64),
    Clip(f64, f64),
    Abs,
    Take(usize),
    ChainBack(f64, usize),
    ChainFront(f64, usize),
    ZipRange(usize),
    EnumFst,
    Trust,
    Advance(usize),
}

fn build<'a>(src: &Src, stages: &[Stage], xs: &'a Vec<f64>) -> BT<'a, f64> {
    let mut it: BT<'a, f64> = match src {
        Src::Vec => Box::new(xs.titer()),
        Src::Rev => Box::new(xs.titer().rev()),
        Src::Bfill(v) => Box::new(xs.titer().bfill(*v)),
        Src::Vdiff(n) => xs.vdiff(*n, None),
        Src::Roll(w) => Box::new(xs.rolling_custom_iter(*w, |sl: &[f64]| sl.len() as f64)),
        Src::RepeatN(v, n) => Box::new(std::iter::repeat_n(*v, *n)),
    };
    for st in stages {
        it = match st.clone() {
            Stage::Shift(n, v) => it.shift(n, v),
            Stage::VShift(n, v) => it.vshift(n, v),
            Stage::Ffill(v) => Box::new(it.ffill(v)),
            Stage::Fill(v) => Box::new(it.fill(v)),
            Stage::Clip(lo, hi) => it.vclip(lo, hi),
            Stage::Abs => Box::new(it.vabs()),
            Stage::Take(k) => Box::new(it.take(k)),
            Stage::ChainBack(v, k) => Box::new(it.chain(std::iter::repeat_n(v, k))),
            Stage::ChainFront(v, k) => Box::new(std::iter::repeat_n(v, k).chain(it)),
            Stage::ZipRange(k) => Box::new(it.zip(0..k).map(|(a, b)| a + b as f64)),
            Stage::EnumFst => Box::new(it.enumerate().map(|(i, a)| a + i as f64)),
            Stage::Trust => {
                let n = it.len();
                Box::new(it.to_trust(n))
            }
            Stage::Advance(k) => {
                for _ in 0..k { it.next(); }
                it
            }
        };
    }
    it
}

fn coq_src(src: &Src, xs: &[f64]) -> String {
    match src {
        Src::Vec => format!("(SVec {})", cl(xs)),
        Src::Rev => format!("(SRev {})", cl(xs)),
        Src::Bfill(v) => format!("(SBfill {} {})", cov(*v), cl(xs)),
        Src::Vdiff(n) => format!("(SVdiff {} None {})", cz(*n as i64), cl(xs)),
        Src::Roll(w) => format!("(SRoll {} {})", coq_nat(*w), cl(xs)),
        Src::RepeatN(v, n) => format!("(SRepeatN {} {})", cv(*v), coq_nat(*n)),
    }
}
fn coq_stage(st: &Stage) -> String {
    match st {
        Stage::Shift(n, v) => format!("GShift {} {}", cz(*n as i64), cv(*v)),
        Stage::VShift(n, v) => format!("GVShift {} {}", cz(*n as i64), cov(*v)),
        Stage::Ffill(v) => format!("GFfill {}", cov(*v)),
        Stage::Fill(v) => format!("GFill {}", cv(*v)),
        Stage::Clip(lo, hi) => format!("GClip {} {}", cv(*lo), cv(*hi)),
        Stage::Abs => "GAbs".into(),
        Stage::Take(k) => format!("GTake {}", coq_nat(*k)),
        Stage::ChainBack(v, k) => format!("GChainBack {} {}", cv(*v), coq_nat(*k)),
        Stage::ChainFront(v, k) => format!("GChainFront {} {}", cv(*v), coq_nat(*k)),
        Stage::ZipRange(k) => format!("GZipRange {}", coq_nat(*k)),
        Stage::EnumFst => "GEnumFst".into(),
        Stage::Trust => "GTrust".into(),
        Stage::Advance(k) => format!("GAdvance {}", coq_nat(*k)),
    }
}
fn stage_name(st: &Stage) -> &'static str {
    match st {
        Stage::Shift(..) => "shift", Stage::VShift(..) => "vshift", Stage::Ffill(..) => "ffill",
        Stage::Fill(..) => "fill", Stage::Clip(..) => "vclip", Stage::Abs => "vabs", Stage::Take(..) => "take",
        Stage::ChainBack(..) => "chainb", Stage::ChainFront(..) => "chainf", Stage::ZipRange(..) => "zip",
        Stage::EnumFst => "enum", Stage::Trust => "to_trust", Stage::Advance(..) => "advance",
    }
}

fn rand_val(r: &mut Rng) -> f64 {
    if r.chance(1, 5) { f64::NAN } else { r.range(-4, 9) as f64 }
}
fn rand_lag(r: &mut Rng, around: usize) -> i32 {
    if r.chance(1, 25) {
        *r.pick(&[i32::MIN, i32::MAX, i32::MIN + 1])
    } else {
        let a = around as i64;
        r.range(-a - 3, a + 3) as i32
    }
}
fn rand_stage(r: &mut Rng, around: usize) -> Stage {
    match r.below(16) {
        0 | 1 => Stage::Shift(rand_lag(r, around), rand_val(r)),
        2 | 3 | 4 => Stage::VShift(rand_lag(r, around), if r.chance(1, 2) { None } else { Some(rand_val(r)) }),
        5 => Stage::Ffill(if r.chance(1, 2) { None } else { Some(rand_val(r)) }),
        6 => Stage::Fill(rand_val(r)),
        7 => Stage::Clip(rand_val(r), rand_val(r)),
        8 => Stage::Abs,
        9 => Stage::Take(r.below(around + 3)),
        10 => Stage::ChainBack(rand_val(r), r.below(4)),
        11 => Stage::ChainFront(rand_val(r), r.below(4)),
        12 => Stage::ZipRange(r.below(around + 3)),
        13 => Stage::EnumFst,
        14 => Stage::Trust,
        _ => Stage::Advance(r.below(around + 2)),
    }
}

fn main() {
    let mut em = Emitter::new();
    let thorough = em.thorough();
    let seed = em.args.seed;
    let maxlen: usize = if thorough { 7 } else { 5 };
    let mut xr = Rng::new(seed.wrapping_mul(0x51ED) ^ 0x0C09_0021);   // instruction scripts

    // =========================================================================================
    // A. shift-like adaptors: exhaustive critical band of the lag, partially consumed inputs
    // =========================================================================================
    let pres: &[(usize, usize)] = &[(0, 0), (1, 0), (0, 1), (2, 1)];
    for len in 0..=maxlen {
        for &mask in &[0u32, 0b101010] {
            if len == 0 && mask != 0 { continue; }
            let xs = series(len, mask);
            let xi: Vec<i32> = (0..len).map(|i| i as i32 + 1).collect();
            let xo: Vec<Option<f64>> = xs.iter().map(|x| if x.is_nan() { None } else { Some(*x) }).collect();
            let steps = len + 2;
            for n in nband(len) {
                for &(kf, kb) in pres {
                    if (kf + kb > 0) && (kf + kb > len + 1) { continue; }
                    let tg = |f: &str| format!("fn={} len={} n={} pre={}{} nulls={}{}", f, len, nrel(n, len - (kf + kb).min(len)), kf, kb, mask_name(len, mask), nt(len));
                    let ds = |f: &str, v: &str| format!("{}(n={}, value={}) on {:?}.titer() after {} next() and {} next_back(); {} next() steps", f, n, v, xs, kf, kb, steps);
                    // MapBasic::shift, f64
                    em.case("exact", &tg("shift"), &ds("shift", "0.0"),
                        || format!("(obs 0 (fw {}) (shift {} (VZ 0) (pre {} {} {})))", coq_nat(steps), cz(n as i64), coq_nat(kf), coq_nat(kb), cl(&xs)),
                        || observe_fwd(&|| fwd(pre_iter!(xs, kf, kb).shift(n, 0.0)), steps, 0));
                    // MapValidBasic::vshift, f64, None and Some
                    for v in [None, Some(-1.0)] {
                        em.case("exact", &tg("vshift"), &ds("vshift", &format!("{:?}", v)),
                            || format!("(obs 0 (fw {}) (vshift {} {} (pre {} {} {})))", coq_nat(steps), cz(n as i64), cov(v), coq_nat(kf), coq_nat(kb), cl(&xs)),
                            || observe_fwd(&|| fwd(pre_iter!(xs, kf, kb).vshift(n, v)), steps, 0));
                    }
                    // instruction scripts over {next, nth k}: vshift(None) and shift
                    {
                        let nsc = 2 + xr.below(3);
                        let sc = rand_script(&mut xr, false, nsc, len + 1);
                        let tgx = |f: &str| format!("{} {}", tg(f), has_nth_tag(&sc));
                        em.case("exact", &tgx("vshift_x"), &format!("vshift(n={}, value=None) on {:?}.titer() after {} next() and {} next_back(); script {:?}", n, xs, kf, kb, sc),
                            || format!("(obsx 0 {} (vshift {} None (pre {} {} {})))", cins(&sc), cz(n as i64), coq_nat(kf), coq_nat(kb), cl(&xs)),
                            || observe_xf(&|| fwd(pre_iter!(xs, kf, kb).vshift(n, None)), &sc, 0));
                        em.case("exact", &tgx("shift_x"), &format!("shift(n={}, value=0.0) on {:?}.titer() after {} next() and {} next_back(); script {:?}", n, xs, kf, kb, sc),
                            || format!("(obsx 0 {} (shift {} (VZ 0) (pre {} {} {})))", cins(&sc), cz(n as i64), coq_nat(kf), coq_nat(kb), cl(&xs)),
                            || observe_xf(&|| fwd(pre_iter!(xs, kf, kb).shift(n, 0.0)), &sc, 0));
                    }
                    if mask == 0 {
                        // i32 elements (never null)
                        em.case("exact", &tg("shift_i32"), &ds("shift::<i32>", "0"),
                            || format!("(obs 0 (fw {}) (shift {} (VZ 0) (pre {} {} {})))", coq_nat(steps), cz(n as i64), coq_nat(kf), coq_nat(kb), cl(&xs)),
                            || observe_fwd(&|| fwd(pre_iter!(xi, kf, kb).shift(n, 0)), steps, 0));
                        em.case("exact", &tg("vshift_i32"), &ds("vshift::<i32>", "Some(7)"),
                            || format!("(obs 0 (fw {}) (vshift {} (Some (VZ 7)) (pre {} {} {})))", coq_nat(steps), cz(n as i64), coq_nat(kf), coq_nat(kb), cl(&xs)),
                            || observe_fwd(&|| fwd(pre_iter!(xi, kf, kb).vshift(n, Some(7))), steps, 0));
                    } else {
                        // Option<f64> elements
                        em.case("exact", &tg("vshift_opt"), &ds("vshift::<Option<f64>>", "None"),
                            || format!("(obs 0 (fw {}) (vshift {} None (pre {} {} {})))", coq_nat(steps), cz(n as i64), coq_nat(kf), coq_nat(kb), cl(&xs)),
                            || observe_fwd(&|| fwd(pre_iter!(xo, kf, kb).vshift(n, None)), steps, 0));
                    }
                }
                // other backends as the source (no pre-consumption)
                let tgb = |f: &str| format!("fn={} len={} n={} pre=00 nulls={}{}", f, len, nrel(n, len), mask_name(len, mask), nt(len));
                let term = format!("(obs 0 (fw {}) (vshift {} None (pre 0%nat 0%nat {})))", coq_nat(steps), cz(n as i64), cl(&xs));
                em.case("exact", &tgb("vshift_deque"), &format!("vshift(n={}, None) on VecDeque(rot 1) {:?}", n, xs),
                    || term.clone(), || { let d = rot_deque(&xs, 1); observe_fwd(&|| fwd(d.titer().vshift(n, None)), steps, 0) });
                em.case("exact", &tgb("vshift_nd"), &format!("vshift(n={}, None) on Array1 {:?}", n, xs),
                    || term.clone(), || { let a = Array1::from_vec(xs.clone()); observe_fwd(&|| fwd(a.titer().vshift(n, None)), steps, 0) });

                // instruction scripts on the other adaptors / backends, and StepBy (std's client of nth) around them
                {
                    let nsc = 2 + xr.below(3);
                    let sc = rand_script(&mut xr, false, nsc, len + 1);
                    let tgx = |f: &str| format!("{} {}", tgb(f), has_nth_tag(&sc));
                    em.case("exact", &tgx("vshift_deque_x"), &format!("vshift(n={}, None) on VecDeque(rot 1) {:?}; script {:?}", n, xs, sc),
                        || format!("(obsx 0 {} (vshift {} None (pre 0%nat 0%nat {})))", cins(&sc), cz(n as i64), cl(&xs)),
                        || { let d = rot_deque(&xs, 1); observe_xf(&|| fwd(d.titer().vshift(n, None)), &sc, 0) });
                    em.case("exact", &tgx("vdiff_x"), &format!("vdiff(n={}, None) on Vec {:?}; script {:?}", n, xs, sc),
                        || format!("(obsx 0 {} (vdiff {} None {}))", cins(&sc), cz(n as i64), cl(&xs)),
                        || observe_xf(&|| fwd(xs.vdiff(n, None)), &sc, 0));
                    em.case("exact", &tgx("vpct_change_x"), &format!("vpct_change(n={}) on Vec {:?}; script {:?}", n, xs, sc),
                        || format!("(obsx 1 {} (vpct_change {} {}))", cins(&sc), cz(n as i64), cl(&xs)),
                        || observe_xf(&|| fwd(xs.vpct_change(n)), &sc, 1));
                    if (n.unsigned_abs() as usize) <= len + 1 {
                        let st = 1 + xr.below(3);
                        em.case("exact", &format!("{} step={}", tgb("vshift_step_by"), st), &format!("vshift(n={}, None).step_by({}) on Vec {:?}; {} next() steps", n, st, xs, steps),
                            || format!("(obs_sb 0 {} {} (vshift {} None (pre 0%nat 0%nat {})))", coq_nat(steps), coq_nat(st), cz(n as i64), cl(&xs)),
                            || observe_fwd(&|| fwd(xs.titer().vshift(n, None).step_by(st)), steps, 0));
                        em.case("exact", &format!("{} step={}", tgb("vdiff_step_by"), st), &format!("vdiff(n={}, None).step_by({}) on Vec {:?}; {} next() steps", n, st, xs, steps),
                            || format!("(obs_sb 0 {} {} (vdiff {} None {}))", coq_nat(steps), coq_nat(st), cz(n as i64), cl(&xs)),
                            || observe_fwd(&|| fwd(xs.vdiff(n, None).step_by(st)), steps, 0));
                    }
                }
                // vdiff / vpct_change on views
                for v in [None, Some(-7.0)] {
                    let m: u8 = 0;
                    let term = format!("(obs 0 (fw {}) (vdiff {} {} {}))", coq_nat(steps), cz(n as i64), cov(v), cl(&xs));
                    em.case("exact", &tgb("vdiff"), &format!("vdiff(n={}, {:?}) on Vec {:?}", n, v, xs),
                        || term.clone(), || observe_fwd(&|| fwd(xs.vdiff(n, v)), steps, m));
                    if v.is_none() {
                        em.case("exact", &tgb("vdiff_deque"), &format!("vdiff(n={}, None) on VecDeque(rot 2) {:?}", n, xs),
                            || term.clone(), || { let d = rot_deque(&xs, 2); observe_fwd(&|| fwd(d.vdiff(n, None)), steps, 0) });
                        em.case("exact", &tgb("vdiff_nd"), &format!("vdiff(n={}, None) on reversed ArrayView1 {:?}", n, xs),
                            || term.clone(), || {
                                let mut r = xs.clone(); r.reverse();
                                let a = Array1::from_vec(r);
                                let vw: ArrayView1<f64> = a.slice(s![..;-1]);
                                observe_fwd(&|| fwd(vw.vdiff(n, None)), steps, 0)
                            });
                    }
                }
                // vpct_change: zeros in the data exercise the a != 0 guard
                let xz: Vec<f64> = xs.iter().enumerate().map(|(i, x)| if i % 3 == 2 && !x.is_nan() { 0.0 } else { *x }).collect();
                em.case("exact", &tgb("vpct_change"), &format!("vpct_change(n={}) on Vec {:?}", n, xz),
                    || format!("(obs 1 (fw {}) (vpct_change {} {}))", coq_nat(steps), cz(n as i64), cl(&xz)),
                    || observe_fwd(&|| fwd(xz.vpct_change(n)), steps, 1));
                if mask == 0 {
                    em.case("exact", &tgb("vpct_change_i32"), &format!("vpct_change(n={}) on Vec<i32> {:?}", n, xi),
                        || format!("(obs 1 (fw {}) (vpct_change {} {}))", coq_nat(steps), cz(n as i64), cl(&xs)),
                        || observe_fwd(&|| fwd(xi.vpct_change(n)), steps, 1));
                }
            }
        }
    }

    // =========================================================================================
    // B. map-like adaptors over every null pattern: ffill, bfill, fill, vclip, vabs
    // =========================================================================================
    let blen = if thorough { 6 } else { 4 };
    for len in 0..=blen {
        for mask in 0..(1u32 << len) {
            let xs = series(len, mask);
            let steps = len + 1;
            for &(kf, kb) in &[(0usize, 0usize), (1, 1)] {
                if kf + kb > len { continue; }
                let tg = |f: &str| format!("fn={} len={} pre={}{} nulls={}{}", f, len, kf, kb, mask_name(len, mask), nt(len));
                let src = format!("(pre {} {} {})", coq_nat(kf), coq_nat(kb), cl(&xs));
                for v in [None, Some(9.0)] {
                    em.case("exact", &tg("ffill"), &format!("ffill({:?}) on {:?} pre {} {}", v, xs, kf, kb),
                        || format!("(obs_ok 0 (fw {}) (ffill {} {}))", coq_nat(steps), cov(v), src),
                        || observe_fwd(&|| fwd(pre_iter!(xs, kf, kb).ffill(v)), steps, 0));
                    em.case("exact", &tg("bfill"), &format!("bfill({:?}) on {:?} pre {} {}", v, xs, kf, kb),
                        || format!("(obs 0 (fw {}) (bfill {} {}))", coq_nat(steps), cov(v), src),
                        || observe_fwd(&|| fwd(pre_iter!(xs, kf, kb).bfill(v)), steps, 0));
                }
                em.case("exact", &tg("fill"), &format!("fill(0.0) on {:?} pre {} {}", xs, kf, kb),
                    || format!("(obs_ok 0 (fw {}) (fill (VZ 0) {}))", coq_nat(steps), src),
                    || observe_fwd(&|| fwd(pre_iter!(xs, kf, kb).fill(0.0)), steps, 0));
                em.case("exact", &tg("vabs"), &format!("vabs on {:?} pre {} {}", xs, kf, kb),
                    || format!("(obs_ok 0 (fw {}) (vabs {}))", coq_nat(steps), src),
                    || observe_fwd(&|| fwd(pre_iter!(xs, kf, kb).vabs()), steps, 0));
                for (lo, hi) in [(2.0, 3.0), (2.0, f64::NAN), (f64::NAN, 3.0), (f64::NAN, f64::NAN)] {
                    em.case("exact", &tg("vclip"), &format!("vclip({:?}, {:?}) on {:?} pre {} {}", lo, hi, xs, kf, kb),
                        || format!("(obs_ok 0 (fw {}) (vclip {} {} {}))", coq_nat(steps), cv(lo), cv(hi), src),
                        || observe_fwd(&|| fwd(pre_iter!(xs, kf, kb).vclip(lo, hi)), steps, 0));
                }
            }
        }
    }

    // =========================================================================================
    // C. vcut: bins / labels of all small sizes
    // =========================================================================================
    {
        let allbins = [2.0, 4.0, 6.0];
        let alllabels = [10.0, 20.0, 30.0, 40.0];
        let data = [1.0, 3.0, f64::NAN, 5.0, 7.0, 4.0];
        for len in [0usize, 1, 3, 6] {
            let xs: Vec<f64> = data[..len].to_vec();
            let steps = len + 1;
            for nb in 0..=3usize {
                for nl in 0..=4usize {
                    for right in [false, true] {
                        for add in [false, true] {
                            let bins: Vec<f64> = allbins[..nb].to_vec();
                            let labels: Vec<f64> = alllabels[..nl].to_vec();
                            let okc = if add { nl == nb + 1 } else { nl + 1 == nb };
                            let tags = format!("fn=vcut len={} bins={} labels={} right={} add_bounds={} sizes={}{}", len, nb, nl, right, add, if okc { "ok" } else { "err" }, nt(len));
                            em.case("exact", &tags,
                                &format!("vcut(bins={:?}, labels={:?}, right={}, add_bounds={}) on {:?}", bins, labels, right, add, xs),
                                || format!("(obs_opt 0 (fw {}) (vcut (-(2^1100)) (2^1100) {} {} {} {} (IList {})))", coq_nat(steps),
                                    coq_list(&bins, |b| cz(*b as i64)), cl(&labels), coq_bool(right), coq_bool(add), cl(&xs)),
                                || {
                                    match xs.titer().vcut::<_, _, f64>(&bins, &labels, right, add) {
                                        Err(_) => vec![Cell::Err],
                                        Ok(_) => observe_fwd(&|| fwd(xs.titer().vcut::<_, _, f64>(&bins, &labels, right, add).unwrap()), steps, 0),
                                    }
                                });
                        }
                    }
                }
            }
        }
    }

    // =========================================================================================
    // D. partitions: kth 0..=len+2
    // =========================================================================================
    for len in 0..=maxlen {
        let all = if len == 0 { 0 } else { (1u32 << len) - 1 };
        let mut masks = vec![0u32, 0b010101 & all, all, 1 & all, all & !1];
        masks.sort();
        masks.dedup();
        for mask in masks {
            let xs: Vec<f64> = series(len, mask).iter().map(|x| if x.is_nan() { *x } else { ((*x as i64 * 7) % 5) as f64 }).collect();
            let nvalid = xs.iter().filter(|x| !x.is_nan()).count();
            for kth in 0..=len + 2 {
                for sort in [false, true] {
                    for rev in [false, true] {
                        let steps = kth + 2;
                        let cls = if nvalid == kth + 1 { "n_eq" } else if nvalid < kth + 1 { "n_lt" } else { "n_gt" };
                        let tags = |f: &str| format!("fn={} len={} kth={} sort={} rev={} class={} nulls={}{}", f, len, kth, sort, rev, cls, mask_name(len, mask), nt(len));
                        em.case("exact", &tags("vpartition"), &format!("vpartition(kth={}, sort={}, rev={}) on {:?}", kth, sort, rev, xs),
                            || format!("(obs_ok 2 (fw {}) (vpartition {} {} {}))", coq_nat(steps), coq_nat(kth), coq_bool(sort), cl(&xs)),
                            || observe_fwd(&|| fwd(xs.vpartition(kth, sort, rev)), steps, 2));
                        em.case("exact", &tags("varg_partition"), &format!("varg_partition(kth={}, sort={}, rev={}) on {:?}", kth, sort, rev, xs),
                            || format!("(obs_ok 2 (fw {}) (varg_partition {} {} {}))", coq_nat(steps), coq_nat(kth), coq_bool(sort), cl(&xs)),
                            || observe_fwd(&|| fwd(xs.varg_partition(kth, sort, rev)), steps, 2));
                        // "any series": Option<f64> elements where some nulls are written Some(NaN) (is_none false, payload null) -
                        // the model has no such value, so the law itself is the oracle: at every point of a forward consumption
                        // lower = upper = number of items still to come (seeds C10-5 / C09-6: count_valid and not_none disagree)
                        if nvalid < len {
                            let xo: Vec<Option<f64>> = xs.iter().enumerate().map(|(i, x)| if x.is_nan() { if (i + kth) % 2 == 0 { Some(*x) } else { None } } else { Some(*x) }).collect();
                            em.case("exact", &tags("vpartition_somenan"), &format!("vpartition(kth={}, sort={}, rev={}) on {:?}: lower = upper = items to come, at every point", kth, sort, rev, xo),
                                || "(c_int 1 ++ c_int 1)".to_string(),
                                || vec![Cell::Int(hint_law(&|| fwd(xo.vpartition(kth, sort, rev)), steps) as i128),
                                        Cell::Int(hint_law(&|| fwd(xo.varg_partition(kth, sort, rev)), steps) as i128)]);
                        }
                        if !rev {
                            let nsc = 2 + xr.below(2);
                            let sc = rand_script(&mut xr, false, nsc, kth + 1);
                            em.case("exact", &format!("{} {}", tags("vpartition_x"), has_nth_tag(&sc)), &format!("vpartition(kth={}, sort={}, rev={}) on {:?}; script {:?}", kth, sort, rev, xs, sc),
                                || format!("(obsx_ok 2 {} (vpartition {} {} {}))", cins(&sc), coq_nat(kth), coq_bool(sort), cl(&xs)),
                                || observe_xf(&|| fwd(xs.vpartition(kth, sort, rev)), &sc, 2));
                            em.case("exact", &format!("{} {}", tags("varg_partition_x"), has_nth_tag(&sc)), &format!("varg_partition(kth={}, sort={}, rev={}) on {:?}; script {:?}", kth, sort, rev, xs, sc),
                                || format!("(obsx_ok 2 {} (varg_partition {} {} {}))", cins(&sc), coq_nat(kth), coq_bool(sort), cl(&xs)),
                                || observe_xf(&|| fwd(xs.varg_partition(kth, sort, rev)), &sc, 2));
                        }
                    }
                }
            }
        }
    }

    // =========================================================================================
    // E. winsorize
    // =========================================================================================
    for len in 0..=maxlen + 1 {
        let all = if len == 0 { 0 } else { (1u32 << len) - 1 };
        let mut masks = vec![0u32, 0b010101 & all, all, 0b000110 & all];
        masks.sort();
        masks.dedup();
        for mask in masks {
            let xs: Vec<f64> = series(len, mask).iter().map(|x| if x.is_nan() { *x } else { ((*x as i64 * 7) % 5) as f64 }).collect();
            let steps = len + 1;
            for (mname, method, p) in [("quantile", WinsorizeMethod::Quantile, Some(0.25)), ("quantile", WinsorizeMethod::Quantile, None),
                                       ("median", WinsorizeMethod::Median, Some(1.0)), ("sigma", WinsorizeMethod::Sigma, Some(1.0)), ("sigma", WinsorizeMethod::Sigma, None)] {
                em.case("exact", &format!("fn=winsorize method={} len={} nulls={}{}", mname, len, mask_name(len, mask), nt(len)),
                    &format!("winsorize({}, {:?}) on {:?}", mname, p, xs),
                    || format!("(obs_ok 1 (fw {}) (winsorize {}))", coq_nat(steps), cl(&xs)),
                    || match xs.winsorize(method, p) {
                        Err(_) => vec![Cell::Err],
                        Ok(_) => observe_fwd(&|| fwd(xs.winsorize(method, p).unwrap()), steps, 1),
                    });
            }
        }
    }

    // =========================================================================================
    // F. the lazy rolling iterator: window 0..=len+2, three backends
    // =========================================================================================
    for len in 0..=maxlen {
        let xs = series(len, 0b000100);
        let steps = len + 1;
        for w in 0..=len + 2 {
            let term = format!("(obs 0 (fw {}) (rolling_custom_iter {} {}))", coq_nat(steps), coq_nat(w), cl(&xs));
            let tags = |be: &str| format!("fn=rolling_custom_iter be={} len={} w={}{}", be, len,
                if w == 0 { "zero" } else if w > len { "gt" } else if w == len { "eq" } else { "lt" }, nt(len));
            em.case("exact", &tags("vec"), &format!("rolling_custom_iter(w={}) on Vec {:?}", w, xs), || term.clone(),
                || observe_fwd(&|| fwd(xs.rolling_custom_iter(w, |sl: &[f64]| (sl.len(), sl[0]))), steps, 0));
            em.case("exact", &tags("deque"), &format!("rolling_custom_iter(w={}) on VecDeque(rot 1) {:?}", w, xs), || term.clone(),
                || { let d = rot_deque(&xs, 1);
                     observe_fwd(&|| fwd(d.rolling_custom_iter(w, |sl: std::collections::vec_deque::Iter<'_, f64>| (ExactSizeIterator::len(&sl), *sl.clone().next().unwrap()))), steps, 0) });
            em.case("exact", &tags("ndarray"), &format!("rolling_custom_iter(w={}) on Array1 {:?}", w, xs), || term.clone(),
                || { let a = Array1::from_vec(xs.clone());
                     observe_fwd(&|| fwd(a.rolling_custom_iter(w, |sl: ArrayView1<'_, f64>| (sl.len(), sl[0]))), steps, 0) });
            {
                let nsc = 2 + xr.below(3);
                let sc = rand_script(&mut xr, false, nsc, len + 1);
                let termx = format!("(obsx 0 {} (rolling_custom_iter {} {}))", cins(&sc), coq_nat(w), cl(&xs));
                em.case("exact", &format!("{} script=x {}", tags("vec"), has_nth_tag(&sc)), &format!("rolling_custom_iter(w={}) on Vec {:?}; script {:?}", w, xs, sc), || termx.clone(),
                    || observe_xf(&|| fwd(xs.rolling_custom_iter(w, |sl: &[f64]| (sl.len(), sl[0]))), &sc, 0));
                em.case("exact", &format!("{} script=x {}", tags("deque"), has_nth_tag(&sc)), &format!("rolling_custom_iter(w={}) on VecDeque(rot 1) {:?}; script {:?}", w, xs, sc), || termx.clone(),
                    || { let d = rot_deque(&xs, 1);
                         observe_xf(&|| fwd(d.rolling_custom_iter(w, |sl: std::collections::vec_deque::Iter<'_, f64>| (ExactSizeIterator::len(&sl), *sl.clone().next().unwrap()))), &sc, 0) });
            }
        }
    }

    // =========================================================================================
    // G. generators: Vec1Create::{range, linspace} (collected by the library through the raw collector)
    // =========================================================================================
    {
        // f64 on the grid k/4 (exact arithmetic): range(a, b, step), step = 0 included (empty since e1a8736)
        let q = |k: i64| k as f64 / 4.0;
        for ka in [0i64, 4, -6] {
            for d in -8i64..=12 {
                for ks in [-6i64, -4, -2, -1, 0, 1, 2, 4, 6] {
                    let kb = ka + d;
                    let term = format!("(collect_cells 0 (create (range_f {} {} {})))", cz(ka), cz(kb), cz(ks));
                    let cls = if ks == 0 { "step0" } else if d * ks <= 0 { "empty" } else if d % ks == 0 { "divisible" } else { "ragged" };
                    let desc = format!("Vec1Create::range(Some({}), {}, Some({}))", q(ka), q(kb), q(ks));
                    let run = |v: Vec<f64>| { let mut c = vec![Cell::Int(v.len() as i128)]; c.extend(v.iter().map(|x| Cell::F(x * 4.0))); c };
                    em.case("exact", &format!("fn=range ty=f64 out=vec span={}{}", cls, if cls == "empty" || cls == "step0" { " nt=0" } else { "" }), &(desc.clone() + " -> Vec<f64>"), || term.clone(),
                        || finish(guarded(|| run(<Vec<f64> as Vec1Create<f64>>::range(Some(q(ka)), q(kb), Some(q(ks)))))));
                    if ka == 4 {
                        em.case("exact", &format!("fn=range ty=f64 out=deque span={}", cls), &(desc.clone() + " -> VecDeque<f64>"), || term.clone(),
                            || finish(guarded(|| run(<VecDeque<f64> as Vec1Create<f64>>::range(Some(q(ka)), q(kb), Some(q(ks))).into_iter().collect()))));
                        em.case("exact", &format!("fn=range ty=f64 out=ndarray span={}", cls), &(desc.clone() + " -> Array1<f64>"), || term.clone(),
                            || finish(guarded(|| run(<Array1<f64> as Vec1Create<f64>>::range(Some(q(ka)), q(kb), Some(q(ks))).to_vec()))));
                        em.case("exact", &format!("fn=range ty=optf64 out=vec span={}", cls), &(desc.clone() + " -> Vec<Option<f64>>"), || term.clone(),
                            || finish(guarded(|| run(<Vec<Option<f64>> as Vec1Create<Option<f64>>>::range(Some(q(ka)), q(kb), Some(q(ks))).into_iter().map(|x| x.unwrap_or(f64::NAN)).collect()))));
                    }
                }
            }
        }
        // integers (repaired by e1a8736): every span, divisible or not, either direction, step 0 included
        // (step 0 towards a non-empty direction divides by zero: a panic in the model too)
        for a in [0i64, 2, -3] {
            for st in [-3i64, -2, -1, 0, 1, 2, 3] {
                for d in -5i64..=7 {
                    let b = a + d;
                    let term = format!("(match range_i {} {} {} with Ok s => collect_cells 0 (create s) | Panic k => c_panic k end)", cz(a), cz(b), cz(st));
                    let cls = if st == 0 { "step0" } else if d * st <= 0 { "empty" } else if d % st == 0 { "divisible" } else { "ragged" };
                    let ntr = if cls == "empty" || cls == "step0" { " nt=0" } else { "" };
                    let run = |v: Vec<i128>| { let mut c = vec![Cell::Int(v.len() as i128)]; c.extend(v.iter().map(|x| Cell::Int(*x))); c };
                    em.case("exact", &format!("fn=range ty=i32 out=vec span={}{}", cls, ntr), &format!("Vec::<i32>::range(Some({}), {}, Some({}))", a, b, st), || term.clone(),
                        || finish(guarded(|| run(<Vec<i32> as Vec1Create<i32>>::range(Some(a as i32), b as i32, Some(st as i32)).into_iter().map(|x| x as i128).collect()))));
                    em.case("exact", &format!("fn=range ty=i64 out=vec span={}{}", cls, ntr), &format!("Vec::<i64>::range(Some({}), {}, Some({}))", a, b, st), || term.clone(),
                        || finish(guarded(|| run(<Vec<i64> as Vec1Create<i64>>::range(Some(a), b, Some(st)).into_iter().map(|x| x as i128).collect()))));
                    // usize with step 0 and b < a panics on `b - a` (underflow) before the division by zero: same
                    // outcome class (a panic), different message; not generated
                    if a >= 0 && b >= 0 && st >= 0 && !(st == 0 && b < a) {
                        em.case("exact", &format!("fn=range ty=usize out=vec span={}{}", cls, ntr), &format!("Vec::<usize>::range(Some({}), {}, Some({}))", a, b, st), || term.clone(),
                            || finish(guarded(|| run(<Vec<usize> as Vec1Create<usize>>::range(Some(a as usize), b as usize, Some(st as usize)).into_iter().map(|x| x as i128).collect()))));
                    }
                }
            }
        }
        // linspace: n = 0..=6
        for n in 0..=6usize {
            for a in [0i64, -3, 5] {
                for d in [-7i64, -2, 0, 1, 6, 12] {
                    let b = a + d;
                    let term = format!("(collect_cells 0 (create (linspace {} {} {})))", cz(a), cz(b), coq_nat(n));
                    let run = |v: Vec<i128>| { let mut c = vec![Cell::Int(v.len() as i128)]; c.extend(v.iter().map(|x| Cell::Int(*x))); c };
                    em.case("exact", &format!("fn=linspace ty=i32 out=vec n={}{}", n, nt(n)), &format!("Vec::<i32>::linspace(Some({}), {}, {})", a, b, n), || term.clone(),
                        || finish(guarded(|| run(<Vec<i32> as Vec1Create<i32>>::linspace(Some(a as i32), b as i32, n).into_iter().map(|x| x as i128).collect()))));
                    // f64: exact when (n-1) divides the span on the grid, else only the length is compared
                    let exact = n <= 1 || (d * 4) % (n as i64 - 1) == 0;
                    let term_f = if exact { format!("(collect_cells 0 (create (linspace {} {} {})))", cz(4 * a), cz(4 * b), coq_nat(n)) }
                                 else { format!("(collect_cells 2 (create (linspace {} {} {})))", cz(4 * a), cz(4 * b), coq_nat(n)) };
                    let runf = move |v: Vec<f64>| { let mut c = vec![Cell::Int(v.len() as i128)]; c.extend(v.iter().map(|x| if exact { Cell::F(x * 4.0) } else { Cell::Int(0) })); c };
                    em.case("exact", &format!("fn=linspace ty=f64 out=vec n={} grid={}{}", n, exact, nt(n)), &format!("Vec::<f64>::linspace(Some({}), {}, {})", a, b, n), || term_f.clone(),
                        || finish(guarded(|| runf(<Vec<f64> as Vec1Create<f64>>::linspace(Some(a as f64), b as f64, n)))));
                    if a == 0 {
                        em.case("exact", &format!("fn=linspace ty=f64 out=ndarray n={} grid={}{}", n, exact, nt(n)), &format!("Array1::<f64>::linspace(Some({}), {}, {})", a, b, n), || term_f.clone(),
                            || finish(guarded(|| runf(<Array1<f64> as Vec1Create<f64>>::linspace(Some(a as f64), b as f64, n).to_vec()))));
                    }
                }
            }
        }
    }

    // =========================================================================================
    // H. container iterators of every backend, double-ended scripts
    // =========================================================================================
    let mut rng = Rng::new(seed.wrapping_mul(0x9E37) ^ 0xC09);
    for len in 0..=maxlen + 1 {
        let xs = series(len, 0b001001);
        let xo: Vec<Option<f64>> = xs.iter().map(|x| if x.is_nan() { None } else { Some(*x) }).collect();
        let mut scripts: Vec<Vec<bool>> = vec![];
        if len <= 3 {
            let k = len + 1;
            for bits in 0..(1u32 << k) {
                scripts.push((0..k).map(|i| bits >> i & 1 == 1).collect());
            }
        } else {
            scripts.push(vec![false; len + 1]);
            scripts.push(vec![true; len + 1]);
            for _ in 0..10 {
                scripts.push((0..len + 1).map(|_| rng.chance(1, 2)).collect());
            }
        }
        for sc in &scripts {
            let term = format!("(obs_ok 0 {} (IList {}))", cscript(sc), cl(&xs));
            let nb = sc.iter().filter(|b| **b).count();
            let tags = |be: &str| format!("fn=titer be={} len={} backs={}{}", be, len, nb, nt(len));
            let desc = |be: &str| format!("{} titer of {:?}, script {:?} (true = next_back)", be, xs, sc);
            em.case("exact", &tags("vec"), &desc("Vec"), || term.clone(), || observe_dei(&|| dei(xs.titer()), sc, 0));
            em.case("exact", &tags("slice"), &desc("&[T]"), || term.clone(), || { let b: &[f64] = &xs; observe_dei(&|| dei(b.titer()), sc, 0) });
            for rot in [0usize, 1, len / 2 + 1] {
                em.case("exact", &tags("deque"), &desc(&format!("VecDeque(rot {})", rot)), || term.clone(),
                    || { let d = rot_deque(&xs, rot); observe_dei(&|| dei(d.titer()), sc, 0) });
            }
            em.case("exact", &tags("nd_owned"), &desc("Array1"), || term.clone(),
                || { let a = Array1::from_vec(xs.clone()); observe_dei(&|| dei(a.titer()), sc, 0) });
            em.case("exact", &tags("nd_step2"), &desc("ArrayView1 step 2"), || term.clone(), || {
                let mut big = vec![-7.0; 2 * len];
                for i in 0..len { big[2 * i] = xs[i] }
                let a = Array1::from_vec(big);
                let v: ArrayView1<f64> = a.slice(s![..;2]);
                observe_dei(&|| dei(v.titer()), sc, 0)
            });
            em.case("exact", &tags("nd_rev"), &desc("ArrayView1 reversed"), || term.clone(), || {
                let mut r = xs.clone();
                r.reverse();
                let a = Array1::from_vec(r);
                let v: ArrayView1<f64> = a.slice(s![..;-1]);
                observe_dei(&|| dei(v.titer()), sc, 0)
            });
            em.case("exact", &tags("optview"), &desc("opt view"), || term.clone(), || { let o = xs.opt(); observe_dei(&|| dei(o.titer()), sc, 0) });
            em.case("exact", &tags("to_opt_iter"), &desc("to_opt_iter"), || term.clone(), || observe_dei(&|| dei(xs.to_opt_iter()), sc, 0));
            em.case("exact", &tags("iter_cast"), &desc("iter_cast::<f64>"), || term.clone(), || observe_dei(&|| dei(xs.iter_cast::<f64>()), sc, 0));
            em.case("exact", &tags("vec_opt"), &desc("Vec<Option<f64>>"), || term.clone(), || observe_dei(&|| dei(xo.titer()), sc, 0));

            // I. to_trust with the right and with wrong lengths (the latter pin TrustIter's bookkeeping only)
            if len <= 3 || sc.len() % 3 == 0 {
                for k in 0..=len + 2 {
                    em.case("exact", &format!("fn=to_trust len={} declared={} backs={}{}", len, if k == len { "right" } else if k < len { "short" } else { "long" }, nb, nt(len)),
                        &format!("titer().to_trust({}) of {:?}, script {:?}", k, xs, sc),
                        || format!("(obs_ok 0 {} (ITrust (IList {}) {}))", cscript(sc), cl(&xs), coq_nat(k)),
                        || observe_dei(&|| dei(xs.titer().to_trust(k)), sc, 0));
                }
            }
        }

        // H'. / I'. the same backends and to_trust(k) under scripts over all four instructions
        for _ in 0..(if len <= 3 { 8 } else { 5 }) {
            let sc = rand_script(&mut xr, true, len + 1, 2);
            let term = format!("(obsx_ok 0 {} (IList {}))", cins(&sc), cl(&xs));
            let tags = |be: &str| format!("fn=titer_x be={} len={} {}{}", be, len, has_nth_tag(&sc), nt(len));
            let desc = |be: &str| format!("{} titer of {:?}, script {:?}", be, xs, sc);
            em.case("exact", &tags("vec"), &desc("Vec"), || term.clone(), || observe_xd(&|| dei(xs.titer()), &sc, 0));
            em.case("exact", &tags("deque"), &desc("VecDeque(rot 1)"), || term.clone(),
                || { let d = rot_deque(&xs, 1); observe_xd(&|| dei(d.titer()), &sc, 0) });
            em.case("exact", &tags("nd_owned"), &desc("Array1"), || term.clone(),
                || { let a = Array1::from_vec(xs.clone()); observe_xd(&|| dei(a.titer()), &sc, 0) });
            em.case("exact", &tags("nd_step2"), &desc("ArrayView1 step 2"), || term.clone(), || {
                let mut big = vec![-7.0; 2 * len];
                for i in 0..len { big[2 * i] = xs[i] }
                let a = Array1::from_vec(big);
                let v: ArrayView1<f64> = a.slice(s![..;2]);
                observe_xd(&|| dei(v.titer()), &sc, 0)
            });
            em.case("exact", &tags("optview"), &desc("opt view"), || term.clone(), || { let o = xs.opt(); observe_xd(&|| dei(o.titer()), &sc, 0) });
            em.case("exact", &tags("vec_opt"), &desc("Vec<Option<f64>>"), || term.clone(), || observe_xd(&|| dei(xo.titer()), &sc, 0));
            for k in 0..=len + 2 {
                em.case("exact", &format!("fn=to_trust_x len={} declared={} {}{}", len, if k == len { "right" } else if k < len { "short" } else { "long" }, has_nth_tag(&sc), nt(len)),
                    &format!("titer().to_trust({}) of {:?}, script {:?}", k, xs, sc),
                    || format!("(obsx_ok 0 {} (ITrust (IList {}) {}))", cins(&sc), cl(&xs), coq_nat(k)),
                    || observe_xd(&|| dei(xs.titer().to_trust(k)), &sc, 0));
            }
        }

        // J. std adaptors the library declares TrustedLen, double-ended where std allows it
        let ys: Vec<f64> = (0..(len + 1) / 2 + 1).map(|i| (10 * (i + 1)) as f64).collect();
        for _ in 0..(if len <= 3 { 6 } else { 3 }) {
            let sl = len + ys.len() + 1;
            let sc: Vec<bool> = (0..sl).map(|_| rng.chance(2, 5)).collect();
            let k = rng.below(len + 2);
            let tags = |f: &str| format!("fn=std_{} len={}{}", f, len, nt(len));
            em.case("exact", &tags("chain"), &format!("{:?}.titer().chain({:?}.titer()), script {:?}", xs, ys, sc),
                || format!("(obs_ok 0 {} (IChain true true (IList {}) (IList {})))", cscript(&sc), cl(&xs), cl(&ys)),
                || observe_dei(&|| dei(xs.titer().chain(ys.titer())), &sc, 0));
            em.case("exact", &tags("rev"), &format!("{:?}.titer().rev(), script {:?}", xs, sc),
                || format!("(obs_ok 0 {} (IRev (IList {})))", cscript(&sc), cl(&xs)),
                || observe_dei(&|| dei(xs.titer().rev()), &sc, 0));
            em.case("exact", &tags("rev_chain"), &format!("{:?}.titer().rev().chain({:?}.titer()).rev(), script {:?}", xs, ys, sc),
                || format!("(obs_ok 0 {} (IRev (IChain true true (IRev (IList {})) (IList {}))))", cscript(&sc), cl(&xs), cl(&ys)),
                || observe_dei(&|| dei(xs.titer().rev().chain(ys.titer()).rev()), &sc, 0));
            em.case("exact", &tags("zip"), &format!("{:?}.titer().to_trust(len).zip({:?}.titer().to_trust(len)), script {:?}", xs, ys, sc),
                || format!("(obs_ok 0 {} (IZip (ITrust (IList {}) {}) (ITrust (IList {}) {})))", cscript(&sc), cl(&xs), coq_nat(xs.len()), cl(&ys), coq_nat(ys.len())),
                || observe_dei(&|| dei(xs.titer().to_trust(xs.len()).zip(ys.titer().to_trust(ys.len()))), &sc, 0));
            em.case("exact", &tags("take"), &format!("{:?}.titer().to_trust(len).take({}), script {:?}", xs, k, sc),
                || format!("(obs_ok 0 {} (ITake (ITrust (IList {}) {}) {}))", cscript(&sc), cl(&xs), coq_nat(xs.len()), coq_nat(k)),
                || observe_dei(&|| dei(xs.titer().to_trust(xs.len()).take(k)), &sc, 0));
            let rest = xs.len().saturating_sub(k);
            em.case("exact", &tags("skip"), &format!("{:?}.titer().to_trust(len).skip({}).to_trust({}), script {:?}", xs, k, rest, sc),
                || format!("(obs_ok 0 {} (ITrust (ISkip (ITrust (IList {}) {}) {}) {}))", cscript(&sc), cl(&xs), coq_nat(xs.len()), coq_nat(k), coq_nat(rest)),
                || observe_dei(&|| dei(xs.titer().to_trust(xs.len()).skip(k).to_trust(rest)), &sc, 0));
            em.case("exact", &tags("enumerate"), &format!("{:?}.titer().to_trust(len).enumerate(), script {:?}", xs, sc),
                || format!("(obs_ok 0 {} (IEnum (ITrust (IList {}) {}) 0%nat))", cscript(&sc), cl(&xs), coq_nat(xs.len())),
                || observe_dei(&|| dei(xs.titer().to_trust(xs.len()).enumerate()), &sc, 0));
            em.case("exact", &tags("map"), &format!("{:?}.titer().map(|x| x + 100), script {:?}", xs, sc),
                || format!("(obs_ok 0 {} (IMap (fun v => vadd v (VZ 100)) (IList {})))", cscript(&sc), cl(&xs)),
                || observe_dei(&|| dei(xs.titer().map(|x| x + 100.0)), &sc, 0));
            em.case("exact", &tags("repeat_n"), &format!("repeat_n(5.0, {}), script {:?}", k, sc),
                || format!("(obs_ok 0 {} (IRepeatN (VZ 5) {}))", cscript(&sc), coq_nat(k)),
                || observe_dei(&|| dei(std::iter::repeat_n(5.0, k)), &sc, 0));
            em.case("exact", &tags("range"), &format!("({}..{}), script {:?}", k, len + 1, sc),
                || format!("(obs_ok 0 {} (IRange {} {}))", cscript(&sc), coq_nat(k), coq_nat(len + 1)),
                || observe_dei(&|| dei(k..len + 1), &sc, 0));
            // the same adaptors under scripts over all four instructions: std overrides nth / nth_back in Chain, Rev,
            // Take, Skip, Enumerate, Range, RepeatN, the slice iterators - the model has the defaults (k+1 x next)
            let xsc = rand_script(&mut xr, true, sl.min(5), 2);
            let tagx = |f: &str| format!("fn=std_{}_x len={} {}{}", f, len, has_nth_tag(&xsc), nt(len));
            em.case("exact", &tagx("chain"), &format!("{:?}.titer().chain({:?}.titer()), script {:?}", xs, ys, xsc),
                || format!("(obsx_ok 0 {} (IChain true true (IList {}) (IList {})))", cins(&xsc), cl(&xs), cl(&ys)),
                || observe_xd(&|| dei(xs.titer().chain(ys.titer())), &xsc, 0));
            em.case("exact", &tagx("chain_trust"), &format!("{:?}.titer().to_trust(len).chain({:?}.titer()).to_trust(total), script {:?}", xs, ys, xsc),
                || format!("(obsx_ok 0 {} (ITrust (IChain true true (ITrust (IList {}) {}) (IList {})) {}))", cins(&xsc), cl(&xs), coq_nat(xs.len()), cl(&ys), coq_nat(xs.len() + ys.len())),
                || observe_xd(&|| dei(xs.titer().to_trust(xs.len()).chain(ys.titer()).to_trust(xs.len() + ys.len())), &xsc, 0));
            em.case("exact", &tagx("rev_chain"), &format!("{:?}.titer().rev().chain({:?}.titer()).rev(), script {:?}", xs, ys, xsc),
                || format!("(obsx_ok 0 {} (IRev (IChain true true (IRev (IList {})) (IList {}))))", cins(&xsc), cl(&xs), cl(&ys)),
                || observe_xd(&|| dei(xs.titer().rev().chain(ys.titer()).rev()), &xsc, 0));
            em.case("exact", &tagx("rev_trust"), &format!("{:?}.titer().to_trust(len).rev(), script {:?}", xs, xsc),
                || format!("(obsx_ok 0 {} (IRev (ITrust (IList {}) {})))", cins(&xsc), cl(&xs), coq_nat(xs.len())),
                || observe_xd(&|| dei(xs.titer().to_trust(xs.len()).rev()), &xsc, 0));
            em.case("exact", &tagx("zip"), &format!("{:?}.titer().to_trust(len).zip({:?}.titer().to_trust(len)), script {:?}", xs, ys, xsc),
                || format!("(obsx_ok 0 {} (IZip (ITrust (IList {}) {}) (ITrust (IList {}) {})))", cins(&xsc), cl(&xs), coq_nat(xs.len()), cl(&ys), coq_nat(ys.len())),
                || observe_xd(&|| dei(xs.titer().to_trust(xs.len()).zip(ys.titer().to_trust(ys.len()))), &xsc, 0));
            em.case("exact", &tagx("take"), &format!("{:?}.titer().to_trust(len).take({}), script {:?}", xs, k, xsc),
                || format!("(obsx_ok 0 {} (ITake (ITrust (IList {}) {}) {}))", cins(&xsc), cl(&xs), coq_nat(xs.len()), coq_nat(k)),
                || observe_xd(&|| dei(xs.titer().to_trust(xs.len()).take(k)), &xsc, 0));
            em.case("exact", &tagx("skip"), &format!("{:?}.titer().to_trust(len).skip({}).to_trust({}), script {:?}", xs, k, rest, xsc),
                || format!("(obsx_ok 0 {} (ITrust (ISkip (ITrust (IList {}) {}) {}) {}))", cins(&xsc), cl(&xs), coq_nat(xs.len()), coq_nat(k), coq_nat(rest)),
                || observe_xd(&|| dei(xs.titer().to_trust(xs.len()).skip(k).to_trust(rest)), &xsc, 0));
            em.case("exact", &tagx("enumerate"), &format!("{:?}.titer().to_trust(len).enumerate(), script {:?}", xs, xsc),
                || format!("(obsx_ok 0 {} (IEnum (ITrust (IList {}) {}) 0%nat))", cins(&xsc), cl(&xs), coq_nat(xs.len())),
                || observe_xd(&|| dei(xs.titer().to_trust(xs.len()).enumerate()), &xsc, 0));
            em.case("exact", &tagx("map"), &format!("{:?}.titer().to_trust(len).map(|x| x + 100), script {:?}", xs, xsc),
                || format!("(obsx_ok 0 {} (IMap (fun v => vadd v (VZ 100)) (ITrust (IList {}) {})))", cins(&xsc), cl(&xs), coq_nat(xs.len())),
                || observe_xd(&|| dei(xs.titer().to_trust(xs.len()).map(|x| x + 100.0)), &xsc, 0));
            em.case("exact", &tagx("repeat_n"), &format!("repeat_n(5.0, {}), script {:?}", k, xsc),
                || format!("(obsx_ok 0 {} (IRepeatN (VZ 5) {}))", cins(&xsc), coq_nat(k)),
                || observe_xd(&|| dei(std::iter::repeat_n(5.0, k)), &xsc, 0));
            em.case("exact", &tagx("range"), &format!("({}..{}), script {:?}", k, len + 1, xsc),
                || format!("(obsx_ok 0 {} (IRange {} {}))", cins(&xsc), coq_nat(k), coq_nat(len + 1)),
                || observe_xd(&|| dei(k..len + 1), &xsc, 0));
            // StepBy around a container iterator and around a TrustIter, against the model (not only by the contract)
            let st = 1 + xr.below(3);
            em.case("exact", &format!("fn=std_step_by_x len={} step={}{}", len, st, nt(len)), &format!("{:?}.titer().to_trust(len).step_by({}); {} next() steps", xs, st, len + 1),
                || format!("(obs_sb 0 {} {} (Ok (ITrust (IList {}) {})))", coq_nat(len + 1), coq_nat(st), cl(&xs), coq_nat(xs.len())),
                || observe_fwd(&|| fwd(xs.titer().to_trust(xs.len()).step_by(st)), len + 1, 0));
        }
        // step_by(0): `assert!(step != 0)` in StepBy::new, Panic AssertFail in Model.Iter.step_by
        em.case("exact", &format!("fn=std_step_by_x len={} step=0{}", len, nt(len)), &format!("{:?}.titer().to_trust(len).step_by(0)", xs),
            || format!("(obs_sb 0 1%nat 0%nat (Ok (ITrust (IList {}) {})))", cl(&xs), coq_nat(xs.len())),
            || observe_fwd(&|| fwd(xs.titer().to_trust(xs.len()).step_by(0)), 1, 0));
        // std adaptors that are not modelled: the contract itself (hint - count = 0 at every point)
        {
            let steps = len + 1;
            let z = format!("(zeros {})", coq_nat(2 * (steps + 1)));
            let tags = |f: &str| format!("fn=std_{} len={} cmp=rel{}", f, len, nt(len));
            for st in 1..=3usize {
                em.case("exact", &tags("step_by"), &format!("{:?}.titer().step_by({})", xs, st), || z.clone(), || observe_rel(&|| fwd(xs.titer().step_by(st)), steps));
                em.case("exact", &tags("windows"), &format!("{:?}.windows({})", xs, st), || z.clone(), || observe_rel(&|| fwd(xs.windows(st)), steps));
                em.case("exact", &tags("chunks_exact"), &format!("{:?}.chunks_exact({})", xs, st), || z.clone(), || observe_rel(&|| fwd(xs.chunks_exact(st)), steps));
            }
            em.case("exact", &tags("once"), "once(1)", || z.clone(), || observe_rel(&|| fwd(std::iter::once(1)), steps));
            em.case("exact", &tags("empty"), "empty()", || z.clone(), || observe_rel(&|| fwd(std::iter::empty::<i32>()), steps));
            em.case("exact", &tags("range_inclusive"), &format!("1..={}", len), || z.clone(), || observe_rel(&|| fwd(1..=len), steps));
            em.case("exact", &tags("repeat_take"), &format!("repeat(1).take({})", len), || z.clone(), || observe_rel(&|| fwd(std::iter::repeat(1).take(len)), steps));
            em.case("exact", &tags("into_iter"), &format!("{:?}.into_iter()", xs), || z.clone(), || observe_rel(&|| fwd(xs.clone().into_iter()), steps));
            em.case("exact", &tags("copied"), &format!("{:?}.iter().copied()", xs), || z.clone(), || observe_rel(&|| fwd(xs.iter().copied()), steps));
            em.case("exact", &tags("deque_into_iter"), &format!("VecDeque {:?}.into_iter()", xs), || z.clone(), || observe_rel(&|| fwd(rot_deque(&xs, 1).into_iter()), steps));
            em.case("exact", &tags("mut_dyn"), &format!("&mut dyn TrustedLen over {:?}", xs), || z.clone(), || {
                // forwarding impl for &mut dyn TrustedLen: observed through a Vec of the items it yields
                observe_rel(&|| { let mut b: BT<f64> = Box::new(xs.titer()); let r: &mut dyn TrustedLen<Item = f64> = &mut *b; let h = TrustedLen::len(&r); let v: Vec<f64> = r.collect(); assert_eq!(h, v.len()); fwd(v.into_iter()) }, steps)
            });
        }
    }

    // adaptors that can stop early or drop items must not be handed out as TrustedLen: Scan (its closure
    // may return None) and Filter.  cell: upper bound minus items really yielded if the library declares
    // the type TrustedLen (decided at compile time), else 0
    for len in 0..=maxlen {
        let xs = series(len, 0);
        let declared = <Declared<ScanTy>>::TRUSTED;
        em.case("exact", &format!("fn=std_scan len={} declared={}{}", len, declared, nt(len)),
            &format!("{:?}.into_iter().scan(0.0, |st, x| {{ *st += 1.0; if *st > 2.0 {{ None }} else {{ Some(x) }} }}) is declared TrustedLen = {}: upper bound of size_hint minus number of items yielded", xs, declared),
            || "(zeros 1%nat)".to_string(),
            || {
                let mut it = xs.clone().into_iter().scan(0.0, scan_stop as ScanFn);
                let up = it.size_hint().1.unwrap_or(usize::MAX) as i128;
                let c = count_rest(&mut it) as i128;
                vec![Cell::Int(if declared { up - c } else { 0 })]
            });
        let declared_f = <Declared<FilterTy>>::TRUSTED;
        em.case("exact", &format!("fn=std_filter len={} declared={}{}", len, declared_f, nt(len)),
            &format!("{:?}.into_iter().filter(|x| *x > 2.0) is declared TrustedLen = {}: upper bound minus items yielded", xs, declared_f),
            || "(zeros 1%nat)".to_string(),
            || {
                let mut it = xs.clone().into_iter().filter((|x: &f64| *x > 2.0) as fn(&f64) -> bool);
                let up = it.size_hint().1.unwrap_or(usize::MAX) as i128;
                let c = count_rest(&mut it) as i128;
                vec![Cell::Int(if declared_f { up - c } else { 0 })]
            });
    }

    // =========================================================================================
    // K. the trusted collectors, only on iterators whose contract was just checked by plain iteration
    // =========================================================================================
    for len in 0..=maxlen {
        let xs = series(len, 0b010010);
        for n in [-(len as i32) - 1, -(len as i32), -2, -1, 0, 1, 2, len as i32, len as i32 + 1, i32::MIN, i32::MAX] {
            for pre in [0usize, 1] {
                if pre > len { continue; }
                let mk = || fwd(pre_iter!(xs, pre, 0).vshift(n, None));
                let term = format!("(collect_res 0 (vshift {} None (pre {} 0%nat {})))", cz(n as i64), coq_nat(pre), cl(&xs));
                let tags = |c: &str| format!("fn=collect collector={} src=vshift len={} n={} pre={}{}", c, len, nrel(n, len - pre), pre, nt(len));
                let desc = |c: &str| format!("{} of vshift(n={}, None) on {:?}.titer() after {} next()", c, n, xs, pre);
                let lenitems = |v: Vec<f64>| { let mut c = vec![Cell::Int(v.len() as i128)]; c.extend(cells_f64(&v)); c };
                em.case("exact", &tags("collect_trusted_to_vec"), &desc("collect_trusted_to_vec"), || term.clone(), || {
                    if !contract_ok(&mk) { return vec![Cell::Err]; }
                    finish(guarded(AssertUnwindSafe(|| lenitems(pre_iter!(xs, pre, 0).vshift(n, None).collect_trusted_to_vec()))))
                });
                em.case("exact", &tags("collect_trusted_vec1_deque"), &desc("collect_trusted_vec1::<VecDeque>"), || term.clone(), || {
                    if !contract_ok(&mk) { return vec![Cell::Err]; }
                    finish(guarded(AssertUnwindSafe(|| lenitems(pre_iter!(xs, pre, 0).vshift(n, None).collect_trusted_vec1::<VecDeque<f64>>().into_iter().collect()))))
                });
                em.case("exact", &tags("collect_trusted_vec1_ndarray"), &desc("collect_trusted_vec1::<Array1>"), || term.clone(), || {
                    if !contract_ok(&mk) { return vec![Cell::Err]; }
                    finish(guarded(AssertUnwindSafe(|| lenitems(pre_iter!(xs, pre, 0).vshift(n, None).collect_trusted_vec1::<Array1<f64>>().to_vec()))))
                });
                em.case("exact", &tags("collect_vec1_with_len"), &desc("collect_vec1_with_len(count)"), || term.clone(), || {
                    if !contract_ok(&mk) { return vec![Cell::Err]; }
                    let cnt = count_rest(&mut *mk());
                    finish(guarded(AssertUnwindSafe(|| lenitems(pre_iter!(xs, pre, 0).vshift(n, None).collect_vec1_with_len::<Vec<f64>>(cnt)))))
                });
                // write_trust_iter into caller buffers of length len - pre, 3 and 1
                for blen in [len - pre, 3, 1] {
                    em.case("exact", &format!("fn=write src=vshift len={} n={} pre={} buf={}{}", len, nrel(n, len - pre), pre,
                                if blen == len - pre { "equal" } else { "other" }, nt(len)),
                        &format!("vshift(n={}, None) on {:?}.titer() after {} next(), .write(buffer of {})", n, xs, pre, blen),
                        || format!("(write_trust {} (vshift {} None (pre {} 0%nat {})))", coq_nat(blen), cz(n as i64), coq_nat(pre), cl(&xs)),
                        || {
                            if !contract_ok(&mk) { return vec![Cell::Err]; }
                            finish(guarded(AssertUnwindSafe(|| {
                                let mut u: Vec<MaybeUninit<f64>> = (0..blen).map(|_| MaybeUninit::new(SENT)).collect();
                                let r = { let mut out = Vec::<f64>::uninit_ref_mut(&mut u); pre_iter!(xs, pre, 0).vshift(n, None).write(&mut out) };
                                match r {
                                    Err(_) => vec![Cell::Err],
                                    Ok(()) => { let v: Vec<f64> = unsafe { u.assume_init() };
                                                v.iter().map(|x| if *x == SENT { Cell::Uninit } else { Cell::F(*x) }).collect() }
                                }
                            })))
                        });
                }
            }
        }
        // the rolling iterator and the padded partitions through the raw collector
        for w in 1..=len + 1 {
            let mk = || fwd(xs.rolling_custom_iter(w, |sl: &[f64]| (sl.len(), sl[0])));
            em.case("exact", &format!("fn=collect collector=collect_trusted_to_vec src=rolling_custom_iter len={}{}", len, nt(len)),
                &format!("collect_trusted_to_vec of rolling_custom_iter(w={}) on {:?}", w, xs),
                || format!("(collect_res 0 (rolling_custom_iter {} {}))", coq_nat(w), cl(&xs)),
                || {
                    if !contract_ok(&mk) { return vec![Cell::Err]; }
                    finish(guarded(AssertUnwindSafe(|| {
                        let v = xs.rolling_custom_iter(w, |sl: &[f64]| (sl.len(), sl[0])).collect_trusted_to_vec();
                        let mut c = vec![Cell::Int(v.len() as i128)];
                        for (a, b) in v { c.push(Cell::Int(a as i128)); c.push(Cell::F(b)); }
                        c
                    })))
                });
        }
        for kth in 0..=len + 2 {
            let mk = || fwd(xs.varg_partition(kth, false, false));
            em.case("exact", &format!("fn=collect collector=collect_trusted_to_vec src=varg_partition len={}{}", len, nt(len)),
                &format!("collect_trusted_to_vec of varg_partition(kth={}, false, false) on {:?}", kth, xs),
                || format!("(collect_cells 2 (collect_raw (varg_partition {} false {})))", coq_nat(kth), cl(&xs)),
                || {
                    if !contract_ok(&mk) { return vec![Cell::Err]; }
                    finish(guarded(AssertUnwindSafe(|| {
                        let v = xs.varg_partition(kth, false, false).collect_trusted_to_vec();
                        let mut c = vec![Cell::Int(v.len() as i128)];
                        c.extend(v.iter().map(|_| Cell::Int(0)));
                        c
                    })))
                });
        }
    }

    // =========================================================================================
    // L. random pipelines of depth 1..=6
    // =========================================================================================
    let npipes = if thorough { 30000 } else { 1800 };
    let mut r = Rng::new(seed ^ 0x5eed_c09);
    for pi in 0..npipes {
        let len = r.below(9);
        let pat = *r.pick(&NULL_PATTERNS);
        let nm = null_mask(&mut r, pat, len);
        let xs: Vec<f64> = (0..len).map(|i| if nm[i] { f64::NAN } else { r.range(-4, 9) as f64 }).collect();
        let src = match r.below(10) {
            0..=3 => Src::Vec,
            4 => Src::Rev,
            5 => Src::Bfill(if r.chance(1, 2) { None } else { Some(rand_val(&mut r)) }),
            6 | 7 => Src::Vdiff(rand_lag(&mut r, len)),
            8 => Src::Roll(if r.chance(1, 12) { 0 } else { 1 + r.below(len + 2) }),
            _ => Src::RepeatN(rand_val(&mut r), r.below(6)),
        };
        let depth = 1 + r.below(6);
        let stages: Vec<Stage> = (0..depth).map(|_| rand_stage(&mut r, len)).collect();
        let steps = 10;
        let names: Vec<&str> = stages.iter().map(stage_name).collect();
        let mut tags = format!("fn=pipeline depth={} len={} nulls={} src={}", depth, len, pat,
            match src { Src::Vec => "vec", Src::Rev => "rev", Src::Bfill(_) => "bfill", Src::Vdiff(_) => "vdiff", Src::Roll(_) => "roll", Src::RepeatN(..) => "repeat_n" });
        for nme in ["shift", "vshift", "to_trust", "advance", "take", "zip"] {
            if names.contains(&nme) { tags.push_str(&format!(" has_{}=1", nme)); }
        }
        em.case("exact", &tags, &format!("pipeline src={:?} xs={:?} stages={:?}; {} next() steps", src, xs, stages, steps),
            || format!("(obs 0 (fw {}) (build {} {}))", coq_nat(steps), coq_src(&src, &xs), coq_list(&stages, coq_stage)),
            || observe_fwd(&|| fwd(build(&src, &stages, &xs)), steps, 0));
        if pi % 2 == 0 {
            let nsc = 2 + xr.below(4);
            let sc = rand_script(&mut xr, false, nsc, 3);
            em.case("exact", &format!("{} script=x {}", tags, has_nth_tag(&sc)), &format!("pipeline src={:?} xs={:?} stages={:?}; script {:?}", src, xs, stages, sc),
                || format!("(obsx 0 {} (build {} {}))", cins(&sc), coq_src(&src, &xs), coq_list(&stages, coq_stage)),
                || observe_xf(&|| fwd(build(&src, &stages, &xs)), &sc, 0));
        }
    }

    // =========================================================================================
    // M. (YA audit) is_empty / len along a consumption; MapBasic::abs; the partitions against the model that has the
    //    real Filter / FilterMap nodes (Model/IterAudit.v); try_collect_trusted_to_vec of vcut (Err items)
    // =========================================================================================
    for len in 0..=3usize {
        let xs = series(len, 0b0100);
        let steps = len + 2;
        for n in nband(len) {
            let tags = format!("fn=is_empty_vshift len={} n={}{}", len, nrel(n, len), nt(len));
            em.case("exact", &tags, &format!("is_empty / len along vshift(n={}, None) on {:?}", n, xs),
                || format!("(obs_e 0 {} (vshift {} None (IList {})))", coq_nat(steps), cz(n as i64), cl(&xs)),
                || observe_empty(&|| xs.titer().vshift(n, None), steps, 0));
        }
        for &(kf, kb) in &[(0usize, 0usize), (1, 1)] {
            if kf + kb > len { continue; }
            let src = format!("(pre {} {} {})", coq_nat(kf), coq_nat(kb), cl(&xs));
            em.case("exact", &format!("fn=is_empty_titer len={} pre={}{}{}", len, kf, kb, nt(len)),
                &format!("is_empty / len along titer of {:?} pre {} {}", xs, kf, kb),
                || format!("(obs_e_ok 0 {} {})", coq_nat(steps), src),
                || observe_empty(&|| { let b: BT<f64> = Box::new(pre_iter!(xs, kf, kb)); b }, steps, 0));
            em.case("exact", &format!("fn=abs len={} pre={}{}{}", len, kf, kb, nt(len)),
                &format!("MapBasic::abs on {:?} (negated) pre {} {}", xs, kf, kb),
                || format!("(obs_abs {} (IMap (fun v => match v with VZ z => VZ (- z) | _ => v end) {}))", coq_nat(steps), src),
                || observe_fwd(&|| fwd(MapBasic::abs(pre_iter!(xs, kf, kb).map(|v: f64| -v))), steps, 0));
        }
        for kth in 0..=len + 1 {
            em.case("exact", &format!("fn=is_empty_vpartition len={} kth={}{}", len, kth, nt(len)),
                &format!("is_empty / len along vpartition(kth={}, false, false) on {:?}", kth, xs),
                || format!("(obs_e_ok 2 {} (vpartition {} false {}))", coq_nat(kth + 2), coq_nat(kth), cl(&xs)),
                || observe_empty(&|| xs.vpartition(kth, false, false), kth + 2, 2));
        }
    }
    for len in 0..=maxlen {
        let all = if len == 0 { 0 } else { (1u32 << len) - 1 };
        let mut masks = vec![0u32, 0b010101 & all, all, 1 & all, all & !1];
        masks.sort();
        masks.dedup();
        for mask in masks {
            let xs: Vec<f64> = series(len, mask).iter().map(|x| if x.is_nan() { *x } else { ((*x as i64 * 7) % 5) as f64 }).collect();
            let nvalid = xs.iter().filter(|x| !x.is_nan()).count();
            for kth in 0..=len + 2 {
                for sort in [false, true] {
                    let steps = kth + 2;
                    let cls = if nvalid == kth + 1 { "n_eq" } else if nvalid < kth + 1 { "n_lt" } else { "n_gt" };
                    let tags = |f: &str| format!("fn={} len={} kth={} sort={} class={} nulls={}{}", f, len, kth, sort, cls, mask_name(len, mask), nt(len));
                    em.case("exact", &tags("vpartition_f"), &format!("vpartition(kth={}, sort={}, rev=false) on {:?} [filter model]", kth, sort, xs),
                        || format!("(observe_f 2 {} (Tevec.Model.IterAudit.vpartition_f {} {} {}))", coq_nat(steps), coq_nat(kth), coq_bool(sort), cl(&xs)),
                        || observe_fwd(&|| fwd(xs.vpartition(kth, sort, false)), steps, 2));
                    em.case("exact", &tags("varg_partition_f"), &format!("varg_partition(kth={}, sort={}, rev=false) on {:?} [filter model]", kth, sort, xs),
                        || format!("(observe_f 2 {} (Tevec.Model.IterAudit.varg_partition_f {} {} {}))", coq_nat(steps), coq_nat(kth), coq_bool(sort), cl(&xs)),
                        || observe_fwd(&|| fwd(xs.varg_partition(kth, sort, false)), steps, 2));
                }
            }
        }
    }
    {
        let allbins = [2.0, 4.0, 6.0];
        let alllabels = [10.0, 20.0, 30.0, 40.0];
        let data = [3.0, 5.0, f64::NAN, 1.0, 7.0, 4.0];
        for len in [0usize, 1, 2, 3, 4, 6] {
            let xs: Vec<f64> = data[..len].to_vec();
            for nb in 0..=3usize {
                for nl in 0..=4usize {
                    for right in [false, true] {
                        for add in [false, true] {
                            let bins: Vec<f64> = allbins[..nb].to_vec();
                            let labels: Vec<f64> = alllabels[..nl].to_vec();
                            let okc = if add { nl == nb + 1 } else { nl + 1 == nb };
                            let tags = format!("fn=vcut_try_collect len={} bins={} labels={} right={} add_bounds={} sizes={}{}", len, nb, nl, right, add, if okc { "ok" } else { "err" }, nt(len));
                            em.case("exact", &tags,
                                &format!("vcut(bins={:?}, labels={:?}, right={}, add_bounds={}) on {:?} .try_collect_trusted_to_vec()", bins, labels, right, add, xs),
                                || format!("(try_cells (vcut (-(2^1100)) (2^1100) {} {} {} {} (IList {})))",
                                    coq_list(&bins, |b| cz(*b as i64)), cl(&labels), coq_bool(right), coq_bool(add), cl(&xs)),
                                || finish(guarded(AssertUnwindSafe(|| {
                                    match xs.titer().vcut::<_, _, f64>(&bins, &labels, right, add) {
                                        Err(_) => vec![Cell::Err],
                                        Ok(it) => {
                                            // the contract first (plain iteration of a fresh copy), then the raw collector
                                            if !contract_ok(&|| fwd(xs.titer().vcut::<_, _, f64>(&bins, &labels, right, add).unwrap())) {
                                                return vec![Cell::Uninit];
                                            }
                                            match it.try_collect_trusted_to_vec() {
                                                Err(_) => vec![Cell::Err],
                                                Ok(v) => {
                                                    let mut out = vec![Cell::Int(v.len() as i128)];
                                                    for x in &v { x.put(0, &mut out) }
                                                    out
                                                }
                                            }
                                        }
                                    }
                                }))));
                        }
                    }
                }
            }
        }
    }

    // =========================================================================================
    // N. MapValidBasic::drop_none (valid_iter.rs: `self.filter(T::not_none)`) — never compiled into a harness before
    //    (coverage/UNION.md).  The result is a bare std Filter (`impl Iterator`, not a TrustedLen): at every point of its
    //    consumption the hint must be (0, Some(source items still to come)) and the items the non-null ones in order.
    //    EVERY null mask of length 0..maxlen, on Vec<f64> / Vec<Option<i64>> / wrapped VecDeque / Array1, on receivers
    //    consumed from either end, behind vshift / ffill / vabs stages, and applied twice (through a collection).
    //    Model: Model/IterAudit.v drop_none (theorems C09_drop_none_*).
    // =========================================================================================
    for len in 0..=maxlen {
        for mask in 0..(1u32 << len) {
            let xs = series(len, mask);
            let xo: Vec<Option<i64>> = xs.iter().map(|x| if x.is_nan() { None } else { Some(*x as i64) }).collect();
            let steps = len + 1;
            let tags = |be: &str| format!("fn=drop_none be={} len={} nulls={}{}", be, len, mask_name(len, mask), nt(len));
            let term = || format!("(obs_drop_none 0 {} (IList {}))", coq_nat(steps), cl(&xs));
            em.case("exact", &tags("vec"), &format!("drop_none on Vec<f64> {:?}", xs), term,
                || observe_fwd(&|| { let b: BI<f64> = Box::new(xs.titer().drop_none()); b }, steps, 0));
            em.case("exact", &tags("vec_opt"), &format!("drop_none on Vec<Option<i64>> {:?}", xo), term,
                || observe_fwd(&|| { let b: BI<Option<i64>> = Box::new(xo.titer().drop_none()); b }, steps, 0));
            em.case("exact", &tags("deque"), &format!("drop_none on wrapped VecDeque {:?}", xs), term,
                || { let d = rot_deque(&xs, 1); observe_fwd(&|| { let b: BI<f64> = Box::new(d.titer().drop_none()); b }, steps, 0) });
            em.case("exact", &tags("nd"), &format!("drop_none on Array1 {:?}", xs), term,
                || { let a = Array1::from_vec(xs.clone()); observe_fwd(&|| { let b: BI<f64> = Box::new(a.titer().drop_none()); b }, steps, 0) });
            em.case("exact", &tags("twice"), &format!("drop_none().collect::<Vec<_>>().titer().drop_none() on {:?}", xs),
                || format!("(obs_drop_none_twice 0 {} (IList {}))", coq_nat(steps), cl(&xs)),
                || { let v: Vec<f64> = Iterator::collect(xs.titer().drop_none());
                     observe_fwd(&|| { let b: BI<f64> = Box::new(v.titer().drop_none()); b }, steps, 0) });
            for &(kf, kb) in &[(1usize, 0usize), (0, 1), (1, 1)] {
                if kf + kb > len { continue; }
                em.case("exact", &tags(&format!("pre{}{}", kf, kb)), &format!("drop_none on titer of {:?} after {} next() and {} next_back()", xs, kf, kb),
                    || format!("(obs_drop_none 0 {} (pre {} {} {}))", coq_nat(steps), coq_nat(kf), coq_nat(kb), cl(&xs)),
                    || observe_fwd(&|| { let b: BI<f64> = Box::new(pre_iter!(xs, kf, kb).drop_none()); b }, steps, 0));
            }
            for n in [-1i32, 1, 2] {
                em.case("exact", &tags(&format!("vshift{}", n)), &format!("vshift({}, None).drop_none() on {:?}", n, xs),
                    || format!("(obs_drop_none_res 0 {} (vshift {} None (IList {})))", coq_nat(steps), cz(n as i64), cl(&xs)),
                    || observe_fwd(&|| { let b: BI<f64> = Box::new(xs.titer().vshift(n, None).drop_none()); b }, steps, 0));
            }
            em.case("exact", &tags("ffill"), &format!("ffill(None).drop_none() on {:?}", xs),
                || format!("(obs_drop_none 0 {} (ffill None (IList {})))", coq_nat(steps), cl(&xs)),
                || observe_fwd(&|| { let b: BI<f64> = Box::new(xs.titer().ffill(None).drop_none()); b }, steps, 0));
            em.case("exact", &tags("vabs"), &format!("map(neg).vabs().drop_none() on {:?}", xs),
                || format!("(obs_drop_none 0 {} (vabs (IMap (fun v => match v with VZ z => VZ (- z) | _ => v end) (IList {}))))", coq_nat(steps), cl(&xs)),
                || observe_fwd(&|| { let b: BI<f64> = Box::new(xs.titer().map(|v: f64| -v).vabs().drop_none()); b }, steps, 0));
        }
    }

    em.finish();
}
