//! C02: a recording callback through all rolling drivers x backends x {returned, caller buffer}.
//! Exhaustive over len 0..=N, w 1..=len+3.
use std::cell::RefCell;
use std::collections::VecDeque;
use std::mem::MaybeUninit;
use std::sync::Arc;

use tevec::export::ndarray::{Array1, ArrayView1, s};
use tevec::prelude::{UninitVec, Vec1, Vec1View};
use vh::*;

const SENT: i64 = i64::MIN + 12345;

fn series(len: usize, salt: u64) -> Vec<f64> {
    // distinct-ish small values with a NaN sprinkled in (the drivers must pass them through untouched)
    let mut r = Rng::new(salt * 7919 + len as u64);
    (0..len)
        .map(|i| if r.chance(1, 6) { f64::NAN } else { (10 * (i as i64 + 1) + r.range(0, 3)) as f64 / 2.0 })
        .collect()
}

/// part=dispatch (YA) compares the removed value / start index at the final position of a too-long window as well:
/// it is the one observation that tells the index body from the iterator body, i.e. the backend dispatch
static UNMASK: std::sync::atomic::AtomicBool = std::sync::atomic::AtomicBool::new(false);

fn masked_rm(w: usize, len: usize, i: usize, c: Cell) -> Cell {
    if len < w && i + 1 == len && !UNMASK.load(std::sync::atomic::Ordering::Relaxed) { Cell::Int(-999) } else { c }
}

fn optf(v: Option<f64>) -> Cell {
    match v {
        Some(x) => Cell::F(x),
        None => Cell::Null,
    }
}
fn optu(v: Option<usize>) -> Cell {
    match v {
        Some(x) => Cell::Int(x as i128),
        None => Cell::Null,
    }
}

/// turn the raw output (call counters, SENT where nothing was written) + trace into cells
fn assemble(out: Result<Vec<i64>, u8>, trace: &RefCell<Vec<Vec<Cell>>>) -> Vec<Cell> {
    match out {
        Err(k) => vec![Cell::Panic(k)],
        Ok(o) => {
            let tr = trace.borrow();
            let mut cells = vec![];
            let nwritten = o.iter().filter(|v| **v != SENT).count();
            for v in o {
                if v == SENT {
                    cells.push(Cell::Uninit)
                } else {
                    cells.push(Cell::Int(v as i128));
                    match <[Vec<Cell>]>::get(&tr, v as usize) {
                        Some(t) => cells.extend(t.iter().cloned()),
                        None => cells.push(Cell::Err),
                    }
                }
            }
            if tr.len() != nwritten {
                // the callback ran more (or fewer) times than results were stored
                cells.push(Cell::Err)
            }
            cells
        }
    }
}

fn sent_buf(len: usize) -> Vec<MaybeUninit<i64>> {
    (0..len).map(|_| MaybeUninit::new(SENT)).collect()
}

macro_rules! run_kind {
    // $view: expression of a Vec1View<f64>; $elt: conversion of the element to Cell
    ($kind:expr, $buf:expr, $w:expr, $len:expr, $view:expr, $view2:expr, $elt:expr) => {{
        let trace: RefCell<Vec<Vec<Cell>>> = RefCell::new(vec![]);
        let w: usize = $w;
        let len: usize = $len;
        let elt = $elt;
        let res = guarded(std::panic::AssertUnwindSafe(|| -> Vec<i64> {
            let v = $view;
            let v2 = $view2;
            match $kind {
                "apply" => {
                    let f = |rm, x| {
                        let mut t = trace.borrow_mut();
                        let k = t.len();
                        t.push(vec![masked_rm(w, len, k, match rm { Some(r) => elt(r), None => Cell::Null }), elt(x)]);
                        k as i64
                    };
                    if $buf {
                        let mut u = sent_buf(len);
                        v.rolling_apply::<Vec<i64>, _, _>(w, f, Some(Vec::<i64>::uninit_ref_mut(&mut u)));
                        unsafe { u.assume_init() }
                    } else {
                        v.rolling_apply::<Vec<i64>, _, _>(w, f, None).unwrap()
                    }
                }
                "apply_idx" => {
                    let f = |st: Option<usize>, e: usize, x| {
                        let mut t = trace.borrow_mut();
                        let k = t.len();
                        t.push(vec![masked_rm(w, len, k, optu(st)), Cell::Int(e as i128), elt(x)]);
                        k as i64
                    };
                    if $buf {
                        let mut u = sent_buf(len);
                        v.rolling_apply_idx::<Vec<i64>, _, _>(w, f, Some(Vec::<i64>::uninit_ref_mut(&mut u)));
                        unsafe { u.assume_init() }
                    } else {
                        v.rolling_apply_idx::<Vec<i64>, _, _>(w, f, None).unwrap()
                    }
                }
                "apply2" => {
                    let f = |rm: Option<(_, f64)>, x: (_, f64)| {
                        let mut t = trace.borrow_mut();
                        let k = t.len();
                        let (r1, r2) = match rm { Some((a, b)) => (elt(a), Cell::F(b)), None => (Cell::Null, Cell::Null) };
                        t.push(vec![masked_rm(w, len, k, r1), masked_rm(w, len, k, r2), elt(x.0), Cell::F(x.1)]);
                        k as i64
                    };
                    if $buf {
                        let mut u = sent_buf(len);
                        v.rolling2_apply::<Vec<i64>, _, _, _, _>(&v2, w, f, Some(Vec::<i64>::uninit_ref_mut(&mut u)));
                        unsafe { u.assume_init() }
                    } else {
                        v.rolling2_apply::<Vec<i64>, _, _, _, _>(&v2, w, f, None).unwrap()
                    }
                }
                "apply2_idx" => {
                    let f = |st: Option<usize>, e: usize, x: (_, f64)| {
                        let mut t = trace.borrow_mut();
                        let k = t.len();
                        t.push(vec![masked_rm(w, len, k, optu(st)), Cell::Int(e as i128), elt(x.0), Cell::F(x.1)]);
                        k as i64
                    };
                    if $buf {
                        let mut u = sent_buf(len);
                        v.rolling2_apply_idx::<Vec<i64>, _, _, _, _>(&v2, w, f, Some(Vec::<i64>::uninit_ref_mut(&mut u)));
                        unsafe { u.assume_init() }
                    } else {
                        v.rolling2_apply_idx::<Vec<i64>, _, _, _, _>(&v2, w, f, None).unwrap()
                    }
                }
                _ => unreachable!(),
            }
        }));
        assemble(res, &trace)
    }};
}

/// slice forms need the backend's own slice type; `$it` turns a slice output into Vec<Cell>
macro_rules! run_custom {
    ($kind:expr, $buf:expr, $w:expr, $len:expr, $view:expr, $view2:expr, $t1:ty, $it:expr, $it2:expr) => {{
        let trace: RefCell<Vec<Vec<Cell>>> = RefCell::new(vec![]);
        let w: usize = $w;
        let len: usize = $len;
        let res = guarded(std::panic::AssertUnwindSafe(|| -> Vec<i64> {
            let v = $view;
            let v2 = $view2;
            let it = $it;
            let it2 = $it2;
            match $kind {
                "custom" => {
                    let f = |sl: $t1| {
                        let mut t = trace.borrow_mut();
                        let k = t.len();
                        let mut c: Vec<Cell> = it(sl);
                        c.push(Cell::Sep);
                        t.push(c);
                        k as i64
                    };
                    if $buf {
                        let mut u = sent_buf(len);
                        v.rolling_custom::<Vec<i64>, _, _>(w, f, Some(Vec::<i64>::uninit_ref_mut(&mut u)));
                        unsafe { u.assume_init() }
                    } else {
                        v.rolling_custom::<Vec<i64>, _, _>(w, f, None).unwrap()
                    }
                }
                "custom_to" => {
                    let f = |sl: $t1| {
                        let mut t = trace.borrow_mut();
                        let k = t.len();
                        let mut c: Vec<Cell> = it(sl);
                        c.push(Cell::Sep);
                        t.push(c);
                        k as i64
                    };
                    let mut u = sent_buf(len);
                    v.rolling_custom_to::<Vec<i64>, _, _>(w, f, Vec::<i64>::uninit_ref_mut(&mut u));
                    unsafe { u.assume_init() }
                }
                "custom_iter" => {
                    let f = |sl: $t1| {
                        let mut t = trace.borrow_mut();
                        let k = t.len();
                        let mut c: Vec<Cell> = it(sl);
                        c.push(Cell::Sep);
                        t.push(c);
                        k as i64
                    };
                    // plain safe iteration of the lazy iterator
                    let mut o = vec![];
                    for x in v.rolling_custom_iter(w, f) {
                        o.push(x)
                    }
                    o
                }
                "custom2" => {
                    let f = |sl: $t1, sl2: &[f64]| {
                        let mut t = trace.borrow_mut();
                        let k = t.len();
                        let mut c: Vec<Cell> = it(sl);
                        c.push(Cell::Sep);
                        c.extend(it2(sl2));
                        c.push(Cell::Sep);
                        t.push(c);
                        k as i64
                    };
                    if $buf {
                        let mut u = sent_buf(len);
                        v.rolling2_custom::<Vec<i64>, _, _, _, _>(&v2, w, f, Some(Vec::<i64>::uninit_ref_mut(&mut u)));
                        unsafe { u.assume_init() }
                    } else {
                        v.rolling2_custom::<Vec<i64>, _, _, _, _>(&v2, w, f, None).unwrap()
                    }
                }
                _ => unreachable!(),
            }
        }));
        assemble(res, &trace)
    }};
}

/// slice forms need the backend's own slice type; `$it` turns a slice output into Vec<Cell>
macro_rules! run_custom1 {
    ($kind:expr, $buf:expr, $w:expr, $len:expr, $view:expr, $t1:ty, $it:expr) => {{
        let trace: RefCell<Vec<Vec<Cell>>> = RefCell::new(vec![]);
        let w: usize = $w;
        let len: usize = $len;
        let res = guarded(std::panic::AssertUnwindSafe(|| -> Vec<i64> {
            let v = $view;
            let it = $it;
            match $kind {
                "custom" => {
                    let f = |sl: $t1| {
                        let mut t = trace.borrow_mut();
                        let k = t.len();
                        let mut c: Vec<Cell> = it(sl);
                        c.push(Cell::Sep);
                        t.push(c);
                        k as i64
                    };
                    if $buf {
                        let mut u = sent_buf(len);
                        v.rolling_custom::<Vec<i64>, _, _>(w, f, Some(Vec::<i64>::uninit_ref_mut(&mut u)));
                        unsafe { u.assume_init() }
                    } else {
                        v.rolling_custom::<Vec<i64>, _, _>(w, f, None).unwrap()
                    }
                }
                "custom_to" => {
                    let f = |sl: $t1| {
                        let mut t = trace.borrow_mut();
                        let k = t.len();
                        let mut c: Vec<Cell> = it(sl);
                        c.push(Cell::Sep);
                        t.push(c);
                        k as i64
                    };
                    let mut u = sent_buf(len);
                    v.rolling_custom_to::<Vec<i64>, _, _>(w, f, Vec::<i64>::uninit_ref_mut(&mut u));
                    unsafe { u.assume_init() }
                }
                "custom_iter" => {
                    let f = |sl: $t1| {
                        let mut t = trace.borrow_mut();
                        let k = t.len();
                        let mut c: Vec<Cell> = it(sl);
                        c.push(Cell::Sep);
                        t.push(c);
                        k as i64
                    };
                    // plain safe iteration of the lazy iterator
                    let mut o = vec![];
                    for x in v.rolling_custom_iter(w, f) {
                        o.push(x)
                    }
                    o
                }
                _ => unreachable!(),
            }
        }));
        assemble(res, &trace)
    }};
}

// ---------------------------------------------------------------------------------------------
// Part "deg" (X12): the two-series entry points in every degenerate combination - window 0 / 1 / 2,
// first series of length 0..=3, second series of length 0..=3 (empty / shorter / equal / longer), returned
// and caller-buffer paths, Vec / VecDeque / ndarray for either series.  A panic is reported as its kind
// AND the identity of the check that fired (from the panic message), so the ORDER of the checks in the
// code is compared with Model/Driver.v : check2_default / check2_to / check2_custom.

/// (panic kind, check id): 1 = window assertion, 2 = second-series-shorter assertion, 3 = `window - 1`
/// underflow, 4 = `write(..).unwrap()` on a length mismatch; 0 = anything else
fn classify(msg: &str) -> (u8, i128) {
    if msg.contains("window must be greater than 0") {
        (2, 1)
    } else if msg.contains("the second series must not be shorter than the first") {
        (2, 2)
    } else if msg.contains("subtract with overflow") {
        (0, 3)
    } else if msg.contains("`Err` value") {
        (3, 4)
    } else {
        (panic_kind(msg), 0)
    }
}

/// like vh::guarded, but keeps the message
fn guarded_msg<R>(f: impl FnOnce() -> R + std::panic::UnwindSafe) -> Result<R, String> {
    use std::sync::Mutex;
    static LAST: Mutex<String> = Mutex::new(String::new());
    std::panic::set_hook(Box::new(|info| {
        let mut s = String::new();
        if let Some(m) = info.payload().downcast_ref::<&str>() {
            s.push_str(m)
        } else if let Some(m) = info.payload().downcast_ref::<String>() {
            s.push_str(m)
        }
        *LAST.lock().unwrap() = s;
    }));
    let r = std::panic::catch_unwind(f);
    let _ = std::panic::take_hook();
    match r {
        Ok(v) => Ok(v),
        Err(_) => Err(LAST.lock().unwrap().clone()),
    }
}

/// cells of a degenerate case: the usual cells (or the panic kind), then the id of the check that fired (0: none)
fn assemble_deg(out: Result<Vec<i64>, String>, trace: &RefCell<Vec<Vec<Cell>>>) -> Vec<Cell> {
    match out {
        Err(m) => {
            let (k, id) = classify(&m);
            vec![Cell::Panic(k), Cell::Int(id)]
        }
        Ok(o) => {
            let mut c = assemble(Ok(o), trace);
            c.push(Cell::Int(0));
            c
        }
    }
}

/// $kind: apply2 / apply2_to / apply2_idx / apply2_idx_to / custom2; $buf: caller buffer (always for *_to)
macro_rules! run_deg {
    ($kind:expr, $buf:expr, $w:expr, $len:expr, $view:expr, $view2:expr, $t1:ty, $it1:expr, $t2:ty, $it2:expr) => {{
        let trace: RefCell<Vec<Vec<Cell>>> = RefCell::new(vec![]);
        let w: usize = $w;
        let len: usize = $len;
        let res = guarded_msg(std::panic::AssertUnwindSafe(|| -> Vec<i64> {
            let v = $view;
            let v2 = $view2;
            let it1 = $it1;
            let it2 = $it2;
            match $kind {
                "apply2" | "apply2_to" => {
                    let f = |rm: Option<(f64, f64)>, x: (f64, f64)| {
                        let mut t = trace.borrow_mut();
                        let k = t.len();
                        let (r1, r2) = match rm { Some((a, b)) => (Cell::F(a), Cell::F(b)), None => (Cell::Null, Cell::Null) };
                        t.push(vec![masked_rm(w, len, k, r1), masked_rm(w, len, k, r2), Cell::F(x.0), Cell::F(x.1)]);
                        k as i64
                    };
                    if $kind == "apply2_to" {
                        let mut u = sent_buf(len);
                        v.rolling2_apply_to::<Vec<i64>, _, _, _, _>(&v2, w, f, Vec::<i64>::uninit_ref_mut(&mut u));
                        unsafe { u.assume_init() }
                    } else if $buf {
                        let mut u = sent_buf(len);
                        v.rolling2_apply::<Vec<i64>, _, _, _, _>(&v2, w, f, Some(Vec::<i64>::uninit_ref_mut(&mut u)));
                        unsafe { u.assume_init() }
                    } else {
                        v.rolling2_apply::<Vec<i64>, _, _, _, _>(&v2, w, f, None).unwrap()
                    }
                }
                "apply2_idx" | "apply2_idx_to" => {
                    let f = |st: Option<usize>, e: usize, x: (f64, f64)| {
                        let mut t = trace.borrow_mut();
                        let k = t.len();
                        t.push(vec![masked_rm(w, len, k, optu(st)), Cell::Int(e as i128), Cell::F(x.0), Cell::F(x.1)]);
                        k as i64
                    };
                    if $kind == "apply2_idx_to" {
                        let mut u = sent_buf(len);
                        v.rolling2_apply_idx_to::<Vec<i64>, _, _, _, _>(&v2, w, f, Vec::<i64>::uninit_ref_mut(&mut u));
                        unsafe { u.assume_init() }
                    } else if $buf {
                        let mut u = sent_buf(len);
                        v.rolling2_apply_idx::<Vec<i64>, _, _, _, _>(&v2, w, f, Some(Vec::<i64>::uninit_ref_mut(&mut u)));
                        unsafe { u.assume_init() }
                    } else {
                        v.rolling2_apply_idx::<Vec<i64>, _, _, _, _>(&v2, w, f, None).unwrap()
                    }
                }
                "custom2" => {
                    let f = |sl: $t1, sl2: $t2| {
                        let mut t = trace.borrow_mut();
                        let k = t.len();
                        let mut c: Vec<Cell> = it1(sl);
                        c.push(Cell::Sep);
                        c.extend(it2(sl2));
                        c.push(Cell::Sep);
                        t.push(c);
                        k as i64
                    };
                    if $buf {
                        let mut u = sent_buf(len);
                        v.rolling2_custom::<Vec<i64>, _, _, _, _>(&v2, w, f, Some(Vec::<i64>::uninit_ref_mut(&mut u)));
                        unsafe { u.assume_init() }
                    } else {
                        v.rolling2_custom::<Vec<i64>, _, _, _, _>(&v2, w, f, None).unwrap()
                    }
                }
                _ => unreachable!(),
            }
        }));
        assemble_deg(res, &trace)
    }};
}

/// second series on each backend
macro_rules! deg_second {
    ($be2:expr, $kind:expr, $buf:expr, $w:expr, $len:expr, $ys:expr, $view:expr, $t1:ty, $it1:expr) => {{
        match $be2 {
            "vec" => run_deg!($kind, $buf, $w, $len, $view, $ys.clone(), $t1, $it1, &[f64], |s: &[f64]| cells_f64(s)),
            "deque" => run_deg!($kind, $buf, $w, $len, $view, rot_deque(&$ys, 1), $t1, $it1,
                std::collections::vec_deque::Iter<'_, f64>,
                |s: std::collections::vec_deque::Iter<'_, f64>| cells_f64(&s.cloned().collect::<Vec<_>>())),
            _ => run_deg!($kind, $buf, $w, $len, $view, Array1::from_vec($ys.clone()), $t1, $it1,
                ArrayView1<'_, f64>, |s: ArrayView1<f64>| cells_f64(&s.to_vec())),
        }
    }};
}

fn degenerate(em: &mut Emitter) {
    for len in 0..=3usize {
        for len2 in 0..=3usize {
            let xs = series(len, 11);
            let ys = series(len2, 12);
            let xs_coq = coq_list(&xs, |x| coq_f64(*x));
            let ys_coq = coq_list(&ys, |x| coq_f64(*x));
            for w in 0..=2usize {
                for (kind, buf) in [("apply2", false), ("apply2", true), ("apply2_to", true),
                                    ("apply2_idx", false), ("apply2_idx", true), ("apply2_idx_to", true),
                                    ("custom2", false), ("custom2", true)] {
                    for be in ["vec", "deque", "nd"] {
                        // which body runs: Vec / ndarray override the returned path with the index body over a
                        // fresh buffer; VecDeque has the default trait method (iterator body when returned)
                        let body = buf || be != "deque";
                        let (runner, chk) = match kind {
                            "apply2" | "apply2_to" => (format!("run_apply2 ef ef {}", coq_bool(body)),
                                if body { "check2_to" } else { "check2_default" }),
                            "apply2_idx" | "apply2_idx_to" => (format!("run_apply2_idx ef ef {}", coq_bool(body)),
                                if body { "check2_to" } else { "check2_default" }),
                            _ => ("run_custom2 ef ef".to_string(), "check2_custom"),
                        };
                        let term = format!("(({} {} {} {}) ++ c_nat (Model.Driver.guard_id (@Model.Driver.{} PrimFloat.float PrimFloat.float {} {} {})))",
                            runner, coq_nat(w), xs_coq, ys_coq, chk, coq_nat(w), xs_coq, ys_coq);
                        for be2 in ["vec", "deque", "nd"] {
                            let rel2 = if len2 == 0 && len > 0 { "empty" } else if len2 < len { "shorter" }
                                else if len2 == len { "eq" } else { "longer" };
                            let tags = format!("part=deg kind={} be={} be2={} buf={} w={} first={} second={}{}", kind, be, be2, buf,
                                if w == 0 { "0" } else { "pos" }, if len == 0 { "empty" } else { "nonempty" }, rel2,
                                if len == 0 || len2 == 0 || w == 0 { " nt=0" } else { "" });
                            let desc = format!("deg kind={} be={} be2={} buf={} w={} len={} len2={} xs={:?} ys={:?}", kind, be, be2, buf, w, len, len2, xs, ys);
                            let t = term.clone();
                            em.case("exact", &tags, &desc, || t, || match be {
                                "vec" => deg_second!(be2, kind, buf, w, len, ys, xs.clone(), &[f64], |s: &[f64]| cells_f64(s)),
                                "deque" => deg_second!(be2, kind, buf, w, len, ys, rot_deque(&xs, 1),
                                    std::collections::vec_deque::Iter<'_, f64>,
                                    |s: std::collections::vec_deque::Iter<'_, f64>| cells_f64(&s.cloned().collect::<Vec<_>>())),
                                _ => deg_second!(be2, kind, buf, w, len, ys, Array1::from_vec(xs.clone()),
                                    ArrayView1<'_, f64>, |s: ArrayView1<f64>| cells_f64(&s.to_vec())),
                            });
                        }
                    }
                }
            }
        }
    }
}

// ---------------------------------------------------------------------------------------------
// Part "dispatch" (YA): WHICH body a backend runs, for every one-series entry point, both output paths and
// every window 0..=len+2 - compared with Model/DriverDispatch.v (`rolling_*_on (be_of b) out`), nothing masked.
// Backends: Vec, boxed slice, ndarray owned / stepped view / mutable view, VecDeque, option view, Arc<Vec>,
// Arc<VecDeque>, Arc<Arc<Array1>>.  Part "lazy": k calls of next() on rolling_custom_iter, k = 0..=len+1: the callback
// must have run exactly min(k, len) times, on the first windows, in order (the iterator is then dropped).

macro_rules! run_lazy {
    ($k:expr, $w:expr, $view:expr, $t1:ty, $it:expr) => {{
        let trace: RefCell<Vec<Vec<Cell>>> = RefCell::new(vec![]);
        let w: usize = $w;
        let k: usize = $k;
        let res = guarded(std::panic::AssertUnwindSafe(|| -> Vec<i64> {
            let v = $view;
            let it = $it;
            let f = |sl: $t1| {
                let mut t = trace.borrow_mut();
                let n = t.len();
                let mut c: Vec<Cell> = it(sl);
                c.push(Cell::Sep);
                t.push(c);
                n as i64
            };
            let mut o = vec![];
            let mut iter = v.rolling_custom_iter(w, f);
            for _ in 0..k {
                if let Some(x) = Iterator::next(&mut iter) {
                    o.push(x)
                }
            }
            drop(iter);
            o
        }));
        assemble(res, &trace)
    }};
}

fn dispatch(em: &mut Emitter) {
    let fcell = |x: f64| Cell::F(x);
    let ocell = |x: Option<f64>| optf(x);
    let sl_vec = |s: &[f64]| cells_f64(s);
    let maxlen = if em.thorough() { 5 } else { 3 };
    for len in 0..=maxlen {
        let xs = series(len, 21);
        let ys: Vec<f64> = vec![];
        let xs_coq = coq_list(&xs, |x| coq_f64(*x));
        let xo_coq = coq_list(&xs, |x| if x.is_nan() { "None".into() } else { format!("(Some {})", coq_f64(*x)) });
        for w in 0..=len + 2 {
            let wrel = if w == 0 { "zero" } else if w > len { "gt" } else if w == len { "eq" } else { "lt" };
            for kind in ["apply", "apply_idx"] {
                for buf in [false, true] {
                    let runner = if kind == "apply" { "run_apply_on" } else { "run_apply_idx_on" };
                    let term = |b: usize, optview: bool| format!("({} {} {} {} {} {})", runner, if optview { "eo" } else { "ef" },
                        coq_nat(b), coq_bool(buf), coq_nat(w), if optview { &xo_coq } else { &xs_coq });
                    let desc = |be: &str| format!("dispatch kind={} be={} buf={} w={} len={} xs={:?}", kind, be, buf, w, len, xs);
                    let tags = |be: &str| format!("part=dispatch kind={} be={} buf={} len={} wrel={}{}", kind, be, buf, len, wrel,
                        if len == 0 { " nt=0" } else { "" });
                    UNMASK.store(true, std::sync::atomic::Ordering::Relaxed);
                    em.case("exact", &tags("vec"), &desc("vec"), || term(0, false),
                        || run_kind!(kind, buf, w, len, xs.clone(), ys.clone(), fcell));
                    em.case("exact", &tags("slice"), &desc("slice"), || term(1, false),
                        || { let b = xs.clone().into_boxed_slice(); run_kind!(kind, buf, w, len, &*b, ys.clone(), fcell) });
                    em.case("exact", &tags("nd_owned"), &desc("nd_owned"), || term(3, false),
                        || run_kind!(kind, buf, w, len, Array1::from_vec(xs.clone()), ys.clone(), fcell));
                    em.case("exact", &tags("nd_view"), &desc("nd_view"), || term(4, false), || {
                        let mut big = vec![-7.0; 2 * len];
                        for i in 0..len { big[2 * i] = xs[i] }
                        let a = Array1::from_vec(big);
                        let v: ArrayView1<f64> = a.slice(s![..;2]);
                        run_kind!(kind, buf, w, len, v, ys.clone(), fcell)
                    });
                    em.case("exact", &tags("nd_viewmut"), &desc("nd_viewmut"), || term(5, false), || {
                        let mut a = Array1::from_vec(xs.clone());
                        run_kind!(kind, buf, w, len, a.view_mut(), ys.clone(), fcell)
                    });
                    em.case("exact", &tags("deque"), &desc("deque"), || term(6, false),
                        || run_kind!(kind, buf, w, len, rot_deque(&xs, 1), ys.clone(), fcell));
                    em.case("exact", &tags("optview"), &desc("optview"), || term(7, true),
                        || { let base = xs.clone(); run_kind!(kind, buf, w, len, base.opt(), ys.clone(), ocell) });
                    em.case("exact", &tags("arcvec"), &desc("arcvec"), || term(9, false),
                        || run_kind!(kind, buf, w, len, Arc::new(xs.clone()), ys.clone(), fcell));
                    em.case("exact", &tags("arcdeque"), &desc("arcdeque"), || term(10, false),
                        || run_kind!(kind, buf, w, len, Arc::new(rot_deque(&xs, 1)), ys.clone(), fcell));
                    em.case("exact", &tags("arcarcnd"), &desc("arcarcnd"), || term(11, false),
                        || run_kind!(kind, buf, w, len, Arc::new(Arc::new(Array1::from_vec(xs.clone()))), ys.clone(), fcell));
                    UNMASK.store(false, std::sync::atomic::Ordering::Relaxed);
                }
            }
            for buf in [false, true] {
                let kind = "custom";
                let term = |b: usize| format!("(run_custom_on ef {} {} {} {})", coq_nat(b), coq_bool(buf), coq_nat(w), xs_coq);
                let desc = |be: &str| format!("dispatch kind={} be={} buf={} w={} len={} xs={:?}", kind, be, buf, w, len, xs);
                let tags = |be: &str| format!("part=dispatch kind={} be={} buf={} len={} wrel={}{}", kind, be, buf, len, wrel,
                    if len == 0 { " nt=0" } else { "" });
                em.case("exact", &tags("vec"), &desc("vec"), || term(0),
                    || run_custom1!(kind, buf, w, len, xs.clone(), &[f64], sl_vec));
                em.case("exact", &tags("slice"), &desc("slice"), || term(1),
                    || { let b = xs.clone().into_boxed_slice(); run_custom1!(kind, buf, w, len, &*b, &[f64], sl_vec) });
                em.case("exact", &tags("nd_owned"), &desc("nd_owned"), || term(3),
                    || run_custom1!(kind, buf, w, len, Array1::from_vec(xs.clone()), ArrayView1<'_, f64>,
                        |s: ArrayView1<f64>| cells_f64(&s.to_vec())));
                em.case("exact", &tags("nd_viewmut"), &desc("nd_viewmut"), || term(5), || {
                    let mut a = Array1::from_vec(xs.clone());
                    run_custom1!(kind, buf, w, len, a.view_mut(), ArrayView1<'_, f64>, |s: ArrayView1<f64>| cells_f64(&s.to_vec()))
                });
                em.case("exact", &tags("deque"), &desc("deque"), || term(6),
                    || run_custom1!(kind, buf, w, len, rot_deque(&xs, 1), std::collections::vec_deque::Iter<'_, f64>,
                        |s: std::collections::vec_deque::Iter<'_, f64>| cells_f64(&s.cloned().collect::<Vec<_>>())));
                em.case("exact", &tags("arcvec"), &desc("arcvec"), || term(9),
                    || run_custom1!(kind, buf, w, len, Arc::new(xs.clone()), &[f64], sl_vec));
                em.case("exact", &tags("arcdeque"), &desc("arcdeque"), || term(10),
                    || run_custom1!(kind, buf, w, len, Arc::new(rot_deque(&xs, 1)), std::collections::vec_deque::Iter<'_, f64>,
                        |s: std::collections::vec_deque::Iter<'_, f64>| cells_f64(&s.cloned().collect::<Vec<_>>())));
                em.case("exact", &tags("arcarcnd"), &desc("arcarcnd"), || term(11),
                    || run_custom1!(kind, buf, w, len, Arc::new(Arc::new(Array1::from_vec(xs.clone()))), ArrayView1<'_, f64>,
                        |s: ArrayView1<f64>| cells_f64(&s.to_vec())));
            }
            // the lazy iterator, partially consumed
            for k in 0..=len + 1 {
                let term = format!("(run_custom_iter_take ef {} {} {})", coq_nat(k), coq_nat(w), xs_coq);
                let desc = |be: &str| format!("lazy be={} k={} w={} len={} xs={:?}", be, k, w, len, xs);
                let tags = |be: &str| format!("part=lazy kind=custom_iter_take be={} len={} wrel={} pulled={}{}", be, len, wrel,
                    if k == 0 { "none" } else if k < len { "some" } else if k == len { "all" } else { "beyond" },
                    if len == 0 { " nt=0" } else { "" });
                em.case("exact", &tags("vec"), &desc("vec"), || term.clone(),
                    || run_lazy!(k, w, xs.clone(), &[f64], sl_vec));
                em.case("exact", &tags("deque"), &desc("deque"), || term.clone(),
                    || run_lazy!(k, w, rot_deque(&xs, 1), std::collections::vec_deque::Iter<'_, f64>,
                        |s: std::collections::vec_deque::Iter<'_, f64>| cells_f64(&s.cloned().collect::<Vec<_>>())));
                em.case("exact", &tags("nd_owned"), &desc("nd_owned"), || term.clone(),
                    || run_lazy!(k, w, Array1::from_vec(xs.clone()), ArrayView1<'_, f64>,
                        |s: ArrayView1<f64>| cells_f64(&s.to_vec())));
                em.case("exact", &tags("arcdeque"), &desc("arcdeque"), || term.clone(),
                    || run_lazy!(k, w, Arc::new(rot_deque(&xs, 1)), std::collections::vec_deque::Iter<'_, f64>,
                        |s: std::collections::vec_deque::Iter<'_, f64>| cells_f64(&s.cloned().collect::<Vec<_>>())));
            }
        }
    }
}

fn rot_deque(xs: &[f64], rot: usize) -> VecDeque<f64> {
    // build a deque whose ring buffer head is at offset `rot` (wrapped when rot > 0 and len > 1)
    let mut d: VecDeque<f64> = VecDeque::with_capacity(xs.len().max(1));
    for _ in 0..rot {
        d.push_back(0.0);
    }
    for _ in 0..rot {
        d.pop_front();
    }
    for x in xs {
        d.push_back(*x)
    }
    d
}

macro_rules! with_array {
    ($xs:expr, $n:expr, |$a:ident| $body:expr) => {{
        match $n {
            0 => { let $a: [f64; 0] = []; $body }
            1 => { let $a: [f64; 1] = $xs[..].try_into().unwrap(); $body }
            2 => { let $a: [f64; 2] = $xs[..].try_into().unwrap(); $body }
            3 => { let $a: [f64; 3] = $xs[..].try_into().unwrap(); $body }
            4 => { let $a: [f64; 4] = $xs[..].try_into().unwrap(); $body }
            5 => { let $a: [f64; 5] = $xs[..].try_into().unwrap(); $body }
            6 => { let $a: [f64; 6] = $xs[..].try_into().unwrap(); $body }
            _ => { let $a: Vec<f64> = $xs.clone(); $body }
        }
    }};
}

fn main() {
    let mut em = Emitter::new();
    let maxlen = if em.thorough() { 12 } else { 7 };
    let fcell = |x: f64| Cell::F(x);
    let ocell = |x: Option<f64>| optf(x);
    let sl_vec = |s: &[f64]| cells_f64(s);
    let sl_vec2 = |s: &[f64]| cells_f64(s);
    for len in 0..=maxlen {
        let xs = series(len, 1);
        let ys = series(len, 2);
        let xs_coq = coq_list(&xs, |x| coq_f64(*x));
        let ys_coq = coq_list(&ys, |x| coq_f64(*x));
        // optional-view encodings of the same data
        let xo_coq = coq_list(&xs, |x| if x.is_nan() { "None".into() } else { format!("(Some {})", coq_f64(*x)) });
        for w in 1..=len + 3 {
            for kind in ["apply", "apply_idx", "apply2", "apply2_idx"] {
                for buf in [false, true] {
                    let runner = match kind { "apply" => "run_apply ef", "apply_idx" => "run_apply_idx ef",
                        "apply2" => "run_apply2 ef ef", _ => "run_apply2_idx ef ef" };
                    let two = kind.contains('2');
                    let term = |body: bool, optview: bool| {
                        let r = if optview { runner.replacen("ef", "eo", 1) } else { runner.to_string() };
                        let x = if optview { &xo_coq } else { &xs_coq };
                        if two { format!("({} {} {} {} {})", r, coq_bool(body), coq_nat(w), x, ys_coq) }
                        else { format!("({} {} {} {})", r, coq_bool(body), coq_nat(w), x) }
                    };
                    let desc = |be: &str| format!("kind={} be={} buf={} w={} len={} xs={:?} ys={:?}", kind, be, buf, w, len, xs, ys);
                    let tags = |be: &str| format!("kind={} be={} buf={} len={} wrel={}", kind, be, buf, len,
                        if w > len { "gt" } else if w == len { "eq" } else { "lt" });
                    // Vec (fast path: index body on both paths)
                    em.case("exact", &tags("vec"), &desc("vec"), || term(true, false),
                        || run_kind!(kind, buf, w, len, xs.clone(), ys.clone(), fcell));
                    // slice [T]
                    em.case("exact", &tags("slice"), &desc("slice"), || term(true, false),
                        || { let b = xs.clone().into_boxed_slice(); run_kind!(kind, buf, w, len, &*b, ys.clone(), fcell) });
                    // fixed array
                    em.case("exact", &tags("array"), &desc("array"), || term(true, false),
                        || with_array!(xs, len, |a| run_kind!(kind, buf, w, len, &a, ys.clone(), fcell)));
                    // Arc<Vec>
                    em.case("exact", &tags("arcvec"), &desc("arcvec"), || term(true, false),
                        || run_kind!(kind, buf, w, len, Arc::new(xs.clone()), ys.clone(), fcell));
                    // VecDeque, every rotation class (default bodies: iterator body when returned)
                    for rot in [0usize, 1, len / 2 + 1] {
                        let be = format!("deque{}", rot);
                        em.case("exact", &tags("deque"), &desc(&be), || term(buf, false),
                            || run_kind!(kind, buf, w, len, rot_deque(&xs, rot), rot_deque(&ys, (rot + 1) % 3), fcell));
                    }
                    // ndarray owned, view step 1, step 2, step -1
                    em.case("exact", &tags("nd_owned"), &desc("nd_owned"), || term(true, false),
                        || run_kind!(kind, buf, w, len, Array1::from_vec(xs.clone()), Array1::from_vec(ys.clone()), fcell));
                    em.case("exact", &tags("nd_step2"), &desc("nd_step2"), || term(true, false), || {
                        let mut big = vec![-7.0; 2 * len];
                        for i in 0..len { big[2 * i] = xs[i] }
                        let a = Array1::from_vec(big);
                        let v: ArrayView1<f64> = a.slice(s![..;2]);
                        run_kind!(kind, buf, w, len, v, ys.clone(), fcell)
                    });
                    em.case("exact", &tags("nd_rev"), &desc("nd_rev"), || term(true, false), || {
                        let mut r = xs.clone();
                        r.reverse();
                        let a = Array1::from_vec(r);
                        let v: ArrayView1<f64> = a.slice(s![..;-1]);
                        run_kind!(kind, buf, w, len, v, ys.clone(), fcell)
                    });
                    // option view over a Vec (default bodies)
                    em.case("exact", &tags("optview"), &desc("optview"), || term(buf, true),
                        || { let base = xs.clone(); run_kind!(kind, buf, w, len, base.opt(), ys.clone(), ocell) });
                }
            }
            // slice forms
            for (kind, buf) in [("custom", false), ("custom", true), ("custom_to", true), ("custom_iter", false),
                                ("custom2", false), ("custom2", true)] {
                let two = kind == "custom2";
                let term = |body: bool| {
                    if two { format!("(run_custom2 ef ef {} {} {})", coq_nat(w), xs_coq, ys_coq) }
                    else { format!("(run_custom ef {} {} {})", coq_bool(body), coq_nat(w), xs_coq) }
                };
                let desc = |be: &str| format!("kind={} be={} buf={} w={} len={} xs={:?} ys={:?}", kind, be, buf, w, len, xs, ys);
                let tags = |be: &str| format!("kind={} be={} buf={} len={} wrel={}", kind, be, buf, len,
                    if w > len { "gt" } else if w == len { "eq" } else { "lt" });
                // which body does the Vec/ndarray backend use?  rolling_custom is overridden (index body);
                // rolling_custom_iter and rolling2_custom are the default iterator bodies
                let fast_body = kind == "custom" || kind == "custom_to";
                em.case("exact", &tags("vec"), &desc("vec"), || term(fast_body),
                    || run_custom!(kind, buf, w, len, xs.clone(), ys.clone(), &[f64], sl_vec, sl_vec2));
                em.case("exact", &tags("arcvec"), &desc("arcvec"), || term(fast_body),
                    || run_custom!(kind, buf, w, len, Arc::new(xs.clone()), ys.clone(), &[f64], sl_vec, sl_vec2));
                em.case("exact", &tags("nd_owned"), &desc("nd_owned"), || term(fast_body),
                    || run_custom!(kind, buf, w, len, Array1::from_vec(xs.clone()), ys.clone(), ArrayView1<'_, f64>,
                        |s: ArrayView1<f64>| cells_f64(&s.to_vec()), sl_vec2));
                if !two { em.case("exact", &tags("nd_rev"), &desc("nd_rev"), || term(fast_body), || {
                    let mut r = xs.clone();
                    r.reverse();
                    let a = Array1::from_vec(r);
                    let v: ArrayView1<f64> = a.slice(s![..;-1]);
                    run_custom1!(kind, buf, w, len, v, ArrayView1<'_, f64>, |s: ArrayView1<f64>| cells_f64(&s.to_vec()))
                }); }
                // stepped views (stride 2, 3, -2 over a longer base array whose other cells hold a poison value): the window
                // start must be scaled by the stride
                if !two { for step in [2isize, 3, -2] {
                    let be = format!("nd_step{}", step);
                    em.case("exact", &tags("nd_step"), &desc(&be), || term(fast_body), || {
                        let k = step.unsigned_abs();
                        let mut big = vec![-99.5; if len == 0 { 0 } else { (len - 1) * k + 1 }];
                        for i in 0..len { let p = if step > 0 { i * k } else { (len - 1 - i) * k }; big[p] = xs[i] }
                        let a = Array1::from_vec(big);
                        let v: ArrayView1<f64> = a.slice(s![..;step]);
                        run_custom1!(kind, buf, w, len, v, ArrayView1<'_, f64>, |s: ArrayView1<f64>| cells_f64(&s.to_vec()))
                    });
                } }
                for rot in [0usize, 1, len / 2 + 1] {
                    let be = format!("deque{}", rot);
                    // VecDeque: default rolling_custom = iterator body on both paths; custom_to = index body
                    let body = kind == "custom_to";
                    em.case("exact", &tags("deque"), &desc(&be), || term(body),
                        || run_custom!(kind, buf, w, len, rot_deque(&xs, rot), ys.clone(), std::collections::vec_deque::Iter<'_, f64>,
                            |s: std::collections::vec_deque::Iter<'_, f64>| cells_f64(&s.cloned().collect::<Vec<_>>()), sl_vec2));
                }
            }
        }
    }
    degenerate(&mut em);
    dispatch(&mut em);
    em.finish();
}
