//! C07: (a) accessor coherence of every input container against the container models;
//!      (b) the matrix input backend x output container x {returned, caller buffer} x function:
//!          every combination must give bit-identical results to the reference (Vec -> Vec, returned).
use std::collections::VecDeque;
use std::mem::MaybeUninit;
use std::sync::Arc;

use tevec::export::ndarray::{Array1, ArrayView1, ArrayViewMut1, s};
use tevec::prelude::*;
use vh::{Cell, Emitter, Rng, NULL_PATTERNS, null_mask, guarded, coq_f64, coq_list, coq_nat, coq_z, coq_opt, cells_f64};

fn series(rng: &mut Rng, len: usize) -> Vec<f64> {
    let pat = *rng.pick(&NULL_PATTERNS);
    let m = null_mask(rng, pat, len);
    (0..len).map(|i| if m[i] { vh::nan_at(i) } else { rng.range(-12, 12) as f64 / 4.0 }).collect()
}

/// series for the backend matrix: mostly valid (a result that is null everywhere cannot tell two backends apart),
/// many distinct values, a few nulls in structured places
fn mseries(rng: &mut Rng, len: usize) -> Vec<f64> {
    let style = rng.below(10);
    (0..len).map(|i| {
        let null = match style { 0..=3 => false, 4..=7 => rng.chance(1, 7), 8 => i < len / 4, _ => i % 3 == 1 };
        if null { vh::nan_at(i) } else { rng.range(-40, 40) as f64 / 4.0 }
    }).collect()
}

/// observation of a Vec1View<f64>-like container; `$sl` turns its slice output into Vec<f64>
macro_rules! observe {
    ($v:expr, $cell:expr, $sl:expr, $tas:expr) => {{
        let v = $v;
        let cell = $cell;
        let len = GetLen::len(v);
        let mut c = vec![Cell::Int(len as i128)];
        for i in 0..=len {
            match Vec1View::get(v, i) {
                Ok(x) => c.push(cell(x)),
                Err(_) => c.push(Cell::Err),
            }
        }
        c.push(Cell::Sep);
        for x in v.titer() { c.push(cell(x)) }
        c.push(Cell::Sep);
        for x in v.titer().rev() { c.push(cell(x)) }
        c.push(Cell::Sep);
        for a in 0..=len {
            for b in a..=len {
                match Vec1View::slice(v, a, b) {
                    Ok(s) => { let sl = $sl; for x in sl(s) { c.push(cell(x)) } }
                    Err(_) => c.push(Cell::Err),
                }
                // the unchecked twin must be the same sub-sequence (a backend may override it separately); a difference is
                // reported as an extra Err cell that no model output contains
                {
                    let sl = $sl;
                    let chk: Vec<Cell> = match Vec1View::slice(v, a, b) { Ok(s) => sl(s).into_iter().map(|x| cell(x)).collect(), Err(_) => vec![] };
                    let sl2 = $sl;
                    let un: Vec<Cell> = sl2(unsafe { Vec1View::uslice(v, a, b) }.unwrap()).into_iter().map(|x| cell(x)).collect();
                    if format!("{:?}", chk) != format!("{:?}", un) { c.push(Cell::Err) }
                }
                c.push(Cell::Sep);
            }
        }
        let tas = $tas;
        match tas(v) {
            Some(s) => { c.push(Cell::Int(1)); for x in s { c.push(cell(x)) } }
            None => c.push(Cell::Null),
        }
        c
    }};
}


/// valid-get family of a Vec1View<f64> container (view.rs vget / uvget / to_opt_iter / iter_cast / opt_iter_cast):
/// vget(i) for i in 0..=len, uvget(i) for i < len, then the four element-wise iterators
macro_rules! observe_valid {
    ($v:expr) => {{
        let v = $v;
        let len = GetLen::len(v);
        let mut c = Vec::new();
        for i in 0..=len { c.push(ocell(Vec1View::vget(v, i))) }
        c.push(Cell::Sep);
        for i in 0..len { c.push(ocell(unsafe { Vec1View::uvget(v, i) })) }
        c.push(Cell::Sep);
        for x in Vec1View::to_opt_iter(v) { c.push(ocell(x)) }
        c.push(Cell::Sep);
        for x in Vec1View::iter_cast::<f64>(v) { c.push(Cell::F(x)) }
        c.push(Cell::Sep);
        for x in Vec1View::iter_cast::<i32>(v) { c.push(Cell::Int(x as i128)) }
        c.push(Cell::Sep);
        for x in Vec1View::opt_iter_cast::<f64>(v) { c.push(ocell(x)) }
        c.push(Cell::Sep);
        for x in Vec1View::opt_iter_cast::<i32>(v) { c.push(match x { Some(k) => Cell::Int(k as i128), None => Cell::Null }) }
        c
    }};
}


/// helpers written with plain loops (the tevec prelude shadows Iterator::any / all)
fn any_nan<'a>(it: impl Iterator<Item = &'a f64>) -> bool { for x in it { if x.is_nan() { return true } } false }
fn same_bits<'a>(a: impl Iterator<Item = &'a f64>, b: impl Iterator<Item = &'a f64>) -> bool {
    let (a, b): (Vec<u64>, Vec<u64>) = (a.map(|x| x.to_bits()).collect(), b.map(|x| x.to_bits()).collect());
    a == b
}

fn marker(i: usize) -> f64 { (1000 + i) as f64 }

/// mutable accessors of a Vec1Mut<f64> container (view_mut.rs get_mut, the backends' uget_mut / try_as_slice_mut):
/// write a marker at index i through each accessor, re-observe the whole sequence with titer(), restore the element
/// through the same accessor.  get_mut for i in 0..=len (None beyond the end), uget_mut for i < len, the mutable
/// slice (Null when not offered, else its length and a write at every slice index).
macro_rules! observe_mut {
    ($v:expr) => {{
        let v = $v;
        let len = GetLen::len(&*v);
        let mut c = Vec::new();
        for i in 0..=len {
            match Vec1Mut::get_mut(&mut *v, i) {
                Some(p) => {
                    let old = *p;
                    *p = marker(i);
                    for x in (&*v).titer() { c.push(Cell::F(x)) }
                    *Vec1Mut::get_mut(&mut *v, i).unwrap() = old;
                }
                None => c.push(Cell::Err),
            }
            c.push(Cell::Sep);
        }
        c.push(Cell::Sep);
        for i in 0..len {
            let old;
            { let p = unsafe { Vec1Mut::uget_mut(&mut *v, i) }; old = *p; *p = marker(i); }
            for x in (&*v).titer() { c.push(Cell::F(x)) }
            unsafe { *Vec1Mut::uget_mut(&mut *v, i) = old };
            c.push(Cell::Sep);
        }
        c.push(Cell::Sep);
        match Vec1Mut::try_as_slice_mut(&mut *v).map(|s| s.len()) {
            None => c.push(Cell::Null),
            Some(n) => {
                c.push(Cell::Int(1));
                c.push(Cell::Int(n as i128));
                for k in 0..n {
                    let old;
                    { let s = Vec1Mut::try_as_slice_mut(&mut *v).unwrap(); old = s[k]; s[k] = marker(k); }
                    for x in (&*v).titer() { c.push(Cell::F(x)) }
                    Vec1Mut::try_as_slice_mut(&mut *v).unwrap()[k] = old;
                    c.push(Cell::Sep);
                }
            }
        }
        c
    }};
}

fn fcell(x: f64) -> Cell { Cell::F(x) }
fn ocell(x: Option<f64>) -> Cell { match x { Some(v) => Cell::F(v), None => Cell::Null } }

/// VecDeque produced by an operation sequence (so that every head offset / wrap state occurs)
fn deque_by_ops(rng: &mut Rng, target_len: usize) -> VecDeque<f64> {
    let cap = target_len.max(1) + rng.below(3);
    let mut d: VecDeque<f64> = VecDeque::with_capacity(cap);
    let nops = 3 + rng.below(12);
    let mut next = 1.0;
    for _ in 0..nops {
        match rng.below(6) {
            0 | 1 => { d.push_back(next); next += 0.25 }
            2 => { d.push_front(next); next += 0.25 }
            3 => { d.pop_front(); }
            4 => { d.pop_back(); }
            _ => { if !d.is_empty() { let k = rng.below(d.len()); d.rotate_left(k) } }
        }
    }
    while d.len() > target_len { if rng.chance(1, 2) { d.pop_front(); } else { d.pop_back(); } }
    while d.len() < target_len { if rng.chance(1, 3) { d.push_front(next) } else { d.push_back(next) } next += 0.25 }
    if rng.chance(1, 5) && !d.is_empty() { d[0] = f64::NAN }
    d
}

// ------------------------------------------------------------------------------------------------
// (b) the matrix.  A function under test is a macro taking (input view expr, output type) and
// returning the output container; results are flattened to Vec<f64> cells (NaN = null).
macro_rules! out_to_cells {
    (vec, $e:expr) => {{ let o: Vec<f64> = $e; cells_f64(&o) }};
    (deque, $e:expr) => {{ let o: VecDeque<f64> = $e; cells_f64(&o.into_iter().collect::<Vec<_>>()) }};
    (nd, $e:expr) => {{ let o: Array1<f64> = $e; cells_f64(&o.to_vec()) }};
}

/// returned path for every output container and the caller-buffer path, for one input view `$v`
/// and one rolling method `$f` / `$fto` with argument list `($($a),*)`
macro_rules! all_outputs {
    ($em:expr, $tags:expr, $desc:expr, $refc:expr, $v:expr, $f:ident, $fto:ident, ($($a:expr),*)) => {{
        let refc: Vec<Cell> = $refc.clone();
        let mk = |got: Vec<Cell>| { let mut c = got; c.push(Cell::Sep); c.extend(refc.iter().cloned()); c };
        $em.case("custom:same2", &format!("{} out=vec path=ret", $tags), &format!("{} out=vec path=ret", $desc), || "(@nil Z)".into(),
            || match guarded(std::panic::AssertUnwindSafe(|| out_to_cells!(vec, $v.$f($($a),*)))) { Ok(c) => mk(c), Err(k) => mk(vec![Cell::Panic(k)]) });
        $em.case("custom:same2", &format!("{} out=deque path=ret", $tags), &format!("{} out=deque path=ret", $desc), || "(@nil Z)".into(),
            || match guarded(std::panic::AssertUnwindSafe(|| out_to_cells!(deque, $v.$f($($a),*)))) { Ok(c) => mk(c), Err(k) => mk(vec![Cell::Panic(k)]) });
        $em.case("custom:same2", &format!("{} out=nd path=ret", $tags), &format!("{} out=nd path=ret", $desc), || "(@nil Z)".into(),
            || match guarded(std::panic::AssertUnwindSafe(|| out_to_cells!(nd, $v.$f($($a),*)))) { Ok(c) => mk(c), Err(k) => mk(vec![Cell::Panic(k)]) });
        // caller buffers
        $em.case("custom:same2", &format!("{} out=vec path=to", $tags), &format!("{} out=vec path=to", $desc), || "(@nil Z)".into(),
            || match guarded(std::panic::AssertUnwindSafe(|| {
                let len = GetLen::len(&$v);
                let mut u: Vec<MaybeUninit<f64>> = (0..len).map(|_| MaybeUninit::new(-7.77e77)).collect();
                { let b = Some(Vec::<f64>::uninit_ref_mut(&mut u)); let _: Option<Vec<f64>> = $v.$fto($($a,)* b); }
                let o: Vec<f64> = u.into_iter().map(|x| unsafe { x.assume_init() }).collect();
                o.iter().map(|x| if *x == -7.77e77 { Cell::Uninit } else { Cell::F(*x) }).collect::<Vec<_>>()
            })) { Ok(c) => mk(c), Err(k) => mk(vec![Cell::Panic(k)]) });
        $em.case("custom:same2", &format!("{} out=deque path=to", $tags), &format!("{} out=deque path=to", $desc), || "(@nil Z)".into(),
            || match guarded(std::panic::AssertUnwindSafe(|| {
                let len = GetLen::len(&$v);
                let mut u: VecDeque<MaybeUninit<f64>> = (0..len).map(|_| MaybeUninit::new(-7.77e77)).collect();
                { let b = Some(VecDeque::<f64>::uninit_ref_mut(&mut u)); let _: Option<VecDeque<f64>> = $v.$fto($($a,)* b); }
                u.into_iter().map(|x| { let x = unsafe { x.assume_init() }; if x == -7.77e77 { Cell::Uninit } else { Cell::F(x) } }).collect::<Vec<_>>()
            })) { Ok(c) => mk(c), Err(k) => mk(vec![Cell::Panic(k)]) });
        // a NON-CONTIGUOUS caller buffer: every second cell of a longer ndarray, and the same reversed
        for step in [2isize, -2] {
            $em.case("custom:same2", &format!("{} out=nd_step{} path=to", $tags, step), &format!("{} out=nd_step{} path=to", $desc, step), || "(@nil Z)".into(),
                || match guarded(std::panic::AssertUnwindSafe(|| {
                    let len = GetLen::len(&$v);
                    if len == 0 { return vec![]; }
                    let mut big: Array1<MaybeUninit<f64>> = Array1::from_iter(Iterator::map(0..(len - 1) * 2 + 1, |_| MaybeUninit::new(-7.77e77)));
                    { let b = Some(big.slice_mut(s![..;step])); let _: Option<Array1<f64>> = $v.$fto($($a,)* b); }
                    let all: Vec<f64> = Iterator::map(big.into_iter(), |x| unsafe { x.assume_init() }).collect();
                    let mut c: Vec<Cell> = Iterator::map(0..len, |i| { let x = if step > 0 { all[i * 2] } else { all[(len - 1 - i) * 2] }; if x == -7.77e77 { Cell::Uninit } else { Cell::F(x) } }).collect();
                    if Iterator::any(&mut all.iter().enumerate(), |(p, x)| p % 2 == 1 && *x != -7.77e77) { c.push(Cell::Err) }
                    c
                })) { Ok(c) => mk(c), Err(k) => mk(vec![Cell::Panic(k)]) });
        }
        $em.case("custom:same2", &format!("{} out=nd path=to", $tags), &format!("{} out=nd path=to", $desc), || "(@nil Z)".into(),
            || match guarded(std::panic::AssertUnwindSafe(|| {
                let len = GetLen::len(&$v);
                let mut u: Array1<MaybeUninit<f64>> = Array1::from_iter((0..len).map(|_| MaybeUninit::new(-7.77e77)));
                { let b = Some(Array1::<f64>::uninit_ref_mut(&mut u)); let _: Option<Array1<f64>> = $v.$fto($($a,)* b); }
                u.into_iter().map(|x| { let x = unsafe { x.assume_init() }; if x == -7.77e77 { Cell::Uninit } else { Cell::F(x) } }).collect::<Vec<_>>()
            })) { Ok(c) => mk(c), Err(k) => mk(vec![Cell::Panic(k)]) });
    }};
}

/// every input backend for the series `$xs` (a Vec<f64>)
macro_rules! all_inputs {
    ($em:expr, $rng:expr, $fname:expr, $desc:expr, $xs:expr, $f:ident, $fto:ident, ($($a:expr),*)) => {{
        let xs: &Vec<f64> = $xs;
        let len = xs.len();
        // reference: Vec -> Vec, returned
        let refc: Vec<Cell> = match guarded(std::panic::AssertUnwindSafe(|| { let o: Vec<f64> = xs.$f($($a),*); cells_f64(&o) })) {
            Ok(c) => c, Err(k) => vec![Cell::Panic(k)] };
        let nvalid = xs.iter().filter(|x| !x.is_nan()).count();
        let tg = |be: &str| format!("fn={} in={} len={} valid={}{}", $fname, be, len.min(20), if nvalid == 0 { "none" } else if nvalid == len { "all" } else { "some" }, if len == 0 { " nt=0" } else { "" });
        let ds = |be: &str| format!("fn={} in={} {}", $fname, be, $desc);
        all_outputs!($em, tg("vec"), ds("vec"), refc, xs, $f, $fto, ($($a),*));
        // ([T] is unsized: the blanket impls of the rolling traits need Sized, so the bare slice backend is
        //  exercised through the drivers in C02 and the accessors in part (a) only)
        { let v = Arc::new(xs.clone()); all_outputs!($em, tg("arcvec"), ds("arcvec"), refc, v, $f, $fto, ($($a),*)); }
        for rot in [0usize, 1, len / 2 + 1] {
            let mut d: VecDeque<f64> = VecDeque::with_capacity(len.max(1));
            for _ in 0..rot { d.push_back(0.0) } for _ in 0..rot { d.pop_front(); }
            for x in xs.iter() { d.push_back(*x) }
            all_outputs!($em, tg("deque"), ds(&format!("deque{}", rot)), refc, d, $f, $fto, ($($a),*));
            if rot == 1 { let a = Arc::new(d.clone()); all_outputs!($em, tg("arcdeque"), ds("arcdeque"), refc, a, $f, $fto, ($($a),*)); }
        }
        { let v = Array1::from_vec(xs.clone()); all_outputs!($em, tg("nd_owned"), ds("nd_owned"), refc, v, $f, $fto, ($($a),*)); }
        for step in [2isize, 3, -1, -2] {
            let k = step.unsigned_abs();
            let mut big = vec![-9.5; if len == 0 { 0 } else { (len - 1) * k + 1 }];
            for i in 0..len { let p = if step > 0 { i * k } else { (len - 1 - i) * k }; big[p] = xs[i] }
            let a = Array1::from_vec(big);
            let v: ArrayView1<f64> = a.slice(s![..;step]);
            assert_eq!(v.len(), len);
            all_outputs!($em, tg(&format!("nd_step{}", step)), ds(&format!("nd_step{}", step)), refc, v, $f, $fto, ($($a),*));
        }
        { let mut a = Array1::from_vec(xs.clone()); let v = a.view_mut(); all_outputs!($em, tg("nd_viewmut"), ds("nd_viewmut"), refc, v, $f, $fto, ($($a),*)); }
        let _ = &mut $rng;
    }};
}

fn main() {
    let mut em = Emitter::new();
    let mut rng = Rng::new(em.args.seed);
    let thorough = em.thorough();
    // ================= (a) accessor coherence ==================================================
    let maxlen = if thorough { 9 } else { 6 };
    for len in 0..=maxlen {
        let reps = if thorough { 12 } else { 5 };
        for rep in 0..reps {
            // VecDeque by operation sequences
            let d = deque_by_ops(&mut rng, len);
            let (f, sd) = d.as_slices();
            let (f, sd) = (f.to_vec(), sd.to_vec());
            let wrapped = !sd.is_empty();
            em.case("exact", &format!("part=access be=deque len={} wrapped={}{}", len, wrapped, if len == 0 { " nt=0" } else { "" }),
                &format!("access be=deque first={:?} second={:?}", f, sd),
                || format!("(run_ring {} {})", coq_list(&f, |x| coq_f64(*x)), coq_list(&sd, |x| coq_f64(*x))),
                || observe!(&d, fcell, |s: std::collections::vec_deque::Iter<'_, f64>| s.cloned().collect::<Vec<f64>>(),
                            |v: &VecDeque<f64>| v.try_as_slice().map(|s| s.to_vec())));
            let nt0 = if len == 0 { " nt=0" } else { "" };
            let hasnull = any_nan(d.iter());
            em.case("exact", &format!("part=valid be=deque len={} wrapped={} nulls={}{}", len, wrapped, hasnull, nt0),
                &format!("valid be=deque first={:?} second={:?}", f, sd),
                || format!("(run_ring_valid {} {})", coq_list(&f, |x| coq_f64(*x)), coq_list(&sd, |x| coq_f64(*x))),
                || observe_valid!(&d));
            em.case("exact", &format!("part=valid acc=into_titer be=deque len={} wrapped={}{}", len, wrapped, nt0),
                &format!("into_titer be=deque first={:?} second={:?}", f, sd),
                || format!("(run_into_titer_ring {} {})", coq_list(&f, |x| coq_f64(*x)), coq_list(&sd, |x| coq_f64(*x))),
                || { let mut c: Vec<Cell> = d.clone().into_titer().map(Cell::F).collect(); c.push(Cell::Sep);
                     c.extend(d.clone().into_titer().rev().map(Cell::F)); c });
            let mut d = d;
            em.case("exact", &format!("part=mut be=deque len={} wrapped={}{}", len, wrapped, nt0),
                &format!("mut be=deque first={:?} second={:?}", f, sd),
                || format!("(run_ring_mut {} {})", coq_list(&f, |x| coq_f64(*x)), coq_list(&sd, |x| coq_f64(*x))),
                || observe_mut!(&mut d));
            {   // the writes were undone and the ring layout is untouched
                let (f2, s2) = d.as_slices();
                assert!(same_bits(f2.iter(), f.iter()) && same_bits(s2.iter(), sd.iter()));
            }
            let ad = Arc::new(d);   // moved, so the ring layout (head offset, wrap) is preserved
            let (f, sd) = ad.as_slices();
            let (f, sd) = (f.to_vec(), sd.to_vec());
            let wrapped = !sd.is_empty();
            em.case("exact", &format!("part=access be=arcdeque len={} wrapped={}{}", len, wrapped, if len == 0 { " nt=0" } else { "" }),
                &format!("access be=arcdeque first={:?} second={:?}", f, sd),
                || format!("(run_ring {} {})", coq_list(&f, |x| coq_f64(*x)), coq_list(&sd, |x| coq_f64(*x))),
                || observe!(&ad, fcell, |s: std::collections::vec_deque::Iter<'_, f64>| s.cloned().collect::<Vec<f64>>(),
                            |v: &Arc<VecDeque<f64>>| v.try_as_slice().map(|s| s.to_vec())));
            em.case("exact", &format!("part=valid be=arcdeque len={} wrapped={}{}", len, wrapped, nt0),
                &format!("valid be=arcdeque first={:?} second={:?}", f, sd),
                || format!("(run_ring_valid {} {})", coq_list(&f, |x| coq_f64(*x)), coq_list(&sd, |x| coq_f64(*x))),
                || observe_valid!(&ad));
            if rep > 2 { continue; }
            // Vec, slice, fixed array (len <= 4), Arc<Vec>
            let xs = series(&mut rng, len);
            let xs_coq = coq_list(&xs, |x| coq_f64(*x));
            em.case("exact", &format!("part=access be=vec len={}{}", len, if len == 0 { " nt=0" } else { "" }), &format!("access be=vec xs={:?}", xs),
                || format!("(run_vec {})", xs_coq),
                || observe!(&xs, fcell, |s: &[f64]| s.to_vec(), |v: &Vec<f64>| v.try_as_slice().map(|s| s.to_vec())));
            em.case("exact", &format!("part=access be=arcvec len={}{}", len, if len == 0 { " nt=0" } else { "" }), &format!("access be=arcvec xs={:?}", xs),
                || format!("(run_vec {})", xs_coq),
                || { let a = Arc::new(xs.clone()); observe!(&a, fcell, |s: &[f64]| s.to_vec(), |v: &Arc<Vec<f64>>| v.try_as_slice().map(|s| s.to_vec())) });
            em.case("exact", &format!("part=access be=slice len={}{}", len, if len == 0 { " nt=0" } else { "" }), &format!("access be=slice xs={:?}", xs),
                || format!("(run_vec {})", xs_coq),
                || { let b = xs.clone().into_boxed_slice(); let v: &[f64] = &b;
                     observe!(v, fcell, |s: &[f64]| s.to_vec(), |v: &[f64]| v.try_as_slice().map(|s| s.to_vec())) });
            let vnulls = any_nan(xs.iter());
            em.case("exact", &format!("part=valid be=vec len={} nulls={}{}", len, vnulls, nt0), &format!("valid be=vec xs={:?}", xs),
                || format!("(run_vec_valid {})", xs_coq), || observe_valid!(&xs));
            em.case("exact", &format!("part=valid be=arcvec len={} nulls={}{}", len, vnulls, nt0), &format!("valid be=arcvec xs={:?}", xs),
                || format!("(run_vec_valid {})", xs_coq), || { let a = Arc::new(xs.clone()); observe_valid!(&a) });
            em.case("exact", &format!("part=valid be=slice len={} nulls={}{}", len, vnulls, nt0), &format!("valid be=slice xs={:?}", xs),
                || format!("(run_vec_valid {})", xs_coq),
                || { let b = xs.clone().into_boxed_slice(); let v: &[f64] = &b; observe_valid!(v) });
            em.case("exact", &format!("part=valid acc=into_titer be=vec len={}{}", len, nt0), &format!("into_titer be=vec xs={:?}", xs),
                || format!("(run_into_titer {})", xs_coq),
                || { let mut c: Vec<Cell> = xs.clone().into_titer().map(Cell::F).collect(); c.push(Cell::Sep);
                     c.extend(xs.clone().into_titer().rev().map(Cell::F)); c });
            em.case("exact", &format!("part=mut be=vec len={}{}", len, nt0), &format!("mut be=vec xs={:?}", xs),
                || format!("(run_vec_mut {})", xs_coq), || { let mut m = xs.clone(); observe_mut!(&mut m) });
            if len == 3 {
                let arr: [f64; 3] = [xs[0], xs[1], xs[2]];
                em.case("exact", "part=access be=array len=3", &format!("access be=array xs={:?}", xs),
                    || format!("(run_vec {})", xs_coq),
                    || observe!(&arr, fcell, |s: &[f64]| s.to_vec(), |_v: &[f64; 3]| None::<Vec<f64>>.or(Some(xs.clone()))));
            }
            // option view over a Vec: elements become Option<f64>, never offers a slice
            let xo: Vec<Option<f64>> = xs.iter().map(|x| if x.is_nan() { None } else { Some(*x) }).collect();
            em.case("exact", &format!("part=access be=optview len={}{}", len, if len == 0 { " nt=0" } else { "" }), &format!("access be=optview xs={:?}", xs),
                || format!("(run_noslice_opt {})", coq_list(&xo, |x| coq_opt(x, |v| coq_f64(*v)))),
                || { let ov = xs.opt(); observe!(&ov, ocell, |s: Vec<Option<f64>>| s, |v: &OptIter<'_, Vec<f64>, f64>| v.try_as_slice().map(|s| s.to_vec())) });
            em.case("exact", &format!("part=valid be=optview len={} nulls={}{}", len, vnulls, nt0), &format!("valid be=optview xs={:?}", xs),
                || format!("(run_opt_valid {})", coq_list(&xo, |x| coq_opt(x, |v| coq_f64(*v)))),
                || { let ov = xs.opt(); let v = &ov; let len = GetLen::len(v);
                     // Option<f64> elements: vget / uvget / to_opt_iter give Option<f64>; Option<f64> -> i32 is not offered (i32 has no null)
                     let mut c = Vec::new();
                     for i in 0..=len { c.push(ocell(Vec1View::vget(v, i))) }
                     c.push(Cell::Sep);
                     for i in 0..len { c.push(ocell(unsafe { Vec1View::uvget(v, i) })) }
                     c.push(Cell::Sep);
                     for x in Vec1View::to_opt_iter(v) { c.push(ocell(x)) }
                     c.push(Cell::Sep);
                     for x in Vec1View::iter_cast::<f64>(v) { c.push(Cell::F(x)) }
                     c.push(Cell::Sep);
                     c.push(Cell::Sep);
                     for x in Vec1View::opt_iter_cast::<f64>(v) { c.push(ocell(x)) }
                     c.push(Cell::Sep);
                     for x in Vec1View::opt_iter_cast::<i32>(v) { c.push(match x { Some(k) => Cell::Int(k as i128), None => Cell::Null }) }
                     c });
            // ndarray: owned, and views with every step / start offset; the real layout is read back
            let base_len = len * 3 + 2;
            let base: Vec<f64> = (0..base_len).map(|i| i as f64 / 2.0 - 1.0).collect();
            let a = Array1::from_vec(base.clone());
            for step in [1isize, 2, 3, -1, -2] {
                for start in [0usize, 1] {
                    if start >= base_len { continue; }
                    let v: ArrayView1<f64> = a.slice(s![start..;step]);
                    let vlen = v.len();
                    if vlen > maxlen + 3 { continue; }
                    let off = if vlen == 0 { 0 } else { unsafe { v.as_ptr().offset_from(a.as_ptr()) } };
                    let st = v.strides()[0];
                    em.case("exact", &format!("part=access be=nd_view step={} len={}{}", step, vlen.min(20), if vlen == 0 { " nt=0" } else { "" }),
                        &format!("access be=nd_view base_len={} start={} step={} (off={} stride={} len={})", base_len, start, step, off, st, vlen),
                        || format!("(run_strided {} {} {} {})", coq_list(&base, |x| coq_f64(*x)), coq_nat(off.max(0) as usize), coq_z(st as i128), coq_nat(vlen)),
                        || observe!(&v, fcell, |s: ArrayView1<'_, f64>| s.to_vec(), |v: &ArrayView1<'_, f64>| v.try_as_slice().map(|s| s.to_vec())));
                    // the base memory gets nulls at two places so that the valid-get family sees them through every stride
                    let mut nbase = base.clone();
                    if base_len > 2 { nbase[2] = f64::NAN; } if base_len > 5 { nbase[5] = -f64::NAN; }
                    let na = Array1::from_vec(nbase.clone());
                    let nv: ArrayView1<f64> = na.slice(s![start..;step]);
                    em.case("exact", &format!("part=valid be=nd_view step={} len={} nulls={}{}", step, vlen.min(20), any_nan(nv.iter()), if vlen == 0 { " nt=0" } else { "" }),
                        &format!("valid be=nd_view base={:?} start={} step={} (off={} stride={} len={})", nbase, start, step, off, st, vlen),
                        || format!("(run_strided_valid {} {} {} {})", coq_list(&nbase, |x| coq_f64(*x)), coq_nat(off.max(0) as usize), coq_z(st as i128), coq_nat(vlen)),
                        || observe_valid!(&nv));
                    // mutable view with the same layout over a private copy of the base memory
                    let mut ma = a.clone();
                    em.case("exact", &format!("part=mut be=nd_viewmut step={} len={}{}", step, vlen.min(20), if vlen == 0 { " nt=0" } else { "" }),
                        &format!("mut be=nd_viewmut base_len={} start={} step={} (off={} stride={} len={})", base_len, start, step, off, st, vlen),
                        || format!("(run_strided_mut {} {} {} {})", coq_list(&base, |x| coq_f64(*x)), coq_nat(off.max(0) as usize), coq_z(st as i128), coq_nat(vlen)),
                        || { let mut vm: ArrayViewMut1<f64> = ma.slice_mut(s![start..;step]);
                             assert!(vm.len() == vlen && vm.strides()[0] == st);
                             observe_mut!(&mut vm) });
                    assert!(same_bits(ma.iter(), a.iter()));
                }
            }
            let owned = Array1::from_vec(xs.clone());
            em.case("exact", &format!("part=access be=nd_owned len={}{}", len, if len == 0 { " nt=0" } else { "" }), &format!("access be=nd_owned xs={:?}", xs),
                || format!("(run_strided {} 0%nat 1 {})", xs_coq, coq_nat(len)),
                || observe!(&owned, fcell, |s: ArrayView1<'_, f64>| s.to_vec(), |v: &Array1<f64>| v.try_as_slice().map(|s| s.to_vec())));
            em.case("exact", &format!("part=valid be=nd_owned len={} nulls={}{}", len, vnulls, nt0), &format!("valid be=nd_owned xs={:?}", xs),
                || format!("(run_strided_valid {} 0%nat 1 {})", xs_coq, coq_nat(len)), || observe_valid!(&owned));
            em.case("exact", &format!("part=mut be=nd_owned len={}{}", len, nt0), &format!("mut be=nd_owned xs={:?}", xs),
                || format!("(run_strided_mut {} 0%nat 1 {})", xs_coq, coq_nat(len)),
                || { let mut m = owned.clone(); observe_mut!(&mut m) });
        }
    }
    // ================= (b) the matrix =============================================================
    let nser = if thorough { 16 } else { 7 };
    for si in 0..nser {
        let len = if si == 0 { 0 } else if si == 1 { 1 } else { rng.range(2, if thorough { 16 } else { 12 }) as usize };
        // one series pair with the hostile null patterns of the other checks, the rest mostly valid
        let (xs, ys) = if si == 2 { (series(&mut rng, len), series(&mut rng, len)) } else { (mseries(&mut rng, len), mseries(&mut rng, len)) };
        let npairs = xs.iter().zip(ys.iter()).filter(|(a, b)| !a.is_nan() && !b.is_nan()).count();
        // every window regime per series: 1, 2, 3 (history much longer than the window, so that an element
        // expires at most positions), len-1, len, len+1 (never full) — a drift that starts only after the first
        // expiry cannot hide behind one unlucky random window
        let mut ws: Vec<usize> = if len == 0 { vec![2] } else { vec![1, 2, 3, len.saturating_sub(1).max(1), len, len + 1, rng.range(1, len as i64 + 2) as usize] };
        ws.sort(); ws.dedup();
        for w in ws {
            let mp = if rng.chance(1, 2) { None } else { Some(rng.range(0, w as i64) as usize) };
            let desc = format!("w={} mp={:?} xs={:?}", w, mp, xs);
            all_inputs!(em, rng, "ts_vsum", desc, &xs, ts_vsum, ts_vsum_to, (w, mp));
            all_inputs!(em, rng, "ts_vstd", desc, &xs, ts_vstd, ts_vstd_to, (w, mp));
            all_inputs!(em, rng, "ts_vargmin", desc, &xs, ts_vargmin, ts_vargmin_to, (w, mp));
            all_inputs!(em, rng, "ts_vmax", desc, &xs, ts_vmax, ts_vmax_to, (w, mp));
            all_inputs!(em, rng, "ts_vminmaxnorm", desc, &xs, ts_vminmaxnorm, ts_vminmaxnorm_to, (w, mp));
            all_inputs!(em, rng, "ts_vzscore", desc, &xs, ts_vzscore, ts_vzscore_to, (w, mp));
            all_inputs!(em, rng, "ts_vreg_resid_mean", desc, &xs, ts_vreg_resid_mean, ts_vreg_resid_mean_to, (w, mp));
            all_inputs!(em, rng, "ts_vtsf", desc, &xs, ts_vtsf, ts_vtsf_to, (w, mp));
            all_inputs!(em, rng, "ts_vrank", desc, &xs, ts_vrank, ts_vrank_to, (w, mp, false, false));
            let desc2 = format!("w={} mp={:?} pairs={} xs={:?} ys={:?}", w, mp, npairs, xs, ys);
            all_inputs!(em, rng, "ts_vcorr", desc2, &xs, ts_vcorr, ts_vcorr_to, (&ys, w, mp));
            all_inputs!(em, rng, "ts_vregx_resid_std", desc2, &xs, ts_vregx_resid_std, ts_vregx_resid_std_to, (&ys, w, mp));
            all_inputs!(em, rng, "ts_vregx_beta", desc2, &xs, ts_vregx_beta, ts_vregx_beta_to, (&ys, w, mp));
            // the second series on other backends too (a wrapped ring buffer, a reversed strided view)
            let mut yd: VecDeque<f64> = VecDeque::with_capacity(len.max(1));
            for _ in 0..(len / 2 + 1) { yd.push_back(0.0) } for _ in 0..(len / 2 + 1) { yd.pop_front(); }
            for y in ys.iter() { yd.push_back(*y) }
            all_inputs!(em, rng, "ts_vcov/other=deque", desc2, &xs, ts_vcov, ts_vcov_to, (&yd, w, mp));
            let yrev = Array1::from_vec(ys.iter().rev().cloned().collect::<Vec<f64>>());
            let yv: ArrayView1<f64> = yrev.slice(s![..;-1]);
            all_inputs!(em, rng, "ts_vregx_alpha/other=nd_step-1", desc2, &xs, ts_vregx_alpha, ts_vregx_alpha_to, (&yv, w, mp));
        }
    }
    em.finish();
}
