//! C13: element-wise mapping operations (shift, vshift, vdiff, vpct_change, ffill/bfill(_mask),
//! fill(_mask), vclip, vabs, abs) through the real public API, for f64 / Option<f64> / i32 /
//! Option<i32> (and f32 / i64 against the same models), on Vec, Arc<Vec>, VecDeque (three ring offsets), ndarray (owned, step 2,
//! reversed) and the option view.  Exhaustive small scopes (every null pattern, every lag in
//! -len-3..=len+3 and i32::MIN/MAX, every fill kind, every bound relation) + sampled longer series.
use std::collections::VecDeque;
use std::fmt::Debug;
use std::panic::AssertUnwindSafe;
use std::sync::Arc;

use tevec::export::ndarray::{s, Array1, ArrayView1};
use tevec::prelude::{Cast, IsNone, MapBasic, MapValidBasic, MapValidVec, Number, Vec1View};
use vh::*;

/// symbolic element: None = null, Some(k) = the value k/4 (floats) or k (integers);
/// Some(HOSTILE + j) = the j-th hostile float (floats only)
type Sym = Option<i64>;
const HOSTILE: i64 = 1_000_000;
const HOSTILE_VALS: [f64; 8] =
    [f64::INFINITY, f64::NEG_INFINITY, -0.0, 1e308, -1e308, 5e-324, 2.2250738585072014e-308, 9007199254740993.0];
fn f_of_k(k: i64) -> f64 {
    if k >= HOSTILE { HOSTILE_VALS[(k - HOSTILE) as usize] } else { k as f64 / 4.0 }
}

/// conversions that must not see the tevec traits (IsNone::map shadows nothing here, but keep the
/// oracle/generator side free of the library anyway)
mod pure {
    use vh::Cell;
    /// no series of this harness is longer than 64; an iterator that yields more than CAP items is a
    /// runaway (e.g. skip(2^31).chain(repeat_n(v, 2^31)) after a broken guard): stop and flag it
    pub const CAP: usize = 4096;
    pub fn collect<I: Iterator>(it: I) -> (usize, Vec<I::Item>) {
        let h = it.size_hint().0;
        let mut o = Vec::new();
        for x in it {
            o.push(x);
            if o.len() > CAP {
                break;
            }
        }
        (h, o)
    }
    pub fn cells<T>(p: (usize, Vec<T>), f: impl Fn(&T) -> Cell) -> (usize, Vec<Cell>) {
        let mut o = Vec::with_capacity(p.1.len().min(64) + 1);
        for x in p.1.iter().take(64) {
            o.push(f(x))
        }
        if p.1.len() > 64 {
            o.push(Cell::Err) // more items than any input has: reported as an Err cell, not printed in full
        }
        (p.0, o)
    }
    pub fn finish(r: Result<(usize, Vec<Cell>), u8>) -> Vec<Cell> {
        match r {
            Ok((h, mut c)) => {
                let mut o = vec![Cell::Int(h as i128)];
                o.append(&mut c);
                o
            }
            Err(k) => vec![Cell::Panic(k)],
        }
    }
}

trait Elem: IsNone<Inner: PartialOrd + Number + Debug + Clone> + Clone + Debug + Cast<f64> + 'static {
    const PACK: &'static str;
    const TY: &'static str;
    const NULLABLE: bool;
    const ARITH: bool = false;
    fn of_sym(s: Sym) -> Self;
    fn inner_of(k: i64) -> Self::Inner;
    fn cell(&self) -> Cell;
    fn coq(&self) -> String;
    fn coq_inner(c: &Self::Inner) -> String;
    fn isnull(&self) -> bool;
    /// not null and strictly below c
    fn below(&self, c: &Self::Inner) -> bool;
    fn do_vdiff<V: Vec1View<Self>>(_v: &V, _n: i32, _f: Option<Self>) -> (usize, Vec<Self>) {
        unreachable!()
    }
    fn do_abs<V: Vec1View<Self>>(_v: &V) -> (usize, Vec<Self>) {
        unreachable!()
    }
}

impl Elem for f64 {
    const PACK: &'static str = "pF";
    const TY: &'static str = "f64";
    const NULLABLE: bool = true;
    const ARITH: bool = true;
    fn of_sym(s: Sym) -> Self {
        match s {
            Some(k) => f_of_k(k),
            None => f64::NAN,
        }
    }
    fn inner_of(k: i64) -> f64 {
        k as f64 / 4.0
    }
    fn cell(&self) -> Cell {
        Cell::F(*self)
    }
    fn coq(&self) -> String {
        coq_f64(*self)
    }
    fn coq_inner(c: &f64) -> String {
        coq_f64(*c)
    }
    fn isnull(&self) -> bool {
        self.is_nan()
    }
    fn below(&self, c: &f64) -> bool {
        *self < *c
    }
    fn do_vdiff<V: Vec1View<Self>>(v: &V, n: i32, f: Option<Self>) -> (usize, Vec<Self>) {
        pure::collect(v.vdiff(n, f))
    }
    fn do_abs<V: Vec1View<Self>>(v: &V) -> (usize, Vec<Self>) {
        pure::collect(v.titer().abs())
    }
}

/// f32 shares the f64 model (`pF`): every generated value k/4 and every difference of two of them is
/// exact in binary32, vpct_change casts to f64 first, the other operations do no arithmetic
impl Elem for f32 {
    const PACK: &'static str = "pF";
    const TY: &'static str = "f32";
    const NULLABLE: bool = true;
    const ARITH: bool = true;
    fn of_sym(s: Sym) -> Self {
        match s {
            Some(k) => k as f32 / 4.0,
            None => f32::NAN,
        }
    }
    fn inner_of(k: i64) -> f32 {
        k as f32 / 4.0
    }
    fn cell(&self) -> Cell {
        Cell::F(*self as f64)
    }
    fn coq(&self) -> String {
        coq_f64(*self as f64)
    }
    fn coq_inner(c: &f32) -> String {
        coq_f64(*c as f64)
    }
    fn isnull(&self) -> bool {
        self.is_nan()
    }
    fn below(&self, c: &f32) -> bool {
        *self < *c
    }
    fn do_vdiff<V: Vec1View<Self>>(v: &V, n: i32, f: Option<Self>) -> (usize, Vec<Self>) {
        pure::collect(v.vdiff(n, f))
    }
    fn do_abs<V: Vec1View<Self>>(v: &V) -> (usize, Vec<Self>) {
        pure::collect(v.titer().abs())
    }
}

/// i64 shares the integer model (`pI`)
impl Elem for i64 {
    const PACK: &'static str = "pI";
    const TY: &'static str = "i64";
    const NULLABLE: bool = false;
    const ARITH: bool = true;
    fn of_sym(s: Sym) -> Self {
        match s {
            Some(k) => k,
            None => panic!("generator: null for a plain integer"),
        }
    }
    fn inner_of(k: i64) -> i64 {
        k
    }
    fn cell(&self) -> Cell {
        Cell::Int(*self as i128)
    }
    fn coq(&self) -> String {
        coq_z(*self as i128)
    }
    fn coq_inner(c: &i64) -> String {
        coq_z(*c as i128)
    }
    fn isnull(&self) -> bool {
        false
    }
    fn below(&self, c: &i64) -> bool {
        *self < *c
    }
    fn do_vdiff<V: Vec1View<Self>>(v: &V, n: i32, f: Option<Self>) -> (usize, Vec<Self>) {
        pure::collect(v.vdiff(n, f))
    }
    fn do_abs<V: Vec1View<Self>>(v: &V) -> (usize, Vec<Self>) {
        pure::collect(v.titer().abs())
    }
}

impl Elem for Option<f64> {
    const PACK: &'static str = "pOF";
    const TY: &'static str = "opt_f64";
    const NULLABLE: bool = true;
    fn of_sym(s: Sym) -> Self {
        match s {
            Some(k) => Some(f_of_k(k)),
            None => None,
        }
    }
    fn inner_of(k: i64) -> f64 {
        k as f64 / 4.0
    }
    fn cell(&self) -> Cell {
        match self {
            Some(x) if x.is_nan() => Cell::Err,   // Some(NaN) is not a null (DESIGN 5.4)
            Some(x) => Cell::F(*x),
            None => Cell::Null,
        }
    }
    fn coq(&self) -> String {
        coq_opt(self, |x| coq_f64(*x))
    }
    fn coq_inner(c: &f64) -> String {
        coq_f64(*c)
    }
    fn isnull(&self) -> bool {
        match self {
            Some(_) => false,
            None => true,
        }
    }
    fn below(&self, c: &f64) -> bool {
        match self {
            Some(x) => *x < *c,
            None => false,
        }
    }
}

impl Elem for i32 {
    const PACK: &'static str = "pI";
    const TY: &'static str = "i32";
    const NULLABLE: bool = false;
    const ARITH: bool = true;
    fn of_sym(s: Sym) -> Self {
        match s {
            Some(k) => k as i32,
            None => panic!("generator: null for a plain integer"),
        }
    }
    fn inner_of(k: i64) -> i32 {
        k as i32
    }
    fn cell(&self) -> Cell {
        Cell::Int(*self as i128)
    }
    fn coq(&self) -> String {
        coq_z(*self as i128)
    }
    fn coq_inner(c: &i32) -> String {
        coq_z(*c as i128)
    }
    fn isnull(&self) -> bool {
        false
    }
    fn below(&self, c: &i32) -> bool {
        *self < *c
    }
    fn do_vdiff<V: Vec1View<Self>>(v: &V, n: i32, f: Option<Self>) -> (usize, Vec<Self>) {
        pure::collect(v.vdiff(n, f))
    }
    fn do_abs<V: Vec1View<Self>>(v: &V) -> (usize, Vec<Self>) {
        pure::collect(v.titer().abs())
    }
}

impl Elem for Option<i32> {
    const PACK: &'static str = "pOI";
    const TY: &'static str = "opt_i32";
    const NULLABLE: bool = true;
    fn of_sym(s: Sym) -> Self {
        match s {
            Some(k) => Some(k as i32),
            None => None,
        }
    }
    fn inner_of(k: i64) -> i32 {
        k as i32
    }
    fn cell(&self) -> Cell {
        match self {
            Some(x) => Cell::Int(*x as i128),
            None => Cell::Null,
        }
    }
    fn coq(&self) -> String {
        coq_opt(self, |x| coq_z(*x as i128))
    }
    fn coq_inner(c: &i32) -> String {
        coq_z(*c as i128)
    }
    fn isnull(&self) -> bool {
        match self {
            Some(_) => false,
            None => true,
        }
    }
    fn below(&self, c: &i32) -> bool {
        match self {
            Some(x) => *x < *c,
            None => false,
        }
    }
}

enum Op<T: Elem> {
    Shift(i32, T),
    VShift(i32, Option<T>),
    VDiff(i32, Option<T>),
    VPct(i32),
    FFill(Option<T>),
    BFill(Option<T>),
    FFillMask(u8, T::Inner, Option<T>),
    BFillMask(u8, T::Inner, Option<T>),
    Fill(T),
    FillMask(u8, T::Inner, T),
    VClip(T, T),
    VAbs,
    Abs,
    /// v.titer().vshift(n1, f1).shift(n2, f2).ffill(f3).vabs(): each stage consumes the previous iterator
    Pipe(i32, Option<T>, i32, T, Option<T>),
}

fn mk_mask<T: Elem>(code: u8, c: T::Inner) -> impl Fn(&T) -> bool {
    move |v: &T| match code {
        0 => v.isnull(),
        1 => !v.isnull() && v.below(&c),
        _ => v.isnull() || v.below(&c),
    }
}

fn optv<T: Elem>(v: &Option<T>) -> String {
    coq_opt(v, |x| x.coq())
}
fn fill_kind<T: Elem>(v: &Option<T>) -> &'static str {
    match v {
        None => "none",
        Some(x) if x.isnull() => "null",
        Some(_) => "val",
    }
}
fn lag_class(n: i32, len: usize) -> &'static str {
    let l = len as i64;
    let a = (n as i64).abs();
    if n == i32::MIN {
        "i32min"
    } else if n == i32::MAX {
        "i32max"
    } else if n == 0 {
        "zero"
    } else if n > 0 {
        if a < l { "pos_lt" } else if a == l { "pos_eq" } else { "pos_gt" }
    } else if a < l {
        "neg_lt"
    } else if a == l {
        "neg_eq"
    } else {
        "neg_gt"
    }
}

impl<T: Elem> Op<T> {
    fn name(&self) -> &'static str {
        match self {
            Op::Shift(..) => "shift",
            Op::VShift(..) => "vshift",
            Op::VDiff(..) => "vdiff",
            Op::VPct(..) => "vpct_change",
            Op::FFill(..) => "ffill",
            Op::BFill(..) => "bfill",
            Op::FFillMask(..) => "ffill_mask",
            Op::BFillMask(..) => "bfill_mask",
            Op::Fill(..) => "fill",
            Op::FillMask(..) => "fill_mask",
            Op::VClip(..) => "vclip",
            Op::VAbs => "vabs",
            Op::Abs => "abs",
            Op::Pipe(..) => "pipe_vshift_shift_ffill_vabs",
        }
    }
    fn term(&self, xs: &str) -> String {
        let p = T::PACK;
        match self {
            Op::Shift(n, v) => format!("(r_shift {} {} {} {})", p, coq_z(*n as i128), v.coq(), xs),
            Op::VShift(n, v) => format!("(r_vshift {} {} {} {})", p, coq_z(*n as i128), optv(v), xs),
            Op::VDiff(n, v) => format!("(r_vdiff {} {} {} {})", p, coq_z(*n as i128), optv(v), xs),
            Op::VPct(n) => format!("(r_vpct {} {} {})", p, coq_z(*n as i128), xs),
            Op::FFill(v) => format!("(r_ffill {} {} {})", p, optv(v), xs),
            Op::BFill(v) => format!("(r_bfill {} {} {})", p, optv(v), xs),
            Op::FFillMask(k, c, v) => format!("(r_ffill_mask {} {} {} {} {})", p, k, T::coq_inner(c), optv(v), xs),
            Op::BFillMask(k, c, v) => format!("(r_bfill_mask {} {} {} {} {})", p, k, T::coq_inner(c), optv(v), xs),
            Op::Fill(v) => format!("(r_fill {} {} {})", p, v.coq(), xs),
            Op::FillMask(k, c, v) => format!("(r_fill_mask {} {} {} {} {})", p, k, T::coq_inner(c), v.coq(), xs),
            Op::VClip(lo, hi) => format!("(r_vclip {} {} {} {})", p, lo.coq(), hi.coq(), xs),
            Op::VAbs => format!("(r_vabs {} {})", p, xs),
            Op::Abs => format!("({} {})", if T::PACK == "pF" { "r_abs_f" } else { "r_abs_i" }, xs),
            Op::Pipe(n1, f1, n2, f2, f3) => format!(
                "(r_pipe {} {} {} {} {} {} {})",
                p, coq_z(*n1 as i128), optv(f1), coq_z(*n2 as i128), f2.coq(), optv(f3), xs
            ),
        }
    }
    fn params(&self) -> String {
        match self {
            Op::Shift(n, v) => format!("n={} value={:?}", n, v),
            Op::VShift(n, v) | Op::VDiff(n, v) => format!("n={} value={:?}", n, v),
            Op::VPct(n) => format!("n={}", n),
            Op::FFill(v) | Op::BFill(v) => format!("value={:?}", v),
            Op::FFillMask(k, c, v) | Op::BFillMask(k, c, v) => format!("mask={}:{:?} value={:?}", mask_name(*k), c, v),
            Op::Fill(v) => format!("value={:?}", v),
            Op::FillMask(k, c, v) => format!("mask={}:{:?} value={:?}", mask_name(*k), c, v),
            Op::VClip(lo, hi) => format!("lower={:?} upper={:?}", lo, hi),
            Op::VAbs | Op::Abs => String::new(),
            Op::Pipe(n1, f1, n2, f2, f3) => format!("n1={} value1={:?} n2={} value2={:?} value3={:?}", n1, f1, n2, f2, f3),
        }
    }
    fn tags(&self, len: usize) -> String {
        match self {
            Op::Shift(n, v) => format!("lag={} fill={}", lag_class(*n, len), if v.isnull() { "null" } else { "val" }),
            Op::VShift(n, v) | Op::VDiff(n, v) => format!("lag={} fill={}", lag_class(*n, len), fill_kind(v)),
            Op::VPct(n) => format!("lag={}", lag_class(*n, len)),
            Op::FFill(v) | Op::BFill(v) => format!("fill={}", fill_kind(v)),
            Op::FFillMask(k, _, v) | Op::BFillMask(k, _, v) => format!("mask={} fill={}", mask_name(*k), fill_kind(v)),
            Op::Fill(v) => format!("fill={}", if v.isnull() { "null" } else { "val" }),
            Op::FillMask(k, _, v) => format!("mask={} fill={}", mask_name(*k), if v.isnull() { "null" } else { "val" }),
            Op::VClip(lo, hi) => {
                let rel = match (lo.isnull(), hi.isnull()) {
                    (true, true) => "none",
                    (false, true) => "lower_only",
                    (true, false) => "upper_only",
                    (false, false) => {
                        let (l, h) = (lo.clone().unwrap(), hi.clone().unwrap());
                        if l < h { "lo_lt_hi" } else if l > h { "lo_gt_hi" } else { "lo_eq_hi" }
                    }
                };
                format!("bounds={}", rel)
            }
            Op::VAbs | Op::Abs => String::new(),
            Op::Pipe(n1, f1, n2, _, _) => format!("lag={} lag2={} fill={}", lag_class(*n1, len), lag_class(*n2, len), fill_kind(f1)),
        }
    }
    fn cmp(&self) -> &'static str {
        match self {
            Op::VPct(_) => "float:1e-12",
            Op::VDiff(..) if T::PACK == "pF" => "float:1e-12",
            _ => "exact",
        }
    }
}
fn mask_name(k: u8) -> &'static str {
    match k {
        0 => "is_none",
        1 => "valid_below",
        _ => "none_or_below",
    }
}

/// the real functions, through the public traits, on any view
fn run_op<T: Elem, V: Vec1View<T>>(v: &V, op: &Op<T>) -> Vec<Cell> {
    let r = guarded(AssertUnwindSafe(|| -> (usize, Vec<Cell>) {
        let c = |x: &T| x.cell();
        match op {
            Op::Shift(n, f) => pure::cells(pure::collect(v.titer().shift(*n, f.clone())), c),
            Op::VShift(n, f) => pure::cells(pure::collect(v.titer().vshift(*n, f.clone())), c),
            Op::VDiff(n, f) => pure::cells(T::do_vdiff(v, *n, f.clone()), c),
            Op::VPct(n) => pure::cells(pure::collect(v.vpct_change(*n)), |x: &f64| Cell::F(*x)),
            Op::FFill(f) => pure::cells(pure::collect(v.titer().ffill(f.clone())), c),
            Op::BFill(f) => pure::cells(pure::collect(v.titer().bfill(f.clone())), c),
            Op::FFillMask(k, th, f) => {
                pure::cells(pure::collect(v.titer().ffill_mask(mk_mask::<T>(*k, th.clone()), f.clone())), c)
            }
            Op::BFillMask(k, th, f) => {
                pure::cells(pure::collect(v.titer().bfill_mask(mk_mask::<T>(*k, th.clone()), f.clone())), c)
            }
            Op::Fill(f) => pure::cells(pure::collect(v.titer().fill(f.clone())), c),
            Op::FillMask(k, th, f) => {
                pure::cells(pure::collect(v.titer().fill_mask(mk_mask::<T>(*k, th.clone()), f.clone())), c)
            }
            Op::VClip(lo, hi) => pure::cells(pure::collect(v.titer().vclip(lo.clone(), hi.clone())), c),
            Op::VAbs => pure::cells(pure::collect(v.titer().vabs()), c),
            Op::Abs => pure::cells(T::do_abs(v), c),
            Op::Pipe(n1, f1, n2, f2, f3) => pure::cells(
                pure::collect(v.titer().vshift(*n1, f1.clone()).shift(*n2, f2.clone()).ffill(f3.clone()).vabs()),
                c,
            ),
        }
    }));
    pure::finish(r)
}

fn rot_deque<T: Clone>(xs: &[T], rot: usize) -> VecDeque<T> {
    // ring buffer whose head sits at offset `rot` (wrapped when rot > 0 and len > 1)
    let mut d: VecDeque<T> = VecDeque::with_capacity(xs.len().max(1));
    if let Some(x0) = xs.first() {
        for _ in 0..rot {
            d.push_back(x0.clone());
        }
        for _ in 0..rot {
            d.pop_front();
        }
    }
    for x in xs {
        d.push_back(x.clone())
    }
    d
}

fn run_be<T: Elem>(be: &str, xs: &[T], op: &Op<T>) -> Vec<Cell> {
    match be {
        "vec" => run_op(&xs.to_vec(), op),
        "arcvec" => run_op(&Arc::new(xs.to_vec()), op),
        "deque0" => run_op(&rot_deque(xs, 0), op),
        "deque1" => run_op(&rot_deque(xs, 1), op),
        "dequeM" => run_op(&rot_deque(xs, xs.len() / 2 + 1), op),
        "nd_owned" => run_op(&Array1::from_vec(xs.to_vec()), op),
        "nd_step2" => {
            let mut big: Vec<T> = Vec::with_capacity(2 * xs.len());
            for (i, x) in xs.iter().enumerate() {
                big.push(x.clone());
                big.push(xs[xs.len() - 1 - i].clone()); // filler that must never be read
            }
            let a = Array1::from_vec(big);
            let v: ArrayView1<T> = a.slice(s![..;2]);
            run_op(&v, op)
        }
        "nd_rev" => {
            let mut r = xs.to_vec();
            r.reverse();
            let a = Array1::from_vec(r);
            let v: ArrayView1<T> = a.slice(s![..;-1]);
            run_op(&v, op)
        }
        _ => unreachable!(),
    }
}

const BE_ALL: [&str; 8] = ["vec", "arcvec", "deque0", "deque1", "dequeM", "nd_owned", "nd_step2", "nd_rev"];

struct Ctx {
    em: Emitter,
    counter: usize,
    full_be_len: usize,
}

impl Ctx {
    /// emit one (series, op) on its backends: all of them for short series, Vec + two rotating ones otherwise
    fn emit<T: Elem>(&mut self, syms: &[Sym], op: &Op<T>, src: &str) {
        let xs: Vec<T> = {
            let mut v = Vec::with_capacity(syms.len());
            for s in syms {
                v.push(T::of_sym(*s))
            }
            v
        };
        let len = xs.len();
        let xs_coq = coq_list(&xs, |x| x.coq());
        let term = op.term(&xs_coq);
        let nn = {
            let mut k = 0;
            for x in &xs {
                if x.isnull() {
                    k += 1
                }
            }
            k
        };
        let nulls = if !T::NULLABLE { "never" } else if nn == 0 { "none" } else if nn == len { "all" } else { "some" };
        self.counter += 1;
        let mut bes: Vec<&str> = vec![];
        if len <= self.full_be_len {
            bes.extend(BE_ALL.iter())
        } else {
            bes.push("vec");
            bes.push(BE_ALL[1 + self.counter % 7]);
            bes.push(BE_ALL[1 + (self.counter + 3) % 7]);
        }
        let optview = T::PACK == "pOF";
        for be in bes {
            let tags = format!(
                "fn={} ty={} be={} len={} nulls={} src={} {}{}",
                op.name(), T::TY, be, len, nulls, src, op.tags(len), if len == 0 { " nt=0" } else { "" }
            );
            let desc = format!("fn={} ty={} be={} {} xs={:?}", op.name(), T::TY, be, op.params(), xs);
            self.em.case(op.cmp(), &tags, &desc, || term.clone(), || run_be(be, &xs, op));
        }
        if optview {
            // the same optional series seen through `Vec<f64>.opt()` (NaN -> None)
            let tags = format!(
                "fn={} ty={} be=optview len={} nulls={} src={} {}{}",
                op.name(), T::TY, len, nulls, src, op.tags(len), if len == 0 { " nt=0" } else { "" }
            );
            let desc = format!("fn={} ty={} be=optview {} xs={:?}", op.name(), T::TY, op.params(), xs);
            let base: Vec<f64> = {
                let mut v = vec![];
                for s in syms {
                    v.push(f64::of_sym(*s))
                }
                v
            };
            // SAFETY of the transmute-free path: T is Option<f64> here, checked by PACK; go through Any
            let op_any: &dyn std::any::Any = op;
            if let Some(op_of) = op_any.downcast_ref::<Op<Option<f64>>>() {
                self.em.case(op.cmp(), &tags, &desc, || term.clone(), || run_op(&base.opt(), op_of));
            }
        }
    }
}

const POS_VALS: [i64; 12] = [6, -8, 17, 2, -28, 12, 5, -3, 40, -16, 9, 1];

/// every series of length `len` over an alphabet: digit 0 = distinct value, 1 = null, 2 = zero
fn patterns(len: usize, digits: &[u8]) -> Vec<Vec<Sym>> {
    let a = digits.len();
    let mut out = vec![];
    let total = a.pow(len as u32);
    for code in 0..total {
        let mut c = code;
        let mut v = Vec::with_capacity(len);
        for i in 0..len {
            let d = digits[c % a];
            c /= a;
            v.push(match d {
                0 => Some(POS_VALS[i % POS_VALS.len()]),
                1 => None,
                _ => Some(0),
            });
        }
        out.push(v);
    }
    out
}

fn lags(len: usize) -> Vec<i32> {
    let l = len as i32;
    let mut v: Vec<i32> = (-l - 3..=l + 3).collect();
    v.push(i32::MIN);
    v.push(i32::MAX);
    v
}

fn fills_opt<T: Elem>() -> Vec<Option<T>> {
    let mut v = vec![None, Some(T::of_sym(Some(40)))];
    if T::NULLABLE {
        v.push(Some(T::of_sym(None)))
    }
    v
}
fn fills_plain<T: Elem>() -> Vec<T> {
    let mut v = vec![T::of_sym(Some(40))];
    if T::NULLABLE {
        v.push(T::of_sym(None))
    }
    v
}

/// lag operations, exhaustive: every pattern up to `lmax` x every lag x every fill kind
fn lag_family<T: Elem>(cx: &mut Ctx, lmax: usize, lmax_pct: usize) {
    let digits: &[u8] = if T::NULLABLE { &[0, 1] } else { &[0] };
    for len in 0..=lmax {
        for syms in patterns(len, digits) {
            for n in lags(len) {
                for f in fills_plain::<T>() {
                    cx.emit(&syms, &Op::<T>::Shift(n, f), "exh");
                }
                for f in fills_opt::<T>() {
                    cx.emit(&syms, &Op::<T>::VShift(n, f.clone()), "exh");
                    if T::ARITH {
                        cx.emit(&syms, &Op::<T>::VDiff(n, f), "exh");
                    }
                }
            }
        }
    }
    // composed pipelines: every stage must see exactly the items and the length of the previous one
    let digits: &[u8] = if T::NULLABLE { &[0, 1] } else { &[0] };
    for len in 0..=lmax.min(3) {
        for syms in patterns(len, digits) {
            for n1 in lags(len) {
                for n2 in [-1i32, 0, 2] {
                    for f1 in fills_opt::<T>() {
                        let f3 = if T::NULLABLE { None } else { Some(T::of_sym(Some(-36))) };
                        cx.emit(&syms, &Op::<T>::Pipe(n1, f1, n2, T::of_sym(Some(-20)), f3), "exh");
                    }
                }
            }
        }
    }
    // percentage change: zeros matter as much as nulls
    let digits: &[u8] = if T::NULLABLE { &[0, 1, 2] } else { &[0, 2] };
    for len in 0..=lmax_pct {
        for syms in patterns(len, digits) {
            for n in lags(len) {
                cx.emit(&syms, &Op::<T>::VPct(n), "exh");
            }
        }
    }
}

/// bounds for vclip relative to POS_VALS data (k = 6,-8,17,2,-28,12,...): below all, equal to an
/// element, strictly inside, equal to another element, above all — and null
const BOUNDS: [Sym; 6] = [None, Some(-32), Some(-8), Some(4), Some(17), Some(44)];

fn elementwise_family<T: Elem>(cx: &mut Ctx, lmax: usize, lmax_clip: usize) {
    let digits: &[u8] = if T::NULLABLE { &[0, 1] } else { &[0] };
    for len in 0..=lmax {
        for syms in patterns(len, digits) {
            for f in fills_opt::<T>() {
                cx.emit(&syms, &Op::<T>::FFill(f.clone()), "exh");
                cx.emit(&syms, &Op::<T>::BFill(f.clone()), "exh");
                for (k, c) in [(1u8, 4i64), (2, 4), (1, 100), (2, -100)] {
                    cx.emit(&syms, &Op::<T>::FFillMask(k, T::inner_of(c), f.clone()), "exh");
                    cx.emit(&syms, &Op::<T>::BFillMask(k, T::inner_of(c), f.clone()), "exh");
                }
            }
            for f in fills_plain::<T>() {
                cx.emit(&syms, &Op::<T>::Fill(f.clone()), "exh");
                for (k, c) in [(1u8, 4i64), (2, 4)] {
                    cx.emit(&syms, &Op::<T>::FillMask(k, T::inner_of(c), f.clone()), "exh");
                }
            }
            cx.emit(&syms, &Op::<T>::VAbs, "exh");
            if T::ARITH {
                cx.emit(&syms, &Op::<T>::Abs, "exh");
            }
            if len <= lmax_clip {
                for lo in BOUNDS {
                    for hi in BOUNDS {
                        if !T::NULLABLE && (lo.is_none() || hi.is_none()) {
                            continue;
                        }
                        cx.emit(&syms, &Op::<T>::VClip(T::of_sym(lo), T::of_sym(hi)), "exh");
                    }
                }
            }
        }
    }
}

/// sampled longer series: the shared null patterns, values with ties and zeros, random parameters
fn sampled_family<T: Elem>(cx: &mut Ctx, rng: &mut Rng, rounds: usize, lo_len: usize, hi_len: usize) {
    for r in 0..rounds {
        let len = rng.range(lo_len as i64, hi_len as i64) as usize;
        let pat = if T::NULLABLE { NULL_PATTERNS[r % NULL_PATTERNS.len()] } else { "none" };
        let mask = null_mask(rng, pat, len);
        let mut syms: Vec<Sym> = Vec::with_capacity(len);
        for i in 0..len {
            let k = if rng.chance(1, 6) { 0 } else if rng.chance(1, 3) { *rng.pick(&[-8i64, 4, 12]) } else { rng.range(-40, 40) };
            syms.push(if mask[i] { None } else { Some(k) });
        }
        let src = "rnd";
        let l = len as i64;
        let pick_n = |rng: &mut Rng| -> i32 {
            match rng.below(10) {
                0 => i32::MIN,
                1 => i32::MAX,
                2 => rng.range(l, l + 3) as i32,
                3 => -(rng.range(l, l + 3) as i32),
                _ => rng.range(-l - 3, l + 3) as i32,
            }
        };
        let rv = |rng: &mut Rng| -> Sym {
            if T::NULLABLE && rng.chance(1, 4) { None } else { Some(rng.range(-40, 40)) }
        };
        let ro = |rng: &mut Rng| -> Option<T> {
            if rng.chance(1, 3) { None } else { Some(T::of_sym(rv(rng))) }
        };
        let nonnull = |rng: &mut Rng| -> T { T::of_sym(Some(rng.range(-40, 40))) };
        let n = pick_n(rng);
        cx.emit(&syms, &Op::<T>::Shift(n, T::of_sym(rv(rng))), src);
        let n = pick_n(rng);
        cx.emit(&syms, &Op::<T>::VShift(n, ro(rng)), src);
        if T::ARITH {
            let n = pick_n(rng);
            // integers cannot take a null fill (none() panics by design); exercised in the exhaustive part
            let f = if T::NULLABLE { ro(rng) } else { Some(nonnull(rng)) };
            cx.emit(&syms, &Op::<T>::VDiff(n, f), src);
            cx.emit(&syms, &Op::<T>::Abs, src);
        }
        let n = pick_n(rng);
        cx.emit(&syms, &Op::<T>::VPct(n), src);
        cx.emit(&syms, &Op::<T>::FFill(ro(rng)), src);
        cx.emit(&syms, &Op::<T>::BFill(ro(rng)), src);
        let k = 1 + rng.below(2) as u8;
        let c = rng.range(-20, 20);
        let f = if T::NULLABLE { ro(rng) } else { Some(nonnull(rng)) };
        cx.emit(&syms, &Op::<T>::FFillMask(k, T::inner_of(c), f.clone()), src);
        cx.emit(&syms, &Op::<T>::BFillMask(k, T::inner_of(c), f), src);
        cx.emit(&syms, &Op::<T>::Fill(T::of_sym(rv(rng))), src);
        cx.emit(&syms, &Op::<T>::FillMask(k, T::inner_of(c), T::of_sym(rv(rng))), src);
        cx.emit(&syms, &Op::<T>::VClip(T::of_sym(rv(rng)), T::of_sym(rv(rng))), src);
        cx.emit(&syms, &Op::<T>::VAbs, src);
        let (n1, n2) = (pick_n(rng), pick_n(rng));
        let f1 = if T::NULLABLE { ro(rng) } else { Some(nonnull(rng)) };
        let f3 = if T::NULLABLE { ro(rng) } else { Some(nonnull(rng)) };
        cx.emit(&syms, &Op::<T>::Pipe(n1, f1, n2, T::of_sym(rv(rng)), f3), src);
    }
}

/// hostile float values (+-inf, -0.0, huge, subnormal, 2^53+1) through every operation: nothing here
/// depends on rounding, the model mirrors the operation order
fn hostile_family<T: Elem>(cx: &mut Ctx, rng: &mut Rng, rounds: usize) {
    for _ in 0..rounds {
        let len = rng.range(1, 6) as usize;
        let hv = |rng: &mut Rng| -> Sym {
            match rng.below(8) {
                0 => None,
                1 | 2 => Some(rng.range(-8, 8)),
                _ => Some(HOSTILE + rng.below(HOSTILE_VALS.len()) as i64),
            }
        };
        let mut syms: Vec<Sym> = vec![];
        for _ in 0..len {
            syms.push(hv(rng))
        }
        let src = "hostile";
        let l = len as i64;
        let n = rng.range(-l - 1, l + 1) as i32;
        let ro = |rng: &mut Rng| -> Option<T> { if rng.chance(1, 3) { None } else { Some(T::of_sym(hv(rng))) } };
        cx.emit(&syms, &Op::<T>::Shift(n, T::of_sym(hv(rng))), src);
        cx.emit(&syms, &Op::<T>::VShift(n, ro(rng)), src);
        if T::ARITH {
            cx.emit(&syms, &Op::<T>::VDiff(n, ro(rng)), src);
            cx.emit(&syms, &Op::<T>::Abs, src);
        }
        cx.emit(&syms, &Op::<T>::VPct(n), src);
        cx.emit(&syms, &Op::<T>::FFill(ro(rng)), src);
        cx.emit(&syms, &Op::<T>::BFill(ro(rng)), src);
        cx.emit(&syms, &Op::<T>::Fill(T::of_sym(hv(rng))), src);
        cx.emit(&syms, &Op::<T>::VClip(T::of_sym(hv(rng)), T::of_sym(hv(rng))), src);
        cx.emit(&syms, &Op::<T>::VAbs, src);
    }
}

fn main() {
    let em = Emitter::new();
    let thorough = em.thorough();
    let seed = em.args.seed;
    let mut cx = Ctx { em, counter: 0, full_be_len: if thorough { 4 } else { 3 } };
    let mut rng = Rng::new(seed.wrapping_mul(0xC13).wrapping_add(13));
    // exhaustive scopes (lengths): lag ops / pct alphabet / fills / clip
    let (lf, lfp, le, lc) = if thorough { (7, 5, 8, 5) } else { (6, 4, 6, 4) };
    let (lo, lop, leo, lco) = if thorough { (6, 4, 7, 4) } else { (5, 3, 5, 3) };
    lag_family::<f64>(&mut cx, lf, lfp);
    lag_family::<Option<f64>>(&mut cx, lo, lop);
    lag_family::<Option<i32>>(&mut cx, lo, lop);
    lag_family::<i32>(&mut cx, 8, 5);
    lag_family::<f32>(&mut cx, 4, 3);
    lag_family::<i64>(&mut cx, 6, 4);
    elementwise_family::<f64>(&mut cx, le, lc);
    elementwise_family::<Option<f64>>(&mut cx, leo, lco);
    elementwise_family::<Option<i32>>(&mut cx, leo, lco);
    elementwise_family::<i32>(&mut cx, 8, 4);
    elementwise_family::<f32>(&mut cx, 4, 3);
    elementwise_family::<i64>(&mut cx, 6, 3);
    let rounds = if thorough { 400 } else { 90 };
    let hi = if thorough { 40 } else { 14 };
    sampled_family::<f64>(&mut cx, &mut rng, rounds, 7, hi);
    sampled_family::<Option<f64>>(&mut cx, &mut rng, rounds, 5, hi);
    sampled_family::<Option<i32>>(&mut cx, &mut rng, rounds, 5, hi);
    sampled_family::<i32>(&mut cx, &mut rng, rounds / 2, 5, hi);
    sampled_family::<f32>(&mut cx, &mut rng, rounds / 2, 5, hi);
    sampled_family::<i64>(&mut cx, &mut rng, rounds / 2, 5, hi);
    hostile_family::<f64>(&mut cx, &mut rng, rounds);
    hostile_family::<Option<f64>>(&mut cx, &mut rng, rounds);
    cx.em.finish();
}
