//! C14: vcut (binning) and vsorted_unique_idx / vsorted_unique (run de-duplication) of
//! tea-map/src/valid_iter.rs through the public iterator API, against Model/Binning.v.
//!
//! vcut: all strictly ascending edge vectors of size 0..=5 over 6-letter alphabets (a small one and
//! one made of the type's extremes) x 0..=6 labels x right/left closed x add_bounds on/off, with a
//! value vector holding every edge, its neighbours, the type's MIN/MAX (f64: +-inf, +-MAX, -0.0,
//! subnormal) and nulls; element types i32, Option<i32>, f64; label types i32, Option<i32>, f64.
//! unique: every series over {null,1,2,3} whose nulls form a prefix and/or suffix up to len 7
//! (thorough 9), every series with nulls anywhere up to len 5 (thorough 7); element types i32,
//! Option<i32>, f64; Vec / VecDeque / ndarray backends; plus long random sorted series.
use std::collections::VecDeque;
use std::panic::AssertUnwindSafe;

use tevec::export::ndarray::Array1;
use tevec::prelude::{Keep, MapValidBasic, TIter};
use vh::*;

// ---------------------------------------------------------------------------------- vcut

fn cz(v: i32) -> String {
    coq_z(v as i128)
}
fn opt_i32_cell(x: Option<i32>) -> Cell {
    match x {
        Some(v) => Cell::Int(v as i128),
        None => Cell::Null,
    }
}

/// run vcut on the real code; one cell per item (label | null | Err), a single Err cell when the call
/// itself is refused, a single Panic cell when anything unwinds
macro_rules! cut_impl {
    ($vals:expr, $bins:expr, $labels:expr, $right:expr, $ab:expr, $lcell:expr) => {{
        let vals = $vals;
        let bins = $bins;
        let labels = $labels;
        let right: bool = $right;
        let ab: bool = $ab;
        match guarded(AssertUnwindSafe(|| -> Vec<Cell> {
            match vals.titer().vcut(&bins, &labels, right, ab) {
                Err(_) => vec![Cell::Err],
                Ok(it) => {
                    let mut out = vec![];
                    for r in it {
                        out.push(match r {
                            Ok(l) => $lcell(l),
                            Err(_) => Cell::Err,
                        })
                    }
                    out
                }
            }
        })) {
            Ok(c) => c,
            Err(k) => vec![Cell::Panic(k)],
        }
    }};
}

/// all subsets (as ascending vectors) of `alpha` with at most `maxk` elements
fn subsets<T: Copy>(alpha: &[T], maxk: usize) -> Vec<Vec<T>> {
    let n = alpha.len();
    let mut out = vec![];
    for mask in 0u32..(1 << n) {
        if (mask.count_ones() as usize) <= maxk {
            out.push((0..n).filter(|i| mask >> i & 1 == 1).map(|i| alpha[i]).collect())
        }
    }
    out.sort_by_key(|v: &Vec<T>| v.len());
    out
}

fn count_tag(ab: bool, nedges: usize, nlab: usize) -> &'static str {
    let ok = if ab { nlab == nedges + 1 } else { nlab + 1 == nedges };
    if ok { "ok" } else { "mismatch" }
}

fn values_i32(alpha: &[i32], rng: &mut Rng, extra: usize) -> Vec<Option<i32>> {
    let mut v: Vec<Option<i32>> = vec![None];
    for &a in alpha {
        for d in [-1i64, 0, 1] {
            let x = a as i64 + d;
            if x >= i32::MIN as i64 && x <= i32::MAX as i64 && !v.contains(&Some(x as i32)) {
                v.push(Some(x as i32))
            }
        }
    }
    for x in [i32::MIN, i32::MIN + 1, i32::MAX - 1, i32::MAX, 0] {
        if !v.contains(&Some(x)) {
            v.push(Some(x))
        }
    }
    for _ in 0..extra {
        v.push(Some(rng.range(i32::MIN as i64, i32::MAX as i64) as i32))
    }
    v.push(None);
    v
}

fn values_f64(alpha: &[f64], rng: &mut Rng, extra: usize) -> Vec<f64> {
    let mut v: Vec<f64> = vec![f64::NAN];
    let push = |x: f64, v: &mut Vec<f64>| {
        if !v.iter().any(|y| y.to_bits() == x.to_bits()) {
            v.push(x)
        }
    };
    for &a in alpha {
        push(a, &mut v);
        if a.is_finite() {
            // immediate neighbours in binary64 and a coarse step
            push(f64::from_bits(if a > 0.0 { a.to_bits() + 1 } else if a < 0.0 { a.to_bits() - 1 } else { 1 }), &mut v);
            push(f64::from_bits(if a > 0.0 { a.to_bits() - 1 } else if a < 0.0 { a.to_bits() + 1 } else { 1 | (1u64 << 63) }), &mut v);
            if a.abs() < 1e6 {
                push(a + 0.25, &mut v);
                push(a - 0.25, &mut v);
            }
        }
    }
    for x in [f64::NEG_INFINITY, f64::MIN, -0.0, 0.0, 5e-324, f64::MAX, f64::INFINITY] {
        push(x, &mut v)
    }
    for _ in 0..extra {
        v.push(rng.range(-4000, 4000) as f64 / 8.0)
    }
    v.push(f64::NAN);
    v
}

fn coq_optf(x: f64) -> String {
    if x.is_nan() { "None".into() } else { format!("(Some {})", coq_f64(x)) }
}

fn cut_cases_i32(em: &mut Emitter, alpha_name: &str, alpha: &[i32], maxlab: usize) {
    let mut rng = Rng::new(em.args.seed ^ 0xC14);
    let vals_opt = values_i32(alpha, &mut rng, 3);
    let vals_plain: Vec<i32> = vals_opt.iter().flatten().cloned().collect();
    let vals_opt_coq = coq_list(&vals_opt, |x| coq_opt(x, |v| cz(*v)));
    let vals_plain_coq = coq_list(&vals_plain, |x| format!("(Some {})", cz(*x)));
    let mut k = 0usize;
    for edges in subsets(alpha, 5) {
        let edges_coq = coq_list(&edges, |x| cz(*x));
        for nlab in 0..=maxlab {
            for right in [true, false] {
                for ab in [true, false] {
                    k += 1;
                    let tags = |ty: &str, lty: &str| {
                        format!(
                            "fn=vcut ty={} lty={} alpha={} nedges={} nlab={} right={} bounds={} count={}",
                            ty, lty, alpha_name, edges.len(), nlab, right, ab, count_tag(ab, edges.len(), nlab)
                        )
                    };
                    let desc = |ty: &str, lty: &str, vals: String| {
                        format!(
                            "fn=vcut ty={} labels={}x{} right={} add_bounds={} edges={:?} values={}",
                            ty, lty, nlab, right, ab, edges, vals
                        )
                    };
                    let term = |nullable: bool, vals: &str| {
                        format!(
                            "(run_cut_z {} {} {} {} {} {})",
                            coq_bool(right), coq_bool(ab), coq_bool(nullable), edges_coq, coq_nat(nlab), vals
                        )
                    };
                    let labels_i: Vec<i32> = (0..nlab as i32).map(|j| 100 + j).collect();
                    let labels_o: Vec<Option<i32>> = labels_i.iter().map(|x| Some(*x)).collect();
                    // (a) plain i32 values, plain i32 labels
                    em.case("exact", &tags("i32", "i32"), &desc("i32", "i32", format!("{:?}", vals_plain)),
                        || term(false, &vals_plain_coq),
                        || cut_impl!(vals_plain.clone(), edges.clone(), labels_i.clone(), right, ab, |l: i32| Cell::Int(l as i128)));
                    // (b) Option<i32> values with nulls, Option<i32> labels; bins are Option<i32> too
                    let bins_o: Vec<Option<i32>> = edges.iter().map(|x| Some(*x)).collect();
                    em.case("exact", &tags("opt_i32", "opt_i32"), &desc("Option<i32>", "Option<i32>", format!("{:?}", vals_opt)),
                        || term(true, &vals_opt_coq),
                        || cut_impl!(vals_opt.clone(), bins_o.clone(), labels_o.clone(), right, ab, opt_i32_cell));
                    // (c) sampled: other containers for values / bins / labels, f64 labels
                    if k % 5 == 0 {
                        em.case("exact", &tags("opt_i32", "f64"), &desc("Option<i32>/VecDeque+ndarray", "f64", format!("{:?}", vals_opt)),
                            || term(true, &vals_opt_coq),
                            || {
                                let v: VecDeque<Option<i32>> = vals_opt.iter().cloned().collect();
                                let b = Array1::from_vec(bins_o.clone());
                                let l: VecDeque<f64> = labels_i.iter().map(|x| *x as f64).collect();
                                cut_impl!(v, b, l, right, ab, |l: f64| Cell::F(l))
                            });
                    }
                    // (d) sampled: null values with a label type that has no null: `T2::none()` panics by
                    // design (DESIGN 5.4) - the model reproduces it; nothing is claimed there
                    if k % 7 == 0 {
                        em.case("exact", &tags("opt_i32", "i32"), &desc("Option<i32>", "i32", format!("{:?}", vals_opt)),
                            || term(false, &vals_opt_coq),
                            || cut_impl!(vals_opt.clone(), bins_o.clone(), labels_i.clone(), right, ab, |l: i32| Cell::Int(l as i128)));
                    }
                }
            }
        }
    }
}

/// 64-bit integer element types at magnitudes where neighbouring integers are NOT distinguishable as f64 (above 2^53, at
/// the type bounds): the comparisons must be made in the element type, never after a lossy widening to f64
fn cut_cases_wide(em: &mut Emitter) {
    let p53: i64 = 1 << 53;
    let alpha_i: [i64; 9] = [i64::MIN, -p53 - 1, -p53, p53, p53 + 1, p53 + 2, i64::MAX - 3, i64::MAX - 1, i64::MAX];
    let alpha_u: [u64; 7] = [0, 1, 1 << 53, (1 << 53) + 1, (1 << 53) + 2, u64::MAX - 1, u64::MAX];
    let vals_i: Vec<i64> = alpha_i.to_vec();
    let vals_u: Vec<u64> = alpha_u.to_vec();
    let vi_coq = coq_list(&vals_i, |x| format!("(Some {})", coq_z(*x as i128)));
    let vu_coq = coq_list(&vals_u, |x| format!("(Some {})", coq_z(*x as i128)));
    for right in [true, false] {
        for ab in [true, false] {
            for edges in subsets(&alpha_i, 3) {
                let nlab = if ab { edges.len() + 1 } else { edges.len().saturating_sub(1) };
                let labels: Vec<i32> = (0..nlab as i32).map(|j| 100 + j).collect();
                let tags = format!("fn=vcut ty=i64 lty=i32 alpha=wide nedges={} nlab={} right={} bounds={} count=match", edges.len(), nlab, right, ab);
                let desc = format!("fn=vcut ty=i64 labels=i32x{} right={} add_bounds={} edges={:?} values={:?}", nlab, right, ab, edges, vals_i);
                let e_coq = coq_list(&edges, |x| coq_z(*x as i128));
                em.case("exact", &tags, &desc, || format!("(run_cut_z64 {} {} false {} {} {})", coq_bool(right), coq_bool(ab), e_coq, coq_nat(nlab), vi_coq),
                    || cut_impl!(vals_i.clone(), edges.clone(), labels.clone(), right, ab, |l: i32| Cell::Int(l as i128)));
            }
            for edges in subsets(&alpha_u, 3) {
                let nlab = if ab { edges.len() + 1 } else { edges.len().saturating_sub(1) };
                let labels: Vec<i32> = (0..nlab as i32).map(|j| 100 + j).collect();
                let tags = format!("fn=vcut ty=u64 lty=i32 alpha=wide nedges={} nlab={} right={} bounds={} count=match", edges.len(), nlab, right, ab);
                let desc = format!("fn=vcut ty=u64 labels=i32x{} right={} add_bounds={} edges={:?} values={:?}", nlab, right, ab, edges, vals_u);
                let e_coq = coq_list(&edges, |x| coq_z(*x as i128));
                em.case("exact", &tags, &desc, || format!("(run_cut_u64 {} {} false {} {} {})", coq_bool(right), coq_bool(ab), e_coq, coq_nat(nlab), vu_coq),
                    || cut_impl!(vals_u.clone(), edges.clone(), labels.clone(), right, ab, |l: i32| Cell::Int(l as i128)));
            }
        }
    }
}

fn cut_cases_f64(em: &mut Emitter, alpha_name: &str, alpha: &[f64], maxlab: usize) {
    let mut rng = Rng::new(em.args.seed ^ 0xF64C14);
    let vals = values_f64(alpha, &mut rng, 3);
    let vals_coq = coq_list(&vals, |x| coq_optf(*x));
    let mut k = 0usize;
    for edges in subsets(alpha, 5) {
        let edges_coq = coq_list(&edges, |x| coq_f64(*x));
        for nlab in 0..=maxlab {
            for right in [true, false] {
                for ab in [true, false] {
                    k += 1;
                    let tags = |lty: &str| {
                        format!(
                            "fn=vcut ty=f64 lty={} alpha={} nedges={} nlab={} right={} bounds={} count={}",
                            lty, alpha_name, edges.len(), nlab, right, ab, count_tag(ab, edges.len(), nlab)
                        )
                    };
                    let desc = |lty: &str| {
                        format!(
                            "fn=vcut ty=f64 labels={}x{} right={} add_bounds={} edges={:?} values={:?}",
                            lty, nlab, right, ab, edges, vals
                        )
                    };
                    let term = |nullable: bool| {
                        format!(
                            "(run_cut_f {} {} {} {} {} {})",
                            coq_bool(right), coq_bool(ab), coq_bool(nullable), edges_coq, coq_nat(nlab), vals_coq
                        )
                    };
                    let labels_f: Vec<f64> = (0..nlab).map(|j| 100.0 + j as f64).collect();
                    em.case("exact", &tags("f64"), &desc("f64"), || term(true),
                        || cut_impl!(vals.clone(), edges.clone(), labels_f.clone(), right, ab, |l: f64| Cell::F(l)));
                    if k % 4 == 0 {
                        let labels_o: Vec<Option<i32>> = (0..nlab as i32).map(|j| Some(100 + j)).collect();
                        em.case("exact", &tags("opt_i32"), &desc("Option<i32>/ndarray values"), || term(true),
                            || { let r = Array1::from_vec(vals.iter().rev().cloned().collect::<Vec<_>>()); cut_impl!(r.slice(tevec::export::ndarray::s![..;-1]), edges.clone(), labels_o.clone(), right, ab, opt_i32_cell) });   // reversed contiguous ndarray view
                    }
                }
            }
        }
    }
}

/// random configurations with a matching label count: longer edge vectors, values concentrated on and
/// around the edges, at the extremes, nulls
fn cut_cases_random(em: &mut Emitter, n: usize) {
    let mut rng = Rng::new(em.args.seed ^ 0xABCD14);
    for _ in 0..n {
        let nedges = rng.below(9);
        let wide = rng.chance(1, 3);
        let mut edges: Vec<i32> = (0..nedges)
            .map(|_| if wide { rng.range(i32::MIN as i64, i32::MAX as i64) as i32 } else { rng.range(-20, 20) as i32 })
            .collect();
        if rng.chance(1, 6) { edges.push(i32::MIN) }
        if rng.chance(1, 6) { edges.push(i32::MAX) }
        edges.sort();
        edges.dedup();
        // outside the property's quantifier (the model is still the code: first match wins, theorem
        // C14_cut_first_match): a repeated edge, or the edges in arbitrary order
        let mut shape = "asc";
        if edges.len() >= 2 && rng.chance(1, 8) {
            let i = rng.below(edges.len() - 1);
            edges[i + 1] = edges[i];
            shape = "repeated";
        } else if edges.len() >= 2 && rng.chance(1, 7) {
            for i in (1..edges.len()).rev() {
                let j = rng.below(i + 1);
                edges.swap(i, j);
            }
            shape = "unsorted";
        }
        let ab = rng.chance(1, 2);
        let right = rng.chance(1, 2);
        if !ab && edges.is_empty() { continue }
        let nlab = if ab { edges.len() + 1 } else { edges.len() - 1 };
        let len = rng.below(24);
        let vals: Vec<Option<i32>> = (0..len)
            .map(|_| match rng.below(10) {
                0 => None,
                1 => Some(i32::MIN),
                2 => Some(i32::MAX),
                3..=6 if !edges.is_empty() => {
                    let e = *rng.pick(&edges) as i64 + rng.range(-1, 1);
                    Some(e.clamp(i32::MIN as i64, i32::MAX as i64) as i32)
                }
                _ => Some(if wide { rng.range(i32::MIN as i64, i32::MAX as i64) as i32 } else { rng.range(-25, 25) as i32 }),
            })
            .collect();
        let bins_o: Vec<Option<i32>> = edges.iter().map(|x| Some(*x)).collect();
        let labels_o: Vec<Option<i32>> = (0..nlab as i32).map(|j| Some(100 + j)).collect();
        let tags = format!(
            "fn=vcut ty=opt_i32 lty=opt_i32 alpha=random edges={} nedges={} nlab={} right={} bounds={} count=ok len={}{}",
            shape, edges.len(), nlab, right, ab, len, if len == 0 { " nt=0" } else { "" }
        );
        let desc = format!(
            "fn=vcut ty=Option<i32> labels=Option<i32>x{} right={} add_bounds={} edges={:?} values={:?}",
            nlab, right, ab, edges, vals
        );
        em.case("exact", &tags, &desc,
            || format!("(run_cut_z {} {} true {} {} {})", coq_bool(right), coq_bool(ab),
                       coq_list(&edges, |x| cz(*x)), coq_nat(nlab), coq_list(&vals, |x| coq_opt(x, |v| cz(*v)))),
            || cut_impl!(vals.clone(), bins_o.clone(), labels_o.clone(), right, ab, opt_i32_cell));
    }
}

// ---------------------------------------------------------------------------------- unique

/// three results on the real code: Keep::First indices | Keep::Last indices | unique values
macro_rules! uniq_impl {
    ($vals:expr, $vcell:expr) => {{
        let vals = $vals;
        match guarded(AssertUnwindSafe(|| -> Vec<Cell> {
            let mut out = vec![];
            for i in vals.titer().vsorted_unique_idx(Keep::First) {
                out.push(Cell::Int(i as i128))
            }
            out.push(Cell::Sep);
            for i in vals.titer().vsorted_unique_idx(Keep::Last) {
                out.push(Cell::Int(i as i128))
            }
            out.push(Cell::Sep);
            for v in vals.titer().vsorted_unique() {
                out.push($vcell(v))
            }
            out
        })) {
            Ok(c) => c,
            Err(k) => vec![Cell::Panic(k)],
        }
    }};
}

fn uniq_tags(ty: &str, be: &str, xs: &[Option<i64>]) -> String {
    let len = xs.len();
    let lead = xs.iter().take_while(|x| x.is_none()).count();
    let trail = if lead == len { 0 } else { xs.iter().rev().take_while(|x| x.is_none()).count() };
    let inner = xs[lead..len - trail].iter().any(|x| x.is_none());
    let nulls = if len > 0 && lead == len { "all" }
        else if inner { "inner" }
        else { match (lead > 0, trail > 0) { (false, false) => "none", (true, false) => "head", (false, true) => "tail", _ => "both" } };
    let vs: Vec<i64> = xs.iter().flatten().cloned().collect();
    let asc = vs.windows(2).all(|w| w[0] <= w[1]);
    let desc = vs.windows(2).all(|w| w[0] >= w[1]);
    let order = if vs.len() < 2 || (asc && desc) { "const" } else if asc { "asc" } else if desc { "desc" } else { "unsorted" };
    let mut maxrun = 0;
    let mut run = 0;
    let mut prev: Option<Option<i64>> = None;
    for x in xs {
        if x.is_some() && prev == Some(*x) { run += 1 } else if x.is_some() { run = 1 } else { run = 0 }
        prev = Some(*x);
        maxrun = maxrun.max(run);
    }
    format!(
        "fn=uniq ty={} be={} len={} nulls={} order={} maxrun={}{}",
        ty, be, len.min(10), nulls, order, maxrun.min(8), if vs.is_empty() { " nt=0" } else { "" }
    )
}

/// emit the cases of one abstract series (values are small integer codes; None = null)
/// `share_f`: the f64 series holds the same (integer) values as the i32 one and is compared with the same
/// model term (an integer cell equals an integral float cell) - halves the number of model evaluations of the
/// exhaustive part; the PrimFloat instance of the model is exercised by the non-shared cases
fn uniq_emit(em: &mut Emitter, xs: &[Option<i64>], scale_i32: &dyn Fn(i64) -> i32, scale_f64: &dyn Fn(i64) -> f64, k: usize, share_f: bool) {
    let has_null = xs.iter().any(|x| x.is_none());
    let vi: Vec<Option<i32>> = xs.iter().map(|x| x.map(scale_i32)).collect();
    let vf: Vec<f64> = if share_f { vi.iter().enumerate().map(|(i, x)| x.map(|v| v as f64).unwrap_or(vh::nan_at(i))).collect() }
        else { xs.iter().enumerate().map(|(i, x)| x.map(scale_f64).unwrap_or(vh::nan_at(i))).collect() };
    let term_z = || format!("(run_uniq_z {})", coq_list(&vi, |x| coq_opt(x, |v| cz(*v))));
    let term_f = || if share_f { term_z() } else { format!("(run_uniq_f {})", coq_list(&vf, |x| coq_optf(*x))) };
    let desc = |ty: &str, be: &str, s: String| format!("fn=vsorted_unique_idx(First|Last)+vsorted_unique ty={} be={} xs={}", ty, be, s);
    em.case("exact", &uniq_tags("opt_i32", "vec", xs), &desc("Option<i32>", "vec", format!("{:?}", vi)), term_z,
        || uniq_impl!(vi.clone(), opt_i32_cell));
    em.case("exact", &uniq_tags("f64", "vec", xs), &desc("f64", "vec", format!("{:?}", vf)), term_f,
        || uniq_impl!(vf.clone(), |v: f64| Cell::F(v)));
    // f32 / Option<f32> / Option<f64> elements (seed C14-5: `not_none` of f32 alone became `is_finite`): the model runs on the
    // f32 values widened back to f64 (exact; f64::MAX narrows to +inf, so the two top codes of part (3) merge into one run)
    if k % 2 == 0 {
        let v32: Vec<f32> = vf.iter().map(|x| *x as f32).collect();
        let v32w: Vec<f64> = v32.iter().map(|x| *x as f64).collect();
        let term_32 = || format!("(run_uniq_f {})", coq_list(&v32w, |x| coq_optf(*x)));
        em.case("exact", &uniq_tags("f32", "vec", xs), &desc("f32", "vec", format!("{:?}", v32)), term_32,
            || uniq_impl!(v32.clone(), |v: f32| Cell::F(v as f64)));
        let vo32: Vec<Option<f32>> = v32.iter().map(|x| if x.is_nan() { None } else { Some(*x) }).collect();
        em.case("exact", &uniq_tags("opt_f32", "vec", xs), &desc("Option<f32>", "vec", format!("{:?}", vo32)), term_32,
            || uniq_impl!(vo32.clone(), |v: Option<f32>| match v { Some(x) => Cell::F(x as f64), None => Cell::Null }));
        let vo64: Vec<Option<f64>> = vf.iter().map(|x| if x.is_nan() { None } else { Some(*x) }).collect();
        em.case("exact", &uniq_tags("opt_f64", "vec", xs), &desc("Option<f64>", "vec", format!("{:?}", vo64)), term_f,
            || uniq_impl!(vo64.clone(), |v: Option<f64>| match v { Some(x) => Cell::F(x), None => Cell::Null }));
    }
    if !has_null {
        let plain: Vec<i32> = vi.iter().flatten().cloned().collect();
        em.case("exact", &uniq_tags("i32", "vec", xs), &desc("i32", "vec", format!("{:?}", plain)), term_z,
            || uniq_impl!(plain.clone(), |v: i32| Cell::Int(v as i128)));
    }
    // other backends, sampled
    match k % 6 {
        0 => em.case("exact", &uniq_tags("opt_i32", "deque", xs), &desc("Option<i32>", "deque", format!("{:?}", vi)), term_z,
            || {
                // a wrapped ring buffer
                let mut d: VecDeque<Option<i32>> = VecDeque::with_capacity(vi.len().max(1));
                d.push_back(None);
                d.pop_front();
                for x in &vi { d.push_back(*x) }
                uniq_impl!(d, opt_i32_cell)
            }),
        3 => em.case("exact", &uniq_tags("f64", "ndarray", xs), &desc("f64", "ndarray", format!("{:?}", vf)), term_f,
            || { let r = Array1::from_vec(vf.iter().rev().cloned().collect::<Vec<f64>>()); uniq_impl!(r.slice(tevec::export::ndarray::s![..;-1]), |v: f64| Cell::F(v)) }),
        _ => {}
    }
}

/// all series over {1..=nv} of length n
fn all_values(n: usize, nv: i64, f: &mut dyn FnMut(&[i64])) {
    let mut cur = vec![1i64; n];
    loop {
        f(&cur);
        let mut i = n;
        loop {
            if i == 0 { return }
            i -= 1;
            if cur[i] < nv { cur[i] += 1; break } else { cur[i] = 1 }
        }
    }
}

fn uniq_cases(em: &mut Emitter) {
    let thorough = em.thorough();
    let si = |v: i64| v as i32;
    let sf = |v: i64| v as f64 * 0.5;
    let mut k = 0usize;
    // (1) in scope: nulls only as a prefix and/or suffix, any values over {1,2,3} (sorted ascending, descending,
    //     constant and unsorted-but-adjacent all included), every length
    let max_in = if thorough { 9 } else { 7 };
    for len in 0..=max_in {
        for lead in 0..=len {
            for trail in 0..=(len - lead) {
                if lead == len && trail > 0 { continue }
                let body = len - lead - trail;
                all_values(body, 3, &mut |vs: &[i64]| {
                    let mut xs: Vec<Option<i64>> = vec![None; lead];
                    xs.extend(vs.iter().map(|v| Some(*v)));
                    xs.extend(std::iter::repeat(None).take(trail));
                    k += 1;
                    uniq_emit(em, &xs, &si, &sf, k, k % 4 != 0);
                });
            }
        }
    }
    // (2) nulls anywhere (outside the property's precondition; the model is still the code): every series
    //     over {null,1,2} with an inner null
    let max_any = if thorough { 8 } else { 6 };
    for len in 3..=max_any {
        all_values(len, 3, &mut |vs: &[i64]| {
            let xs: Vec<Option<i64>> = vs.iter().map(|v| if *v == 3 { None } else { Some(*v) }).collect();
            let lead = xs.iter().take_while(|x| x.is_none()).count();
            let trail = xs.iter().rev().take_while(|x| x.is_none()).count();
            if lead == len || !xs[lead..len - trail].iter().any(|x| x.is_none()) { return }
            k += 1;
            uniq_emit(em, &xs, &si, &sf, k, k % 4 != 0);
        });
    }
    // (3) long sorted series: runs of every length, null blocks, extremes; f64 with +-inf and -0.0 next to 0.0
    let mut rng = Rng::new(em.args.seed ^ 0x5EED14);
    let n = if thorough { 2000 } else { 600 };
    for _ in 0..n {
        let nruns = rng.below(9);
        let asc = rng.chance(1, 2);
        let mut codes: Vec<i64> = (0..nruns).map(|_| rng.range(-6, 6)).collect();
        codes.sort();
        if rng.chance(2, 3) { codes.dedup() }          // otherwise equal neighbouring runs merge: still adjacent
        if !asc { codes.reverse() }
        let mut xs: Vec<Option<i64>> = vec![None; if rng.chance(1, 2) { rng.below(4) } else { 0 }];
        for c in &codes {
            let cap = if rng.chance(1, 5) { 12 } else { 3 };
            for _ in 0..1 + rng.below(cap) { xs.push(Some(*c)) }
        }
        for _ in 0..(if rng.chance(1, 2) { rng.below(4) } else { 0 }) { xs.push(None) }
        // code -> value: the extremes of the type at the ends of the code range
        let si2 = |v: i64| match v { -6 => i32::MIN, -5 => i32::MIN + 1, 5 => i32::MAX - 1, 6 => i32::MAX, _ => v as i32 };
        let sf2 = |v: i64| match v { -6 => f64::NEG_INFINITY, -5 => f64::MIN, 5 => f64::MAX, 6 => f64::INFINITY, 0 => 0.0, _ => v as f64 / 4.0 };
        k += 1;
        uniq_emit(em, &xs, &si2, &sf2, k, false);
    }
    // -0.0 == 0.0 is one run for f64 (PartialEq), represented by its first element
    for vf in [vec![-0.0, 0.0, 0.0, 1.0], vec![0.0, -0.0, 1.0, 1.0], vec![f64::NAN, -0.0, 0.0, f64::NAN]] {
        let xs: Vec<Option<i64>> = vf.iter().map(|x: &f64| if x.is_nan() { None } else { Some(*x as i64) }).collect();
        em.case("exact", &uniq_tags("f64", "vec", &xs), &format!("fn=vsorted_unique_idx(First|Last)+vsorted_unique ty=f64 be=vec xs={:?}", vf),
            || format!("(run_uniq_f {})", coq_list(&vf, |x| coq_optf(*x))),
            || uniq_impl!(vf.clone(), |v: f64| Cell::F(v)));
    }
}

/// C14 audit: Option<i32> edge vectors holding a None at every position (the guard comes first: a wrong label count is
/// `Err` whatever the edges hold; otherwise `IsNone::unwrap` panics at call time), and f64 edge vectors holding a NaN
/// (unwrap is the identity: both neighbouring explicit tests are false; with add_bounds a value may then get no label)
fn cut_cases_null_edges(em: &mut Emitter) {
    let vals: Vec<Option<i32>> = vec![None, Some(-5), Some(0), Some(3), Some(4), Some(9), Some(i32::MIN), Some(i32::MAX), None];
    let vals_coq = coq_list(&vals, |x| coq_opt(x, |v| cz(*v)));
    let bases: [&[i32]; 4] = [&[], &[3], &[0, 4], &[-5, 0, 9]];
    for base in bases {
        // every way of inserting / substituting one None, plus the all-Some vector
        let mut variants: Vec<Vec<Option<i32>>> = vec![base.iter().map(|x| Some(*x)).collect()];
        for p in 0..=base.len() {
            let mut v: Vec<Option<i32>> = base.iter().map(|x| Some(*x)).collect();
            v.insert(p, None);
            variants.push(v);
        }
        for p in 0..base.len() {
            let mut v: Vec<Option<i32>> = base.iter().map(|x| Some(*x)).collect();
            v[p] = None;
            variants.push(v);
        }
        for edges in variants {
            let nnull = edges.iter().filter(|x| x.is_none()).count();
            let edges_coq = coq_list(&edges, |x| coq_opt(x, |v| cz(*v)));
            for nlab in 0..=5usize {
                for right in [true, false] {
                    for ab in [true, false] {
                        for nullable in [true, false] {
                            let labels_i: Vec<i32> = (0..nlab as i32).map(|j| 100 + j).collect();
                            let labels_o: Vec<Option<i32>> = labels_i.iter().map(|x| Some(*x)).collect();
                            let tags = format!(
                                "fn=vcut_call ty=opt_i32 lty={} nedges={} nulledges={} nlab={} right={} bounds={} count={}",
                                if nullable { "opt_i32" } else { "i32" }, edges.len(), nnull, nlab, right, ab,
                                count_tag(ab, edges.len(), nlab));
                            let desc = format!(
                                "fn=vcut ty=Option<i32> labels={}x{} right={} add_bounds={} edges={:?} (null edges) values={:?}",
                                if nullable { "Option<i32>" } else { "i32" }, nlab, right, ab, edges, vals);
                            let term = format!("(run_cut_call_z {} {} {} {} {} {})",
                                coq_bool(right), coq_bool(ab), coq_bool(nullable), edges_coq, coq_nat(nlab), vals_coq);
                            if nullable {
                                em.case("exact", &tags, &desc, || term.clone(),
                                    || cut_impl!(vals.clone(), edges.clone(), labels_o.clone(), right, ab, opt_i32_cell));
                            } else {
                                em.case("exact", &tags, &desc, || term.clone(),
                                    || cut_impl!(vals.clone(), edges.clone(), labels_i.clone(), right, ab, |l: i32| Cell::Int(l as i128)));
                            }
                        }
                    }
                }
            }
        }
    }
    // f64: a NaN among the edges
    let fvals: Vec<f64> = vec![f64::NAN, -1.0, 0.0, 0.5, 1.0, 2.0, f64::INFINITY, f64::NEG_INFINITY];
    let fvals_coq = coq_list(&fvals, |x| coq_optf(*x));
    let fedges: [&[f64]; 5] = [&[f64::NAN], &[f64::NAN, 1.0], &[0.0, f64::NAN], &[0.0, f64::NAN, 1.0], &[f64::NAN, f64::NAN]];
    for edges in fedges {
        let edges_coq = coq_list(edges, |x| coq_f64(*x));
        for nlab in 0..=4usize {
            for right in [true, false] {
                for ab in [true, false] {
                    let labels: Vec<f64> = (0..nlab).map(|j| 100.0 + j as f64).collect();
                    let tags = format!("fn=vcut_nan_edge ty=f64 lty=f64 nedges={} nlab={} right={} bounds={} count={}",
                        edges.len(), nlab, right, ab, count_tag(ab, edges.len(), nlab));
                    let desc = format!("fn=vcut ty=f64 labels=f64x{} right={} add_bounds={} edges={:?} (NaN edge) values={:?}",
                        nlab, right, ab, edges, fvals);
                    em.case("exact", &tags, &desc,
                        || format!("(run_cut_f {} {} true {} {} {})", coq_bool(right), coq_bool(ab), edges_coq, coq_nat(nlab), fvals_coq),
                        || cut_impl!(fvals.clone(), edges.to_vec(), labels.clone(), right, ab, |l: f64| Cell::F(l)));
                }
            }
        }
    }
}

fn main() {
    let mut em = Emitter::new();
    let thorough = em.thorough();
    cut_cases_i32(&mut em, "small", &[-4, -1, 0, 3, 7, 12], 6);
    cut_cases_i32(&mut em, "extreme", &[i32::MIN, i32::MIN + 1, -1, 0, i32::MAX - 1, i32::MAX], 6);
    cut_cases_wide(&mut em);
    cut_cases_f64(&mut em, "small", &[-2.5, -1.0, 0.0, 0.5, 3.0, 7.25], 6);
    cut_cases_f64(&mut em, "extreme", &[f64::NEG_INFINITY, f64::MIN, -1.0, 1.0, f64::MAX, f64::INFINITY], 6);
    if thorough {
        cut_cases_i32(&mut em, "dense", &[-2, -1, 0, 1, 2, 3], 6);
        cut_cases_f64(&mut em, "tiny", &[-5e-324, 0.0, 5e-324, 1.0, 1.0 + f64::EPSILON, 2.0], 6);
    }
    cut_cases_random(&mut em, if thorough { 5000 } else { 1500 });
    cut_cases_null_edges(&mut em);
    uniq_cases(&mut em);
    em.finish();
}
