//! C05: every rolling entry point returns one output per input (empty in, empty out, no panic) and its
//! null pattern is exactly the warm-up mask: compared with the models' null pattern on every backend,
//! for all lengths including 0 and len < w.
use std::collections::VecDeque;
use std::sync::Arc;

use tevec::export::ndarray::{Array1, ArrayView1, s};
use tevec::prelude::*;
use vh::rollreg::*;
use vh::{roll_call, roll_call_to, roll_call_v, Cell, Emitter, Rng, NULL_PATTERNS, null_mask, guarded, cells_optf64};

fn series(rng: &mut Rng, len: usize, small: bool) -> (Vec<f64>, &'static str) {
    let pat = *rng.pick(&NULL_PATTERNS);
    let m = null_mask(rng, pat, len);
    let style = rng.below(4);
    // one series in four is not dyadic (k/7, k/10): running sums then carry rounding residue, so a window that is
    // left with fewer observations than a statistic needs yields residue/0 = +-inf instead of 0/0 (seed C05-5)
    let den = *rng.pick(&[4.0, 4.0, 4.0, 7.0, 10.0]);
    let mut cur = rng.range(-8, 8);
    let c = rng.range(-4, 4);
    let xs = (0..len).map(|i| if m[i] { vh::nan_at(i) } else {
        (match style { 0 => rng.range(if small { -2 } else { -40 }, if small { 2 } else { 40 }), 1 => { cur += rng.range(0, 3); cur } 2 => c, _ => { cur += rng.range(-5, 5); cur } }) as f64 / den }).collect();
    (xs, pat)
}

fn cells(r: Result<Vec<f64>, u8>) -> Vec<Cell> {
    match r { Ok(v) => f64_cells(&v), Err(k) => vec![Cell::Panic(k)] }
}

fn cells3(r: Result<Vec<(f64, f64, f64)>, u8>) -> Vec<Cell> {
    match r { Ok(v) => { let f: Vec<f64> = v.iter().flat_map(|t| [t.0, t.1, t.2]).collect(); f64_cells(&f) }, Err(k) => vec![Cell::Panic(k)] }
}

fn main() {
    let mut em = Emitter::new();
    let mut rng = Rng::new(em.args.seed);
    let thorough = em.thorough();
    let nser = if thorough { 260 } else { 40 };
    for si in 0..nser {
        // lengths: 0, 1, 2 always; then small / medium
        let len = match si { 0 => 0, 1 => 1, 2 => 2, 3 => 3, _ => rng.range(1, if si % 3 == 0 { 20 } else { 8 }) as usize };
        let (xs, pat) = series(&mut rng, len, si % 2 == 0);
        let (ys, _) = series(&mut rng, len, si % 2 == 0);
        // windows: 1, around len, beyond len
        let mut ws: Vec<usize> = vec![1, 2, len.max(1), len + 1, len + 2];
        if len > 3 { ws.push(rng.range(2, len as i64 - 1) as usize); ws.push(3) }
        ws.sort(); ws.dedup();
        for &w in ws.iter() {
            let mut mps: Vec<Option<usize>> = vec![None, Some(0), Some(w)];
            if w > 1 { mps.push(Some(rng.range(1, w as i64 - 1).max(1) as usize)) }
            if rng.chance(1, 2) { mps.push(Some(1)) }
            mps.dedup();
            for mp in mps {
                let (pct, rev) = (rng.chance(1, 2), rng.chance(1, 2));
                let d = *rng.pick(&[0.3, 0.5, 1.0, 1.5]);
                let a = CallArgs { w, mp, pct, rev, d, xs: &xs, ys: &ys };
                let xo: Vec<Option<f64>> = xs.iter().map(|x| if x.is_nan() { None } else { Some(*x) }).collect();
                let yo: Vec<Option<f64>> = ys.iter().map(|x| if x.is_nan() { None } else { Some(*x) }).collect();
                for (fi, f) in RFNS.iter().enumerate() {
                    // each configuration exercises a rotating subset of the functions on the costly backends
                    let wrel = if w > len { "gt" } else if w == len { "eq" } else { "lt" };
                    let tags = |be: &str| format!("fn={} be={} len={} wrel={} mp={} nulls={}{}", f.name, be, len.min(12), wrel,
                        match mp { None => "omitted".to_string(), Some(0) => "0".into(), Some(m) if m == w => "w".into(), _ => "mid".into() }, pat,
                        if len == 0 { " nt=0" } else { "" });
                    let desc = |be: &str| format!("fn={} be={} w={} mp={:?} pct={} rev={} d={} xs={:?} ys={:?}", f.name, be, w, mp, pct, rev, d, xs, ys);
                    match f.kind {
                        Kind::One | Kind::Rank | Kind::Two => {
                            // Vec: index body on both paths
                            em.case("custom:mask", &tags("vec"), &desc("vec"), || model_term(f, true, "f", &a),
                                || cells(guarded(std::panic::AssertUnwindSafe(|| roll_call!(fi, xs, &ys, &a, Vec<f64>)))));
                            if (si + fi) % 2 == 0 {
                                em.case("custom:mask", &tags("vec_to"), &desc("vec_to"), || model_term(f, true, "f", &a),
                                    || cells(guarded(std::panic::AssertUnwindSafe(|| roll_call_to!(fi, xs, &ys, &a)))));
                            }
                            // VecDeque (rotated): iterator body when returned
                            if (si + fi) % 2 == 1 || len == 0 {
                                let dq: VecDeque<f64> = vh::wrapped_deque(&xs);
                                let dy: VecDeque<f64> = vh::wrapped_deque(&ys);
                                em.case("custom:mask", &tags("deque"), &desc("deque"), || model_term(f, false, "f", &a),
                                    || cells(guarded(std::panic::AssertUnwindSafe(|| roll_call!(fi, dq, &dy, &a, Vec<f64>)))));
                                em.case("custom:mask", &tags("deque_to"), &desc("deque_to"), || model_term(f, true, "f", &a),
                                    || cells(guarded(std::panic::AssertUnwindSafe(|| roll_call_to!(fi, dq, &dy, &a)))));
                            }
                            // ndarray reversed view (fast path) and Arc<VecDeque> (default path)
                            if (si + fi) % 3 == 0 || len == 0 {
                                let mut r = xs.clone(); r.reverse();
                                let arr = Array1::from_vec(r);
                                let v: ArrayView1<f64> = arr.slice(s![..;-1]);
                                em.case("custom:mask", &tags("nd_rev"), &desc("nd_rev"), || model_term(f, true, "f", &a),
                                    || cells(guarded(std::panic::AssertUnwindSafe(|| roll_call!(fi, v, &ys, &a, Vec<f64>)))));
                                let ad: Arc<VecDeque<f64>> = Arc::new(vh::wrapped_deque(&xs));
                                em.case("custom:mask", &tags("arcdeque"), &desc("arcdeque"), || model_term(f, false, "f", &a),
                                    || cells(guarded(std::panic::AssertUnwindSafe(|| roll_call!(fi, ad, &ys, &a, Vec<f64>)))));
                            }
                            // Option<f64> elements -> Option<f64> output (null-aware families only)
                            if f.fam != "featp" && ((si + fi) % 3 == 1 || len == 0) {
                                em.case("custom:mask", &tags("vec_opt"), &desc("vec_opt"), || model_term(f, true, "o", &a),
                                    || match guarded(std::panic::AssertUnwindSafe(|| roll_call_v!(fi, xo, &yo, &a, Vec<Option<f64>>))) {
                                        Ok(v) => cells_optf64(&v), Err(k) => vec![Cell::Panic(k)] });
                            }
                        }
                        Kind::Fdiff => {
                            em.case("custom:mask", &tags("vec"), &desc("vec"), || model_term(f, true, "f", &a),
                                || cells(guarded(std::panic::AssertUnwindSafe(|| { let r: Vec<f64> = xs.ts_fdiff(d, w); r }))));
                            let arr = Array1::from_vec(xs.clone());
                            em.case("custom:mask", &tags("nd_owned"), &desc("nd_owned"), || model_term(f, true, "f", &a),
                                || cells(guarded(std::panic::AssertUnwindSafe(|| { let r: Vec<f64> = arr.ts_fdiff(d, w); r }))));
                        }
                        Kind::VFdiff => {
                            em.case("custom:mask", &tags("vec"), &desc("vec"), || model_term(f, true, "f", &a),
                                || cells(guarded(std::panic::AssertUnwindSafe(|| { let r: Vec<f64> = xs.ts_vfdiff(d, w, mp); r }))));
                            em.case("custom:mask", &tags("vec_opt"), &desc("vec_opt"), || model_term(f, true, "o", &a),
                                || match guarded(std::panic::AssertUnwindSafe(|| { let r: Vec<Option<f64>> = xo.ts_vfdiff(d, w, mp); r })) {
                                    Ok(v) => cells_optf64(&v), Err(k) => vec![Cell::Panic(k)] });
                        }
                    }
                }
            }
        }
    }
    // ---- astronomically large windows ("all windows >= 1"): for every function whose result does not depend on the window
    // once it covers the whole series, w in {2^40, usize::MAX / 2, usize::MAX - 1, usize::MAX} with an explicit min_periods
    // must behave exactly like w = len + 1 (same mask, same length, no panic, no attempt to allocate `window` elements).
    // The model is evaluated at w = len + 1 (a unary nat of size 2^40 cannot be written in Coq).
    for si in 0..(if thorough { 24 } else { 8 }) {
        let len = match si { 0 => 0, 1 => 1, _ => rng.range(2, 9) as usize };
        let (xs, pat) = series(&mut rng, len, si % 2 == 0);
        let (ys, _) = series(&mut rng, len, si % 2 == 0);
        let mp = Some(rng.range(0, len as i64 + 1) as usize);
        for wh in [1usize << 40, usize::MAX / 2, usize::MAX - 1, usize::MAX] {
            let a_model = CallArgs { w: len + 1, mp, pct: false, rev: false, d: 0.5, xs: &xs, ys: &ys };
            let a = CallArgs { w: wh, mp, pct: false, rev: false, d: 0.5, xs: &xs, ys: &ys };
            for (fi, f) in RFNS.iter().enumerate() {
                // ewm / wma weights and the fractional-difference table depend on the window itself
                if !matches!(f.kind, Kind::One | Kind::Rank | Kind::Two) || f.name.contains("ewm") || f.name.contains("wma") { continue; }
                let tags = |be: &str| format!("fn={} be={} len={} wrel=huge mp=mid nulls={}{}", f.name, be, len.min(12), pat, if len == 0 { " nt=0" } else { "" });
                let desc = |be: &str| format!("fn={} be={} w={} (model at w=len+1) mp={:?} xs={:?} ys={:?}", f.name, be, wh, mp, xs, ys);
                em.case("custom:mask", &tags("vec"), &desc("vec"), || model_term(f, true, "f", &a_model),
                    || cells(guarded(std::panic::AssertUnwindSafe(|| roll_call!(fi, xs, &ys, &a, Vec<f64>)))));
                if (si + fi) % 2 == 0 {
                    let dq: VecDeque<f64> = vh::wrapped_deque(&xs);
                    let dy: VecDeque<f64> = vh::wrapped_deque(&ys);
                    em.case("custom:mask", &tags("deque"), &desc("deque"), || model_term(f, false, "f", &a_model),
                        || cells(guarded(std::panic::AssertUnwindSafe(|| roll_call!(fi, dq, &dy, &a, Vec<f64>)))));
                }
            }
        }
    }
    // ---- audit (notes/C05.md "Audit matrix"): the 38th entry point ts_vregx_all (returned only: it has no `_to` twin, so
    // the registry of 37 does not hold it) -> triples (alpha, beta, SSE), one mask cell per component; also with series of
    // UNEQUAL length (iterator body: the common prefix; index body: the length assertion) and huge windows.
    for si in 0..(if thorough { 60 } else { 14 }) {
        let len = match si { 0 => 0, 1 => 1, 2 => 2, _ => rng.range(3, 11) as usize };
        let (mut xs, pat) = series(&mut rng, len, si % 2 == 0);
        let len2 = match si % 4 { 0 | 1 => len, 2 => len.saturating_sub(1 + (si % 3)), _ => len + 1 + si % 2 };
        let (mut ys, _) = series(&mut rng, len2, si % 2 == 0);
        // two series in three are made (almost) null-free and the regressor strictly varying, so that the windows hold
        // pairwise-complete observations with spread and the triples are numbers (otherwise every output is null)
        if si % 3 != 0 {
            for (i, x) in xs.iter_mut().enumerate() { if x.is_nan() && i % 5 != 4 { *x = rng.range(-12, 12) as f64 / 4.0 } }
            for (i, y) in ys.iter_mut().enumerate() { if i % 7 != 6 { *y = (i as i64 * 3 + rng.range(0, 2)) as f64 / 4.0 } }
        }
        let lens = if len2 == len { "equal" } else if len2 < len { "second_shorter" } else { "second_longer" };
        let mut ws: Vec<usize> = vec![1, 2, 3, len.max(1), len + 1];
        ws.sort(); ws.dedup();
        for &w in ws.iter() {
            for mp in [None, Some(0), Some(1.min(w)), Some(w), Some(w + 2)] {
                let tags = |be: &str| format!("fn=ts_vregx_all be={} len={} lens={} wrel={} mp={} nulls={} style=audit{}", be, len.min(12), lens,
                    if w > len { "gt" } else if w == len { "eq" } else { "lt" },
                    match mp { None => "omitted".to_string(), Some(0) => "0".into(), Some(m) if m == w => "w".into(), Some(m) if m > w => "above".into(), _ => "mid".into() }, pat,
                    if len == 0 { " nt=0" } else { "" });
                let desc = |be: &str| format!("fn=ts_vregx_all be={} w={} mp={:?} xs={:?} ys={:?}", be, w, mp, xs, ys);
                let term = |body: bool, enc: &str| format!("(run_two_{}{} 4 {} {} {} {} {})", enc, enc, vh::coq_bool(body), vh::coq_nat(w),
                    vh::coq_opt(&mp, |m| vh::coq_nat(*m)), coq_series(&xs, enc), coq_series(&ys, enc));
                em.case("custom:mask", &tags("vec"), &desc("vec"), || term(true, "f"),
                    || cells3(guarded(std::panic::AssertUnwindSafe(|| { let r: Vec<(f64, f64, f64)> = xs.ts_vregx_all(&ys, w, mp); r }))));
                let dq: VecDeque<f64> = vh::wrapped_deque(&xs);
                let dy: VecDeque<f64> = vh::wrapped_deque(&ys);
                em.case("custom:mask", &tags("deque"), &desc("deque"), || term(false, "f"),
                    || cells3(guarded(std::panic::AssertUnwindSafe(|| { let r: Vec<(f64, f64, f64)> = dq.ts_vregx_all(&dy, w, mp); r }))));
                if si % 2 == 0 {
                    let xo: Vec<Option<f64>> = xs.iter().map(|x| if x.is_nan() { None } else { Some(*x) }).collect();
                    let yo: Vec<Option<f64>> = ys.iter().map(|x| if x.is_nan() { None } else { Some(*x) }).collect();
                    em.case("custom:mask", &tags("vec_opt"), &desc("vec_opt"), || term(true, "o"),
                        || match guarded(std::panic::AssertUnwindSafe(|| { let r: Vec<(Option<f64>, Option<f64>, Option<f64>)> = xo.ts_vregx_all(&yo, w, mp); r })) {
                            Ok(v) => { let f: Vec<Option<f64>> = v.iter().flat_map(|t| [t.0, t.1, t.2]).collect(); cells_optf64(&f) }
                            Err(k) => vec![Cell::Panic(k)] });
                }
            }
        }
        // huge windows, explicit min_periods: the code at w in {2^40, usize::MAX}, the model at w = len + 1 (C05_huge_window_two_series)
        if len2 >= len {
            let mp = Some(rng.range(0, len as i64 + 1) as usize);
            for wh in [1usize << 40, usize::MAX] {
                let tags = |be: &str| format!("fn=ts_vregx_all be={} len={} lens={} wrel=huge mp=mid nulls={} style=audit{}", be, len.min(12), lens, pat, if len == 0 { " nt=0" } else { "" });
                let desc = |be: &str| format!("fn=ts_vregx_all be={} w={} (model at w=len+1) mp={:?} xs={:?} ys={:?}", be, wh, mp, xs, ys);
                let term = |body: bool| format!("(run_two_ff 4 {} {} {} {} {})", vh::coq_bool(body), vh::coq_nat(len + 1),
                    vh::coq_opt(&mp, |m| vh::coq_nat(*m)), coq_series(&xs, "f"), coq_series(&ys, "f"));
                em.case("custom:mask", &tags("vec"), &desc("vec"), || term(true),
                    || cells3(guarded(std::panic::AssertUnwindSafe(|| { let r: Vec<(f64, f64, f64)> = xs.ts_vregx_all(&ys, wh, mp); r }))));
                let dq: VecDeque<f64> = vh::wrapped_deque(&xs);
                let dy: VecDeque<f64> = vh::wrapped_deque(&ys);
                em.case("custom:mask", &tags("deque"), &desc("deque"), || term(false),
                    || cells3(guarded(std::panic::AssertUnwindSafe(|| { let r: Vec<(f64, f64, f64)> = dq.ts_vregx_all(&dy, wh, mp); r }))));
            }
        }
    }
    em.finish();
}
