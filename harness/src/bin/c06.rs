//! C06: no look-ahead (prefix law, bit for bit) and no dependence on pre-window history.
//!  part=prefix : f(xs[..k]) must equal f(xs)[..k] bit for bit for every cut k, and agree with the model run
//!                on the prefix (all 37 rolling entry points + shift / vshift / vdiff / vpct_change, n >= 0);
//!  part=window : two different finite histories followed by the same tail give the same outputs on every
//!                position whose window lies inside the tail (exactly for min / max / arg / rank, within
//!                rounding for the arithmetic statistics).
use std::collections::VecDeque;

use tevec::prelude::*;
use vh::rollreg::*;
use vh::{roll_call, Cell, Emitter, Rng, NULL_PATTERNS, null_mask, guarded, coq_f64, coq_list, coq_opt, coq_z};

fn series(rng: &mut Rng, len: usize, nulls: bool) -> Vec<f64> {
    let pat = if nulls { *rng.pick(&NULL_PATTERNS) } else { "none" };
    let m = null_mask(rng, pat, len);
    let style = rng.below(4);
    let mut cur = rng.range(-8, 8);
    let c = rng.range(-4, 4);
    (0..len).map(|i| if m[i] { vh::nan_at(i) } else {
        (match style { 0 => rng.range(-40, 40), 1 => { cur += rng.range(0, 3); cur } 2 => c, _ => { cur += rng.range(-5, 5); cur } }) as f64 / 4.0 }).collect()
}

fn cells(r: Result<Vec<f64>, u8>) -> Vec<Cell> {
    match r { Ok(v) => f64_cells(&v), Err(k) => vec![Cell::Panic(k)] }
}
fn join(a: Vec<Cell>, b: Vec<Cell>) -> Vec<Cell> {
    let mut c = a; c.push(Cell::Sep); c.extend(b); c
}
fn take(c: Vec<Cell>, k: usize) -> Vec<Cell> {
    if has_panic(&c) { c } else { c.into_iter().take(k).collect() }
}

fn run_fn(fi: usize, be: u8, xs: &[f64], ys: &[f64], a0: &CallArgs) -> Vec<Cell> {
    use tevec::export::ndarray::{Array1, ArrayView1, s};
    let f = &RFNS[fi];
    let a = CallArgs { w: a0.w, mp: a0.mp, pct: a0.pct, rev: a0.rev, d: a0.d, xs, ys };
    let xv = xs.to_vec();
    let yv = ys.to_vec();
    match f.kind {
        Kind::Fdiff => cells(guarded(std::panic::AssertUnwindSafe(|| { let r: Vec<f64> = xv.ts_fdiff(a.d, a.w); r }))),
        Kind::VFdiff => cells(guarded(std::panic::AssertUnwindSafe(|| { let r: Vec<f64> = xv.ts_vfdiff(a.d, a.w, a.mp); r }))),
        _ => {
            if be == 1 {
                let dq: VecDeque<f64> = vh::wrapped_deque(&xv);
                let dy: VecDeque<f64> = vh::wrapped_deque(&yv);
                cells(guarded(std::panic::AssertUnwindSafe(|| roll_call!(fi, dq, &dy, &a, Vec<f64>))))
            } else if be == 2 {
                // a REVERSED contiguous ndarray view (stride -1) of the same logical series
                let rx = Array1::from_vec(xv.iter().rev().cloned().collect::<Vec<f64>>());
                let ry = Array1::from_vec(yv.iter().rev().cloned().collect::<Vec<f64>>());
                let vx: ArrayView1<f64> = rx.slice(s![..;-1]);
                let vy: ArrayView1<f64> = ry.slice(s![..;-1]);
                cells(guarded(std::panic::AssertUnwindSafe(|| roll_call!(fi, vx, &vy, &a, Vec<f64>))))
            } else if be == 3 {
                // every second cell of a longer ndarray (stride 2), poison in between
                let mut bx = vec![-99.5; if xv.is_empty() { 0 } else { 2 * xv.len() - 1 }];
                let mut by = vec![-99.5; if yv.is_empty() { 0 } else { 2 * yv.len() - 1 }];
                for (i, x) in xv.iter().enumerate() { bx[2 * i] = *x }
                for (i, y) in yv.iter().enumerate() { by[2 * i] = *y }
                let (ax, ay) = (Array1::from_vec(bx), Array1::from_vec(by));
                let vx: ArrayView1<f64> = ax.slice(s![..;2]);
                let vy: ArrayView1<f64> = ay.slice(s![..;2]);
                cells(guarded(std::panic::AssertUnwindSafe(|| roll_call!(fi, vx, &vy, &a, Vec<f64>))))
            } else {
                cells(guarded(std::panic::AssertUnwindSafe(|| roll_call!(fi, xv, &yv, &a, Vec<f64>))))
            }
        }
    }
}

fn main() {
    let mut em = Emitter::new();
    let mut rng = Rng::new(em.args.seed);
    let thorough = em.thorough();
    // ================= part=prefix ===============================================================
    let nser = if thorough { 90 } else { 40 };
    for si in 0..nser {
        let len = if si < 2 { si + 1 } else { rng.range(2, if thorough { 14 } else { 9 }) as usize };
        let xs = series(&mut rng, len, true);
        let ys = series(&mut rng, len, true);
        for _ in 0..2 {
            let w = rng.range(1, len as i64 + 2) as usize;
            let mp = Some(rng.range(0, w as i64) as usize);
            let (pct, rev) = (rng.chance(1, 2), rng.chance(1, 2));
            let d = *rng.pick(&[0.3, 0.5, 1.0, 1.5]);
            for (fi, f) in RFNS.iter().enumerate() {
                // backend rotates over Vec (index body), VecDeque (iterator body), reversed and strided ndarray views
                let be: u8 = if matches!(f.kind, Kind::Fdiff | Kind::VFdiff) { 0 } else { ((si + fi) % 4) as u8 };
                let deque = be == 1;
                let a = CallArgs { w, mp, pct, rev, d, xs: &xs, ys: &ys };
                let whole = run_fn(fi, be, &xs, &ys, &a);
                for k in 0..=len {
                    // omitted min_periods is also in scope when both the prefix and the whole series have len >= w
                    let mps: Vec<Option<usize>> = if k >= w && rng.chance(1, 2) { vec![mp, None] } else { vec![mp] };
                    for mpk in mps {
                        let ak = CallArgs { w, mp: mpk, pct, rev, d, xs: &xs[..k], ys: &ys[..k] };
                        let wholek = if mpk == mp { whole.clone() } else { run_fn(fi, be, &xs, &ys, &CallArgs { w, mp: mpk, pct, rev, d, xs: &xs, ys: &ys }) };
                        em.case("custom:prefixm", &format!("part=prefix fn={} be={} len={} cut={} mp={}{}", f.name, ["vec", "deque", "nd_rev", "nd_step2"][be as usize], len, if k == len { "all" } else if k == 0 { "0" } else { "mid" }, if mpk.is_none() { "omitted" } else { "explicit" }, if k == 0 { " nt=0" } else { "" }),
                            &format!("prefix fn={} be={} w={} mp={:?} pct={} rev={} d={} cut={} xs={:?} ys={:?}", f.name, ["vec", "deque", "nd_rev", "nd_step2"][be as usize], w, mpk, pct, rev, d, k, xs, ys),
                            || model_term(f, !deque, "f", &ak),
                            || join(run_fn(fi, be, &xs[..k], &ys[..k], &ak), take(wholek.clone(), k)));
                    }
                }
            }
        }
        // lagging maps with n >= 0
        for n in 0..=(len as i32 + 1) {
            let fill = if rng.chance(1, 2) { None } else { Some(rng.range(-3, 3) as f64 / 2.0) };
            let fillv = fill.unwrap_or(f64::NAN);
            let mapf = |name: &str, v: &[f64]| -> Vec<Cell> {
                let v = v.to_vec();
                match guarded(std::panic::AssertUnwindSafe(|| -> Vec<f64> { match name {
                    "shift" => v.titer().shift(n, fillv).collect::<Vec<f64>>(),
                    "vshift" => v.titer().vshift(n, fill).collect::<Vec<f64>>(),
                    "vdiff" => v.vdiff(n, fill).collect::<Vec<f64>>(),
                    _ => v.vpct_change(n).collect::<Vec<f64>>(),
                } })) { Ok(o) => f64_cells(&o), Err(k) => vec![Cell::Panic(k)] }
            };
            for name in ["shift", "vshift", "vdiff", "vpct_change"] {
                let whole = mapf(name, &xs);
                for k in 0..=len {
                    let pre = &xs[..k];
                    let pre_coq = coq_list(pre, |x| coq_f64(*x));
                    let term = match name {
                        "shift" => format!("(r_shift pF {} {} {})", coq_z(n as i128), coq_f64(fillv), pre_coq),
                        "vshift" => format!("(r_vshift pF {} {} {})", coq_z(n as i128), coq_opt(&fill, |v| coq_f64(*v)), pre_coq),
                        "vdiff" => format!("(r_vdiff pF {} {} {})", coq_z(n as i128), coq_opt(&fill, |v| coq_f64(*v)), pre_coq),
                        _ => format!("(r_vpct pF {} {})", coq_z(n as i128), pre_coq),
                    };
                    em.case("custom:prefixm:L", &format!("part=prefix fn={} len={} lag={} cut={}{}", name, len, if n as usize >= len { "ge_len" } else if n == 0 { "0" } else { "mid" }, if k == len { "all" } else if k == 0 { "0" } else { "mid" }, if k == 0 { " nt=0" } else { "" }),
                        &format!("prefix fn={} n={} fill={:?} cut={} xs={:?}", name, n, fill, k, xs),
                        || term, || join(mapf(name, pre), take(whole.clone(), k)));
                }
            }
        }
    }
    // ================= part=window ===============================================================
    let nwin = if thorough { 240 } else { 90 };
    for si in 0..nwin {
        let tl = rng.range(2, 10) as usize;
        let h = rng.range(1, 12) as usize;
        let tail = series(&mut rng, tl, true);
        let tail2 = series(&mut rng, tl, true);
        // finite histories of bounded magnitude, with and without nulls
        let ha = series(&mut rng, h, si % 2 == 0);
        let mut hb: Vec<f64> = series(&mut rng, h, si % 3 == 0).iter().map(|x| x * 8.0 + 3.0).collect();
        if si % 5 == 0 { hb = vec![f64::NAN; h] }
        let hy_a = series(&mut rng, h, true);
        let hy_b = series(&mut rng, h, true);
        let w = rng.range(1, tl as i64) as usize;
        let mp = Some(rng.range(0, w as i64) as usize);
        let (pct, rev) = (rng.chance(1, 2), rng.chance(1, 2));
        let d = *rng.pick(&[0.3, 0.5, 1.0, 1.5]);
        let xa: Vec<f64> = ha.iter().chain(tail.iter()).cloned().collect();
        let xb: Vec<f64> = hb.iter().chain(tail.iter()).cloned().collect();
        let ya: Vec<f64> = hy_a.iter().chain(tail2.iter()).cloned().collect();
        let yb: Vec<f64> = hy_b.iter().chain(tail2.iter()).cloned().collect();
        // first position whose window max(0,i-w+1)..=i lies inside the tail
        let first = h + w - 1;
        let scale = 4.0 * (h + tl) as f64 * max_abs(&hb, max_abs(&ha, 10.0));
        for (fi, f) in RFNS.iter().enumerate() {
            let be: u8 = if matches!(f.kind, Kind::Fdiff | Kind::VFdiff) { 0 } else { ((si + fi) % 4) as u8 };
            let a = CallArgs { w, mp, pct, rev, d, xs: &xa, ys: &ya };
            let cmp = if f.exact { "custom:window:exact".to_string() } else { format!("custom:window:1e-9,{}", scale) };
            // the plain family treats NaN as an ordinary (non-finite) value: its histories must be finite
            let plain = f.fam == "featp" || f.fam == "fdiff";
            let fin = |v: &Vec<f64>| -> Vec<f64> { v.iter().map(|x| if plain && x.is_nan() { 1.25 } else { *x }).collect() };
            let (xa, xb) = (fin(&xa), fin(&xb));
            em.case(&cmp, &format!("part=window fn={} be={} h={} w={} exact={}", f.name, ["vec", "deque", "nd_rev", "nd_step2"][be as usize], h.min(12), w.min(10), f.exact),
                &format!("window fn={} be={} w={} mp={:?} pct={} rev={} d={} historyA={:?} historyB={:?} tail={:?} | second series A={:?} B={:?} tail={:?}", f.name, ["vec", "deque", "nd_rev", "nd_step2"][be as usize], w, mp, pct, rev, d, ha, hb, tail, hy_a, hy_b, tail2),
                || "(@nil Z)".to_string(),
                || {
                    let oa = run_fn(fi, be, &xa, &ya, &a);
                    let ob = run_fn(fi, be, &xb, &yb, &CallArgs { w, mp, pct, rev, d, xs: &xb, ys: &yb });
                    let tail_of = |c: Vec<Cell>| -> Vec<Cell> {
                        if has_panic(&c) { c } else { c.into_iter().skip(first).collect() } };
                    join(tail_of(oa), tail_of(ob))
                });
        }
    }
    // ================= audit: the 38th entry point ts_vregx_all (returned only, triples) ============
    // part=prefix with series of EQUAL and UNEQUAL length (second longer: both bodies; second shorter: iterator body), every cut;
    // part=window: two histories, same tails (C06_prefix_two_series_entry / C06_window_only_two_series_entry)
    let all3 = |be: u8, xs: &[f64], ys: &[f64], w: usize, mp: Option<usize>| -> Vec<Cell> {
        let (xv, yv) = (xs.to_vec(), ys.to_vec());
        let r = if be == 1 {
            let dq: VecDeque<f64> = vh::wrapped_deque(&xv);
            let dy: VecDeque<f64> = vh::wrapped_deque(&yv);
            guarded(std::panic::AssertUnwindSafe(|| { let r: Vec<(f64, f64, f64)> = dq.ts_vregx_all(&dy, w, mp); r }))
        } else {
            guarded(std::panic::AssertUnwindSafe(|| { let r: Vec<(f64, f64, f64)> = xv.ts_vregx_all(&yv, w, mp); r }))
        };
        match r { Ok(v) => { let f: Vec<f64> = v.iter().flat_map(|t| [t.0, t.1, t.2]).collect(); f64_cells(&f) }, Err(k) => vec![Cell::Panic(k)] }
    };
    for si in 0..(if thorough { 60 } else { 16 }) {
        let len = rng.range(2, 10) as usize;
        let len2 = match si % 3 { 0 => len, 1 => len + 1 + si % 2, _ => len.saturating_sub(1) };
        // three series in four (almost) null-free with a strictly varying regressor: otherwise every triple is null
        let dense = |rng: &mut Rng, v: Vec<f64>, reg: bool, on: bool| -> Vec<f64> { if !on { return v; }
            v.iter().enumerate().map(|(i, x)| if reg { if i % 7 == 6 { *x } else { (i as i64 * 3 + rng.range(0, 2)) as f64 / 4.0 } }
                                              else if x.is_nan() && i % 5 != 4 { rng.range(-12, 12) as f64 / 4.0 } else { *x }).collect() };
        let xs = { let v = series(&mut rng, len, true); dense(&mut rng, v, false, si % 4 != 0) };
        let ys = { let v = series(&mut rng, len2, true); dense(&mut rng, v, true, si % 4 != 0) };
        let w = rng.range(1, len as i64 + 2) as usize;
        let mp = Some(rng.range(0, w as i64) as usize);
        for be in [0u8, 1u8] {
            if be == 0 && len2 < len { continue; }   // the index body rejects a shorter second series (C04 / C05 cover it)
            let whole = all3(be, &xs, &ys, w, mp);
            let n = len.min(len2);
            for k in 0..=n {
                let (px, py) = (&xs[..k], &ys[..k.min(len2)]);
                let term = format!("(run_two_ff 4 {} {} {} {} {})", vh::coq_bool(be == 0), vh::coq_nat(w), coq_opt(&mp, |m| vh::coq_nat(*m)),
                    coq_series(px, "f"), coq_series(py, "f"));
                em.case("custom:prefixm", &format!("part=prefix fn=ts_vregx_all be={} len={} lens={} cut={} mp=explicit style=audit{}", ["vec", "deque"][be as usize], len,
                        if len2 == len { "equal" } else if len2 < len { "second_shorter" } else { "second_longer" }, if k == n { "all" } else if k == 0 { "0" } else { "mid" }, if k == 0 { " nt=0" } else { "" }),
                    &format!("prefix fn=ts_vregx_all be={} w={} mp={:?} cut={} xs={:?} ys={:?}", ["vec", "deque"][be as usize], w, mp, k, xs, ys),
                    || term, || join(all3(be, px, py, w, mp), take(whole.clone(), 3 * k)));
            }
        }
        // window part: the same tails after two different histories
        let h = rng.range(1, 8) as usize;
        let (ha, hb) = (series(&mut rng, h, si % 2 == 0), series(&mut rng, h, true).iter().map(|x| x * 8.0 + 3.0).collect::<Vec<f64>>());
        let (hya, hyb) = (series(&mut rng, h, true), series(&mut rng, h, true));
        let tl = len.max(2);
        let (tx, ty) = ({ let v = series(&mut rng, tl, true); dense(&mut rng, v, false, si % 4 != 0) }, { let v = series(&mut rng, tl, true); dense(&mut rng, v, true, si % 4 != 0) });
        let ww = rng.range(1, tl as i64) as usize;
        let mpw = Some(rng.range(0, ww as i64) as usize);
        let cat = |a: &Vec<f64>, b: &Vec<f64>| -> Vec<f64> { a.iter().chain(b.iter()).cloned().collect() };
        let (xa, xb, ya, yb) = (cat(&ha, &tx), cat(&hb, &tx), cat(&hya, &ty), cat(&hyb, &ty));
        let first = h + ww - 1;
        let scale = 4.0 * (h + tl) as f64 * max_abs(&hb, max_abs(&ha, 10.0));
        let be = (si % 2) as u8;
        em.case(&format!("custom:window:1e-7,{}", scale * scale), &format!("part=window fn=ts_vregx_all be={} h={} w={} exact=false style=audit", ["vec", "deque"][be as usize], h.min(12), ww.min(10)),
            &format!("window fn=ts_vregx_all be={} w={} mp={:?} historyA={:?} historyB={:?} tail={:?} | second series A={:?} B={:?} tail={:?}", ["vec", "deque"][be as usize], ww, mpw, ha, hb, tx, hya, hyb, ty),
            || "(@nil Z)".to_string(),
            || {
                let tail_of = |c: Vec<Cell>| -> Vec<Cell> { if has_panic(&c) { c } else { c.into_iter().skip(3 * first).collect() } };
                join(tail_of(all3(be, &xa, &ya, ww, mpw)), tail_of(all3(be, &xb, &yb, ww, mpw)))
            });
    }
    em.finish();
}
