//! C12: vquantile / vmedian / vpercentile_of / vrank / vpartition / varg_partition vs the model.
//! Series: exhaustive over a small alphabet with nulls in every position + structured random;
//! parameters: q grid (incl. j/(n-1) +- eps), k 0..=len+1, all flags, all methods;
//! element types f64, Option<f64>, i32, Option<i32>; sources Vec, VecDeque, ndarray (owned, strided).
use std::collections::VecDeque;
use std::panic::AssertUnwindSafe;

use tevec::agg::{PercentileOfMethod, QuantileMethod};
use tevec::export::ndarray::{Array1, ArrayView1, s};
use tevec::prelude::{AggValidExt, Cast, IsNone, MapValidVec, Number, Vec1View, VecAggValidExt};
use vh::*;

// ---- element types ---------------------------------------------------------------------------
trait Elem: Clone {
    fn cell(&self) -> Cell;
    fn null(&self) -> bool;
    fn score(sc: Option<f64>) -> Self;
}
fn score_like<T: Elem>(_: &[T], sc: Option<f64>) -> T { T::score(sc) }
impl Elem for f64 {
    fn cell(&self) -> Cell { Cell::F(*self) }
    fn null(&self) -> bool { self.is_nan() }
    fn score(sc: Option<f64>) -> Self { sc.unwrap_or(f64::NAN) }
}
impl Elem for Option<f64> {
    fn cell(&self) -> Cell { match self { Some(x) if x.is_nan() => Cell::Err, Some(x) => Cell::F(*x), None => Cell::Null } }   // Some(NaN) is not a null (DESIGN 5.4)
    fn null(&self) -> bool { self.is_none() }
    fn score(sc: Option<f64>) -> Self { sc }
}
impl Elem for i32 {
    fn cell(&self) -> Cell { Cell::Int(*self as i128) }
    fn null(&self) -> bool { false }
    fn score(sc: Option<f64>) -> Self { sc.unwrap() as i32 }
}
impl Elem for Option<i32> {
    fn cell(&self) -> Cell { match self { Some(x) => Cell::Int(*x as i128), None => Cell::Null } }
    fn null(&self) -> bool { self.is_none() }
    fn score(sc: Option<f64>) -> Self { sc.map(|x| x as i32) }
}

fn entry<T: Elem>(v: &T, out: &mut Vec<Cell>) {
    if v.null() {
        out.push(Cell::Int(1));
        out.push(Cell::Null)
    } else {
        out.push(Cell::Int(0));
        out.push(v.cell())
    }
}

fn pk<R>(r: Result<R, u8>, f: impl FnOnce(R) -> Vec<Cell>) -> Vec<Cell> {
    match r {
        Ok(v) => f(v),
        Err(k) => vec![Cell::Panic(k)],
    }
}

// ---- the six entry points, generic over the view ------------------------------------------------
fn quant<T, V>(v: &V, q: f64, m: usize) -> Vec<Cell>
where V: Vec1View<T>, T: IsNone + Cast<f64>, T::Inner: Number {
    let m = [QuantileMethod::Linear, QuantileMethod::Lower, QuantileMethod::Higher, QuantileMethod::MidPoint][m];
    pk(guarded(AssertUnwindSafe(|| v.vquantile(q, m))), |r| match r {
        Ok(x) => vec![Cell::F(x)],
        Err(_) => vec![Cell::Err],
    })
}
fn median<T, V>(v: &V) -> Vec<Cell>
where V: Vec1View<T>, T: IsNone + Cast<f64>, T::Inner: Number {
    pk(guarded(AssertUnwindSafe(|| v.vmedian())), |x| vec![Cell::F(x)])
}
fn pctof<T, V>(v: &V, score: T, m: usize) -> Vec<Cell>
where V: Vec1View<T>, T: IsNone, T::Inner: Number + PartialOrd {
    let m = [PercentileOfMethod::Rank, PercentileOfMethod::Weak, PercentileOfMethod::Strict][m];
    pk(guarded(AssertUnwindSafe(|| v.titer().vpercentile_of(score, m))), |x| vec![Cell::F(x)])
}
fn rank<T, V>(v: &V, pct: bool, rev: bool, optout: bool) -> Vec<Cell>
where V: Vec1View<T>, T: IsNone + PartialEq, T::Inner: PartialOrd {
    if optout {
        pk(guarded(AssertUnwindSafe(|| { let r: Vec<Option<f64>> = v.vrank(pct, rev); r })), |r| cells_optf64(&r))
    } else {
        pk(guarded(AssertUnwindSafe(|| { let r: Vec<f64> = v.vrank(pct, rev); r })), |r| cells_f64(&r))
    }
}
fn part<T, V>(v: &V, k: usize, sort: bool, rev: bool) -> Vec<Cell>
where V: Vec1View<T>, T: IsNone + Elem, T::Inner: PartialOrd {
    pk(guarded(AssertUnwindSafe(|| {
        let it = v.vpartition(k, sort, rev);
        let hint = Iterator::size_hint(&it).0;
        let r: Vec<T> = Iterator::collect(it);
        (hint, r)
    })), |(hint, r)| {
        let mut out = vec![Cell::Int(hint as i128)];
        for x in r.iter() { entry(x, &mut out) }
        out
    })
}
fn argpart<T, V>(v: &V, xs: &[T], k: usize, sort: bool, rev: bool) -> Vec<Cell>
where V: Vec1View<T>, T: IsNone + Elem, T::Inner: Number {
    pk(guarded(AssertUnwindSafe(|| {
        let it = v.varg_partition(k, sort, rev);
        let hint = Iterator::size_hint(&it).0;
        let r: Vec<i32> = Iterator::collect(it);
        (hint, r)
    })), |(hint, r)| {
        let real: Vec<i32> = r.iter().cloned().filter(|z| *z != -1).collect();
        let mut ok = true;
        for (a, z) in real.iter().enumerate() {
            if *z < 0 || *z as usize >= xs.len() || xs[*z as usize].null() { ok = false }
            if real[..a].contains(z) { ok = false }
        }
        let mut out = vec![Cell::Int(hint as i128), Cell::Int(ok as i128)];
        for z in r.iter() {
            if *z == -1 {
                out.push(Cell::Int(1));
                out.push(Cell::Null)
            } else {
                out.push(Cell::Int(0));
                out.push(if *z >= 0 && (*z as usize) < xs.len() { xs[*z as usize].cell() } else { Cell::Err })
            }
        }
        out
    })
}

// ---- series -------------------------------------------------------------------------------------
#[derive(Clone)]
struct Series {
    xs: Vec<Option<f64>>,
    tags: String,
}
impl Series {
    // nulls of a float series are NaNs of BOTH signs (x86 produces the sign-bit-set NaN for 0.0 / 0.0): every other null
    // carries the sign bit, so a comparison that is null-last only for the positive NaN (e.g. total_cmp) is visible
    fn f(&self) -> Vec<f64> { self.xs.iter().enumerate().map(|(i, x)| x.unwrap_or(if i % 2 == 0 { f64::NAN } else { -f64::NAN })).collect() }
    fn o(&self) -> Vec<Option<f64>> { self.xs.clone() }
    fn integral(&self) -> bool { self.xs.iter().all(|x| x.map_or(true, |v| v.fract() == 0.0)) }
    fn nonull(&self) -> bool { self.xs.iter().all(|x| x.is_some()) }
    fn i(&self) -> Vec<i32> { self.xs.iter().map(|x| x.unwrap() as i32).collect() }
    fn oi(&self) -> Vec<Option<i32>> { self.xs.iter().map(|x| x.map(|v| v as i32)).collect() }
    fn nvalid(&self) -> usize { self.xs.iter().filter(|x| x.is_some()).count() }
}

fn rot_deque<T: Clone + Default>(xs: &[T], rot: usize) -> VecDeque<T> {
    let mut d: VecDeque<T> = VecDeque::with_capacity(xs.len().max(1));
    for _ in 0..rot { d.push_back(T::default()) }
    for _ in 0..rot { d.pop_front(); }
    for x in xs { d.push_back(x.clone()) }
    d
}

#[derive(Clone, Copy, PartialEq, Debug)]
enum Ty { F, O, I, OI }
#[derive(Clone, Copy, PartialEq, Debug)]
enum Be { Vec, Deque, Nd, NdStep }

impl Ty {
    fn name(self) -> &'static str { match self { Ty::F => "f64", Ty::O => "optf64", Ty::I => "i32", Ty::OI => "opti32" } }
    /// suffix of the Coq interpreter: f = NaN-null floats, o = options, n = never null
    fn sfx(self) -> &'static str { match self { Ty::F => "f", Ty::O | Ty::OI => "o", Ty::I => "n" } }
}
impl Be {
    fn name(self) -> &'static str { match self { Be::Vec => "vec", Be::Deque => "deque", Be::Nd => "nd_rev", Be::NdStep => "nd_step2" } }
}

/// run `$body` with `$v` bound to a view of the series in element type `$ty` on backend `$be`, and
/// `$raw` bound to the plain Vec of the same elements
macro_rules! on_view {
    ($ty:expr, $be:expr, $s:expr, $v:ident, $raw:ident => $body:expr) => {
        match ($ty, $be) {
            (Ty::F, Be::Vec) => { let $raw = $s.f(); let $v = $raw.clone(); $body }
            (Ty::F, Be::Deque) => { let $raw = $s.f(); let $v = rot_deque(&$raw, 2); $body }
            (Ty::F, Be::Nd) => {
                // a REVERSED contiguous ndarray view (stride -1): contiguous in memory, but in the opposite order
                let $raw = $s.f();
                let rev = Array1::from_vec($raw.iter().rev().cloned().collect::<Vec<f64>>());
                let $v: ArrayView1<f64> = rev.slice(s![..;-1]);
                $body
            }
            (Ty::F, Be::NdStep) => {
                let $raw = $s.f();
                let mut big = vec![-7.0; 2 * $raw.len()];
                for i in 0..$raw.len() { big[2 * i] = $raw[i] }
                let a = Array1::from_vec(big);
                let $v: ArrayView1<f64> = a.slice(s![..;2]);
                $body
            }
            (Ty::O, Be::Vec) => { let $raw = $s.o(); let $v = $raw.clone(); $body }
            (Ty::O, Be::Deque) => { let $raw = $s.o(); let $v = rot_deque(&$raw, 1); $body }
            (Ty::I, Be::Vec) => { let $raw = $s.i(); let $v = $raw.clone(); $body }
            (Ty::I, Be::Deque) => { let $raw = $s.i(); let $v = rot_deque(&$raw, 3); $body }
            (Ty::OI, Be::Vec) => { let $raw = $s.oi(); let $v = $raw.clone(); $body }
            _ => unreachable!(),
        }
    };
}

fn coq_series(s: &Series, ty: Ty) -> String {
    match ty {
        Ty::F | Ty::I => coq_list(&s.f(), |x| coq_f64(*x)),
        Ty::O | Ty::OI => coq_list(&s.xs, |x| coq_opt(x, |v| coq_f64(*v))),
    }
}

fn step(x: f64, up: bool) -> f64 {
    let b = x.to_bits();
    if x == 0.0 { return if up { f64::from_bits(1) } else { -0.0 } }
    f64::from_bits(if up { b + 1 } else { b - 1 })
}

/// (q, class tag)
fn qgrid(n: usize, full: bool, rng: &mut Rng) -> Vec<(f64, &'static str)> {
    let mut g: Vec<(f64, &'static str)> = vec![
        (0.0, "0"), (0.1, "grid"), (0.25, "grid"), (1.0 / 3.0, "grid"), (0.5, "half"), (2.0 / 3.0, "grid"),
        (0.75, "grid"), (0.9, "grid"), (1.0, "1"),
    ];
    if n >= 2 {
        for j in 0..n {
            let q0 = j as f64 / (n - 1) as f64;
            g.push((q0, "node"));
            for (q, t) in [(step(q0, true), "node+ulp"), (step(q0, false), "node-ulp"), (q0 + 1e-10, "node+eps"), (q0 - 1e-10, "node-eps")] {
                if (0.0..=1.0).contains(&q) { g.push((q, t)) }
            }
        }
    }
    g.push((step(0.5, true), "half+ulp"));
    g.push((rng.range(1, 999) as f64 / 1000.0, "random"));
    if !full {
        // sample: the three anchors + 5 others
        let mut h = vec![g[0], g[4], g[8]];
        for _ in 0..5 { h.push(*rng.pick(&g)) }
        g = h;
    }
    g
}

fn gen_series(rng: &mut Rng, len: usize) -> Series {
    let style = rng.below(5);
    let pat = *rng.pick(&NULL_PATTERNS);
    let mask = null_mask(rng, pat, len);
    let integral = rng.chance(1, 2);
    let mut xs = Vec::with_capacity(len);
    let mut cur = rng.range(-40, 40);
    let c = rng.range(-8, 8);
    for i in 0..len {
        let k = match style {
            0 => rng.range(-400, 400),
            1 => *rng.pick(&[-4i64, 2, 8]),          // small alphabet, many ties
            2 => { cur += rng.range(0, 3); cur }      // monotone with ties
            3 => c,                                   // constant
            _ => { cur += rng.range(-20, 20); cur }   // random walk
        };
        let v = if integral { k as f64 } else { k as f64 / 4.0 };
        xs.push(if mask[i] { None } else { Some(v) });
    }
    let styles = ["uniform", "alphabet", "monotone", "constant", "walk"];
    Series { xs, tags: format!("style={} nulls={}", styles[style], pat) }
}

fn main() {
    let mut em = Emitter::new();
    let mut rng = Rng::new(em.args.seed);
    let thorough = em.thorough();

    // ---- series ----------------------------------------------------------------------------
    // (series, full): full = every parameter combination, otherwise sampled
    let mut series: Vec<(Series, bool)> = vec![];
    let alphabet = [Some(-1.0), Some(2.0), Some(3.0), None];
    let full_len = if thorough { 4 } else { 3 };
    let exh_len = if thorough { 6 } else { 5 };
    for len in 0..=exh_len {
        let total = alphabet.len().pow(len as u32);
        for code in 0..total {
            let mut c = code;
            let mut xs = vec![];
            for _ in 0..len { xs.push(alphabet[c % 4]); c /= 4; }
            // beyond the fully swept lengths keep every series with <= 2 valid elements (the
            // "only valid element not first" family) and a sample of the others
            let nv = xs.iter().filter(|x| x.is_some()).count();
            if len > full_len && nv > 2 && !rng.chance(if thorough { 1 } else { 1 }, if len == full_len + 1 { 4 } else { 16 }) { continue }
            series.push((Series { xs, tags: "style=exhaustive nulls=enum".into() }, len <= full_len));
        }
    }
    let nrand = if thorough { 1500 } else { 150 };
    for i in 0..nrand {
        let len = if i % 3 == 0 { rng.range(4, 7) } else { rng.range(5, if thorough { 24 } else { 12 }) } as usize;
        series.push((gen_series(&mut rng, len), false));
    }

    for (s, full) in series.iter() {
        let full = *full;
        let len = s.xs.len();
        let n = s.nvalid();
        let nt = if len == 0 { " nt=0" } else { "" };
        let mut tys = vec![Ty::F, Ty::O];
        if s.integral() { tys.push(Ty::OI) }
        if s.integral() && s.nonull() { tys.push(Ty::I) }
        let bes = |ty: Ty| -> Vec<Be> { match ty { Ty::F => vec![Be::Vec, Be::Deque, Be::Nd, Be::NdStep], Ty::O => vec![Be::Vec, Be::Deque], Ty::I => vec![Be::Vec, Be::Deque], Ty::OI => vec![Be::Vec] } };
        // the (type, backend) configurations of a parameter point: the primary one always, the others
        // rotating (all of them over the run; every one shares the model term of its element type)
        let mut combos: Vec<(Ty, Be)> = vec![];
        for ty in tys.iter() { for be in bes(*ty) { combos.push((*ty, be)) } }
        let base_tags = |f: &str, ty: Ty, be: Be| format!("fn={} ty={} be={} len={} nvalid={} firstnull={} {}{}",
            f, ty.name(), be.name(), len.min(13), n.min(8), (len > 0 && s.xs[0].is_none()) as u8, s.tags, nt);
        let pick_combos = |rng: &mut Rng, extra: usize| -> Vec<(Ty, Be)> {
            let mut v = vec![(Ty::F, Be::Vec)];
            for _ in 0..extra { v.push(*rng.pick(&combos)) }
            v.dedup();
            v
        };

        // ---- vquantile / vmedian -------------------------------------------------------------
        for (q, qtag) in qgrid(n, full, &mut rng) {
            for m in 0..4usize {
                if !full && !rng.chance(1, 2) { continue }
                for (ty, be) in pick_combos(&mut rng, 1) {
                    let tags = format!("{} q={} method={} branch={}", base_tags("vquantile", ty, be), qtag,
                        ["linear", "lower", "higher", "midpoint"][m],
                        if n == 0 { "n0" } else if n == 1 { "n1" } else if q <= 0.5 { "asc" } else { "desc" });
                    let desc = format!("fn=vquantile ty={} be={} q={:?} method={} xs={:?}", ty.name(), be.name(), q, m, s.xs);
                    em.case("custom:quant", &tags, &desc,
                        || format!("(run_quantx_{} {} {} {})", ty.sfx(), coq_f64(q), m, coq_series(s, ty)),
                        || on_view!(ty, be, s, v, _raw => quant(&v, q, m)));
                }
            }
        }
        for q in [-0.1, 1.0 + 1e-9, f64::NAN] {
            if !full && !rng.chance(1, 8) { continue }
            em.case("exact", &format!("{} q=invalid", base_tags("vquantile", Ty::F, Be::Vec)),
                &format!("fn=vquantile ty=f64 be=vec q={:?} method=0 xs={:?}", q, s.xs),
                || format!("(run_quant_f {} 0 {})", coq_f64(q), coq_series(s, Ty::F)),
                || quant(&s.f(), q, 0));
        }
        for (ty, be) in pick_combos(&mut rng, 1) {
            em.case("float:1e-9", &base_tags("vmedian", ty, be), &format!("fn=vmedian ty={} be={} xs={:?}", ty.name(), be.name(), s.xs),
                || format!("(run_median_{} {})", ty.sfx(), coq_series(s, ty)),
                || on_view!(ty, be, s, v, _raw => median(&v)));
        }

        // ---- vpercentile_of ------------------------------------------------------------------
        let mut scores: Vec<Option<f64>> = vec![None, Some(-1.0), Some(2.0), Some(3.0), Some(0.0), Some(100.0), Some(-100.0)];
        if !full {
            scores = vec![None, Some(rng.range(-100, 100) as f64)];
            for _ in 0..2 { if len > 0 { scores.push(s.xs[rng.below(len)]) } }
        }
        for sc in scores {
            for m in 0..3usize {
                for (ty, be) in pick_combos(&mut rng, 1) {
                    if sc.is_none() && ty == Ty::I { continue }
                    if let Some(v) = sc { if v.fract() != 0.0 && (ty == Ty::I || ty == Ty::OI) { continue } }
                    let tags = format!("{} method={} score={}", base_tags("vpercentile_of", ty, be), ["rank", "weak", "strict"][m],
                        match sc { None => "null", Some(v) if s.xs.contains(&Some(v)) => "member", _ => "other" });
                    let desc = format!("fn=vpercentile_of ty={} be={} score={:?} method={} xs={:?}", ty.name(), be.name(), sc, m, s.xs);
                    let sc_coq = match ty { Ty::F | Ty::I => coq_f64(sc.unwrap_or(f64::NAN)), _ => coq_opt(&sc, |v| coq_f64(*v)) };
                    em.case("float:1e-12", &tags, &desc,
                        || format!("(run_pctof_{} {} {} {})", ty.sfx(), sc_coq, m, coq_series(s, ty)),
                        || on_view!(ty, be, s, v, raw => pctof(&v, score_like(&raw, sc), m)));
                }
            }
        }

        // ---- f32 elements (seed C12-6: a descending comparator specialised for f32 alone put its nulls first): the same series as
        // Vec<f32> (values that survive the narrowing exactly), quantiles on both sides of 0.5, descending rank - against the f64 model
        {
            let xf = s.f();
            if xf.iter().all(|x| x.is_nan() || ((*x as f32) as f64) == *x) && (full || rng.chance(1, 2)) {
                let x32: Vec<f32> = xf.iter().map(|x| *x as f32).collect();
                for (q, qtag) in [(0.25, "q1"), (0.75, "q3"), (1.0, "one")] {
                    for m in [0usize, 2] {
                        let tags = format!("fn=vquantile ty=f32 be=vec len={} nvalid={} firstnull={} {}{} q={} method={} branch={}", len.min(13), n.min(8),
                            (len > 0 && s.xs[0].is_none()) as u8, s.tags, nt, qtag, ["linear", "lower", "higher", "midpoint"][m], if q <= 0.5 { "asc" } else { "desc" });
                        em.case("custom:quant", &tags, &format!("fn=vquantile ty=f32 be=vec q={:?} method={} xs={:?}", q, m, x32),
                            || format!("(run_quantx_f {} {} {})", coq_f64(q), m, coq_series(s, Ty::F)),
                            || quant(&x32, q, m));
                    }
                }
                for (pct, rev) in [(false, true), (true, true), (false, false)] {
                    let tags = format!("fn=vrank ty=f32 be=vec len={} nvalid={} firstnull={} {}{} pct={} rev={} out=f64", len.min(13), n.min(8),
                        (len > 0 && s.xs[0].is_none()) as u8, s.tags, nt, pct, rev);
                    em.case("float:1e-12", &tags, &format!("fn=vrank ty=f32 be=vec pct={} rev={} out=f64 xs={:?}", pct, rev, x32),
                        || format!("(run_rank_f {} {} {})", coq_bool(pct), coq_bool(rev), coq_series(s, Ty::F)),
                        || rank(&x32, pct, rev, false));
                }
            }
        }

        // ---- vrank -----------------------------------------------------------------------------
        for pct in [false, true] {
            for rev in [false, true] {
                for (ty, be) in pick_combos(&mut rng, if full { 2 } else { 1 }) {
                    let optout = rng.chance(1, 2);
                    let tags = format!("{} pct={} rev={} out={}", base_tags("vrank", ty, be), pct, rev, if optout { "optf64" } else { "f64" });
                    let desc = format!("fn=vrank ty={} be={} pct={} rev={} out={} xs={:?}", ty.name(), be.name(), pct, rev, if optout { "optf64" } else { "f64" }, s.xs);
                    em.case("float:1e-12", &tags, &desc,
                        || format!("(run_rank_{} {} {} {})", ty.sfx(), coq_bool(pct), coq_bool(rev), coq_series(s, ty)),
                        || on_view!(ty, be, s, v, _raw => rank(&v, pct, rev, optout)));
                }
            }
        }

        // ---- vpartition / varg_partition ---------------------------------------------------------
        let ks: Vec<usize> = if full { (0..=len + 1).collect() } else {
            let mut v = vec![rng.below(len + 2), rng.below(len + 2)];
            if n > 0 { v.push(n - 1); v.push(n) }
            v.sort(); v.dedup(); v };
        for k in ks {
            for sort in [false, true] {
                for rev in [false, true] {
                    if !full && !rng.chance(2, 3) { continue }
                    let path = if n <= k + 1 { if n == k + 1 { "n=k+1" } else { "n<k+1" } } else { "select" };
                    for (ty, be) in pick_combos(&mut rng, 1) {
                        let cmp = if sort { "custom:seq" } else { "custom:mset" };
                        let tags = format!("{} k={} sort={} rev={} path={}", base_tags("vpartition", ty, be), k.min(9), sort, rev, path);
                        let desc = format!("fn=vpartition ty={} be={} k={} sort={} rev={} xs={:?}", ty.name(), be.name(), k, sort, rev, s.xs);
                        em.case(cmp, &tags, &desc,
                            || format!("(run_part_{} {} {} {} {})", ty.sfx(), coq_nat(k), coq_bool(sort), coq_bool(rev), coq_series(s, ty)),
                            || on_view!(ty, be, s, v, _raw => part(&v, k, sort, rev)));
                    }
                    for (ty, be) in pick_combos(&mut rng, 1) {
                        let cmp = if sort { "custom:seq" } else { "custom:mset" };
                        let tags = format!("{} k={} sort={} rev={} path={}", base_tags("varg_partition", ty, be), k.min(9), sort, rev, path);
                        let desc = format!("fn=varg_partition ty={} be={} k={} sort={} rev={} xs={:?}", ty.name(), be.name(), k, sort, rev, s.xs);
                        em.case(cmp, &tags, &desc,
                            || format!("(run_argpart_{} {} {} {} {})", ty.sfx(), coq_nat(k), coq_bool(sort), coq_bool(rev), coq_series(s, ty)),
                            || on_view!(ty, be, s, v, raw => argpart(&v, &raw, k, sort, rev)));
                    }
                }
            }
        }
    }
    // ---- audit: the binary64 interpolation can leave [s[floor], s[ceil]] (Props/C12.v:
    // C12_quantile_binary64_linear_above_higher): 50 valid elements, q = fl(1/49), fl(49 q) = 0.9999999999999999,
    // fraction = 1, fl(vj - vi) rounded up.  Compared bit for bit with the binary64 model.
    {
        let mut xs: Vec<f64> = vec![-1.0, f64::from_bits(0x3CA0_0000_0000_0001)];
        xs.extend(std::iter::repeat(1.0).take(48));
        let q = 1.0f64 / 49.0;
        let term_xs = coq_list(&xs, |x| coq_f64(*x));
        for m in [0usize, 1, 2] {
            em.case("exact", &format!("fn=vquantile ty=f64 be=vec len=13 nvalid=8 firstnull=0 family=overshoot q=frac1 method={} branch=asc", ["linear", "lower", "higher"][m]),
                &format!("fn=vquantile ty=f64 be=vec q={:?} method={} xs=[-1, 2^-53+2^-105, 1 x 48]", q, m),
                || format!("(run_quant_f {} {} {})", coq_f64(q), m, term_xs),
                || quant(&xs, q, m));
        }
    }
    em.finish();
}
