//! C15: null (IsNone) dictionary, Cast lattice and sort comparators of tea-dtype over a finite universe of
//! element types.  Every pair (source, target) of the universe is probed at compile time for
//! `impl Cast<target> for source` (autoref specialisation) and, when implemented, run on the whole value list
//! of the source type through the real `Cast::cast`; every type is run through every IsNone method; every
//! pair / triple of an order value list through `sort_cmp` / `sort_cmp_rev`.  Exhaustive over the lists.
use std::marker::PhantomData;
use std::panic::AssertUnwindSafe;

use tevec::prelude::{BoolType, Cast, DateTime, IntoCast, IsNone, Number, Time, TimeDelta, unit};
use vh::*;

type DtNs = DateTime<unit::Nanosecond>;
type DtMs = DateTime<unit::Millisecond>;

// ---------------------------------------------------------------------------------------------------
// the universe: Rust type <-> model type code, value lists, renderers

#[derive(Clone, Copy, PartialEq)]
enum Kind {
    Float,
    Int,
    Bool,
    Str,
    Dt,
    Td,
    Tm,
}

trait V: Clone + IsNone + 'static {
    const CODE: &'static str; // Gallina term of type `ty`
    const NAME: &'static str;
    const KIND: Kind;
    const OPT: bool;
    fn values(th: bool, rng: &mut Rng) -> Vec<Self>;
    /// non-canonical nulls (`Some(NaN)`, `Some(NaT)`: DESIGN 5.4 keeps them out of the properties, but the comparator closures that
    /// handle them are code the model mirrors - a mutation campaign found them exercised by nothing); used by the order cases only
    fn noncanonical(_th: bool, _rng: &mut Rng) -> Vec<Self> { vec![] }
    fn coq(&self) -> String; // Gallina literal of type `val CODE`
    fn cells(&self) -> Vec<Cell>; // = Run.RunC15.enc CODE
    fn show(&self) -> String;
    fn class(&self) -> &'static str;
}

fn can_null<T: V>() -> bool {
    T::OPT || !matches!(T::KIND, Kind::Int | Kind::Bool)
}

fn fclass(x: f64) -> &'static str {
    if x.is_nan() {
        "nan"
    } else if x.is_infinite() {
        "inf"
    } else if x == 0.0 {
        "zero"
    } else if x.abs() < f64::MIN_POSITIVE || (x.abs() < f32::MIN_POSITIVE as f64 && x.abs() >= 1e-46) {
        "subnormal"
    } else if x.abs() >= 9.0e18 {
        "huge"
    } else if x.fract() != 0.0 {
        "fraction"
    } else {
        "integer"
    }
}
fn iclass(x: i128, min: i128, max: i128) -> &'static str {
    if x == min && min != 0 {
        "min"
    } else if x == max {
        "max"
    } else if x == 0 {
        "zero"
    } else if x == 1 || x == -1 {
        "unit"
    } else if x < 0 {
        "neg"
    } else {
        "pos"
    }
}

const F64_VALUES: &[f64] = &[
    0.0, -0.0, 1.0, -1.0, 0.5, -0.5, 1.5, -1.5, 2.5, 0.125, 0.9999999999999999, 127.0, 128.0, 255.0, 255.5, 256.0,
    -128.0, -129.0, 300.5, 65536.0, 16777216.0, 16777217.0, 2147483647.0, 2147483648.0, -2147483648.0,
    -2147483649.0, 4294967295.0, 4294967296.0, 4294967297.0, 9007199254740992.0, 9223372036854774784.0,
    9223372036854775808.0, -9223372036854775808.0, -9223372036854777856.0, 18446744073709549568.0,
    18446744073709551616.0, 1e19, -1e19, 3.4028234663852886e38, 3.4028235677973362e38,
    3.4028235677973366e38, 1e39, -1e39, f64::MAX, f64::MIN, f64::MIN_POSITIVE, 5e-324, -5e-324, 1e-40,
    1.401298464324817e-45, 7.006492321624085e-46, 7.006492321624087e-46, 2.1019476964872256e-45, 0.1,
    0.3333333333333333, 1e15, 123456789.0, f64::NAN, -f64::NAN, f64::INFINITY, f64::NEG_INFINITY,
];
const F32_VALUES: &[f32] = &[
    0.0, -0.0, 1.0, -1.0, 0.5, -1.5, 2.5, 0.125, 127.0, 128.0, 255.0, 255.5, 256.0, -128.0, -129.0, 65536.0,
    16777216.0, 2147483648.0, -2147483648.0, 2147483520.0, 4294967296.0, 9223372036854775808.0,
    -9223372036854775808.0, 9223371487098961920.0, 18446744073709551616.0, 1e19, f32::MAX, f32::MIN,
    f32::MIN_POSITIVE, 1e-45, -1e-45, 1e-40, 0.1, 0.33333334, 123456.0, f32::NAN, -f32::NAN, f32::INFINITY, f32::NEG_INFINITY,
];

fn simple_display(x: f64, single: bool) -> bool {
    // the class of values whose Display text the model reproduces (Run/RunC15.v x_f2s)
    if !x.is_finite() || x == 0.0 {
        return true;
    }
    let bound = if single { 16777216.0 } else { 9007199254740992.0 };
    if x.fract() == 0.0 {
        return x.abs() < bound;
    }
    (x * 8.0).fract() == 0.0 && x.abs() < if single { 1024.0 } else { 1048576.0 }
}

fn rand_f64(rng: &mut Rng) -> f64 {
    match rng.below(4) {
        0 => f64::from_bits(rng.next()),
        1 => (rng.range(-1 << 40, 1 << 40) as f64) / (1u64 << rng.below(30)) as f64,
        2 => (rng.next() as i64) as f64,
        _ => (rng.next() as f64) * if rng.chance(1, 2) { 1.0 } else { -1.0 },
    }
}
fn rand_i64(rng: &mut Rng) -> i64 {
    match rng.below(3) {
        0 => rng.next() as i64,
        1 => rng.range(-70000, 70000),
        _ => (rng.next() as i64) >> rng.below(63),
    }
}

impl V for f64 {
    const CODE: &'static str = "(Plain (N F64))";
    const NAME: &'static str = "f64";
    const KIND: Kind = Kind::Float;
    const OPT: bool = false;
    fn values(th: bool, rng: &mut Rng) -> Vec<Self> {
        let mut v = F64_VALUES.to_vec();
        if th {
            for _ in 0..300 {
                let x = rand_f64(rng);
                if !x.is_nan() {
                    v.push(x)
                }
            }
        }
        v
    }
    fn coq(&self) -> String {
        coq_f64(*self)
    }
    fn cells(&self) -> Vec<Cell> {
        vec![Cell::F(*self)]
    }
    fn show(&self) -> String {
        format!("{:?}f64 (bits {:#018x})", self, self.to_bits())
    }
    fn class(&self) -> &'static str {
        fclass(*self)
    }
}
impl V for f32 {
    const CODE: &'static str = "(Plain (N F32))";
    const NAME: &'static str = "f32";
    const KIND: Kind = Kind::Float;
    const OPT: bool = false;
    fn values(th: bool, rng: &mut Rng) -> Vec<Self> {
        let mut v = F32_VALUES.to_vec();
        if th {
            for _ in 0..200 {
                let x = if rng.chance(1, 2) { f32::from_bits(rng.next() as u32) } else { rand_f64(rng) as f32 };
                if !x.is_nan() {
                    v.push(x)
                }
            }
        }
        v
    }
    fn coq(&self) -> String {
        coq_f64(*self as f64) // widening is exact
    }
    fn cells(&self) -> Vec<Cell> {
        vec![Cell::F(*self as f64)]
    }
    fn show(&self) -> String {
        format!("{:?}f32 (bits {:#010x})", self, self.to_bits())
    }
    fn class(&self) -> &'static str {
        fclass(*self as f64)
    }
}

macro_rules! impl_v_int {
    ($t:ty, $code:literal, [$($v:expr),*]) => {
        impl V for $t {
            const CODE: &'static str = $code;
            const NAME: &'static str = stringify!($t);
            const KIND: Kind = Kind::Int;
            const OPT: bool = false;
            fn values(th: bool, rng: &mut Rng) -> Vec<Self> {
                let mut v: Vec<$t> = vec![$($v as $t),*];
                v.push(<$t>::MAX); v.push(<$t>::MIN); v.push(<$t>::MAX - 1); v.push(<$t>::MIN + 1);
                if th { for _ in 0..120 { v.push(rand_i64(rng) as $t) } }
                let mut out: Vec<$t> = vec![];
                for x in v { if !out.contains(&x) { out.push(x) } }
                out
            }
            fn coq(&self) -> String { coq_z(*self as i128) }
            fn cells(&self) -> Vec<Cell> { vec![Cell::Int(*self as i128)] }
            fn show(&self) -> String { format!("{}{}", self, stringify!($t)) }
            fn class(&self) -> &'static str { iclass(*self as i128, <$t>::MIN as i128, <$t>::MAX as i128) }
        }
    };
}
impl_v_int!(i32, "(Plain (N I32))", [0, 1, -1, 2, 127, 128, 255, 256, -128, -129, 65536, 16777217, -16777217, 1000000007]);
impl_v_int!(i64, "(Plain (N I64))", [0, 1, -1, 2, 127, 128, 255, 256, -128, -129, 65536, 16777217, 2147483647i64,
    2147483648i64, -2147483648i64, -2147483649i64, 4294967296i64, 4294967297i64, 9007199254740993i64,
    -9007199254740993i64, 1500, -1500, 86400000000000i64, 9223372036854775295i64, 1000000007]);
impl_v_int!(isize, "(Plain (N Isize))", [0, 1, -1, 2, 127, 128, 255, 256, -129, 16777217, 2147483648i64, -2147483649i64,
    4294967297i64, 9007199254740993i64, 9223372036854775295i64]);
impl_v_int!(u8, "(Plain (N U8))", [0, 1, 2, 127, 128, 200]);
impl_v_int!(u64, "(Plain (N U64))", [0, 1, 2, 127, 128, 255, 256, 65536, 16777217, 2147483648u64, 4294967296u64,
    4294967297u64, 9007199254740993u64, 9223372036854775807u64, 9223372036854775808u64, 9223372036854775809u64,
    18446744073709550591u64, 18446744073709550592u64]);
impl_v_int!(usize, "(Plain (N Usize))", [0, 1, 2, 255, 256, 16777217, 2147483648u64, 4294967297u64, 9007199254740993u64,
    9223372036854775807u64, 9223372036854775808u64, 18446744073709550592u64]);

impl V for bool {
    const CODE: &'static str = "(Plain Bool)";
    const NAME: &'static str = "bool";
    const KIND: Kind = Kind::Bool;
    const OPT: bool = false;
    fn values(_: bool, _: &mut Rng) -> Vec<Self> {
        vec![false, true]
    }
    fn coq(&self) -> String {
        coq_bool(*self)
    }
    fn cells(&self) -> Vec<Cell> {
        vec![Cell::Int(*self as i128)]
    }
    fn show(&self) -> String {
        format!("{}", self)
    }
    fn class(&self) -> &'static str {
        if *self { "true" } else { "false" }
    }
}

const STR_VALUES: &[&str] = &[
    "None", "NaN", "nan", "-nan", "inf", "-inf", "+infinity", "INF", "Infinit", "0", "1", "-1", "+1", "-0", "+0",
    "00", "007", "2", "255", "256", "-128", "-129", "2147483647", "2147483648", "-2147483648", "-2147483649",
    "4294967296", "9223372036854775807", "9223372036854775808", "-9223372036854775808",
    "-9223372036854775809", "18446744073709551615", "18446744073709551616", "1.5", "-1.5", "0.1", "1e3",
    "1E-2", "1e+2", "1.e2", ".5", "5.", "+.5", ".", "", "+", "-", "e5", "1e", "1e+", ".e1", "1.5.2", "16777217",
    "9007199254740993", "3.4028235677973366e38", "1e400", "-1e400", "1e-400", "4.9e-324", "2e-324",
    "0.000000000000000000000000000000000000000000001", "179769313486231580793728971405303415079934132710037826936173778980444968292764750946649017977587207096330286416692887910946555547851940402630657488671505820681908902000708383676273854845817711531764475730270069855571366959622842914819860834936475292719074168444365510704342711559699508093042880177904174497791.999",
    "abc", "true", "false", "True", "TRUE", "1 ", " 1", "None ", "none", "NONE", "Some(1)", "1_000", "0x10", "१",
];

/// seeded numeric-looking texts (thorough tier): sign, digits, optional fraction / exponent, occasional junk
fn rand_text(rng: &mut Rng) -> String {
    let mut t = String::new();
    match rng.below(6) {
        0 => t.push('-'),
        1 => t.push('+'),
        _ => {}
    }
    let cap = if rng.chance(1, 3) { 22 } else { 6 };
    let nd = rng.below(cap);
    for _ in 0..nd {
        t.push((b'0' + rng.below(10) as u8) as char)
    }
    if rng.chance(1, 2) {
        t.push('.');
        let cap = if rng.chance(1, 4) { 25 } else { 5 };
        for _ in 0..rng.below(cap) {
            t.push((b'0' + rng.below(10) as u8) as char)
        }
    }
    if rng.chance(1, 3) {
        t.push(if rng.chance(1, 2) { 'e' } else { 'E' });
        match rng.below(4) {
            0 => t.push('-'),
            1 => t.push('+'),
            _ => {}
        }
        let ne = rng.below(4);
        for _ in 0..ne {
            t.push((b'0' + rng.below(10) as u8) as char)
        }
    }
    if rng.chance(1, 12) {
        let junk = ['x', ' ', '_', 'N', '-', '.'];
        let at = rng.below(t.len() + 1);
        t.insert(at, junk[rng.below(junk.len())]);
    }
    t
}
fn str_values(th: bool, rng: &mut Rng) -> Vec<String> {
    let mut v: Vec<String> = STR_VALUES.iter().map(|s| s.to_string()).collect();
    if th {
        for _ in 0..400 {
            let t = rand_text(rng);
            if !v.contains(&t) {
                v.push(t)
            }
        }
    }
    v
}

fn str_cells(s: &str) -> Vec<Cell> {
    let mut c = vec![Cell::Int(s.len() as i128)];
    c.extend(s.bytes().map(|b| Cell::Int(b as i128)));
    c
}
fn str_coq(s: &str) -> String {
    let b: Vec<u8> = s.bytes().collect();
    coq_list(&b, |x| format!("{}", x))
}
fn str_class(s: &str) -> &'static str {
    if s == "None" {
        "None"
    } else if s.is_empty() {
        "empty"
    } else if s.parse::<i128>().is_ok() {
        "int-text"
    } else if s.parse::<f64>().is_ok() {
        "float-text"
    } else {
        "other-text"
    }
}
impl V for String {
    const CODE: &'static str = "(Plain Str)";
    const NAME: &'static str = "String";
    const KIND: Kind = Kind::Str;
    const OPT: bool = false;
    fn values(th: bool, rng: &mut Rng) -> Vec<Self> {
        str_values(th, rng)
    }
    fn coq(&self) -> String {
        str_coq(self)
    }
    fn cells(&self) -> Vec<Cell> {
        str_cells(self)
    }
    fn show(&self) -> String {
        format!("{:?}", self)
    }
    fn class(&self) -> &'static str {
        str_class(self)
    }
}
impl V for &'static str {
    const CODE: &'static str = "(Plain Str)";
    const NAME: &'static str = "&str";
    const KIND: Kind = Kind::Str;
    const OPT: bool = false;
    fn values(th: bool, rng: &mut Rng) -> Vec<Self> {
        str_values(th, rng).into_iter().map(|s| &*Box::leak(s.into_boxed_str())).collect()
    }
    fn coq(&self) -> String {
        str_coq(self)
    }
    fn cells(&self) -> Vec<Cell> {
        str_cells(self)
    }
    fn show(&self) -> String {
        format!("{:?}", self)
    }
    fn class(&self) -> &'static str {
        str_class(self)
    }
}

const TIME_VALUES: &[i64] = &[
    0, 1, -1, 2, 255, 256, -129, 1500, -1500, 2147483648, 4294967297, 9007199254740993, 1600000000000000000,
    i64::MAX, i64::MAX - 1, i64::MIN + 1, i64::MIN,
];
fn tclass(x: i64) -> &'static str {
    if x == i64::MIN { "NaT" } else { iclass(x as i128, i64::MIN as i128, i64::MAX as i128) }
}
macro_rules! impl_v_dt {
    ($t:ty, $name:literal) => {
        impl V for $t {
            const CODE: &'static str = "(Plain DT)";
            const NAME: &'static str = $name;
            const KIND: Kind = Kind::Dt;
            const OPT: bool = false;
            fn values(th: bool, rng: &mut Rng) -> Vec<Self> {
                let mut v: Vec<i64> = TIME_VALUES.to_vec();
                if th { for _ in 0..20 { v.push(rand_i64(rng)) } }
                v.into_iter().map(<$t>::new).collect()
            }
            fn coq(&self) -> String { coq_z(self.0 as i128) }
            fn cells(&self) -> Vec<Cell> { vec![Cell::Int(self.0 as i128)] }
            fn show(&self) -> String { format!("{}({})", $name, self.0) }
            fn class(&self) -> &'static str { tclass(self.0) }
        }
    };
}
impl_v_dt!(DtNs, "DateTime<Nanosecond>");
impl_v_dt!(DtMs, "DateTime<Millisecond>");
impl V for Time {
    const CODE: &'static str = "(Plain TM)";
    const NAME: &'static str = "Time";
    const KIND: Kind = Kind::Tm;
    const OPT: bool = false;
    fn values(th: bool, rng: &mut Rng) -> Vec<Self> {
        let mut v: Vec<i64> = TIME_VALUES.to_vec();
        if th {
            for _ in 0..20 {
                v.push(rand_i64(rng))
            }
        }
        v.into_iter().map(Time).collect()
    }
    fn coq(&self) -> String {
        coq_z(self.0 as i128)
    }
    fn cells(&self) -> Vec<Cell> {
        vec![Cell::Int(self.0 as i128)]
    }
    fn show(&self) -> String {
        format!("Time({})", self.0)
    }
    fn class(&self) -> &'static str {
        tclass(self.0)
    }
}

fn td(months: i32, nanos: i64) -> TimeDelta {
    TimeDelta { months, inner: TimeDelta::from(nanos).inner }
}
fn td_nanos(d: &TimeDelta) -> i128 {
    d.inner.num_seconds() as i128 * 1_000_000_000 + d.inner.subsec_nanos() as i128
}
impl V for TimeDelta {
    const CODE: &'static str = "(Plain TD)";
    const NAME: &'static str = "TimeDelta";
    const KIND: Kind = Kind::Td;
    const OPT: bool = false;
    fn values(th: bool, rng: &mut Rng) -> Vec<Self> {
        let mut v = vec![
            td(0, 0), td(0, 1), td(0, -1), td(0, 999), td(0, 1000), td(0, -999), td(0, -1000), td(0, -1001),
            td(0, 1500), td(0, -1500), td(0, 255999), td(0, 256000), td(0, 1000000), td(0, 86400000000000),
            td(0, i64::MAX), td(0, i64::MIN + 1), td(1, 0), td(-1, 5), td(12, 1000), td(i32::MAX, 0),
            td(i32::MIN + 1, 0), TimeDelta::nat(),
            // beyond i64 microseconds: num_microseconds() overflows
            TimeDelta { months: 0, inner: td(0, 10_000_000_000_000_000).inner * 1_000_000 },
            TimeDelta { months: 0, inner: td(0, -10_000_000_000_000_000).inner * 1_000_000 },
            TimeDelta { months: 0, inner: td(0, 9_223_372_036_854_775).inner * 1_000_000 },
        ];
        if th {
            for _ in 0..20 {
                v.push(td(if rng.chance(1, 4) { rng.range(-30, 30) as i32 } else { 0 }, rand_i64(rng).max(i64::MIN + 1)))
            }
        }
        v
    }
    fn coq(&self) -> String {
        format!("({}, {})", coq_z(self.months as i128), coq_z(td_nanos(self)))
    }
    fn cells(&self) -> Vec<Cell> {
        vec![Cell::Int(self.months as i128), Cell::Int(td_nanos(self))]
    }
    fn show(&self) -> String {
        format!("TimeDelta{{months:{}, nanos:{}}}", self.months, td_nanos(self))
    }
    fn class(&self) -> &'static str {
        if self.is_nat() {
            "NaT"
        } else if self.months != 0 {
            "months"
        } else if td_nanos(self).abs() > i64::MAX as i128 {
            "huge"
        } else {
            "nanos"
        }
    }
}

macro_rules! impl_v_opt {
    ($t:ty, $code:literal, $name:literal) => {
        impl V for Option<$t> {
            const CODE: &'static str = $code;
            const NAME: &'static str = $name;
            const KIND: Kind = <$t as V>::KIND;
            const OPT: bool = true;
            fn values(th: bool, rng: &mut Rng) -> Vec<Self> {
                // canonical nulls only (DESIGN 5.4): never Some(null)
                let mut v: Vec<Self> = vec![None];
                v.extend(<$t as V>::values(th, rng).into_iter().filter(|x| !x.is_none()).map(Some));
                v
            }
            fn noncanonical(th: bool, rng: &mut Rng) -> Vec<Self> {
                let mut seen = 0;
                <$t as V>::values(th, rng).into_iter().filter(|x| x.is_none()).filter(|_| { seen += 1; seen <= 2 }).map(Some).collect()
            }
            fn coq(&self) -> String { coq_opt(self, |x| x.coq()) }
            fn cells(&self) -> Vec<Cell> {
                match self {
                    Some(x) => { let mut c = vec![Cell::Int(1)]; c.extend(x.cells()); c }
                    None => vec![Cell::Int(0)],
                }
            }
            fn show(&self) -> String { match self { Some(x) => format!("Some({})", x.show()), None => "None".into() } }
            fn class(&self) -> &'static str { match self { Some(x) => x.class(), None => "null" } }
        }
    };
}
impl_v_opt!(f32, "(Opt (N F32))", "Option<f32>");
impl_v_opt!(f64, "(Opt (N F64))", "Option<f64>");
impl_v_opt!(i32, "(Opt (N I32))", "Option<i32>");
impl_v_opt!(i64, "(Opt (N I64))", "Option<i64>");
impl_v_opt!(u8, "(Opt (N U8))", "Option<u8>");
impl_v_opt!(u64, "(Opt (N U64))", "Option<u64>");
impl_v_opt!(usize, "(Opt (N Usize))", "Option<usize>");
impl_v_opt!(isize, "(Opt (N Isize))", "Option<isize>");
impl_v_opt!(bool, "(Opt Bool)", "Option<bool>");
impl_v_opt!(String, "(Opt Str)", "Option<String>");
impl_v_opt!(DtNs, "(Opt DT)", "Option<DateTime<Nanosecond>>");
impl_v_opt!(TimeDelta, "(Opt TD)", "Option<TimeDelta>");
impl_v_opt!(Time, "(Opt TM)", "Option<Time>");
impl_v_opt!(&'static str, "(Opt Str)", "Option<&str>");
impl_v_opt!(DtMs, "(Opt DT)", "Option<DateTime<Millisecond>>");

fn vclass_tag<T: V>(v: &T) -> String {
    if v.is_none() { "null".into() } else { v.class().to_string() }
}

// ---------------------------------------------------------------------------------------------------
// casts: compile-time probe of `S: Cast<T>` by autoref specialisation

struct Ctx {
    em: Emitter,
    rng: Rng,
    th: bool,
}

struct W<S, T>(PhantomData<(S, T)>);

trait Implemented {
    fn run(&self, cx: &mut Ctx);
}
trait NotImplemented {
    fn run(&self, cx: &mut Ctx);
}

fn base_name(n: &str) -> &str {
    n.strip_prefix("Option<").and_then(|x| x.strip_suffix(">")).unwrap_or(n)
}
fn base_code(c: &str) -> &str {
    c.trim_start_matches("(Plain ").trim_start_matches("(Opt ")
}
/// two Rust types that share one model type code (String / &str, DateTime<ns> / DateTime<ms>)
fn same_code_other_type<S: V, T: V>() -> bool {
    base_code(S::CODE) == base_code(T::CODE) && base_name(S::NAME) != base_name(T::NAME)
}

impl<S: V, T: V> NotImplemented for &W<S, T> {
    fn run(&self, cx: &mut Ctx) {
        if same_code_other_type::<S, T>() || (T::NAME == "&str" && S::NAME != "&str") {
            return; // String -> &str, DateTime<ns> <-> DateTime<ms> (unit change belongs to C16); nothing casts to a borrowed str
        }
        cx.em.case(
            "exact",
            &format!("fn=impl src={} dst={} implemented=no", S::NAME, T::NAME),
            &format!("is `impl Cast<{}> for {}` present: no", T::NAME, S::NAME),
            || format!("run_impl {} {}", S::CODE, T::CODE),
            || vec![Cell::Int(0)],
        );
    }
}

impl<S: V + Cast<T>, T: V> Implemented for W<S, T> {
    fn run(&self, cx: &mut Ctx) {
        if same_code_other_type::<S, T>() && S::KIND == Kind::Dt {
            return; // time_unit_cast!: into_unit, property C16
        }
        cx.em.case(
            "exact",
            &format!("fn=impl src={} dst={} implemented=yes", S::NAME, T::NAME),
            &format!("is `impl Cast<{}> for {}` present: yes", T::NAME, S::NAME),
            || format!("run_impl {} {}", S::CODE, T::CODE),
            || vec![Cell::Int(1)],
        );
        if S::KIND == Kind::Str && !T::OPT && matches!(T::KIND, Kind::Dt | Kind::Td) {
            return; // the date / duration parsers are property C18; the pair is only probed
        }
        let str_null_only = S::KIND == Kind::Td && T::KIND == Kind::Str && !S::OPT;
        let mut rng = cx.rng.clone();
        for v in S::values(cx.th, &mut rng) {
            if S::KIND == Kind::Float && T::KIND == Kind::Str {
                // Display of floats is modelled for a class of simple values only
                let ok = v.cells().iter().all(|c| match c {
                    Cell::F(x) => simple_display(*x, S::NAME.ends_with("f32") || S::NAME.ends_with("f32>")),
                    _ => true,
                });
                if !ok {
                    continue;
                }
            }
            let tags = format!("fn=cast src={} dst={} value={}", S::NAME, T::NAME, vclass_tag(&v));
            let desc = format!("Cast::<{}>::cast({}) from {}", T::NAME, v.show(), S::NAME);
            let (vc, vi) = (v.clone(), v.clone());
            if str_null_only {
                cx.em.case(
                    "exact",
                    &tags,
                    &(desc.clone() + " [nullness of the text]"),
                    || format!("run_cast_strnull {} {}", S::CODE, vc.coq()),
                    || match guarded(AssertUnwindSafe(|| Cast::<T>::cast(vi))) {
                        Ok(w) => vec![Cell::Int(w.is_none() as i128)],
                        Err(k) => vec![Cell::Panic(k)],
                    },
                );
            } else {
                cx.em.case(
                    "exact",
                    &tags,
                    &desc,
                    || format!("run_cast {} {} {}", S::CODE, T::CODE, vc.coq()),
                    || match guarded(AssertUnwindSafe(|| Cast::<T>::cast(vi))) {
                        Ok(w) => w.cells(),
                        Err(k) => vec![Cell::Panic(k)],
                    },
                );
            }
            // the property itself on the real code: nullness is preserved when the target can represent nulls
            if can_null::<T>() {
                let (vc, vi) = (v.clone(), v.clone());
                let src_null = v.is_none();
                cx.em.case(
                    "exact",
                    &format!("fn=nullpres src={} dst={} value={}", S::NAME, T::NAME, vclass_tag(&v)),
                    &format!("nullness of Cast::<{}>::cast({}) from {} vs nullness of the source", T::NAME, v.show(), S::NAME),
                    || format!("run_nullpres {} {} {}", S::CODE, T::CODE, vc.coq()),
                    || match guarded(AssertUnwindSafe(|| Cast::<T>::cast(vi))) {
                        Ok(w) => vec![Cell::Int(src_null as i128), Cell::Int(w.is_none() as i128)],
                        Err(k) => vec![Cell::Panic(k)],
                    },
                );
            }
        }
    }
}

macro_rules! all_pairs {
    ($cx:expr; [$($s:ty),*]; $ts:tt) => { $( all_pairs!(@row $cx; $s; $ts); )* };
    (@row $cx:expr; $s:ty; [$($t:ty),*]) => { $( (&W::<$s, $t>(PhantomData)).run($cx); )* };
}

// ---------------------------------------------------------------------------------------------------
// the IsNone dictionary

fn res_cells<R>(r: Result<R, u8>, f: impl FnOnce(R) -> Vec<Cell>) -> Vec<Cell> {
    match r {
        Ok(v) => f(v),
        Err(k) => vec![Cell::Panic(k)],
    }
}
fn opt_cells<X: V>(o: Option<X>) -> Vec<Cell> {
    match o {
        Some(x) => {
            let mut c = vec![Cell::Int(1)];
            c.extend(x.cells());
            c
        }
        None => vec![Cell::Int(0)],
    }
}

/// every method of the dictionary on every value of T (T::Inner = I; OT = Option<I>)
fn isnone_cases<T, I>(cx: &mut Ctx)
where
    T: V + IsNone<Inner = I>,
    I: V + IsNone<Inner = I>,
    Option<I>: V + IsNone<Inner = I>,
{
    let mut rng = cx.rng.clone();
    for v in T::values(cx.th, &mut rng) {
        let vc = v.clone();
        cx.em.case(
            "exact",
            &format!("fn=isnone ty={} value={}", T::NAME, vclass_tag(&v)),
            &format!(
                "is_none, not_none, to_opt, as_opt, unwrap, from_opt(to_opt), map(id) into Self and Option<Inner> on {} : {}",
                v.show(),
                T::NAME
            ),
            || format!("run_isnone {} {}", T::CODE, vc.coq()),
            || {
                let mut c = vec![Cell::Int(v.is_none() as i128), Cell::Int(v.not_none() as i128)];
                c.extend(opt_cells(v.clone().to_opt()));
                c.extend(opt_cells(v.as_opt().cloned()));
                c.extend(res_cells(guarded(AssertUnwindSafe(|| v.clone().unwrap())), |x| x.cells()));
                c.extend(res_cells(guarded(AssertUnwindSafe(|| T::from_opt(v.clone().to_opt()))), |x| x.cells()));
                c.extend(res_cells(guarded(AssertUnwindSafe(|| v.clone().map::<_, T>(|x| x))), |x| x.cells()));
                c.extend(res_cells(guarded(AssertUnwindSafe(|| v.clone().map::<_, Option<I>>(|x| x))), |x| x.cells()));
                c
            },
        );
    }
    cx.em.case(
        "exact",
        &format!("fn=none ty={}", T::NAME),
        &format!("<{}>::none() and is_none of it", T::NAME),
        || format!("run_none {}", T::CODE),
        || {
            res_cells(guarded(|| T::none()), |w| {
                let mut c = w.cells();
                c.push(Cell::Int(w.is_none() as i128));
                c
            })
        },
    );
}

/// from_inner / into_cast on raw inner values (including the null ones)
fn from_inner_cases<I>(cx: &mut Ctx, bcode: &str)
where
    I: V + IsNone<Inner = I> + IntoCast + Cast<I>,
    Option<I>: V + IsNone<Inner = I>,
    <I as IsNone>::Cast<I>: V,
    <Option<I> as IsNone>::Cast<I>: V,
{
    let mut rng = cx.rng.clone();
    for x in I::values(cx.th, &mut rng) {
        let xc = x.clone();
        cx.em.case(
            "exact",
            &format!("fn=from_inner ty={} value={}", I::NAME, vclass_tag(&x)),
            &format!(
                "<{0}>::from_inner, <Option<{0}>>::from_inner, into_cast::<{0}>, into_cast::<Option<{0}>> on {1}",
                I::NAME,
                x.show()
            ),
            || format!("run_from_inner {} {}", bcode, xc.coq()),
            || {
                let mut c = <I as IsNone>::from_inner(x.clone()).cells();
                c.extend(<Option<I> as IsNone>::from_inner(x.clone()).cells());
                c.extend(x.clone().into_cast::<I>().cells());
                c.extend(x.clone().into_cast::<Option<I>>().cells());
                c
            },
        );
    }
}

fn vabs_cases<T>(cx: &mut Ctx, opt: bool, ncode: &str)
where
    T: V,
    T::Inner: Number,
{
    let mut rng = cx.rng.clone();
    for v in T::values(cx.th, &mut rng) {
        let vc = v.clone();
        cx.em.case(
            "exact",
            &format!("fn=vabs ty={} value={}", T::NAME, vclass_tag(&v)),
            &format!("vabs on {} : {}", v.show(), T::NAME),
            || format!("run_vabs {} {} {}", coq_bool(opt), ncode, vc.coq()),
            || res_cells(guarded(AssertUnwindSafe(|| v.vabs())), |w| w.cells()),
        );
    }
}

/// Number::f32/f64/i32/i64/usize, to::<u8>, min_/max_
fn number_cases<T>(cx: &mut Ctx, ncode: &str, is_float: bool)
where
    T: V + Number + Cast<u8> + Into<NumCell>,
{
    let mut rng = cx.rng.clone();
    for v in T::values(cx.th, &mut rng) {
        let vc = v.clone();
        cx.em.case(
            "exact",
            &format!("fn=number ty={} value={}", T::NAME, vclass_tag(&v)),
            &format!("Number::f32, f64, i32, i64, usize, to::<u8>{} on {} : {}", if is_float { "" } else { ", min_, max_" }, v.show(), T::NAME),
            || format!("run_number {} {}", ncode, vc.coq()),
            || {
                let mut c = vec![Cell::F(v.f32() as f64), Cell::F(v.f64()), Cell::Int(v.i32() as i128),
                                 Cell::Int(v.i64() as i128), Cell::Int(v.usize() as i128),
                                 Cell::Int(Cast::<u8>::cast(v) as i128)];
                if !is_float {
                    c.push(T::min_().into().0);
                    c.push(T::max_().into().0);
                }
                c
            },
        );
    }
}
struct NumCell(Cell);
impl From<f32> for NumCell { fn from(x: f32) -> Self { NumCell(Cell::F(x as f64)) } }
impl From<f64> for NumCell { fn from(x: f64) -> Self { NumCell(Cell::F(x)) } }
impl From<i32> for NumCell { fn from(x: i32) -> Self { NumCell(Cell::Int(x as i128)) } }
impl From<i64> for NumCell { fn from(x: i64) -> Self { NumCell(Cell::Int(x as i128)) } }
impl From<u64> for NumCell { fn from(x: u64) -> Self { NumCell(Cell::Int(x as i128)) } }
impl From<usize> for NumCell { fn from(x: usize) -> Self { NumCell(Cell::Int(x as i128)) } }

// ---------------------------------------------------------------------------------------------------
// the sort comparators

fn ord_cell(o: std::cmp::Ordering) -> Cell {
    Cell::Int(match o {
        std::cmp::Ordering::Less => -1,
        std::cmp::Ordering::Equal => 0,
        std::cmp::Ordering::Greater => 1,
    })
}

fn order_values<T: V>(cx: &Ctx) -> Vec<T> {
    // a sub-list of the value list: nulls, extremes, neighbours, ties
    let mut rng = cx.rng.clone();
    let all = T::values(cx.th, &mut rng);
    let cap = if cx.th { 26 } else { 13 };
    if all.len() <= cap {
        return all;
    }
    let mut out: Vec<T> = vec![];
    // keep every null and spread the rest
    let step = all.len() as f64 / cap as f64;
    let mut picked = vec![false; all.len()];
    for k in 0..cap {
        picked[((k as f64) * step) as usize] = true
    }
    for (i, v) in all.iter().enumerate() {
        if picked[i] || v.is_none() {
            out.push(v.clone())
        }
    }
    // ties
    out.push(all[0].clone());
    // Some(null) values, for the comparators only
    let mut rng2 = cx.rng.clone();
    out.extend(T::noncanonical(cx.th, &mut rng2));
    out
}

fn order_cases<T>(cx: &mut Ctx)
where
    T: V,
    T::Inner: PartialOrd,
{
    let vals = order_values::<T>(cx);
    let lst = coq_list(&vals, |v| v.coq());
    let shown: Vec<String> = vals.iter().map(|v| v.show()).collect();
    for a in vals.iter() {
        for b in vals.iter() {
            let (ac, bc) = (a.clone(), b.clone());
            cx.em.case(
                "exact",
                &format!("fn=order ty={} a={} b={}", T::NAME, vclass_tag(a), vclass_tag(b)),
                &format!("sort_cmp / sort_cmp_rev of {} and {} : {}", a.show(), b.show(), T::NAME),
                || format!("run_order {} {} {}", T::CODE, ac.coq(), bc.coq()),
                || {
                    let mut c = res_cells(guarded(AssertUnwindSafe(|| a.sort_cmp(b))), |o| vec![ord_cell(o)]);
                    c.extend(res_cells(guarded(AssertUnwindSafe(|| a.sort_cmp_rev(b))), |o| vec![ord_cell(o)]));
                    c
                },
            );
        }
    }
    // order axioms over all pairs and triples, counted on the real comparators
    cx.em.case(
        "exact",
        &format!("fn=axioms ty={} len={}", T::NAME, vals.len()),
        &format!(
            "violations of reflexivity / antisymmetry / transitivity / nulls-last by sort_cmp and sort_cmp_rev over all \
             pairs and triples of [{}] : {}",
            shown.join(", "),
            T::NAME
        ),
        || format!("run_axioms {} {}", T::CODE, lst),
        || {
            use std::cmp::Ordering::*;
            let mut cells = vec![];
            for rev in [false, true] {
                let cmp = |a: &T, b: &T| {
                    guarded(AssertUnwindSafe(|| if rev { a.sort_cmp_rev(b) } else { a.sort_cmp(b) }))
                };
                let le = |a: &T, b: &T| matches!(cmp(a, b), Ok(Less) | Ok(Equal));
                let (mut refl, mut anti, mut trans, mut nlast) = (0, 0, 0, 0);
                for a in vals.iter() {
                    if cmp(a, a) != Ok(Equal) {
                        refl += 1
                    }
                    for b in vals.iter() {
                        let ok = matches!(
                            (cmp(a, b), cmp(b, a)),
                            (Ok(Less), Ok(Greater)) | (Ok(Greater), Ok(Less)) | (Ok(Equal), Ok(Equal))
                        );
                        if !ok {
                            anti += 1
                        }
                        if a.is_none() && !b.is_none() && cmp(a, b) != Ok(Greater) {
                            nlast += 1
                        }
                        for c in vals.iter() {
                            if le(a, b) && le(b, c) && !le(a, c) {
                                trans += 1
                            }
                        }
                    }
                }
                cells.extend([Cell::Int(refl), Cell::Int(anti), Cell::Int(trans), Cell::Int(nlast)]);
            }
            cells
        },
    );
    // the comparators in use: a stable sort of the list
    for rev in [false, true] {
        let vs = vals.clone();
        cx.em.case(
            "exact",
            &format!("fn=sorted ty={} rev={} len={}", T::NAME, rev, vals.len()),
            &format!(
                "slice::sort_by({}) of [{}] : {}",
                if rev { "sort_cmp_rev" } else { "sort_cmp" },
                shown.join(", "),
                T::NAME
            ),
            || format!("run_sorted {} {} {}", coq_bool(rev), T::CODE, lst),
            || {
                res_cells(
                    guarded(AssertUnwindSafe(|| {
                        let mut s = vs.clone();
                        if rev {
                            s.sort_by(|a, b| a.sort_cmp_rev(b))
                        } else {
                            s.sort_by(|a, b| a.sort_cmp(b))
                        }
                        s
                    })),
                    |s| s.iter().flat_map(|v| v.cells()).collect(),
                )
            },
        );
    }
}

macro_rules! per_base {
    ($cx:expr; $( ($t:ty, $b:literal) ),*) => {$(
        isnone_cases::<$t, $t>($cx);
        isnone_cases::<Option<$t>, $t>($cx);
        from_inner_cases::<$t>($cx, $b);
        order_cases::<$t>($cx);
        order_cases::<Option<$t>>($cx);
    )*};
}
macro_rules! per_number {
    ($cx:expr; $( ($t:ty, $n:literal) ),*) => {$(
        vabs_cases::<$t>($cx, false, $n);
        vabs_cases::<Option<$t>>($cx, true, $n);
    )*};
}

fn main() {
    let em = Emitter::new();
    let seed = em.args.seed;
    let th = em.thorough();
    let mut cx = Ctx { em, rng: Rng::new(seed ^ 0xC15), th };

    // 1. the null dictionary and the comparators, per type
    per_base!(&mut cx;
        (f32, "(N F32)"), (f64, "(N F64)"), (i32, "(N I32)"), (i64, "(N I64)"), (u8, "(N U8)"), (u64, "(N U64)"),
        (usize, "(N Usize)"), (isize, "(N Isize)"), (bool, "Bool"), (String, "Str"), (DtNs, "DT"),
        (TimeDelta, "TD"), (Time, "TM"));
    isnone_cases::<&'static str, &'static str>(&mut cx);
    isnone_cases::<DtMs, DtMs>(&mut cx);
    order_cases::<&'static str>(&mut cx);
    order_cases::<DtMs>(&mut cx);
    per_number!(&mut cx; (f32, "F32"), (f64, "F64"), (i32, "I32"), (i64, "I64"), (u64, "U64"), (usize, "Usize"));

    number_cases::<f32>(&mut cx, "F32", true);
    number_cases::<f64>(&mut cx, "F64", true);
    number_cases::<i32>(&mut cx, "I32", false);
    number_cases::<i64>(&mut cx, "I64", false);
    number_cases::<u64>(&mut cx, "U64", false);
    number_cases::<usize>(&mut cx, "Usize", false);
    for b in [false, true] {
        cx.em.case(
            "exact",
            &format!("fn=bool_type value={}", b),
            &format!("BoolType::bool_ on {} and &{}", b, b),
            || format!("run_bool_ {}", coq_bool(b)),
            || vec![Cell::Int(BoolType::bool_(b) as i128), Cell::Int(BoolType::bool_(&b) as i128)],
        );
    }

    // 2. the cast lattice: every pair of the universe
    all_pairs!(&mut cx;
        [f32, f64, i32, i64, u8, u64, usize, isize, bool, String, &'static str, DtNs, DtMs, TimeDelta, Time,
         Option<f32>, Option<f64>, Option<i32>, Option<i64>, Option<u8>, Option<u64>, Option<usize>, Option<isize>,
         Option<bool>, Option<String>, Option<DtNs>, Option<TimeDelta>, Option<Time>];
        [f32, f64, i32, i64, u8, u64, usize, isize, bool, String, &'static str, DtNs, DtMs, TimeDelta, Time,
         Option<f32>, Option<f64>, Option<i32>, Option<i64>, Option<u8>, Option<u64>, Option<usize>, Option<isize>,
         Option<bool>, Option<String>, Option<DtNs>, Option<TimeDelta>, Option<Time>]);

    // 2b. the unit-changing casts DateTime<A> -> DateTime<B> share one model type code (DT) in the lattice above and are
    // characterised value by value in C16; here only what C15 says about them: a null stays a null, a non-null stays a
    // non-null (when representable), in both directions, also through Option — against the unit-conversion model
    {
        use tevec::prelude::unit;
        let vals: [i64; 9] = [i64::MIN, i64::MIN + 1, -1_000_001, -1, 0, 1, 999_999, 1_700_000_000_123, 9_000_000_000_000_000];
        for x in vals {
            let term = |u: &str, t: &str| format!(
                "(c_bool (Tevec.Model.Time.is_nat {x}) ++ match Tevec.Model.Time.into_unit Tevec.Model.Time.{u} Tevec.Model.Time.{t} {x} with Tevec.Base.Prelude.Ok y => c_bool (Tevec.Model.Time.is_nat y) ++ c_int y | Tevec.Base.Prelude.Panic k => c_panic k end)",
                x = coq_z(x as i128), u = u, t = t);
            let cells_of = |src_null: bool, r: Result<(bool, i64), u8>| -> Vec<Cell> {
                let mut c = vec![Cell::Int(src_null as i128)];
                match r { Ok((n, v)) => { c.push(Cell::Int(n as i128)); c.push(Cell::Int(v as i128)) } Err(k) => c.push(Cell::Panic(k)) }
                c
            };
            cx.em.case("exact", "fn=unit_cast pair=ns>ms", &format!("DateTime<Nanosecond>({}).cast::<DateTime<Millisecond>>(): nullness", x),
                || term("Nano", "Milli"),
                || { let d = DateTime::<unit::Nanosecond>::new(x); cells_of(d.is_none(), guarded(AssertUnwindSafe(|| { let r: DtMs = d.cast(); (r.is_none(), r.into_i64()) }))) });
            cx.em.case("exact", "fn=unit_cast pair=ms>ns", &format!("DateTime<Millisecond>({}).cast::<DateTime<Nanosecond>>(): nullness", x),
                || term("Milli", "Nano"),
                || { let d = DateTime::<unit::Millisecond>::new(x); cells_of(d.is_none(), guarded(AssertUnwindSafe(|| { let r: DtNs = d.cast(); (r.is_none(), r.into_i64()) }))) });
            cx.em.case("exact", "fn=unit_cast pair=us>s", &format!("DateTime<Microsecond>({}).cast::<DateTime<Second>>(): nullness", x),
                || term("Micro", "Sec"),
                || { let d = DateTime::<unit::Microsecond>::new(x); cells_of(d.is_none(), guarded(AssertUnwindSafe(|| { let r: DateTime<unit::Second> = d.cast(); (r.is_none(), r.into_i64()) }))) });
        }
    }


    // 2c. IsNone for Vec<T> (isnone.rs l.800-848; C15 audit): the null is the empty vector
    {
        let vals: Vec<Vec<i32>> = vec![vec![], vec![0], vec![1], vec![0, 0], vec![i32::MIN, -1, i32::MAX], vec![7; 5]];
        for v in vals {
            let vc = v.clone();
            let enc_vec = |x: &Vec<i32>| -> Vec<Cell> {
                let mut c = vec![Cell::Int(x.len() as i128)];
                c.extend(x.iter().map(|e| Cell::Int(*e as i128)));
                c
            };
            let enc_ovec = |o: Option<Vec<i32>>| -> Vec<Cell> {
                match o { Some(x) => { let mut c = vec![Cell::Int(1)]; c.extend(enc_vec(&x)); c } None => vec![Cell::Int(0)] }
            };
            cx.em.case(
                "exact",
                &format!("fn=vecnone ty=Vec<i32> len={}{}", v.len(), if v.is_empty() { " nt=0" } else { "" }),
                &format!("is_none, not_none, to_opt, as_opt, unwrap, from_opt(to_opt), none().is_none(), from_opt(None) on {:?} : Vec<i32>", v),
                || format!("run_vecnone {}", coq_list(&vc, |e| coq_z(*e as i128))),
                || {
                    let mut c = vec![Cell::Int(IsNone::is_none(&v) as i128), Cell::Int(IsNone::not_none(&v) as i128)];
                    c.extend(enc_ovec(IsNone::to_opt(v.clone())));
                    c.extend(enc_ovec(IsNone::as_opt(&v).cloned()));
                    c.extend(res_cells(guarded(AssertUnwindSafe(|| IsNone::unwrap(v.clone()))), |x| enc_vec(&x)));
                    c.extend(enc_vec(&<Vec<i32> as IsNone>::from_opt(IsNone::to_opt(v.clone()))));
                    c.push(Cell::Int(IsNone::is_none(&<Vec<i32> as IsNone>::none()) as i128));
                    c.extend(enc_vec(&<Vec<i32> as IsNone>::from_opt(None)));
                    c
                },
            );
        }
    }

    cx.em.finish();
}
