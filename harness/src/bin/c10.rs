//! C10: run the drivers, every rolling entry point and the vrank / partition / quantile kernels on an
//! instrumented input view (logs every accessor call) and into an instrumented output container
//! (logs every write); compare the access trace with the model's and check it directly.
use tevec::prelude::*;
use vh::trace::*;
use vh::{Cell, Emitter, Rng, NULL_PATTERNS, null_mask, guarded, coq_nat};

fn enc_acc(a: &Acc) -> Option<Cell> {
    Some(Cell::Int(match a {
        Acc::Uget(v, i) => 1_000_000 * (1 + *v as i128) + *i as i128,
        Acc::Uslice(v, a, b) => 10_000_000 * (1 + *v as i128) + 1000 * *a as i128 + *b as i128,
        Acc::Slice(v, a, b) => 50_000_000 + 10_000_000 * (1 + *v as i128) + 1000 * *a as i128 + *b as i128,
        Acc::Uset(i) => -(*i as i128) - 1,
        Acc::Titer(_) => return None,
    }))
}

/// cells: len, len2, SEP, trace..., SEP, slot states (1 written, 0 never written) or a panic cell
fn assemble<T>(len: usize, len2: usize, res: Result<Option<TraceOut<T>>, u8>) -> Vec<Cell> {
    let mut c = vec![Cell::Int(len as i128), Cell::Int(len2 as i128), Cell::Sep];
    let log = take_log();
    match res {
        Err(k) => {
            c.push(Cell::Panic(k));
        }
        Ok(out) => {
            c.extend(log.iter().filter_map(enc_acc));
            c.push(Cell::Sep);
            if let Some(o) = out {
                c.push(Cell::Int(o.slots.len() as i128));
                for s in o.slots.iter() {
                    c.push(Cell::Int(if s.is_some() { 1 } else { 0 }))
                }
            }
        }
    }
    c
}

fn series(rng: &mut Rng, len: usize) -> Vec<f64> {
    let pat = *rng.pick(&NULL_PATTERNS);
    let m = null_mask(rng, pat, len);
    let style = rng.below(3);
    let mut cur = 0i64;
    (0..len).map(|i| if m[i] { vh::nan_at(i) } else {
        match style { 0 => rng.range(-3, 3) as f64, 1 => { cur += rng.range(0, 2); cur as f64 } _ => { cur -= rng.range(0, 2); cur as f64 } } }).collect()
}

/// run `$call` (an expression producing TraceOut) with a fresh log; `_to` variants get a TraceUninit
macro_rules! ret {
    ($len:expr, $len2:expr, $e:expr) => {{
        let _ = take_log();
        let r = guarded(std::panic::AssertUnwindSafe(|| -> Option<TraceOut<f64>> { Some($e) }));
        assemble($len, $len2, r)
    }};
}
macro_rules! to {
    ($len:expr, $len2:expr, |$b:ident| $e:expr) => {{
        let _ = take_log();
        let r = guarded(std::panic::AssertUnwindSafe(|| -> Option<TraceOut<f64>> {
            let mut u = TraceOut::<f64>::uninit($len);
            {
                let $b = Some(TraceOut::<f64>::uninit_ref_mut(&mut u));
                let _: Option<TraceOut<f64>> = $e;
            }
            Some(unsafe { u.assume_init() })
        }));
        assemble($len, $len2, r)
    }};
}

fn main() {
    let mut em = Emitter::new();
    let mut rng = Rng::new(em.args.seed);
    let maxlen = if em.thorough() { 12 } else { 7 };
    // ---------------- part A: the drivers themselves (callbacks read nothing) ------------------
    for len in 0..=maxlen {
        for w in 0..=len + 3 {
            let xs = series(&mut rng, len);
            let lens2: Vec<usize> = if len == 0 { vec![0, 1] } else { vec![len, len - 1, len + 1] };
            let wrel = if w == 0 { "zero" } else if w > len { "gt" } else if w == len { "eq" } else { "lt" };
            let tg = |k: &str, l2: usize| format!("part=driver kind={} len={} wrel={} len2={}{}", k, len, wrel,
                if l2 == len { "eq" } else if l2 < len { "shorter" } else { "longer" }, if len == 0 { " nt=0" } else { "" });
            let ds = |k: &str, l2: usize| format!("driver kind={} w={} len={} len2={} xs={:?}", k, w, len, l2, xs);
            let term = |kind: u32, l2: usize| format!("(run_trace {} {} {} {})", kind, coq_nat(w), coq_nat(len), coq_nat(l2));
            let tv = || TraceView::new(xs.clone(), 0, 0.0);
            // one-series drivers
            em.case("custom:trace", &tg("apply_to", len), &ds("apply_to", len), || term(0, len),
                || to!(len, len, |b| tv().rolling_apply::<TraceOut<f64>, _, _>(w, |_rm, v| v, b)));
            em.case("custom:trace", &tg("apply_ret", len), &ds("apply_ret", len), || term(9, len),
                || ret!(len, len, tv().rolling_apply::<TraceOut<f64>, _, _>(w, |_rm, v| v, None).unwrap()));
            em.case("custom:trace", &tg("idx_to", len), &ds("idx_to", len), || term(2, len),
                || to!(len, len, |b| tv().rolling_apply_idx::<TraceOut<f64>, _, _>(w, |_s, _e, v| v, b)));
            em.case("custom:trace", &tg("idx_ret", len), &ds("idx_ret", len), || term(9, len),
                || ret!(len, len, tv().rolling_apply_idx::<TraceOut<f64>, _, _>(w, |_s, _e, v| v, None).unwrap()));
            em.case("custom:trace", &tg("custom_to", len), &ds("custom_to", len), || term(4, len),
                || { let _ = take_log(); let r = guarded(std::panic::AssertUnwindSafe(|| -> Option<TraceOut<f64>> {
                        let mut u = TraceOut::<f64>::uninit(len);
                        tv().rolling_custom_to::<TraceOut<f64>, _, _>(w, |s: Vec<f64>| s.len() as f64, TraceOut::<f64>::uninit_ref_mut(&mut u));
                        Some(unsafe { u.assume_init() }) })); assemble(len, len, r) });
            em.case("custom:trace", &tg("custom_ret", len), &ds("custom_ret", len), || term(5, len),
                || ret!(len, len, tv().rolling_custom::<TraceOut<f64>, _, _>(w, |s: Vec<f64>| s.len() as f64, None).unwrap()));
            em.case("custom:trace", &tg("custom_write", len), &ds("custom_write", len), || term(6, len),
                || to!(len, len, |b| tv().rolling_custom::<TraceOut<f64>, _, _>(w, |s: Vec<f64>| s.len() as f64, b)));
            // Vec input (fast paths allocate the output themselves): only the writes are visible
            em.case("custom:writes", &tg("vec_apply_ret", len), &ds("vec_apply_ret", len), || term(0, len),
                || ret!(len, len, xs.rolling_apply::<TraceOut<f64>, _, _>(w, |_rm, v| v, None).unwrap()));
            em.case("custom:writes", &tg("vec_idx_ret", len), &ds("vec_idx_ret", len), || term(2, len),
                || ret!(len, len, xs.rolling_apply_idx::<TraceOut<f64>, _, _>(w, |_s, _e, v| v, None).unwrap()));
            em.case("custom:writes", &tg("vec_custom_ret", len), &ds("vec_custom_ret", len), || term(4, len),
                || ret!(len, len, xs.rolling_custom::<TraceOut<f64>, _, _>(w, |s: &[f64]| s.len() as f64, None).unwrap()));
            // two-series drivers, second series of equal / shorter / longer length
            for &l2 in lens2.iter() {
                let ys = series(&mut rng, l2);
                let tv2 = || TraceView::new(ys.clone(), 1, 0.0);
                em.case("custom:trace", &tg("apply2_to", l2), &ds("apply2_to", l2), || term(1, l2),
                    || to!(len, l2, |b| tv().rolling2_apply::<TraceOut<f64>, _, _, _, _>(&tv2(), w, |_rm, v: (f64, f64)| v.0, b)));
                em.case("custom:trace", &tg("idx2_to", l2), &ds("idx2_to", l2), || term(3, l2),
                    || to!(len, l2, |b| tv().rolling2_apply_idx::<TraceOut<f64>, _, _, _, _>(&tv2(), w, |_s, _e, v: (f64, f64)| v.0, b)));
                em.case("custom:trace", &tg("custom2_ret", l2), &ds("custom2_ret", l2), || term(7, l2),
                    || ret!(len, l2, tv().rolling2_custom::<TraceOut<f64>, _, _, _, _>(&tv2(), w, |a: Vec<f64>, _b: Vec<f64>| a.len() as f64, None).unwrap()));
                em.case("custom:trace", &tg("custom2_write", l2), &ds("custom2_write", l2), || term(8, l2),
                    || to!(len, l2, |b| tv().rolling2_custom::<TraceOut<f64>, _, _, _, _>(&tv2(), w, |a: Vec<f64>, _b: Vec<f64>| a.len() as f64, b)));
                if l2 >= len {
                    // iterator bodies zip: defined (possibly shorter) result, no unchecked access
                    em.case("custom:trace", &tg("apply2_ret", l2), &ds("apply2_ret", l2), || term(9, l2),
                        || ret!(len, l2, tv().rolling2_apply::<TraceOut<f64>, _, _, _, _>(&tv2(), w, |_rm, v: (f64, f64)| v.0, None).unwrap()));
                    em.case("custom:trace", &tg("idx2_ret", l2), &ds("idx2_ret", l2), || term(9, l2),
                        || ret!(len, l2, tv().rolling2_apply_idx::<TraceOut<f64>, _, _, _, _>(&tv2(), w, |_s, _e, v: (f64, f64)| v.0, None).unwrap()));
                } else {
                    em.case("custom:direct", &tg("apply2_ret_short", l2), &ds("apply2_ret_short", l2), || "(@nil Z)".to_string(),
                        || ret!(l2, l2, tv().rolling2_apply::<TraceOut<f64>, _, _, _, _>(&tv2(), w.max(1), |_rm, v: (f64, f64)| v.0, None).unwrap()));
                }
            }
        }
    }
    // ---------------- part B: every rolling entry point and kernel, monitored directly ----------
    macro_rules! one_series_fns {
        ($m:ident) => {
            $m!(ts_vsum, ts_vsum_to); $m!(ts_vmean, ts_vmean_to); $m!(ts_vewm, ts_vewm_to); $m!(ts_vwma, ts_vwma_to);
            $m!(ts_vstd, ts_vstd_to); $m!(ts_vvar, ts_vvar_to); $m!(ts_vskew, ts_vskew_to); $m!(ts_vkurt, ts_vkurt_to);
            $m!(ts_vmin, ts_vmin_to); $m!(ts_vmax, ts_vmax_to); $m!(ts_vargmin, ts_vargmin_to); $m!(ts_vargmax, ts_vargmax_to);
            $m!(ts_vzscore, ts_vzscore_to); $m!(ts_vminmaxnorm, ts_vminmaxnorm_to);
            $m!(ts_vreg, ts_vreg_to); $m!(ts_vtsf, ts_vtsf_to); $m!(ts_vreg_slope, ts_vreg_slope_to);
            $m!(ts_vreg_intercept, ts_vreg_intercept_to); $m!(ts_vreg_resid_mean, ts_vreg_resid_mean_to);
        };
    }
    macro_rules! two_series_fns {
        ($m:ident) => {
            $m!(ts_vcov, ts_vcov_to); $m!(ts_vcorr, ts_vcorr_to); $m!(ts_vregx_alpha, ts_vregx_alpha_to);
            $m!(ts_vregx_beta, ts_vregx_beta_to); $m!(ts_vregx_resid_mean, ts_vregx_resid_mean_to);
            $m!(ts_vregx_resid_std, ts_vregx_resid_std_to); $m!(ts_vregx_resid_skew, ts_vregx_resid_skew_to);
        };
    }
    let nser = if em.thorough() { 60 } else { 12 };
    for si in 0..nser {
        let len = if si < 3 { si } else { rng.range(1, maxlen as i64 + 2) as usize };
        let xs = series(&mut rng, len);
        let ys = series(&mut rng, len);
        for w in 0..=len + 2 {
            if w > 3 && w < len && rng.chance(1, 2) { continue; }
            let mps: Vec<Option<usize>> = vec![None, Some(0), Some(rng.range(0, w as i64) as usize)];
            for mp in mps {
                let wrel = if w == 0 { "zero" } else if w > len { "gt" } else if w == len { "eq" } else { "lt" };
                let tv = || TraceView::new(xs.clone(), 0, 0.0);
                let tv2 = || TraceView::new(ys.clone(), 1, 0.0);
                macro_rules! one {
                    ($f:ident, $fto:ident) => {
                        let name = stringify!($f);
                        em.case("custom:direct", &format!("part=kernel fn={} path=ret len={} wrel={}{}", name, len, wrel, if len == 0 { " nt=0" } else { "" }),
                            &format!("fn={} path=ret w={} mp={:?} xs={:?}", name, w, mp, xs), || "(@nil Z)".to_string(),
                            || ret!(len, len, tv().$f::<TraceOut<f64>, f64>(w, mp)));
                        em.case("custom:direct", &format!("part=kernel fn={} path=to len={} wrel={}{}", name, len, wrel, if len == 0 { " nt=0" } else { "" }),
                            &format!("fn={} path=to w={} mp={:?} xs={:?}", name, w, mp, xs), || "(@nil Z)".to_string(),
                            || to!(len, len, |b| tv().$fto::<TraceOut<f64>, f64>(w, mp, b)));
                        em.case("custom:direct", &format!("part=kernel fn={} path=vec len={} wrel={}{}", name, len, wrel, if len == 0 { " nt=0" } else { "" }),
                            &format!("fn={} path=vec w={} mp={:?} xs={:?}", name, w, mp, xs), || "(@nil Z)".to_string(),
                            || ret!(len, len, xs.$f::<TraceOut<f64>, f64>(w, mp)));
                    };
                }
                one_series_fns!(one);
                macro_rules! two {
                    ($f:ident, $fto:ident) => {
                        let name = stringify!($f);
                        em.case("custom:direct", &format!("part=kernel fn={} path=ret len={} wrel={}{}", name, len, wrel, if len == 0 { " nt=0" } else { "" }),
                            &format!("fn={} path=ret w={} mp={:?} xs={:?} ys={:?}", name, w, mp, xs, ys), || "(@nil Z)".to_string(),
                            || ret!(len, len, tv().$f::<TraceOut<f64>, f64, _, _>(&tv2(), w, mp)));
                        em.case("custom:direct", &format!("part=kernel fn={} path=to len={} wrel={}{}", name, len, wrel, if len == 0 { " nt=0" } else { "" }),
                            &format!("fn={} path=to w={} mp={:?} xs={:?} ys={:?}", name, w, mp, xs, ys), || "(@nil Z)".to_string(),
                            || to!(len, len, |b| tv().$fto::<TraceOut<f64>, f64, _, _>(&tv2(), w, mp, b)));
                        em.case("custom:direct", &format!("part=kernel fn={} path=vec len={} wrel={}{}", name, len, wrel, if len == 0 { " nt=0" } else { "" }),
                            &format!("fn={} path=vec w={} mp={:?} xs={:?} ys={:?}", name, w, mp, xs, ys), || "(@nil Z)".to_string(),
                            || ret!(len, len, xs.$f::<TraceOut<f64>, f64, _, _>(&ys, w, mp)));
                    };
                }
                two_series_fns!(two);
                // ts_vrank has two extra flags
                for (pct, rev) in [(false, false), (true, true)] {
                    em.case("custom:direct", &format!("part=kernel fn=ts_vrank path=ret len={} wrel={}{}", len, wrel, if len == 0 { " nt=0" } else { "" }),
                        &format!("fn=ts_vrank path=ret w={} mp={:?} pct={} rev={} xs={:?}", w, mp, pct, rev, xs), || "(@nil Z)".to_string(),
                        || ret!(len, len, tv().ts_vrank::<TraceOut<f64>, f64>(w, mp, pct, rev)));
                    em.case("custom:direct", &format!("part=kernel fn=ts_vrank path=to len={} wrel={}{}", len, wrel, if len == 0 { " nt=0" } else { "" }),
                        &format!("fn=ts_vrank path=to w={} mp={:?} pct={} rev={} xs={:?}", w, mp, pct, rev, xs), || "(@nil Z)".to_string(),
                        || to!(len, len, |b| tv().ts_vrank_to::<TraceOut<f64>, f64>(w, mp, pct, rev, b)));
                }
            }
        }
        // vrank / partition / quantile kernels on the instrumented view
        for (pct, rev) in [(false, false), (false, true), (true, false), (true, true)] {
            em.case("custom:direct", &format!("part=kernel fn=vrank len={}{}", len, if len == 0 { " nt=0" } else { "" }),
                &format!("fn=vrank pct={} rev={} xs={:?}", pct, rev, xs), || "(@nil Z)".to_string(),
                || ret!(len, len, TraceView::new(xs.clone(), 0, 0.0).vrank::<TraceOut<f64>, f64>(pct, rev)));
        }
        for k in 0..=len + 1 {
            for (sort, rev) in [(false, false), (true, false), (true, true)] {
                em.case("custom:direct", &format!("part=kernel fn=vpartition len={}{}", len, if len == 0 { " nt=0" } else { "" }),
                    &format!("fn=vpartition k={} sort={} rev={} xs={:?}", k, sort, rev, xs), || "(@nil Z)".to_string(),
                    || { let _ = take_log(); let r = guarded(std::panic::AssertUnwindSafe(|| -> Option<TraceOut<f64>> {
                            let v = TraceView::new(xs.clone(), 0, 0.0);
                            let mut n = 0usize; for _ in v.vpartition(k, sort, rev) { n += 1 }
                            let mut m = 0usize; for _ in v.varg_partition(k, sort, rev) { m += 1 }
                            let _ = (n, m); None })); assemble::<f64>(len, len, r) });
            }
        }
        for q in [0.0, 0.3, 0.5, 0.9, 1.0] {
            em.case("custom:direct", &format!("part=kernel fn=vquantile len={}{}", len, if len == 0 { " nt=0" } else { "" }),
                &format!("fn=vquantile q={} xs={:?}", q, xs), || "(@nil Z)".to_string(),
                || { let _ = take_log(); let r = guarded(std::panic::AssertUnwindSafe(|| -> Option<TraceOut<f64>> {
                        let v = TraceView::new(xs.clone(), 0, 0.0);
                        let _ = v.vquantile(q, QuantileMethod::Linear); let _ = v.vmedian(); None })); assemble::<f64>(len, len, r) });
        }
    }
    em.finish();
}
